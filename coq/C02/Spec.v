(* C02 — the executable reference, written from the property text and the XML /
   Namespaces / XSD / SOAP rules (not from the code): the namespace infoset of a
   document, the value a schema-valid reply encodes (ref_reply), the classes of
   documents on which the unchanged code is known to depart from it (flags), and
   the boolean predicates the harness evaluates on every case.
   Definitions only. *)
From SV Require Import Lib.Base Fam.Schema Gen.C02Tables C02.Model.
(* the XSD lexical spaces and value maps of C06 (read-only), for comparing leaves by value *)
From SV Require C06.Decimal C06.Floats C06.DateTime.

(* ------------------------------------------------------------------ *)
(* the namespace infoset                                               *)
(* ------------------------------------------------------------------ *)
Inductive ival := IText (s : str) | IQName (u : option str) (local : str).
Definition iattr := (option str * str * ival)%type.           (* namespace, local name, value *)
Inductive inode :=
| IN (u : option str) (nm : str) (attrs : list iattr) (text : str) (kids : list inode).

Definition i_u (x : inode) := match x with IN u _ _ _ _ => u end.
Definition i_nm (x : inode) := match x with IN _ n _ _ _ => n end.
Definition i_attrs (x : inode) := match x with IN _ _ a _ _ => a end.
Definition i_text (x : inode) := match x with IN _ _ _ t _ => t end.
Definition i_kids (x : inode) := match x with IN _ _ _ _ k => k end.

Definition ostr_eqb (a b : option str) : bool := opt_eqb str_eqb a b.

Definition ival_eqb (a b : ival) : bool :=
  match a, b with
  | IText x, IText y => str_eqb x y
  | IQName u x, IQName v y => ostr_eqb u v && str_eqb x y
  | _, _ => false
  end.
Definition iattr_eqb (a b : iattr) : bool :=
  ostr_eqb (fst (fst a)) (fst (fst b)) && str_eqb (snd (fst a)) (snd (fst b)) && ival_eqb (snd a) (snd b).
(* attributes are a set *)
Definition iattrs_eqb (a b : list iattr) : bool :=
  Nat.eqb (length a) (length b) &&
  forallb (fun x => existsb (iattr_eqb x) b) a && forallb (fun x => existsb (iattr_eqb x) a) b.

Fixpoint inode_eqb (a b : inode) {struct a} : bool :=
  match a, b with
  | IN u1 n1 a1 t1 k1, IN u2 n2 a2 t2 k2 =>
      ostr_eqb u1 u2 && str_eqb n1 n2 && iattrs_eqb a1 a2 && str_eqb t1 t2 &&
      (fix go (l1 l2 : list inode) : bool :=
         match l1, l2 with
         | [], [] => true
         | x :: l1', y :: l2' => inode_eqb x y && go l1' l2'
         | _, _ => false
         end) k1 k2
  end.

Definition is_xmlspace (c : N) : bool := ((c =? 32) || (c =? 9) || (c =? 10) || (c =? 13))%N.
Definition all_space (s : str) : bool := forallb is_xmlspace s.

(* Namespaces in XML applied to a parsed element tree: names of elements and
   attributes resolved through the declarations in scope; an unprefixed
   attribute is in no namespace; the value of xsi:type is a QName, an unprefixed
   QName takes the default namespace.  None = a prefix is not bound.
   Whitespace-only character data of an element that has element children is
   not part of the infoset compared here. *)
Definition erase_attr (env : list frame) (a : attr) : option iattr :=
  match fst (fst a) with
  | None => Some (None, snd (fst a), IText (snd a))
  | Some q =>
      match resolve_prefix q env with
      | None => None
      | Some u =>
          if str_eqb u uri_xsi && str_eqb (snd (fst a)) s_type then
            match split_colon (snd a) with
            | (Some tq, tl) => match resolve_prefix tq env with
                               | Some tu => Some (Some u, snd (fst a), IQName (Some tu) tl)
                               | None => None
                               end
            | (None, tl) => Some (Some u, snd (fst a), IQName (default_ns env) tl)
            end
          else Some (Some u, snd (fst a), IText (snd a))
      end
  end.

Fixpoint omap {A B} (f : A -> option B) (l : list A) : option (list B) :=
  match l with
  | [] => Some []
  | x :: r => match f x, omap f r with
              | Some y, Some ys => Some (y :: ys)
              | _, _ => None
              end
  end.

Fixpoint erase (env : list frame) (e : elem) {struct e} : option inode :=
  match e with
  | EL p nm x d ats txt ks =>
      let env' := (x, d) :: env in
      match (match p with Some q => match resolve_prefix q env' with Some u => Some (Some u) | None => None end
                        | None => Some (default_ns env') end),
            omap (erase_attr env') ats,
            (fix go (l : list elem) : option (list inode) :=
               match l with
               | [] => Some []
               | k :: r => match erase env' k, go r with
                           | Some y, Some ys => Some (y :: ys)
                           | _, _ => None
                           end
               end) ks with
      | Some u, Some ias, Some iks =>
          let t := match txt with Some t => t | None => [] end in
          Some (IN u nm ias (match iks with [] => t | _ => if all_space t then [] else t end) iks)
      | _, _, _ => None
      end
  end.

Definition erase_doc (doc : ritem) : option inode :=
  match build doc with
  | [root] => erase [] root
  | _ => None
  end.

(* does the raw document use xmlns="" (undeclaring the default namespace) ? the
   Handler ignores it, so `erase (build doc)` is not the infoset of such a document *)
Fixpoint has_empty_xmlns (it : ritem) : bool :=
  match it with
  | RChars _ => false
  | RElem _ ats content =>
      existsb (fun a => str_eqb (fst a) s_xmlns && match snd a with [] => true | _ => false end) ats
      || (fix go (l : list ritem) : bool :=
            match l with [] => false | x :: r => has_empty_xmlns x || go r end) content
  end.

(* ------------------------------------------------------------------ *)
(* Python values compared as data (member order is not data)           *)
(* ------------------------------------------------------------------ *)
(* two leaves of one Python type denote the same value.  A leaf carries the
   lexical text of the document (reference, model) or the canonical rendering
   of the returned Python value (implementation); booleans, integers and
   decimals are compared through the XSD value maps of C06 ("1" = "true",
   "+5" = "05" = "5", "01.50" = "1.5"), times and dateTimes through the C06 model
   of the XSD time lexical space (same local fields, same zone offset),
   everything else as text. *)
Definition dec_same (a b : str) : bool :=
  C06.Decimal.lex_decimal a && C06.Decimal.lex_decimal b &&
  let '(m, k) := C06.Decimal.dec_value a in
  let '(m', k') := C06.Decimal.dec_value b in
  (m * C06.Decimal.pow10 k' =? m' * C06.Decimal.pow10 k)%Z.

Definition leaf_same (tag : N) (a b : str) : bool :=
  str_eqb a b ||
  if N.eqb tag tag_bool then
    match C06.Floats.lex_boolean_value a, C06.Floats.lex_boolean_value b with
    | Some x, Some y => Bool.eqb x y
    | _, _ => false
    end
  else if N.eqb tag tag_int then
    C06.Floats.lex_integer a && C06.Floats.lex_integer b && dec_same a b
  else if N.eqb tag tag_decimal then dec_same a b
  else if N.eqb tag tag_time then
    (* the same local time AND the same offset from UTC ("Z" = "+00:00"), fractions to the microsecond *)
    match C06.DateTime.parse_time a, C06.DateTime.parse_time b with
    | C06.DateTime.Ok (t, z), C06.DateTime.Ok (t', z') =>
        C06.DateTime.tod_eqb t t' && C06.DateTime.tzr_eqb z z'
    | _, _ => false
    end
  else if N.eqb tag tag_datetime then
    match C06.DateTime.parse_datetime a, C06.DateTime.parse_datetime b with
    | C06.DateTime.Ok (c, t, z), C06.DateTime.Ok (c', t', z') =>
        C06.DateTime.civil_eqb c c' && C06.DateTime.tod_eqb t t' && C06.DateTime.tzr_eqb z z'
    | _, _ => false
    end
  else false.

Fixpoint pyval_eqb (a b : pyval) {struct a} : bool :=
  match a, b with
  | PNone, PNone => true
  | PLeaf t s, PLeaf t' s' => N.eqb t t' && leaf_same t s s'
  | PList l, PList l' =>
      (fix go (l1 l2 : list pyval) : bool :=
         match l1, l2 with
         | [], [] => true
         | x :: r1, y :: r2 => pyval_eqb x y && go r1 r2
         | _, _ => false
         end) l l'
  | PObj ty f, PObj ty' f' =>
      opt_eqb qn_eqb ty ty' && Nat.eqb (length f) (length f') &&
      (fix go (l1 : list (str * pyval)) : bool :=
         match l1 with
         | [] => true
         | (k, v) :: r => match sfind k f' with
                          | Some v' => pyval_eqb v v'
                          | None => false
                          end && go r
         end) f
  | PProp n f, PProp n' f' =>
      str_eqb n n' && Nat.eqb (length f) (length f') &&
      (fix go (l1 : list (str * pyval)) : bool :=
         match l1 with
         | [] => true
         | (k, v) :: r => match sfind k f' with
                          | Some v' => pyval_eqb v v'
                          | None => false
                          end && go r
         end) f
  | PRaw, PRaw => true
  | _, _ => false
  end.

Definition dres_eqb (a b : dres pyval) : bool :=
  match a, b with
  | DOk x, DOk y => pyval_eqb x y
  | DTypeNotFound, DTypeNotFound => true
  | DException, DException => true
  | DOther, DOther => true
  | _, _ => false
  end.

(* ------------------------------------------------------------------ *)
(* the value a schema-valid reply encodes                              *)
(* ------------------------------------------------------------------ *)
(* Python type of a leaf per its XSD type, as the statement lists them *)
Definition spec_tag (k : N) : N :=
  if N.eqb k b_boolean then tag_bool
  else if N.eqb k b_decimal then tag_decimal
  else if N.eqb k b_float || N.eqb k b_double then tag_float
  else if N.eqb k b_date then tag_date
  else if N.eqb k b_time then tag_time
  else if N.eqb k b_dateTime then tag_datetime
  else if ((b_integer <=? k) && (k <=? b_positiveInteger))%N then tag_int
  else tag_str.

Definition uri_xsd : str :=
  [104;116;116;112;58;47;47;119;119;119;46;119;51;46;111;114;103;47;50;48;48;49;47;88;77;76;83;99;104;101;109;97]%N.

Definition is_xsi (a : iattr) : bool := uri_is (fst (fst a)) uri_xsi.

(* attributes that are not data of the element: those of the XMLSchema-instance
   namespace, of the SOAP 1.1 / 1.2 envelope namespaces (env:encodingStyle may
   appear on any element of a message) and of the xml namespace (xml:lang) *)
Definition meta_uris : list str := [uri_xsi; uri_env11; uri_env12; uri_xml].
Definition is_meta (a : iattr) : bool :=
  match fst (fst a) with
  | Some u => existsb (str_eqb u) meta_uris
  | None => false
  end.

(* the xsi:<local> attribute of an element (at most one in a well-formed document) *)
Fixpoint ifind_xsi (local : str) (ats : list iattr) : option ival :=
  match ats with
  | [] => None
  | a :: r => if is_xsi a && str_eqb (snd (fst a)) local then Some (snd a) else ifind_xsi local r
  end.

(* xsi:nil is an xsd:boolean: "true" or "1" *)
Definition spec_nil (ats : list iattr) : bool :=
  match ifind_xsi s_nil ats with
  | Some (IText v) => str_eqb v s_true || str_eqb v s_one
  | _ => false
  end.

Definition ctype_eqb (a b : ctype) : bool := qn_eqb (c_ns a, c_name a) (c_ns b, c_name b).

Section Ref.
Variable S : schema.
Variable names : list (str * N).
Variable uris : list (str * N).
Variable kinds : list (N * N).
Variable simple : list (qn * N).       (* complex types with simple content: the built-in they extend *)

Definition simple_kind (ct : ctype) : option N :=
  match find (fun p => qn_eqb (fst p) (c_ns ct, c_name ct)) simple with
  | Some p => Some (snd p)
  | None => None
  end.

(* a is b or derives from it by extension *)
Definition derives (a b : ctype) : bool := existsb (ctype_eqb b) (chain_of S a).

(* built-in k may stand where built-in k0 is declared: the same type, anything
   under xsd:anyType / xsd:anySimpleType, an integer type under xsd:decimal,
   xsd:int under xsd:long *)
Definition builtin_sub (k : N) (dt : rtype) : bool :=
  match dt with
  | RB k0 =>
      N.eqb k k0 || N.eqb k0 b_anyType || N.eqb k0 b_anySimpleType ||
      (N.eqb k0 b_decimal && (b_integer <=? k)%N && (k <=? b_positiveInteger)%N) ||
      (N.eqb k0 b_long && N.eqb k b_int)
  | RC _ => false
  end.

(* the type an element actually has: its declared type, or the one xsi:type
   names, which must be (derived from) the declared one.  None = not valid *)
Definition actual_type (dt : rtype) (ats : list iattr) : option rtype :=
  match ifind_xsi s_type ats with
  | None => Some dt
  | Some (IText _) => None
  | Some (IQName tu tl) =>
      if uri_is tu uri_xsd then
        match sfind tl builtin_names with
        | Some k => if builtin_sub k dt then Some (RB k) else None
        | None => None
        end
      else
        match find_type S (uid uris tu, nid names tl) with
        | Some ct =>
            if match dt with RC dct => derives ct dct | RB k0 => N.eqb k0 b_anyType end
            then Some (RC ct) else None
        | None => None
        end
  end.

(* the declaration an element information item matches: name AND namespace
   (qualified form: the declaration's namespace, otherwise no namespace) *)
Definition decl_matches (d : edecl) (u : option str) (nm : str) : bool :=
  N.eqb (e_name d) (nid names nm) && negb (N.eqb (nid names nm) 0) &&
  (if e_qual d then N.eqb (uid uris u) (e_ns d) && match u with Some _ => true | None => false end
   else match u with None => true | Some _ => false end).

Fixpoint find_decl (u : option str) (nm : str) (l : list fchild) : option edecl :=
  match l with
  | [] => None
  | FE d _ _ :: r => if decl_matches d u nm then Some d else find_decl u nm r
  | FAny _ :: r => find_decl u nm r
  end.

(* one more occurrence of member `key` *)
Definition spec_store (key : str) (multi : bool) (v : pyval) (acc : list (str * pyval))
  : option (list (str * pyval)) :=
  match sfind key acc with
  | None => Some (sset key (if multi then PList [v] else v) acc)
  | Some (PList l) => if multi then Some (sset key (PList (l ++ [v])) acc) else None
  | Some _ => None
  end.

(* XML attributes under underscore names, typed by their declaration *)
Fixpoint spec_attrs (ct : ctype) (ats : list iattr) (acc : list (str * pyval)) : option (list (str * pyval)) :=
  match ats with
  | [] => Some acc
  | a :: r =>
      if is_meta a then spec_attrs ct r acc
      else match fst (fst a), snd a with
           | None, IText v =>
               match get_attribute (nid names (snd (fst a))) (flat_attrs S ct) with
               | Some ad =>
                   if N.eqb (nid names (snd (fst a))) 0 then None else
                   spec_attrs ct r (sset (ch_us :: snd (fst a))
                                         (PLeaf (spec_tag (kind_of kinds (a_name ad))) v) acc)
               | None => None
               end
           | _, _ => None
           end
  end.

Fixpoint ref_node (dt : rtype) (nillable : bool) (x : inode) {struct x} : option pyval :=
  match x with
  | IN u nm ats text kids =>
      if spec_nil ats then
        (* xsi:nil as None *)
        if nillable && match kids with [] => true | _ => false end && match text with [] => true | _ => false end
           && forallb is_meta ats
        then match actual_type dt ats with Some _ => Some PNone | None => None end
        else None
      else
        match actual_type dt ats with
        | None => None
        | Some (RB k) =>
            (* a leaf, typed per its XSD type *)
            match kids with
            | [] => if forallb is_meta ats then Some (PLeaf (spec_tag k) text) else None
            | _ => None
            end
        | Some (RC ct) =>
            match simple_kind ct with
            | Some k =>
                (* simple content: the plain typed value, or with attributes a property
                   object holding it as `value` beside the `_attr` members *)
                match kids with
                | [] => match spec_attrs ct ats [] with
                        | None => None
                        | Some [] => Some (PLeaf (spec_tag k) text)
                        | Some fields => Some (PProp nm ((s_value, PLeaf (spec_tag k) text) :: fields))
                        end
                | _ => None
                end
            | None =>
            if negb (all_space text) then None else
            match spec_attrs ct ats [] with
            | None => None
            | Some acc0 =>
                match
                  (fix go (l : list inode) (acc : list (str * pyval)) : option (list (str * pyval)) :=
                     match l with
                     | [] => Some acc
                     | k :: r =>
                         match find_decl (i_u k) (i_nm k) (flat_elems S ct) with
                         | None => None
                         | Some d =>
                             match resolve_tref S kinds (e_name d) (e_type d) with
                             | None => None
                             | Some kt =>
                                 match ref_node kt (e_nil d) k with
                                 | None => None
                                 | Some v => match spec_store (i_nm k) (e_multi d) v acc with
                                             | Some acc' => go r acc'
                                             | None => None
                                             end
                                 end
                             end
                         end
                     end) kids acc0 with
                | Some fields => Some (PObj (Some (c_ns ct, c_name ct)) fields)
                | None => None
                end
            end
            end
        end
  end.

(* a top-level node against one member of the wrapper *)
Definition ref_top (d : edecl) (n : inode) : option pyval :=
  if decl_matches d (i_u n) (i_nm n) then
    match resolve_tref S kinds (e_name d) (e_type d) with
    | Some t => ref_node t (e_nil d) n
    | None => None
    end
  else None.

Fixpoint members (l : list fchild) : option (list edecl) :=
  match l with
  | [] => Some []
  | FE d _ _ :: r => match members r with Some ds => Some (d :: ds) | None => None end
  | FAny _ :: _ => None
  end.

Fixpoint ref_composite (ms : list edecl) (nodes : list inode) (acc : list (str * pyval))
  : option (list (str * pyval)) :=
  match nodes with
  | [] => Some acc
  | n :: r =>
      match find (fun d => decl_matches d (i_u n) (i_nm n)) ms with
      | None => None
      | Some d =>
          match ref_top d n with
          | None => None
          | Some v => match spec_store (i_nm n) (e_multi d) v acc with
                      | Some acc' => ref_composite ms r acc'
                      | None => None
                      end
          end
      end
  end.

(* the value of the outputs ms of an operation found as the element children
   `nodes`: none -> None, one -> its value (a list when it repeats, None when
   absent), several -> a composite object.  hasattrs: the response wrapper's type
   declares attributes; they are data too and count as outputs, so such a wrapper
   always yields the composite object (of its element members). *)
Definition ref_outputs (ms : list edecl) (hasattrs : bool) (nodes : list inode) : option pyval :=
  match hasattrs, ms with
  | false, [] => Some PNone
  | false, [d] =>
      if e_multi d then
        match omap (ref_top d) nodes with Some l => Some (PList l) | None => None end
      else match nodes with
           | [] => Some PNone
           | [n] => ref_top d n
           | _ => None
           end
  | true, [] => None
  | _, _ =>
      match ref_composite ms nodes [] with
      | Some fields => Some (PObj None fields)
      | None => None
      end
  end.

(* SOAP 1.1 / 1.2: Envelope, optional Header, Body (same namespace).
   document/literal wrapped: the Body holds the wrapper element named by the
     output message part; the outputs are the members of the wrapper's type;
   document/literal bare: the Body holds the global elements the output message
     parts name (one part: a single value; several: the composite object);
   rpc/literal: the Body holds the response wrapper (wq: the operation name +
     "Response" in the namespace of soap:body), whose children are the part
     accessors: unqualified elements named like the message parts. *)
Definition ref_reply (wq : qn) (st : style) (x : inode) : option pyval :=
  match x with
  | IN u nm _ _ kids =>
      if negb (str_eqb nm s_Envelope && (uri_is u uri_env11 || uri_is u uri_env12)) then None else
      match find (fun k => str_eqb (i_nm k) s_Body && ostr_eqb (i_u k) u) kids with
      | Some body =>
          match st with
          | SBare parts =>
              if negb (all_space (i_text body)) then None else ref_outputs parts false (i_kids body)
          | SWrapped wt =>
              match i_kids body with
              | w :: _ =>
                  if negb (qn_eqb (uid uris (i_u w), nid names (i_nm w)) wq) then None else
                  if negb (all_space (i_text w)) then None else
                  match members (flat_elems S wt) with
                  | None => None
                  | Some ms => ref_outputs ms (match flat_attrs S wt with [] => false | _ => true end) (i_kids w)
                  end
              | [] => None
              end
          | SRpc parts =>
              match i_kids body with
              | w :: _ =>
                  if negb (qn_eqb (uid uris (i_u w), nid names (i_nm w)) wq) then None else
                  if negb (all_space (i_text w)) then None else ref_outputs parts false (i_kids w)
              | [] => None
              end
          end
      | None => None
      end
  end.

(* ------------------------------------------------------------------ *)
(* document classes on which the unchanged code departs from the above *)
(* ------------------------------------------------------------------ *)
(* 1 = a nil occurrence comes first in a repeating member of an object
   2 = whitespace-only character data in a childless element of complex type
   5 = an entirely empty element of complex type        [C02:empty-complex-element-as-empty-string]
   6 = an empty element of a built-in type without xsi:nil [C02:empty-nillable-leaf-as-none]
   9 = an element whose type has simple content extending a built-in that is not
       decoded as str                                     [C02:simple-content-value-untyped] *)
Definition no_real_attrs (ats : list iattr) : bool := forallb is_meta ats.

Fixpoint seen_key (key : str) (l : list inode) : bool :=
  match l with [] => false | k :: r => str_eqb (i_nm k) key || seen_key key r end.

Fixpoint flags_node (dt : rtype) (nillable : bool) (x : inode) {struct x} : list N :=
  match x with
  | IN u nm ats text kids =>
      if spec_nil ats then [] else
      match actual_type dt ats with
      | None => []
      | Some (RB k) =>
          match text with [] => [6%N] | _ => [] end
      | Some (RC ct) =>
          match simple_kind ct with
          | Some k => (if N.eqb (spec_tag k) tag_str then [] else [9%N]) ++ match text with [] => [6%N] | _ => [] end
          | None =>
          match kids with
          | [] => match text with
                  | [] => if no_real_attrs ats then [5%N] else []
                  | _ => if all_space text then [2%N] else []
                  end
          | _ =>
              (fix go (before l : list inode) : list N :=
                 match l with
                 | [] => []
                 | k :: r =>
                     match find_decl (i_u k) (i_nm k) (flat_elems S ct) with
                     | None => go (before ++ [k]) r
                     | Some d =>
                         (if e_multi d && negb (seen_key (i_nm k) before) && spec_nil (i_attrs k)
                          then [1%N] else []) ++
                         match resolve_tref S kinds (e_name d) (e_type d) with
                         | Some kt => flags_node kt (e_nil d) k
                         | None => []
                         end ++ go (before ++ [k]) r
                     end
                 end) [] kids
          end
          end
      end
  end.

Definition flags_outputs (ms : list edecl) (nodes : list inode) : list N :=
  flat_map (fun n =>
              match find (fun d => decl_matches d (i_u n) (i_nm n)) ms with
              | Some d =>
                  match resolve_tref S kinds (e_name d) (e_type d) with
                  | Some t => flags_node t (e_nil d) n
                  | None => []
                  end
              | None => []
              end) nodes.

Definition flags_reply (st : style) (x : inode) : list N :=
  match x with
  | IN u nm _ _ kids =>
      match find (fun k => str_eqb (i_nm k) s_Body && ostr_eqb (i_u k) u) kids with
      | Some body =>
          match st with
          | SBare parts => flags_outputs parts (i_kids body)
          | SWrapped wt =>
              match i_kids body, members (flat_elems S wt) with
              | w :: _, Some ms => flags_outputs ms (i_kids w)
              | _, _ => []
              end
          | SRpc parts =>
              match i_kids body with
              | w :: _ => flags_outputs parts (i_kids w)
              | [] => []
              end
          end
      | None => []
      end
  end.

End Ref.

(* ------------------------------------------------------------------ *)
(* the cases the harness writes and the predicates it evaluates        *)
(* ------------------------------------------------------------------ *)
Inductive cstyle := CWrapped (wt : qn) | CBare (parts : list edecl) | CRpc (parts : list edecl).

Record case := mkCase {
  c_schema : schema;
  c_names : list (str * N);
  c_uris : list (str * N);
  c_kinds : list (N * N);
  c_globals : list (qn * qn);
  c_simple : list (qn * N);       (* simple-content types and the built-in they extend *)
  c_wq : qn;                      (* the response wrapper element (wrapped, rpc) *)
  c_style : cstyle;               (* binding style of the output and what it is made of *)
  c_raw : ritem;                  (* the reply as the non-namespace parser delivers it *)
  c_info : inode;                 (* the namespace infoset expat (namespace mode) computed *)
  c_expect : pyval;               (* the value the writer serialised *)
  c_impl : dres pyval             (* what the invocation returned *)
}.

Definition case_style (c : case) : option style :=
  match c_style c with
  | CWrapped q => match find_type (c_schema c) q with Some wt => Some (SWrapped wt) | None => None end
  | CBare ps => Some (SBare ps)
  | CRpc ps => Some (SRpc ps)
  end.

Definition model_reply_with (sq pr n1 : bool) (c : case) : dres pyval :=
  match case_style c with
  | Some st => reply (c_schema c) (c_names c) (c_uris c) (c_kinds c) (c_globals c) sq pr n1 st (c_raw c)
  | None => DOther
  end.
Definition model_reply (c : case) : dres pyval := model_reply_with false true true c.

Definition spec_reply (c : case) : option pyval :=
  match case_style c with
  | Some st => ref_reply (c_schema c) (c_names c) (c_uris c) (c_kinds c) (c_simple c) (c_wq c) st (c_info c)
  | None => None
  end.

(* model = implementation *)
Definition reply_agrees (c : case) : bool := dres_eqb (model_reply c) (c_impl c).

(* implementation = reference (on every document the reference gives a value to) *)
Definition reply_spec_ok (c : case) : bool :=
  match spec_reply c with
  | Some v => dres_eqb (DOk v) (c_impl c)
  | None => true
  end.

(* self-checks, independent of the implementation: the reference applied to
   the infoset gives back the value the writer started from; the Coq infoset
   function agrees with expat *)
Definition writer_ok (c : case) : bool :=
  match spec_reply c with
  | Some v => pyval_eqb v (c_expect c)
  | None => false
  end.

Definition infoset_agrees (c : case) : bool :=
  if has_empty_xmlns (c_raw c) then true else
  match erase_doc (c_raw c) with
  | Some x => inode_eqb x (c_info c)
  | None => false
  end.

Definition case_flags (c : case) : list N :=
  match case_style c with
  | Some st => flags_reply (c_schema c) (c_names c) (c_uris c) (c_kinds c) (c_simple c) st (c_info c)
  | None => []
  end.
(* 3 = promotePrefixes changes the outcome; 4 = qualifying an unprefixed xsi:type
   value with the element's namespace changes the outcome;
   8 = the implementation departs from the model exactly as if xsi:nil="1" were
       not recognised as nil (the repaired defect C02:xsi-nil-spelled-1 is back) *)
Definition case_flags_all (c : case) : list N :=
  case_flags c ++
  (if dres_eqb (model_reply c) (model_reply_with false false true c) then [] else [3%N]) ++
  (if dres_eqb (model_reply c) (model_reply_with true true true c) then [] else [4%N]) ++
  (if negb (dres_eqb (model_reply c) (c_impl c)) && dres_eqb (model_reply_with false true false c) (c_impl c)
   then [8%N] else []).
Definition has_flag (k : N) (c : case) : bool := existsb (N.eqb k) (case_flags_all c).
