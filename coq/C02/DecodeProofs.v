(* C02 — the unmarshaller model meets the reference decoder on every element
   tree (induction on the document; unbounded depth, width, list lengths),
   under the explicit guards of C02/Guard.v. *)
From SV Require Import Lib.Base Fam.Schema Gen.C02Tables C02.Model C02.Spec C02.Guard C02.BuildProofs.

Local Opaque uri_xsi uri_xml uri_env11 uri_env12 skip_uris builtin_names builtin_tags reserved_words.

(* ------------------------------------------------------------------ *)
(* generalities                                                        *)
(* ------------------------------------------------------------------ *)
Fixpoint elem_ind' (P : elem -> Prop)
  (H : forall p n x d a t ks, Forall P ks -> P (EL p n x d a t ks)) (e : elem) {struct e} : P e :=
  match e with
  | EL p n x d a t ks =>
      H p n x d a t ks
        ((fix go (l : list elem) : Forall P l :=
            match l with
            | [] => Forall_nil P
            | k :: r => Forall_cons k (elem_ind' P H k) (go r)
            end) ks)
  end.

Lemma str_eqb_true a b : str_eqb a b = true -> a = b.
Proof. apply str_eqb_eq. Qed.

Lemma str_eqb_sym a b : str_eqb a b = str_eqb b a.
Proof.
  destruct (str_eqb a b) eqn:E.
  - apply str_eqb_true in E. subst. symmetry. apply str_eqb_refl.
  - destruct (str_eqb b a) eqn:E'; [|reflexivity].
    apply str_eqb_true in E'. subst. rewrite str_eqb_refl in E. discriminate.
Qed.

Lemma ostr_eqb_true a b : ostr_eqb a b = true -> a = b.
Proof.
  destruct a, b; cbn; intro H; try discriminate; [|reflexivity].
  apply str_eqb_true in H. now subst.
Qed.

Lemma qn_eqb_true a b : qn_eqb a b = true -> a = b.
Proof.
  destruct a, b. unfold qn_eqb. cbn. intro H. apply andb_true_iff in H as [H1 H2].
  apply N.eqb_eq in H1, H2. now subst.
Qed.

Lemma uri_is_true u v : uri_is u v = true -> u = Some v.
Proof. destruct u; cbn; [|discriminate]. intro H. apply str_eqb_true in H. now subst. Qed.

Lemma sfind_In {A} k (l : list (str * A)) v : sfind k l = Some v -> In (k, v) l.
Proof.
  induction l as [|[k' v'] l IH]; cbn; [discriminate|].
  destruct (str_eqb k k') eqn:E; intro H.
  - inversion H; subst. apply str_eqb_true in E. subst. now left.
  - right. auto.
Qed.

Lemma sfind_sset_same {A} k (v : A) l : sfind k (sset k v l) = Some v.
Proof.
  induction l as [|[k' v'] l IH]; cbn.
  - now rewrite str_eqb_refl.
  - destruct (str_eqb k k') eqn:E; cbn; rewrite E; [reflexivity|exact IH].
Qed.

Lemma sfind_sset_other {A} k k' (v : A) l : str_eqb k' k = false -> sfind k' (sset k v l) = sfind k' l.
Proof.
  intro Hn. induction l as [|[k2 v2] l IH]; cbn.
  - now rewrite Hn.
  - destruct (str_eqb k k2) eqn:E; cbn.
    + apply str_eqb_true in E. subst. now rewrite Hn.
    + destruct (str_eqb k' k2); [reflexivity|exact IH].
Qed.

Lemma sset_nonempty {A} k (v : A) l : sset k v l <> [].
Proof. destruct l as [|[k' v'] l]; cbn; [discriminate|]. destruct (str_eqb k k'); discriminate. Qed.

Lemma omap_length {A B} (f : A -> option B) l r : omap f l = Some r -> length l = length r.
Proof.
  revert r. induction l as [|x l IH]; cbn; intros r H.
  - inversion H. reflexivity.
  - destruct (f x); [|discriminate]. destruct (omap f l); [|discriminate].
    inversion H; subst. cbn. f_equal. now apply IH.
Qed.

(* ------------------------------------------------------------------ *)
(* standalone forms of the nested loops                                *)
(* ------------------------------------------------------------------ *)
Lemma erase_unfold env p nm x d ats txt ks :
  erase env (EL p nm x d ats txt ks) =
  let env' := (x, d) :: env in
  match (match p with
         | Some q => match resolve_prefix q env' with Some u => Some (Some u) | None => None end
         | None => Some (default_ns env')
         end), omap (erase_attr env') ats, omap (erase env') ks with
  | Some u, Some ias, Some iks =>
      let t := match txt with Some t => t | None => [] end in
      Some (IN u nm ias (match iks with [] => t | _ => if all_space t then [] else t end) iks)
  | _, _, _ => None
  end.
Proof.
  cbn [erase]. cbv zeta.
  assert (H : forall l, (fix go (l : list elem) : option (list inode) :=
                           match l with
                           | [] => Some []
                           | k :: r => match erase ((x, d) :: env) k, go r with
                                       | Some y, Some ys => Some (y :: ys)
                                       | _, _ => None
                                       end
                           end) l = omap (erase ((x, d) :: env)) l).
  { induction l as [|k l IH]; [reflexivity|]. cbn [omap]. rewrite <- IH. reflexivity. }
  rewrite H. reflexivity.
Qed.

Lemma erase_nm env e x : erase env e = Some x -> i_nm x = e_nm e.
Proof.
  destruct e as [p nm xx d ats txt ks]. rewrite erase_unfold. cbv zeta.
  destruct (match p with Some q => _ | None => _ end); [|discriminate].
  destruct (omap _ ats); [|discriminate]. destruct (omap _ ks); [|discriminate].
  intro H. inversion H. reflexivity.
Qed.

Section Decode.
Variables (S : schema) (names : list (str * N)) (uris : list (str * N)) (kinds : list (N * N))
          (globals : list (qn * qn)) (simple : list (qn * N)).
Hypothesis Hschema : schema_ok S = true.
Hypothesis Hnames : names_ok names = true.
Hypothesis Hkinds : kinds_ok kinds = true.
Hypothesis Hglobals : globals_ok S globals = true.
Hypothesis Hsimple : simple_ok simple = true.

Notation dec := (decode S names uris kinds globals false true).
Notation refn := (ref_node S names uris kinds simple).
Notation flg := (flags_node S names uris kinds simple).

Definition kids_loop (env' : list frame) (elems : list fchild) :=
  fix go (ks : list elem) (data : list (str * pyval)) : dres (list (str * pyval)) :=
    match ks with
    | [] => DOk data
    | k :: r =>
        match get_child (nid names (e_nm k)) elems with
        | None => dbind (known S names uris globals false ((e_expns k, e_decls k) :: env') (e_pfx k) (e_attrs k))
                        (fun _ => DTypeNotFound)
        | Some (FAny _) => DOther
        | Some (FE dc _ _) =>
            dbind (dec env' (resolve_tref S kinds (e_name dc) (e_type dc)) (decl_nillable kinds dc) k) (fun cval =>
            go r (store_child (reserved (e_nm k)) (e_multi dc) cval data))
        end
    end.

Lemma decode_unfold env decl cnil p nm x d ats txt ks :
  dec env decl cnil (EL p nm x d ats txt ks) =
  let env' := (x, d) :: env in
  dbind (known S names uris globals false env' p ats) (fun kn =>
  match (match kn with Some r => Some r | None => decl end) with
  | None => DOther
  | Some real =>
      let data0 := add_attrs S names kinds env' real ats [] in
      let elems := match real with RC ct => flat_elems S ct | RB _ => [] end in
      dbind (kids_loop env' elems ks data0)
        (fun data =>
           let ht := has_text txt in
           let nokids := match ks with [] => true | _ => false end in
           if negb nokids && ht then DOk PRaw
           else if negb (Nat.eqb (count_real env' ats) 0) && nokids && ht
           then DOk (PProp nm ((s_value, PLeaf tag_str (match txt with Some t => t | None => [] end)) :: data))
           else match data with
                | _ :: _ => DOk (PObj (Some (type_id real)) data)
                | [] =>
                    if is_nil true env' ats then DOk PNone
                    else if ht then DOk (translate real (match txt with Some t => t | None => [] end))
                    else if nokids then DOk (if cnil then PNone else PLeaf tag_str [])
                    else DOk PNone
                end)
  end).
Proof. reflexivity. Qed.

Definition ref_kids (ct : ctype) :=
  fix go (l : list inode) (acc : list (str * pyval)) : option (list (str * pyval)) :=
    match l with
    | [] => Some acc
    | k :: r =>
        match find_decl names uris (i_u k) (i_nm k) (flat_elems S ct) with
        | None => None
        | Some d =>
            match resolve_tref S kinds (e_name d) (e_type d) with
            | None => None
            | Some kt =>
                match refn kt (e_nil d) k with
                | None => None
                | Some v => match spec_store (i_nm k) (e_multi d) v acc with
                            | Some acc' => go r acc'
                            | None => None
                            end
                end
            end
        end
    end.

Lemma ref_node_unfold dt nillable u nm ats text kids :
  refn dt nillable (IN u nm ats text kids) =
  if spec_nil ats then
    if nillable && match kids with [] => true | _ => false end && match text with [] => true | _ => false end
       && forallb is_meta ats
    then match actual_type S names uris dt ats with Some _ => Some PNone | None => None end
    else None
  else
    match actual_type S names uris dt ats with
    | None => None
    | Some (RB k) =>
        match kids with
        | [] => if forallb is_meta ats then Some (PLeaf (spec_tag k) text) else None
        | _ => None
        end
    | Some (RC ct) =>
        match simple_kind simple ct with
        | Some k =>
            match kids with
            | [] => match spec_attrs S names kinds ct ats [] with
                    | None => None
                    | Some [] => Some (PLeaf (spec_tag k) text)
                    | Some fields => Some (PProp nm ((s_value, PLeaf (spec_tag k) text) :: fields))
                    end
            | _ => None
            end
        | None =>
        if negb (all_space text) then None else
        match spec_attrs S names kinds ct ats [] with
        | None => None
        | Some acc0 =>
            match ref_kids ct kids acc0 with
            | Some fields => Some (PObj (Some (c_ns ct, c_name ct)) fields)
            | None => None
            end
        end
        end
    end.
Proof. reflexivity. Qed.

Definition flags_kids (ct : ctype) :=
  fix go (before l : list inode) : list N :=
    match l with
    | [] => []
    | k :: r =>
        match find_decl names uris (i_u k) (i_nm k) (flat_elems S ct) with
        | None => go (before ++ [k]) r
        | Some d =>
            (if e_multi d && negb (seen_key (i_nm k) before) && spec_nil (i_attrs k) then [1%N] else []) ++
            match resolve_tref S kinds (e_name d) (e_type d) with
            | Some kt => flg kt (e_nil d) k
            | None => []
            end ++ go (before ++ [k]) r
        end
    end.

Lemma flags_node_unfold dt nillable u nm ats text kids :
  flg dt nillable (IN u nm ats text kids) =
  if spec_nil ats then [] else
  match actual_type S names uris dt ats with
  | None => []
  | Some (RB k) => match text with [] => [6%N] | _ => [] end
  | Some (RC ct) =>
      match simple_kind simple ct with
      | Some k => (if N.eqb (spec_tag k) tag_str then [] else [9%N]) ++ match text with [] => [6%N] | _ => [] end
      | None =>
      match kids with
      | [] => match text with
              | [] => if no_real_attrs ats then [5%N] else []
              | _ => if all_space text then [2%N] else []
              end
      | _ => flags_kids ct [] kids
      end
      end
  end.
Proof. reflexivity. Qed.

(* ------------------------------------------------------------------ *)
(* the side tables                                                     *)
(* ------------------------------------------------------------------ *)
Lemma reserved_id nm : nid names nm <> 0%N -> reserved nm = nm.
Proof.
  unfold nid, reserved. destruct (sfind nm names) as [n|] eqn:E; [|congruence]. intros _.
  apply sfind_In in E. unfold names_ok in Hnames. rewrite forallb_forall in Hnames.
  specialize (Hnames _ E). cbn in Hnames. destruct (sfind nm reserved_words); [discriminate|reflexivity].
Qed.

Lemma kind_lt n : (kind_of kinds n < 46)%N.
Proof.
  unfold kind_of. destruct (assoc_N n kinds) as [k|] eqn:E; [|lia].
  unfold kinds_ok in Hkinds. rewrite forallb_forall in Hkinds.
  assert (G : forall l, assoc_N n l = Some k -> exists n', In (n', k) l).
  { induction l as [|[n' v] l IH]; cbn; [discriminate|].
    destruct (N.eqb n n'); intro H.
    - inversion H; subst. exists n'. now left.
    - destruct (IH H) as [n'' Hin]. exists n''. now right. }
  destruct (G _ E) as [n' Hin]. specialize (Hkinds _ Hin). cbn in Hkinds. now apply N.ltb_lt in Hkinds.
Qed.

Definition rtype_ok (r : rtype) : Prop :=
  match r with
  | RC ct => fnames_ok (flat_elems S ct) [] = true
  | RB k => (k < 46)%N
  end.

Lemma find_type_ok q ct : find_type S q = Some ct -> rtype_ok (RC ct).
Proof.
  unfold find_type. intro H. apply find_some in H as [Hin _].
  unfold schema_ok in Hschema. rewrite forallb_forall in Hschema. exact (Hschema _ Hin).
Qed.

Lemma resolve_tref_ok n t r : resolve_tref S kinds n t = Some r -> rtype_ok r.
Proof.
  destruct t as [|ns nm]; cbn.
  - intro H. inversion H; subst. cbn. apply kind_lt.
  - destruct (find_type S (ns, nm)) as [ct|] eqn:E; [|discriminate].
    intro H. inversion H; subst. eapply find_type_ok; eauto.
Qed.

Lemma globals_none q ct : find_type S q = Some ct -> find (fun g => qn_eqb (fst g) q) globals = None.
Proof.
  intro Hf. destruct (find _ globals) as [g|] eqn:E; [|reflexivity]. exfalso.
  apply find_some in E as [Hin Hq]. apply qn_eqb_true in Hq.
  unfold globals_ok in Hglobals. rewrite forallb_forall in Hglobals. specialize (Hglobals _ Hin).
  rewrite Hq, Hf in Hglobals. discriminate.
Qed.

(* ------------------------------------------------------------------ *)
(* attributes                                                          *)
(* ------------------------------------------------------------------ *)
Lemma erase_attr_shape env a ia :
  erase_attr env a = Some ia ->
  fst (fst ia) = attr_ns a env /\ snd (fst ia) = snd (fst a).
Proof.
  destruct a as [[pq an] av]. unfold erase_attr, attr_ns. cbn [fst snd].
  destruct pq as [q|].
  - destruct (resolve_prefix q env) as [u|]; [|discriminate].
    destruct (str_eqb u uri_xsi && str_eqb an s_type).
    + destruct (split_colon av) as [[tq|] tl].
      * destruct (resolve_prefix tq env); [|discriminate]. intro H; inversion H; subst. now cbn.
      * intro H; inversion H; subst. now cbn.
    + intro H; inversion H; subst. now cbn.
  - intro H; inversion H; subst. now cbn.
Qed.

Lemma is_xsi_attr env a ia :
  erase_attr env a = Some ia -> is_xsi ia = uri_is (attr_ns a env) uri_xsi.
Proof. intro H. apply erase_attr_shape in H as [H1 _]. unfold is_xsi. now rewrite H1. Qed.

Lemma s_nil_not_type : str_eqb s_nil s_type = false.
Proof. reflexivity. Qed.

(* xsi:<local> for a local name other than "type" *)
Lemma find_xsi_text env local : str_eqb local s_type = false ->
  forall ats ias, omap (erase_attr env) ats = Some ias ->
  ifind_xsi local ias = option_map IText (find_xsi env ats local).
Proof.
  intros Hl. induction ats as [|a ats IH]; intros ias H; cbn in H.
  - inversion H. reflexivity.
  - destruct (erase_attr env a) as [ia|] eqn:Ea; [|discriminate].
    destruct (omap (erase_attr env) ats) as [ias'|] eqn:Eo; [|discriminate].
    inversion H; subst. cbn [ifind_xsi find_xsi].
    rewrite (is_xsi_attr _ _ _ Ea). pose proof (erase_attr_shape _ _ _ Ea) as [_ Hn]. rewrite Hn. clear Hn.
    rewrite (andb_comm (str_eqb (snd (fst a)) local)).
    destruct (uri_is (attr_ns a env) uri_xsi && str_eqb (snd (fst a)) local) eqn:Em.
    + apply andb_true_iff in Em as [Hu Hnm]. apply str_eqb_true in Hnm.
      cbn [option_map]. f_equal.
      destruct a as [[pq an] av]. cbn [fst snd] in *. subst an.
      unfold erase_attr in Ea. cbn [fst snd] in Ea. unfold attr_ns in Hu. cbn [fst snd] in Hu.
      destruct pq as [q|]; [|discriminate Hu].
      destruct (resolve_prefix q env) as [u|]; [|discriminate Hu].
      rewrite Hl, andb_false_r in Ea. inversion Ea. reflexivity.
    + now apply IH.
Qed.

Definition iq_of (env : list frame) (ref : str) : option ival :=
  match split_colon ref with
  | (Some q, tl) => match resolve_prefix q env with
                    | Some tu => Some (IQName (Some tu) tl)
                    | None => None
                    end
  | (None, tl) => Some (IQName (default_ns env) tl)
  end.

Lemma find_xsi_type env : forall ats ias, omap (erase_attr env) ats = Some ias ->
  match find_xsi env ats s_type with
  | None => ifind_xsi s_type ias = None
  | Some ref => exists iq, iq_of env ref = Some iq /\ ifind_xsi s_type ias = Some iq
  end.
Proof.
  induction ats as [|a ats IH]; intros ias H; cbn in H.
  - inversion H. reflexivity.
  - destruct (erase_attr env a) as [ia|] eqn:Ea; [|discriminate].
    destruct (omap (erase_attr env) ats) as [ias'|] eqn:Eo; [|discriminate].
    inversion H; subst. cbn [ifind_xsi find_xsi].
    rewrite (is_xsi_attr _ _ _ Ea). pose proof (erase_attr_shape _ _ _ Ea) as [_ Hn]. rewrite Hn. clear Hn.
    rewrite (andb_comm (str_eqb (snd (fst a)) s_type)).
    destruct (uri_is (attr_ns a env) uri_xsi && str_eqb (snd (fst a)) s_type) eqn:Em.
    + apply andb_true_iff in Em as [Hu Hnm].
      destruct a as [[pq an] av]. cbn [fst snd] in *.
      unfold erase_attr in Ea. cbn [fst snd] in Ea. unfold attr_ns in Hu. cbn [fst snd] in Hu.
      destruct pq as [q|]; [|discriminate Hu].
      destruct (resolve_prefix q env) as [u|]; [|discriminate Hu].
      cbn in Hu. rewrite Hu, Hnm in Ea. cbn [andb] in Ea. unfold iq_of.
      destruct (split_colon av) as [[tq|] tl].
      * destruct (resolve_prefix tq env) as [tu|]; [|discriminate].
        inversion Ea; subst. cbn [snd]. eexists; split; reflexivity.
      * inversion Ea; subst. cbn [snd]. eexists; split; reflexivity.
    + now apply IH.
Qed.

Lemma lower_true : lower s_true = s_true.
Proof. reflexivity. Qed.

Lemma lower_one v : str_eqb (lower v) s_one = str_eqb v s_one.
Proof.
  destruct v as [|c r]; [reflexivity|]. unfold s_one. cbn [lower map str_eqb].
  assert (H : N.eqb (lower_c c) 49 = N.eqb c 49).
  { unfold lower_c. destruct ((65 <=? c) && (c <=? 90))%N eqn:E; [|reflexivity].
    apply andb_true_iff in E as [E1 E2]. apply N.leb_le in E1, E2.
    destruct (N.eqb (c + 32) 49) eqn:A; destruct (N.eqb c 49) eqn:B; try reflexivity.
    - apply N.eqb_eq in A. lia.
    - apply N.eqb_eq in B. lia. }
  rewrite H. destruct r; reflexivity.
Qed.

Lemma is_nil_spec env ats ias :
  omap (erase_attr env) ats = Some ias -> nil_ok env ats = true -> is_nil true env ats = spec_nil ias.
Proof.
  intros H Hok. unfold is_nil, spec_nil, nil_ok in *.
  rewrite (find_xsi_text env s_nil s_nil_not_type _ _ H).
  destruct (find_xsi env ats s_nil) as [v|]; cbn [option_map andb]; [|reflexivity].
  rewrite lower_one.
  destruct (str_eqb v s_one) eqn:E1; [now rewrite !orb_true_r|]. rewrite !orb_false_r in *.
  destruct (str_eqb v s_true) eqn:E2.
  - apply str_eqb_true in E2. subst. reflexivity.
  - cbn [orb] in Hok. apply negb_true_iff in Hok. exact Hok.
Qed.

Lemma skip_xsi env a ia : erase_attr env a = Some ia -> is_meta ia = true -> skip_attr env a = true.
Proof.
  intros Ea Hx. pose proof (erase_attr_shape _ _ _ Ea) as [Hns _]. unfold is_meta in Hx. rewrite Hns in Hx.
  unfold skip_attr. destruct (attr_ns a env) as [u|]; [|discriminate].
  apply existsb_exists in Hx as [m [Hin Hm]]. apply str_eqb_true in Hm. subst m.
  pose proof meta_skipped as H. rewrite forallb_forall in H. exact (H _ Hin).
Qed.

Lemma add_attrs_all_xsi env real : forall ats ias acc,
  omap (erase_attr env) ats = Some ias -> forallb is_meta ias = true ->
  add_attrs S names kinds env real ats acc = acc /\ count_real env ats = O.
Proof.
  induction ats as [|a ats IH]; intros ias acc H Hx; cbn in H.
  - split; reflexivity.
  - destruct (erase_attr env a) as [ia|] eqn:Ea; [|discriminate].
    destruct (omap (erase_attr env) ats) as [ias'|] eqn:Eo; [|discriminate].
    inversion H; subst. cbn in Hx. apply andb_true_iff in Hx as [Hx1 Hx2].
    cbn [add_attrs count_real]. rewrite (skip_xsi _ _ _ Ea Hx1). now apply IH with ias'.
Qed.

Lemma add_attrs_spec env ct : forall ats ias acc acc',
  omap (erase_attr env) ats = Some ias ->
  spec_attrs S names kinds ct ias acc = Some acc' ->
  add_attrs S names kinds env (RC ct) ats acc = acc'.
Proof.
  induction ats as [|a ats IH]; intros ias acc acc' H Hs; cbn in H.
  - inversion H; subst. cbn in Hs. now inversion Hs.
  - destruct (erase_attr env a) as [ia|] eqn:Ea; [|discriminate].
    destruct (omap (erase_attr env) ats) as [ias'|] eqn:Eo; [|discriminate].
    inversion H; subst. cbn [spec_attrs] in Hs. cbn [add_attrs].
    destruct (is_meta ia) eqn:Hx.
    + rewrite (skip_xsi _ _ _ Ea Hx). now apply IH with ias'.
    + pose proof (erase_attr_shape _ _ _ Ea) as [Hns Hnm].
      destruct ia as [[iu inm] iv]. cbn [fst snd] in *. subst inm iu.
      destruct (attr_ns a env) as [u|] eqn:Eu; [destruct iv; discriminate|].
      destruct iv as [v|]; [|discriminate].
      destruct (get_attribute (nid names (snd (fst a))) (flat_attrs S ct)) as [ad|] eqn:Eg; [|discriminate].
      destruct (N.eqb (nid names (snd (fst a))) 0) eqn:E0; [discriminate|].
      apply N.eqb_neq in E0.
      unfold skip_attr. rewrite Eu.
      assert (Hv : v = snd a).
      { destruct a as [[pq an] av]. unfold erase_attr in Ea. unfold attr_ns in Eu. cbn [fst snd] in *.
        destruct pq as [q|].
        - destruct (resolve_prefix q env); [discriminate Eu|discriminate Ea].
        - now inversion Ea. }
      subst v.
      replace (sset (attr_key a) (attr_value S names kinds (RC ct) a) acc)
        with (sset (ch_us :: snd (fst a)) (PLeaf (spec_tag (kind_of kinds (a_name ad))) (snd a)) acc).
      * now apply IH with ias'.
      * unfold attr_key, attr_value. rewrite Eg, (reserved_id _ E0).
        rewrite (builtin_tags_match_statement_l _ (kind_lt _)). reflexivity.
Qed.

Lemma spec_attrs_nonempty ct : forall ias acc acc',
  spec_attrs S names kinds ct ias acc = Some acc' ->
  (acc <> [] \/ no_real_attrs ias = false) -> acc' <> [].
Proof.
  induction ias as [|ia ias IH]; intros acc acc' Hs Hne; cbn [spec_attrs] in Hs.
  - inversion Hs; subst. destruct Hne as [Hne|Hne]; [exact Hne|discriminate Hne].
  - destruct (is_meta ia) eqn:Hx.
    + apply (IH _ _ Hs). destruct Hne as [Hne|Hne]; [now left|right].
      unfold no_real_attrs in *. cbn in Hne. now rewrite Hx in Hne.
    + destruct (fst (fst ia)); [destruct (snd ia); discriminate|].
      destruct (snd ia); [|discriminate].
      destruct (get_attribute _ _); [|discriminate].
      destruct (N.eqb _ 0); [discriminate|].
      apply (IH _ _ Hs). left. apply sset_nonempty.
Qed.

Lemma count_real_spec env ct : forall ats ias acc acc',
  omap (erase_attr env) ats = Some ias ->
  spec_attrs S names kinds ct ias acc = Some acc' ->
  no_real_attrs ias = false -> count_real env ats <> O.
Proof.
  induction ats as [|a ats IH]; intros ias acc acc' H Hs Hn; cbn in H.
  - inversion H; subst. discriminate Hn.
  - destruct (erase_attr env a) as [ia|] eqn:Ea; [|discriminate].
    destruct (omap (erase_attr env) ats) as [ias'|] eqn:Eo; [|discriminate].
    inversion H; subst. cbn [spec_attrs] in Hs. cbn [count_real].
    unfold no_real_attrs in Hn. cbn [forallb] in Hn.
    destruct (is_meta ia) eqn:Hx.
    + rewrite (skip_xsi _ _ _ Ea Hx). cbn [andb] in Hn. now apply (IH ias' acc acc').
    + pose proof (erase_attr_shape _ _ _ Ea) as [Hns _].
      destruct (fst (fst ia)) as [u|] eqn:Eu; [destruct (snd ia); discriminate|].
      unfold skip_attr. rewrite <- Hns. discriminate.
Qed.

(* ------------------------------------------------------------------ *)
(* xsi:type                                                            *)
(* ------------------------------------------------------------------ *)
Lemma known_spec env p ats ias dt r :
  omap (erase_attr env) ats = Some ias ->
  qname_ok env p ats = true ->
  rtype_ok dt ->
  actual_type S names uris dt ias = Some r ->
  rtype_ok r /\
  exists kn, known S names uris globals false env p ats = DOk kn /\
             (match kn with Some r' => Some r' | None => Some dt end) = Some r.
Proof.
  intros H Hq Hdt Ha. unfold actual_type in Ha. unfold known. unfold qname_ok in Hq.
  pose proof (find_xsi_type env _ _ H) as Hx.
  destruct (find_xsi env ats s_type) as [ref|].
  - destruct Hx as [iq [Hiq Hfind]]. rewrite Hfind in Ha. unfold iq_of in Hiq.
    assert (Core : forall (u : option str) tl,
               iq = IQName u tl -> uri_plain u = true ->
               rtype_ok r /\ query S names uris globals tl u = Some r).
    { intros u tl -> Hpl. unfold query.
      destruct (uri_is u uri_xsd) eqn:Exsd.
      - apply uri_is_true in Exsd. subst u. rewrite xsd_is_w3.
        destruct (sfind tl builtin_names) as [k|] eqn:Ek; [|discriminate].
        destruct (builtin_sub k dt); [|discriminate]. inversion Ha; subst.
        split; [cbn; eapply builtin_names_in_table; eauto|reflexivity].
      - destruct (find_type S (uid uris u, nid names tl)) as [ct|] eqn:Ef; [|discriminate].
        destruct (match dt with RC dct => derives S ct dct | RB k0 => N.eqb k0 b_anyType end); [|discriminate].
        inversion Ha; subst.
        split; [eapply find_type_ok; eauto|].
        assert (Hw : match u with
                     | Some us => if starts_with s_w3 us then sfind tl builtin_names else None
                     | None => None
                     end = None).
        { destruct u as [us|]; [|reflexivity]. unfold uri_plain in Hpl. unfold uri_is in Exsd.
          rewrite Exsd in Hpl. cbn [orb] in Hpl. apply negb_true_iff in Hpl. now rewrite Hpl. }
        rewrite Hw, (globals_none _ _ Ef). reflexivity. }
    destruct (split_colon ref) as [[q|] tl].
    + destruct (resolve_prefix q env) as [tu|] eqn:Er; [|discriminate].
      inversion Hiq; subst. destruct (Core (Some tu) tl eq_refl Hq) as [Hok Hquery].
      split; [exact Hok|]. eexists; split; [reflexivity|]. now rewrite Hquery.
    + inversion Hiq; subst. apply andb_true_iff in Hq as [Hq1 Hq2]. apply ostr_eqb_true in Hq1.
      destruct (Core (default_ns env) tl eq_refl Hq2) as [Hok Hquery].
      split; [exact Hok|]. eexists; split; [reflexivity|]. rewrite Hq1. now rewrite Hquery.
  - rewrite Hx in Ha. inversion Ha; subst. split; [exact Hdt|]. eexists; split; reflexivity.
Qed.

(* ------------------------------------------------------------------ *)
(* child declarations                                                  *)
(* ------------------------------------------------------------------ *)
Lemma find_decl_name u nm l d : find_decl names uris u nm l = Some d ->
  e_name d = nid names nm /\ nid names nm <> 0%N.
Proof.
  induction l as [|c l IH]; cbn; [discriminate|].
  destruct c as [d' a ch|a]; [|exact IH].
  destruct (decl_matches names uris d' u nm) eqn:E; [|exact IH].
  intro H; inversion H; subst. unfold decl_matches in E.
  apply andb_true_iff in E as [E _]. apply andb_true_iff in E as [E1 E2].
  apply N.eqb_eq in E1. apply negb_true_iff in E2. apply N.eqb_neq in E2. now split.
Qed.

Lemma find_decl_notseen u nm : forall l seen d,
  fnames_ok l seen = true -> find_decl names uris u nm l = Some d ->
  existsb (N.eqb (e_name d)) seen = false.
Proof.
  induction l as [|c l IH]; intros seen d Hok Hf; cbn in Hf; [discriminate|].
  destruct c as [d' a ch|a]; cbn in Hok; [|discriminate].
  apply andb_true_iff in Hok as [H1 H2]. apply negb_true_iff in H1.
  destruct (decl_matches names uris d' u nm).
  - inversion Hf; subst. exact H1.
  - specialize (IH _ _ H2 Hf). cbn in IH. apply orb_false_iff in IH as [_ IH]. exact IH.
Qed.

Lemma find_decl_get_child u nm : forall l seen d,
  fnames_ok l seen = true -> find_decl names uris u nm l = Some d ->
  exists a c, get_child (nid names nm) l = Some (FE d a c).
Proof.
  induction l as [|c l IH]; intros seen d Hok Hf; cbn in Hf; [discriminate|].
  destruct c as [d' a ch|a]; cbn in Hok; [|discriminate].
  apply andb_true_iff in Hok as [H1 H2]. cbn [get_child].
  destruct (decl_matches names uris d' u nm) eqn:Em.
  - inversion Hf; subst. unfold decl_matches in Em.
    apply andb_true_iff in Em as [Em _]. apply andb_true_iff in Em as [Em _]. rewrite Em. eauto.
  - destruct (N.eqb (e_name d') (nid names nm)) eqn:En.
    + exfalso. pose proof (find_decl_notseen _ _ _ _ _ H2 Hf) as Hns.
      destruct (find_decl_name _ _ _ _ Hf) as [Hd _]. cbn in Hns.
      apply orb_false_iff in Hns as [Hns _]. apply N.eqb_eq in En. rewrite Hd, <- En, N.eqb_refl in Hns.
      discriminate.
    + eapply IH; eauto.
Qed.

(* ------------------------------------------------------------------ *)
(* storing one more occurrence                                         *)
(* ------------------------------------------------------------------ *)
Lemma store_spec key multi v acc acc' :
  spec_store key multi v acc = Some acc' ->
  ~ (multi = true /\ v = PNone /\ sfind key acc = None) ->
  store_child key multi v acc = acc'.
Proof.
  unfold spec_store, store_child. intros H Hn.
  destruct (sfind key acc) as [w|] eqn:E.
  - destruct w; try discriminate. destruct multi; [|discriminate]. now inversion H.
  - inversion H; subst. destruct multi; [|reflexivity].
    destruct v; try reflexivity. exfalso. apply Hn. auto.
Qed.

Lemma spec_store_keeps key multi v acc acc' k :
  spec_store key multi v acc = Some acc' -> sfind k acc <> None -> sfind k acc' <> None.
Proof.
  unfold spec_store. intros H Hk.
  assert (G : forall w, sfind k (sset key w acc) <> None).
  { intro w. destruct (str_eqb k key) eqn:E.
    - apply str_eqb_true in E. subst. rewrite sfind_sset_same. discriminate.
    - now rewrite sfind_sset_other. }
  destruct (sfind key acc) as [w|].
  - destruct w; try discriminate. destruct multi; [|discriminate]. inversion H; subst. apply G.
  - inversion H; subst. apply G.
Qed.

Lemma spec_store_has key multi v acc acc' :
  spec_store key multi v acc = Some acc' -> sfind key acc' <> None.
Proof.
  unfold spec_store. intro H.
  destruct (sfind key acc) as [w|].
  - destruct w; try discriminate. destruct multi; [|discriminate]. inversion H; subst.
    rewrite sfind_sset_same. discriminate.
  - inversion H; subst. rewrite sfind_sset_same. discriminate.
Qed.

Lemma spec_store_nonempty key multi v acc acc' : spec_store key multi v acc = Some acc' -> acc' <> [].
Proof. intros H E. subst. apply spec_store_has in H. cbn in H. congruence. Qed.

Lemma seen_key_app key a b : seen_key key (a ++ b) = seen_key key a || seen_key key b.
Proof. induction a as [|x a IH]; cbn; [reflexivity|]. rewrite IH. now rewrite orb_assoc. Qed.

Lemma ref_node_none dt nillable x : refn dt nillable x = Some PNone -> spec_nil (i_attrs x) = true.
Proof.
  destruct x as [u nm ats text kids]. rewrite ref_node_unfold. cbn [i_attrs].
  destruct (spec_nil ats); [reflexivity|].
  destruct (actual_type S names uris dt ats) as [[k|ct]|]; [| |discriminate].
  - destruct kids; [|discriminate]. destruct (forallb is_meta ats); discriminate.
  - destruct (simple_kind simple ct).
    + destruct kids; [|discriminate].
      destruct (spec_attrs S names kinds ct ats []) as [[|f fs]|]; discriminate.
    + destruct (negb (all_space text)); [discriminate|].
      destruct (spec_attrs S names kinds ct ats []); [|discriminate].
      destruct (ref_kids ct kids l); discriminate.
Qed.

Lemma ref_kids_nonempty ct : forall iks acc fields,
  ref_kids ct iks acc = Some fields -> (acc <> [] \/ iks <> []) -> fields <> [].
Proof.
  induction iks as [|k r IH]; intros acc fields H Hne; cbn in H.
  - inversion H; subst. destruct Hne as [Hne|Hne]; [exact Hne|congruence].
  - destruct (find_decl names uris (i_u k) (i_nm k) (flat_elems S ct)) as [d|]; [|discriminate].
    destruct (resolve_tref S kinds (e_name d) (e_type d)) as [kt|]; [|discriminate].
    destruct (refn kt (e_nil d) k) as [v|]; [|discriminate].
    destruct (spec_store (i_nm k) (e_multi d) v acc) as [acc'|] eqn:Es; [|discriminate].
    apply (IH _ _ H). left. eapply spec_store_nonempty; eauto.
Qed.

(* ------------------------------------------------------------------ *)
(* the main induction                                                  *)
(* ------------------------------------------------------------------ *)
Definition P (e : elem) : Prop :=
  forall env dt nillable cnil x v,
    rtype_ok dt ->
    erase env e = Some x ->
    doc_ok env e = true ->
    flg dt nillable x = [] ->
    refn dt nillable x = Some v ->
    dec env (Some dt) cnil e = DOk v.

Lemma doc_ok_unfold env p nm x d ats txt ks :
  doc_ok env (EL p nm x d ats txt ks) =
  (qname_ok ((x, d) :: env) p ats && nil_ok ((x, d) :: env) ats && trimmed txt ks &&
   forallb (doc_ok ((x, d) :: env)) ks).
Proof.
  reflexivity.
Qed.

Lemma kids_loop_ref env' ct : rtype_ok (RC ct) ->
  forall ks iks acc before fields,
    Forall P ks ->
    omap (erase env') ks = Some iks ->
    forallb (doc_ok env') ks = true ->
    flags_kids ct before iks = [] ->
    (forall b, In b before -> sfind (i_nm b) acc <> None) ->
    ref_kids ct iks acc = Some fields ->
    kids_loop env' (flat_elems S ct) ks acc = DOk fields.
Proof.
  intro Hct. induction ks as [|k r IH]; intros iks acc before fields HP He Hd Hf Hinv Hr; cbn in He.
  - inversion He; subst. cbn in Hr. inversion Hr. reflexivity.
  - destruct (erase env' k) as [ik|] eqn:Ek; [|discriminate].
    destruct (omap (erase env') r) as [ir|] eqn:Er; [|discriminate].
    inversion He; subst. inversion HP as [|? ? HPk HPr]; subst.
    cbn in Hd. apply andb_true_iff in Hd as [Hdk Hdr].
    cbn in Hr. cbn in Hf.
    destruct (find_decl names uris (i_u ik) (i_nm ik) (flat_elems S ct)) as [d|] eqn:Efd; [|discriminate].
    destruct (resolve_tref S kinds (e_name d) (e_type d)) as [kt|] eqn:Ert; [|discriminate].
    destruct (refn kt (e_nil d) ik) as [v|] eqn:Erf; [|discriminate].
    destruct (spec_store (i_nm ik) (e_multi d) v acc) as [acc'|] eqn:Est; [|discriminate].
    apply app_eq_nil in Hf as [Hf1 Hf2]. apply app_eq_nil in Hf2 as [Hf2 Hf3].
    pose proof (erase_nm _ _ _ Ek) as Hnm.
    destruct (find_decl_get_child _ _ _ _ _ Hct Efd) as [a [c Hgc]].
    destruct (find_decl_name _ _ _ _ Efd) as [_ Hn0].
    cbn [kids_loop]. rewrite <- Hnm, Hgc. rewrite Ert.
    rewrite (HPk env' kt (e_nil d) (decl_nillable kinds d) ik v (resolve_tref_ok _ _ _ Ert) Ek Hdk Hf2 Erf).
    cbn [dbind]. rewrite (reserved_id _ Hn0).
    rewrite (store_spec _ _ _ _ _ Est).
    + apply (IH ir acc' (before ++ [ik]) fields HPr eq_refl Hdr Hf3); [|exact Hr].
      intros b Hb. apply in_app_or in Hb as [Hb|Hb].
      * eapply spec_store_keeps; eauto.
      * destruct Hb as [Hb|[]]. subst b. eapply spec_store_has; eauto.
    + intros [Hm [Hv Hs]]. subst v.
      apply ref_node_none in Erf. rewrite Hm, Erf in Hf1.
      destruct (seen_key (i_nm ik) before) eqn:Esk; [|discriminate Hf1].
      clear - Esk Hinv Hs.
      induction before as [|b before IHb]; cbn in Esk; [discriminate|].
      apply orb_true_iff in Esk as [Esk|Esk].
      * apply str_eqb_true in Esk. apply (Hinv b (or_introl eq_refl)). now rewrite Esk.
      * apply IHb; [exact Esk|]. intros b' Hb'. apply Hinv. now right.
Qed.

Lemma decode_ref_step p nm x d ats txt ks : Forall P ks -> P (EL p nm x d ats txt ks).
Proof.
  intros HP env dt nillable cnil xi v Hdt He Hd Hf Hr.
  rewrite erase_unfold in He. cbv zeta in He.
  set (env' := (x, d) :: env) in *.
  destruct (match p with
            | Some q => match resolve_prefix q env' with Some u => Some (Some u) | None => None end
            | None => Some (default_ns env')
            end) as [u|]; [|discriminate].
  destruct (omap (erase_attr env') ats) as [ias|] eqn:Ea; [|discriminate].
  destruct (omap (erase env') ks) as [iks|] eqn:Ek; [|discriminate].
  inversion He; subst xi; clear He.
  rewrite doc_ok_unfold in Hd. fold env' in Hd.
  apply andb_true_iff in Hd as [Hd Hdk]. apply andb_true_iff in Hd as [Hd Htr].
  apply andb_true_iff in Hd as [Hq Hn].
  rewrite ref_node_unfold in Hr. rewrite flags_node_unfold in Hf.
  rewrite decode_unfold. cbv zeta. fold env'.
  pose proof (is_nil_spec _ _ _ Ea Hn) as Hnil.
  pose proof (omap_length _ _ _ Ek) as Hlen.
  destruct (spec_nil ias) eqn:Esn.
  - (* xsi:nil *)
    destruct (nillable && match iks with [] => true | _ => false end &&
              match (match iks with [] => match txt with Some t => t | None => [] end
                                 | _ => if all_space (match txt with Some t => t | None => [] end) then []
                                        else match txt with Some t => t | None => [] end end) with
              | [] => true | _ => false end && forallb is_meta ias) eqn:Ec; [|discriminate].
    apply andb_true_iff in Ec as [Ec Hx]. apply andb_true_iff in Ec as [Ec Ht].
    apply andb_true_iff in Ec as [_ Hk].
    destruct iks; [|discriminate]. destruct ks; [|discriminate].
    destruct (actual_type S names uris dt ias) as [r|] eqn:Eat; [|discriminate].
    inversion Hr; subst v.
    destruct (known_spec _ _ _ _ _ _ Ea Hq Hdt Eat) as [_ [kn [Hkn Hreal]]].
    rewrite Hkn. cbn [dbind]. rewrite Hreal.
    destruct (add_attrs_all_xsi env' r _ _ [] Ea Hx) as [Hadd Hcnt].
    rewrite Hadd, Hcnt. cbn [kids_loop dbind]. rewrite Hnil.
    assert (Hht : has_text txt = false) by (destruct txt as [[|]|]; [reflexivity|discriminate Ht|reflexivity]).
    rewrite Hht. reflexivity.
  - destruct (actual_type S names uris dt ias) as [r|] eqn:Eat; [|discriminate].
    destruct (known_spec _ _ _ _ _ _ Ea Hq Hdt Eat) as [Hrok [kn [Hkn Hreal]]].
    rewrite Hkn. cbn [dbind]. rewrite Hreal. rewrite Hnil. cbn [orb andb].
    destruct r as [k|ct].
    + (* a leaf *)
      destruct iks; [|discriminate]. destruct ks; [|discriminate].
      destruct (forallb is_meta ias) eqn:Hx; [|discriminate].
      inversion Hr; subst v.
      destruct (add_attrs_all_xsi env' (RB k) _ _ [] Ea Hx) as [Hadd Hcnt].
      rewrite Hadd, Hcnt. cbn [kids_loop dbind].
      destruct txt as [[|c t]|]; try discriminate Hf.
      cbn [has_text negb andb Nat.eqb translate].
      rewrite (builtin_tags_match_statement_l _ Hrok). reflexivity.
    + destruct (simple_kind simple ct) as [sk|] eqn:Esk.
      { (* simple content *)
        destruct iks; [|discriminate]. destruct ks; [|discriminate].
        destruct (spec_attrs S names kinds ct ias []) as [acc0|] eqn:Esa; [|discriminate].
        rewrite (add_attrs_spec _ _ _ _ _ _ Ea Esa). cbn [kids_loop dbind].
        assert (Htag : spec_tag sk = tag_str).
        { unfold simple_kind in Esk.
          destruct (find (fun p => qn_eqb (fst p) (c_ns ct, c_name ct)) simple) as [pr|] eqn:Ef; [|discriminate].
          inversion Esk; subst sk. apply find_some in Ef as [Hin _].
          unfold simple_ok in Hsimple. rewrite forallb_forall in Hsimple. apply N.eqb_eq. exact (Hsimple _ Hin). }
        rewrite Htag, N.eqb_refl in Hf. cbn [app] in Hf.
        destruct txt as [[|c t]|]; try discriminate Hf.
        cbn [has_text negb andb].
        destruct (no_real_attrs ias) eqn:Enr.
        - destruct (add_attrs_all_xsi env' (RC ct) _ _ [] Ea Enr) as [Hadd Hcnt].
          rewrite (add_attrs_spec _ _ _ _ _ _ Ea Esa) in Hadd. subst acc0. rewrite Hcnt.
          cbn [Nat.eqb negb andb translate]. inversion Hr; subst v. now rewrite Htag.
        - pose proof (count_real_spec _ _ _ _ _ _ Ea Esa Enr) as Hcnt.
          pose proof (spec_attrs_nonempty _ _ _ _ Esa (or_intror Enr)) as Hne.
          destruct (count_real env' ats); [congruence|]. cbn [Nat.eqb negb andb].
          destruct acc0 as [|f0 fs]; [congruence|]. inversion Hr; subst v. now rewrite Htag. }
      (* an object *)
      destruct (negb (all_space _)) eqn:Esp; [discriminate|]. apply negb_false_iff in Esp.
      destruct (spec_attrs S names kinds ct ias []) as [acc0|] eqn:Esa; [|discriminate].
      destruct (ref_kids ct iks acc0) as [fields|] eqn:Erk; [|discriminate].
      inversion Hr; subst v.
      rewrite (add_attrs_spec _ _ _ _ _ _ Ea Esa).
      destruct ks as [|k0 ks0].
      * (* childless *)
        destruct iks; [|discriminate]. cbn in Erk. inversion Erk; subst fields.
        cbn [kids_loop dbind].
        destruct txt as [[|c t]|].
        -- destruct (no_real_attrs ias) eqn:Enr; [discriminate|].
           cbn [has_text negb andb]. rewrite andb_false_r.
           pose proof (spec_attrs_nonempty _ _ _ _ Esa (or_intror Enr)) as Hne.
           destruct acc0; [exfalso; now apply Hne|]. reflexivity.
        -- rewrite Esp in Hf. discriminate.
        -- destruct (no_real_attrs ias) eqn:Enr; [discriminate|].
           cbn [has_text negb andb]. rewrite andb_false_r.
           pose proof (spec_attrs_nonempty _ _ _ _ Esa (or_intror Enr)) as Hne.
           destruct acc0; [exfalso; now apply Hne|]. reflexivity.
      * (* with children *)
        destruct iks as [|ik0 iks0]; [discriminate|].
        assert (Hht : has_text txt = false).
        { unfold trimmed in Htr. apply negb_true_iff in Htr.
          destruct (has_text txt) eqn:Eh; [|reflexivity]. cbn [andb] in Htr.
          rewrite Htr in Esp. destruct txt as [[|c t]|]; try discriminate Eh.
          rewrite Htr in Esp. discriminate. }
        rewrite (kids_loop_ref env' ct Hrok _ _ acc0 [] fields HP Ek Hdk Hf); [|intros b []|exact Erk].
        cbn [dbind]. rewrite Hht. cbn [negb andb]. rewrite andb_false_r.
        assert (Hne : fields <> []) by (apply (ref_kids_nonempty _ _ _ _ Erk); right; discriminate).
        destruct fields; [exfalso; now apply Hne|]. reflexivity.
Qed.

Lemma decode_ref_l : forall e, P e.
Proof. apply elem_ind'. intros. now apply decode_ref_step. Qed.

End Decode.
