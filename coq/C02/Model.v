(* C02 — model of the reply direction of suds over the abstract interface of
   Fam/Schema.v: sax.parser.Handler (build), Element.promotePrefixes, prefix and
   default-namespace resolution, Binding.get_reply / replylist / replycomposite,
   Document.replycontent / returned_types, NodeResolver.find / known, the Typed
   unmarshaller (umx.core + umx.typed + umx.attrlist), following the Python
   control flow statement by statement INCLUDING its quirks.
   Definitions only; the executable reference (from the property text) is in
   C02/Spec.v. *)
From SV Require Import Lib.Base Fam.Schema Gen.C02Tables.

(* ------------------------------------------------------------------ *)
(* strings                                                             *)
(* ------------------------------------------------------------------ *)
Definition s_xmlns : str := [120;109;108;110;115]%N.
Definition s_xml : str := [120;109;108]%N.
Definition s_type : str := [116;121;112;101]%N.
Definition s_nil : str := [110;105;108]%N.
Definition s_true : str := [116;114;117;101]%N.
Definition s_Envelope : str := [69;110;118;101;108;111;112;101]%N.
Definition s_Body : str := [66;111;100;121]%N.
Definition s_value : str := [118;97;108;117;101]%N.
Definition s_id : str := [105;100]%N.
Definition s_w3 : str := [104;116;116;112;58;47;47;119;119;119;46;119;51;46;111;114;103]%N.  (* http://www.w3.org *)
Definition ch_us : N := 95%N.          (* "_" *)

(* str.strip() of Python 3: Unicode whitespace *)
Definition is_pyspace (c : N) : bool :=
  ((9 <=? c) && (c <=? 13) || (28 <=? c) && (c <=? 32) || (c =? 133) || (c =? 160) || (c =? 5760)
   || (8192 <=? c) && (c <=? 8202) || (c =? 8232) || (c =? 8233) || (c =? 8239) || (c =? 8287)
   || (c =? 12288))%N.

Fixpoint lstrip (s : str) : str :=
  match s with
  | c :: r => if is_pyspace c then lstrip r else s
  | [] => []
  end.
Definition strip (s : str) : str := rev (lstrip (rev (lstrip s))).

(* str.lower() on the ASCII range (enough for the comparison with "true") *)
Definition lower_c (c : N) : N := if ((65 <=? c) && (c <=? 90))%N then (c + 32)%N else c.
Definition lower (s : str) : str := map lower_c s.

Fixpoint starts_with (p s : str) : bool :=
  match p, s with
  | [], _ => true
  | a :: p', b :: s' => N.eqb a b && starts_with p' s'
  | _ :: _, [] => false
  end.

(* sax.splitPrefix: split at the FIRST colon *)
Fixpoint break_at (c : N) (s : str) : option (str * str) :=
  match s with
  | [] => None
  | x :: r => if N.eqb x c then Some ([], r)
              else match break_at c r with
                   | Some (a, b) => Some (x :: a, b)
                   | None => None
                   end
  end.
Definition split_colon (s : str) : option str * str :=
  match break_at ch_colon s with
  | Some (a, b) => (Some a, b)
  | None => (None, s)
  end.

(* dict keyed by strings, insertion ordered *)
Fixpoint sfind {A} (k : str) (l : list (str * A)) : option A :=
  match l with
  | [] => None
  | (k', v) :: r => if str_eqb k k' then Some v else sfind k r
  end.
Fixpoint sset {A} (k : str) (v : A) (l : list (str * A)) : list (str * A) :=
  match l with
  | [] => [(k, v)]
  | (k', v') :: r => if str_eqb k k' then (k', v) :: r else (k', v') :: sset k v r
  end.
Fixpoint sdel {A} (k : str) (l : list (str * A)) : list (str * A) :=
  match l with
  | [] => []
  | (k', v') :: r => if str_eqb k k' then r else (k', v') :: sdel k r
  end.

(* ------------------------------------------------------------------ *)
(* sax.parser.Handler: events -> Element tree                          *)
(* ------------------------------------------------------------------ *)
(* what the (non namespace-aware) XML parser hands to the ContentHandler *)
Inductive ritem :=
| RChars (s : str)
| RElem (qname : str) (attrs : list (str * str)) (content : list ritem).

Definition attr := (option str * str * str)%type.      (* prefix, name, value *)

Inductive elem :=
| EL (pfx : option str) (nm : str) (expns : option str) (decls : list (str * str))
     (attrs : list attr) (text : option str) (kids : list elem).

Definition e_pfx (e : elem) := match e with EL p _ _ _ _ _ _ => p end.
Definition e_nm (e : elem) := match e with EL _ n _ _ _ _ _ => n end.
Definition e_expns (e : elem) := match e with EL _ _ x _ _ _ _ => x end.
Definition e_decls (e : elem) := match e with EL _ _ _ d _ _ _ => d end.
Definition e_attrs (e : elem) := match e with EL _ _ _ _ a _ _ => a end.
Definition e_text (e : elem) := match e with EL _ _ _ _ _ t _ => t end.
Definition e_kids (e : elem) := match e with EL _ _ _ _ _ _ k => k end.

(* Handler.startElement + mapPrefix: xmlns="" is IGNORED (expns stays unset) *)
Fixpoint scan_attrs (l : list (str * str)) (x : option str) (d : list (str * str)) (a : list attr)
  : option str * list (str * str) * list attr :=
  match l with
  | [] => (x, d, a)
  | (n, v) :: l' =>
      let '(p, nm) := split_colon n in
      if str_eqb nm s_xmlns then scan_attrs l' (match v with [] => x | _ => Some v end) d a
      else if opt_eqb str_eqb p (Some s_xmlns) then scan_attrs l' x (sset nm v d) a
      else scan_attrs l' x d (a ++ [(p, nm, v)])
  end.

Fixpoint chunks_of (l : list ritem) : list str :=
  match l with
  | [] => []
  | RChars s :: l' => s :: chunks_of l'
  | RElem _ _ _ :: l' => chunks_of l'
  end.

(* Handler.characters / endElement: chunks joined; trimmed only when the
   element has children (`if current:` is len(children)) *)
Definition text_of (chunks : list str) (haskids : bool) : option str :=
  match chunks with
  | [] => None
  | _ => Some (if haskids then strip (concat chunks) else concat chunks)
  end.

Fixpoint build (it : ritem) : list elem :=
  match it with
  | RChars _ => []
  | RElem q ats content =>
      let kids := (fix go (l : list ritem) : list elem :=
                     match l with
                     | [] => []
                     | x :: l' => build x ++ go l'
                     end) content in
      let '(p, nm) := split_colon q in
      let '(x, d, a) := scan_attrs ats None [] [] in
      [EL p nm x d a (text_of (chunks_of content) (match kids with [] => false | _ => true end)) kids]
  end.

Definition has_text (t : option str) : bool := match t with Some (_ :: _) => true | _ => false end.

(* ------------------------------------------------------------------ *)
(* prefix / namespace resolution (Element.resolvePrefix, namespace,    *)
(* defaultNamespace; Attribute.namespace)                              *)
(* ------------------------------------------------------------------ *)
Definition frame := (option str * list (str * str))%type.     (* expns, nsprefixes; innermost first *)

Fixpoint resolve_prefix (p : str) (env : list frame) : option str :=
  match env with
  | [] => None
  | (_, d) :: up =>
      match sfind p d with
      | Some u => Some u
      | None => if str_eqb p s_xml then Some uri_xml else resolve_prefix p up
      end
  end.

Fixpoint default_ns (env : list frame) : option str :=
  match env with
  | [] => None
  | (Some u, _) :: _ => Some u
  | (None, _) :: up => default_ns up
  end.

Definition elem_ns (p : option str) (env : list frame) : option str :=
  match p with
  | None => default_ns env
  | Some q => resolve_prefix q env
  end.

Definition attr_ns (a : attr) (env : list frame) : option str :=
  match fst (fst a) with
  | None => None
  | Some q => resolve_prefix q env
  end.

Definition uri_is (u : option str) (v : str) : bool :=
  match u with Some s => str_eqb s v | None => false end.

(* Element.getAttribute(name, ns=xsins) + Element.get *)
Fixpoint find_xsi (env : list frame) (ats : list attr) (local : str) : option str :=
  match ats with
  | [] => None
  | a :: r => if str_eqb (snd (fst a)) local && uri_is (attr_ns a env) uri_xsi then Some (snd a)
              else find_xsi env r local
  end.

Definition s_one : str := [49%N].

(* Element.isnil: the lower-cased value is "true" or "1" (`one` = false is the
   counterfactual in which "1" is not recognised) *)
Definition is_nil (one : bool) (env : list frame) (ats : list attr) : bool :=
  match find_xsi env ats s_nil with
  | Some v => str_eqb (lower v) s_true || (one && str_eqb (lower v) s_one)
  | None => false
  end.

(* AttrList.skip *)
Definition is_skip_uri (u : str) : bool := existsb (str_eqb u) skip_uris.
Definition skip_attr (env : list frame) (a : attr) : bool :=
  match attr_ns a env with Some u => is_skip_uri u | None => false end.

(* ------------------------------------------------------------------ *)
(* Element.promotePrefixes                                             *)
(* ------------------------------------------------------------------ *)
(* the loop `for p, u in list(self.nsprefixes.items())` of one child whose
   parent has prefix pp and (current) declarations pd; returns the child's
   remaining declarations and the parent's *)
Fixpoint push_up (pp : option str) (own : list (str * str)) (pd : list (str * str))
  : list (str * str) * list (str * str) :=
  match own with
  | [] => ([], pd)
  | (p, u) :: r =>
      match sfind p pd with
      | Some pu =>
          let '(keep, pd') := push_up pp r pd in
          if str_eqb pu u then (keep, pd') else ((p, u) :: keep, pd')
      | None =>
          if negb (opt_eqb str_eqb (Some p) pp)
          then push_up pp r (pd ++ [(p, u)])
          else let '(keep, pd') := push_up pp r pd in ((p, u) :: keep, pd')
      end
  end.

(* promotePrefixes of the children of a node, then the node's declarations as
   they stand after the children pushed theirs up (the node's own push to ITS
   parent is done by the caller) *)
Fixpoint promote_node (e : elem) : elem :=
  match e with
  | EL p n x d a t ks =>
      let '(ks', d') :=
        (fix go (ks : list elem) (d : list (str * str)) : list elem * list (str * str) :=
           match ks with
           | [] => ([], d)
           | k :: r =>
               match promote_node k with
               | EL kp kn kx kd ka kt kks =>
                   let '(keep, d2) := push_up p kd d in
                   let '(r', d3) := go r d2 in
                   (EL kp kn kx keep ka kt kks :: r', d3)
               end
           end) ks d in
      EL p n x d' a t ks'
  end.

(* ------------------------------------------------------------------ *)
(* the schema as the unmarshaller sees it                              *)
(* ------------------------------------------------------------------ *)
Inductive fchild :=
| FE (d : edecl) (anc_opt : bool) (in_choice : bool)
| FAny (anc_opt : bool).

Fixpoint flat_p (anc ch : bool) (p : particle) : list fchild :=
  match p with
  | PE d => [FE d anc ch]
  | PAny => [FAny anc]
  | PC k opt kids =>
      (fix go (l : list particle) : list fchild :=
         match l with
         | [] => []
         | q :: l' => flat_p (anc || opt) (ch || match k with KChoice => true | _ => false end) q ++ go l'
         end) kids
  end.
Definition flat_content (ps : list particle) : list fchild := flat_map (flat_p false false) ps.

Fixpoint chain (S : schema) (fuel : nat) (t : ctype) : list ctype :=
  match fuel with
  | O => [t]
  | Datatypes.S f =>
      match c_base t with
      | Some b => match find_type S b with
                  | Some bt => chain S f bt ++ [t]
                  | None => [t]
                  end
      | None => [t]
      end
  end.
Definition chain_of (S : schema) (t : ctype) : list ctype := chain S (length S) t.
Definition flat_elems (S : schema) (t : ctype) : list fchild :=
  flat_map (fun c => flat_content (c_content c)) (chain_of S t).
Definition flat_attrs (S : schema) (t : ctype) : list adecl :=
  flat_map c_attrs (chain_of S t).

(* SchemaObject.get_child: first child that is a wildcard or has the name *)
Fixpoint get_child (n : name) (l : list fchild) : option fchild :=
  match l with
  | [] => None
  | c :: l' =>
      match c with
      | FAny _ => Some c
      | FE d _ _ => if N.eqb (e_name d) n then Some c else get_child n l'
      end
  end.
Fixpoint get_attribute (n : name) (l : list adecl) : option adecl :=
  match l with
  | [] => None
  | a :: l' => if N.eqb (a_name a) n then Some a else get_attribute n l'
  end.

(* a resolved type: an XSD built-in (position in the list of C02Tables) or a complex type *)
Inductive rtype := RB (k : N) | RC (t : ctype).

(* Python values, canonical *)
Inductive pyval :=
| PNone
| PLeaf (tag : N) (s : str)          (* int/bool/Decimal/float/date/time/datetime/str + canonical lexical text *)
| PList (l : list pyval)
| PObj (ty : option qn) (fields : list (str * pyval))    (* suds Object; ty = its schema type (None: the composite reply) *)
| PProp (nm : str) (fields : list (str * pyval))         (* Factory.property(node.name, text) *)
| PRaw.                                                 (* the sax Element itself (mixed content) *)

Inductive dres (A : Type) := DOk (a : A) | DTypeNotFound | DException | DOther.
Arguments DOk {A} a.
Arguments DTypeNotFound {A}.
Arguments DException {A}.
Arguments DOther {A}.

Definition dbind {A B} (r : dres A) (f : A -> dres B) : dres B :=
  match r with
  | DOk a => f a
  | DTypeNotFound => DTypeNotFound
  | DException => DException
  | DOther => DOther
  end.

Definition is_pnone (v : pyval) : bool := match v with PNone => true | _ => false end.

Fixpoint assoc_N (k : N) (l : list (N * N)) : option N :=
  match l with
  | [] => None
  | (k', v) :: r => if N.eqb k k' then Some v else assoc_N k r
  end.

Definition tag_of_kind (k : N) : N := nth (N.to_nat k) builtin_tags 99%N.

(* umx.core.reserved *)
Definition reserved (s : str) : str := match sfind s reserved_words with Some r => r | None => s end.

Section Decode.
Variable S : schema.
Variable names : list (str * N).       (* local names -> ids used by the schema literal *)
Variable uris : list (str * N).        (* namespace URIs -> nsid *)
Variable kinds : list (N * N).         (* element / attribute name id -> built-in position *)
Variable globals : list (qn * qn).     (* global elements: name -> type *)
(* counterfactual switches, used ONLY to attribute a disagreement with the
   reference to a known quirk or regression; the model of the code is the instance
   strict_qname = false, do_promote = true, nil_one = true *)
Variable strict_qname : bool.          (* true: unprefixed QName -> default namespace (not the code) *)
Variable do_promote : bool.            (* false: skip promotePrefixes (not the code) *)
Variable nil_one : bool.               (* false: xsi:nil="1" is not recognised (not the code) *)

Definition nid (s : str) : N := match sfind s names with Some n => n | None => 0%N end.
Definition uid (u : option str) : N :=
  match u with
  | None => 0%N
  | Some s => match sfind s uris with Some n => n | None => 999%N end
  end.
Definition kind_of (n : N) : N := match assoc_N n kinds with Some k => k | None => 0%N end.

Definition resolve_tref (nm : N) (t : tref) : option rtype :=
  match t with
  | TBuiltin => Some (RB (kind_of nm))
  | TNamed ns n => match find_type S (ns, n) with Some ct => Some (RC ct) | None => None end
  end.

(* BlindQuery((local, uri)): built-ins, then global elements, then types *)
Definition query (local : str) (u : option str) : option rtype :=
  match (match u with
         | Some us => if starts_with s_w3 us then sfind local builtin_names else None
         | None => None
         end) with
  | Some k => Some (RB k)
  | None =>
      let q := (uid u, nid local) in
      match find (fun g => qn_eqb (fst g) q) globals with
      | Some g => match find_type S (snd g) with Some ct => Some (RC ct) | None => None end
      | None => match find_type S q with Some ct => Some (RC ct) | None => None end
      end
  end.

(* NodeResolver.known: @xsi:type through qualify(ref, node, node.namespace()) —
   an unprefixed value is qualified with the ELEMENT's namespace *)
Definition known (env : list frame) (p : option str) (ats : list attr) : dres (option rtype) :=
  match find_xsi env ats s_type with
  | None => DOk None
  | Some ref =>
      match split_colon ref with
      | (Some q, n) => match resolve_prefix q env with
                       | None => DException
                       | Some u => DOk (query n (Some u))
                       end
      | (None, n) => DOk (query n (if strict_qname then default_ns env else elem_ns p env))
      end
  end.

(* Typed.append_attribute + Core.append_attribute *)
Definition attr_value (real : rtype) (a : attr) : pyval :=
  match real with
  | RC ct => match get_attribute (nid (snd (fst a))) (flat_attrs S ct) with
             | Some ad => PLeaf (tag_of_kind (kind_of (a_name ad))) (snd a)
             | None => PLeaf tag_str (snd a)
             end
  | RB _ => PLeaf tag_str (snd a)
  end.
Definition attr_key (a : attr) : str := ch_us :: reserved (snd (fst a)).

Fixpoint add_attrs (env : list frame) (real : rtype) (ats : list attr) (data : list (str * pyval))
  : list (str * pyval) :=
  match ats with
  | [] => data
  | a :: r => add_attrs env real r (if skip_attr env a then data else sset (attr_key a) (attr_value real a) data)
  end.

Fixpoint count_real (env : list frame) (ats : list attr) : nat :=
  match ats with
  | [] => O
  | a :: r => if skip_attr env a then count_real env r else Datatypes.S (count_real env r)
  end.

(* Core.append_children: how one decoded child is stored *)
Definition store_child (key : str) (multi : bool) (cval : pyval) (data : list (str * pyval))
  : list (str * pyval) :=
  match sfind key data with
  | Some (PList l) => sset key (PList (l ++ [cval])) data
  | Some v => sset key (PList [v; cval]) data
  | None => sset key (if multi then (if is_pnone cval then PList [] else PList [cval]) else cval) data
  end.

Definition type_id (r : rtype) : qn :=
  match r with
  | RC ct => (c_ns ct, c_name ct)
  | RB k => (ns_xsd, (1000 + k)%N)
  end.

Definition translate (real : rtype) (s : str) : pyval :=
  match real with
  | RB k => PLeaf (tag_of_kind k) s
  | RC _ => PLeaf tag_str s
  end.

(* Typed.nillable: content.type.nillable or (resolved.builtin() and resolved.nillable);
   XBuiltin.nillable is True for every built-in except XAny (xsd:anyType) *)
Definition builtin_nillable (k : N) : bool := negb (N.eqb k b_anyType).
Definition decl_nillable (d : edecl) : bool :=
  e_nil d || match e_type d with TBuiltin => builtin_nillable (kind_of (e_name d)) | TNamed _ _ => false end.

(* Core.append: start, append_attributes, append_children, append_text, end, postprocess.
   decl = the type the content was looked up as (None: not in the schema);
   cnil = content.type.nillable *)
Fixpoint decode (env : list frame) (decl : option rtype) (cnil : bool) (e : elem) {struct e} : dres pyval :=
  match e with
  | EL p nm x d ats txt ks =>
      let env' := (x, d) :: env in
      dbind (known env' p ats) (fun kn =>
      match (match kn with Some r => Some r | None => decl end) with
      | None => DOther
      | Some real =>
          let data0 := add_attrs env' real ats [] in
          let elems := match real with RC ct => flat_elems S ct | RB _ => [] end in
          dbind
            ((fix go (ks : list elem) (data : list (str * pyval)) : dres (list (str * pyval)) :=
                match ks with
                | [] => DOk data
                | k :: r =>
                    match get_child (nid (e_nm k)) elems with
                    | None =>
                        (* NodeResolver.find evaluates known(node) before giving up *)
                        dbind (known ((e_expns k, e_decls k) :: env') (e_pfx k) (e_attrs k))
                              (fun _ => DTypeNotFound)
                    | Some (FAny _) => DOther
                    | Some (FE dc _ _) =>
                        dbind (decode env' (resolve_tref (e_name dc) (e_type dc)) (decl_nillable dc) k) (fun cval =>
                        go r (store_child (reserved (e_nm k)) (e_multi dc) cval data))
                    end
                end) ks data0)
            (fun data =>
               let ht := has_text txt in
               let nokids := match ks with [] => true | _ => false end in
               if negb nokids && ht then DOk PRaw
               else if negb (Nat.eqb (count_real env' ats) 0) && nokids && ht
               then DOk (PProp nm ((s_value, PLeaf tag_str (match txt with Some t => t | None => [] end)) :: data))
               else match data with
                    | _ :: _ => DOk (PObj (Some (type_id real)) data)
                    | [] =>
                        if is_nil nil_one env' ats then DOk PNone
                        else if ht then DOk (translate real (match txt with Some t => t | None => [] end))
                        else if nokids then DOk (if cnil then PNone else PLeaf tag_str [])
                        else DOk PNone
                    end)
      end)
  end.

(* ------------------------------------------------------------------ *)
(* Binding.get_reply                                                   *)
(* ------------------------------------------------------------------ *)
Definition el_match (env : list frame) (e : elem) (name uri : str) : bool :=
  str_eqb (e_nm e) name && uri_is (elem_ns (e_pfx e) ((e_expns e, e_decls e) :: env)) uri.

(* Element.getChild(name, ns) *)
Definition get_kid (env : list frame) (ks : list elem) (name uri : str) : option elem :=
  find (fun k => el_match env k name uri) ks.

(* one entry of returned_types *)
Inductive rentry := RE (d : edecl) | RA (a : adecl) | RAny.
Definition re_name (r : rentry) : N :=
  match r with RE d => e_name d | RA a => a_name a | RAny => 0%N end.

(* Document.returned_types for a wrapped output: EVERY child of the wrapper's
   type, attributes included (Iter order: per chain member, content then attributes) *)
Definition returned_types (wt : ctype) : list rentry :=
  flat_map (fun c => map (fun f => match f with FE d _ _ => RE d | FAny _ => RAny end)
                         (flat_content (c_content c)) ++ map RA (c_attrs c))
           (chain_of S wt).

(* unmarshaller.process(node, rt.resolve(nobuiltin=True)) *)
Definition process_top (env : list frame) (d : edecl) (n : elem) : dres pyval :=
  let r := resolve_tref (e_name d) (e_type d) in
  decode env r (match r with Some (RB k) => builtin_nillable k | _ => false end) n.

Fixpoint rfind_entry (n : N) (l : list rentry) (acc : option rentry) : option rentry :=
  match l with
  | [] => acc
  | r :: l' => rfind_entry n l' (if N.eqb (re_name r) n then Some r else acc)
  end.

Definition has_id (ats : list attr) : bool :=
  existsb (fun a => str_eqb (snd (fst a)) s_id) ats.

Fixpoint composite (env : list frame) (rts : list rentry) (nodes : list elem) (data : list (str * pyval))
  : dres pyval :=
  match nodes with
  | [] => DOk (PObj None data)
  | n :: r =>
      match rfind_entry (nid (e_nm n)) rts None with
      | None => if has_id (e_attrs n) then composite env rts r data else DException
      | Some (RE d) =>
          dbind (process_top env d n) (fun v =>
          composite env rts r
            (match sfind (e_nm n) data with
             | None | Some PNone => sset (e_nm n) (if e_multi d then PList [v] else v) data
             | Some (PList l) => sset (e_nm n) (PList (l ++ [v])) data
             | Some w => sset (e_nm n) (PList [w; v]) data
             end))
      | Some _ => DOther
      end
  end.

Fixpoint dmap {A B} (f : A -> dres B) (l : list A) : dres (list B) :=
  match l with
  | [] => DOk []
  | x :: r => dbind (f x) (fun y => dbind (dmap f r) (fun ys => DOk (y :: ys)))
  end.

Definition frame_of (e : elem) : frame := (e_expns e, e_decls e).

(* the binding style of the operation's output, with what returned_types yields:
   document/literal wrapped (the wrapper element's type), document/literal bare
   (the global elements the message parts name), rpc/literal (one PartElement per
   message part, named like the part, unqualified) *)
Inductive style :=
| SWrapped (wt : ctype)
| SBare (parts : list edecl)
| SRpc (parts : list edecl).

(* Binding.get_reply after the nodes are selected: none / one / many returned types *)
Definition outputs (env : list frame) (rts : list rentry) (nodes : list elem) : dres pyval :=
  match rts with
  | [] => DOk PNone
  | [RE d] =>
      if e_multi d then dbind (dmap (process_top env d) nodes) (fun l => DOk (PList l))
      else match nodes with
           | [] => DOk PNone
           | n :: _ => process_top env d n
           end
  | [_] => DOther
  | _ => composite env rts nodes []
  end.

(* root = the document element as built by Handler.
   Document.replycontent: body[0].children when wrapped, body.children when bare;
   RPC.replycontent: body[0].children *)
Definition get_reply (st : style) (root : elem) : dres pyval :=
  if negb (el_match [] root s_Envelope uri_env11 || el_match [] root s_Envelope uri_env12) then DOther else
  let envl := if do_promote then promote_node root else root in
  let fe := [frame_of envl] in
  match (match get_kid fe (e_kids envl) s_Body uri_env11 with
         | Some b => Some b
         | None => get_kid fe (e_kids envl) s_Body uri_env12
         end) with
  | None => DOther
  | Some body =>
      match st with
      | SBare parts => outputs (frame_of body :: fe) (map RE parts) (e_kids body)
      | SWrapped wt =>
          match e_kids body with
          | [] => DOther                                  (* body[0] is None *)
          | w :: _ => outputs (frame_of w :: frame_of body :: fe) (returned_types wt) (e_kids w)
          end
      | SRpc parts =>
          match e_kids body with
          | [] => DOther
          | w :: _ => outputs (frame_of w :: frame_of body :: fe) (map RE parts) (e_kids w)
          end
      end
  end.

Definition reply (st : style) (doc : ritem) : dres pyval :=
  match build doc with
  | [root] => get_reply st root
  | _ => DOther
  end.

End Decode.
