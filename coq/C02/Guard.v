(* C02 — the explicit boolean guards under which the decoder model provably
   meets the reference.  Each guard excludes one named way in which the
   unchanged code (kept in the model) departs from the property; the harness
   evaluates the same booleans.  Definitions only. *)
From SV Require Import Lib.Base Fam.Schema Gen.C02Tables C02.Model C02.Spec.

(* ---- the schema: member names of a type are distinct, no wildcard ---- *)
Fixpoint fnames_ok (l : list fchild) (seen : list N) : bool :=
  match l with
  | [] => true
  | FAny _ :: _ => false
  | FE d _ _ :: r => negb (existsb (N.eqb (e_name d)) seen) && fnames_ok r (e_name d :: seen)
  end.
Definition schema_ok (S : schema) : bool := forallb (fun ct => fnames_ok (flat_elems S ct) []) S.

(* no name of the interface is one the unmarshaller renames (class, def) *)
Definition names_ok (names : list (str * N)) : bool :=
  forallb (fun p => match sfind (fst p) reserved_words with None => true | Some _ => false end) names.

(* built-in positions are inside the table *)
Definition kinds_ok (kinds : list (N * N)) : bool := forallb (fun p => N.ltb (snd p) 46) kinds.

(* no global element is named like a type (BlindQuery looks at elements first) *)
Definition globals_ok (S : schema) (globals : list (qn * qn)) : bool :=
  forallb (fun g => match find_type S (fst g) with None => true | Some _ => false end) globals.

(* ---- the presentation ---- *)
Definition uri_plain (u : option str) : bool :=
  match u with
  | Some us => str_eqb us uri_xsd || negb (starts_with s_w3 us)
  | None => true
  end.

(* xsi:type values: an unprefixed one only where the element's own namespace
   IS the default namespace [C02:unprefixed-qname-default-namespace]; type
   namespaces other than XMLSchema are not under http://www.w3.org *)
Definition qname_ok (env : list frame) (p : option str) (ats : list attr) : bool :=
  match find_xsi env ats s_type with
  | None => true
  | Some ref =>
      match split_colon ref with
      | (None, _) => ostr_eqb (elem_ns p env) (default_ns env) && uri_plain (default_ns env)
      | (Some q, _) => uri_plain (resolve_prefix q env)
      end
  end.

(* xsi:nil is spelled true / false / 0 [proposed C02:xsi-nil-spelled-1] *)
Definition nil_ok (env : list frame) (ats : list attr) : bool :=
  match find_xsi env ats s_nil with
  | None => true
  | Some v => str_eqb v s_true || (negb (str_eqb (lower v) s_true) && negb (str_eqb v s_one))
  end.

(* what Handler.endElement guarantees: an element with children has no
   whitespace-only text left *)
Definition trimmed (txt : option str) (ks : list elem) : bool :=
  match ks with
  | [] => true
  | _ => negb (has_text txt && all_space (match txt with Some t => t | None => [] end))
  end.

Fixpoint doc_ok (env : list frame) (e : elem) {struct e} : bool :=
  match e with
  | EL p nm x d ats txt ks =>
      let env' := (x, d) :: env in
      qname_ok env' p ats && nil_ok env' ats && trimmed txt ks &&
      (fix go (l : list elem) : bool :=
         match l with
         | [] => true
         | k :: r => doc_ok env' k && go r
         end) ks
  end.

(* every prefix is bound to at most one namespace in the whole document
   [C02:prefix-rebinding-capture] *)
Fixpoint all_decls (e : elem) {struct e} : list (str * str) :=
  match e with
  | EL _ _ _ d _ _ ks =>
      d ++ (fix go (l : list elem) : list (str * str) :=
              match l with
              | [] => []
              | k :: r => all_decls k ++ go r
              end) ks
  end.

Definition functional_b (l : list (str * str)) : bool :=
  forallb (fun a => forallb (fun b => negb (str_eqb (fst a) (fst b)) || str_eqb (snd a) (snd b)) l) l.

Definition consistent (e : elem) : bool := functional_b (all_decls e).
