(* C02 — the explicit boolean guards under which the decoder model provably
   meets the reference.  Each guard excludes one named way in which the
   unchanged code (kept in the model) departs from the property; the harness
   evaluates the same booleans.  Definitions only. *)
From SV Require Import Lib.Base Fam.Schema Gen.C02Tables C02.Model C02.Spec.

(* ---- the schema: member names of a type are distinct, no wildcard ---- *)
Fixpoint fnames_ok (l : list fchild) (seen : list N) : bool :=
  match l with
  | [] => true
  | FAny _ :: _ => false
  | FE d _ _ :: r => negb (existsb (N.eqb (e_name d)) seen) && fnames_ok r (e_name d :: seen)
  end.
Definition schema_ok (S : schema) : bool := forallb (fun ct => fnames_ok (flat_elems S ct) []) S.

(* the outputs of a wrapped operation (returned_types: members AND attributes of
   the wrapper's type) have distinct names, no wildcard *)
Fixpoint rnames_ok (l : list rentry) (seen : list N) : bool :=
  match l with
  | [] => true
  | RAny :: _ => false
  | r :: l' => negb (existsb (N.eqb (re_name r)) seen) && rnames_ok l' (re_name r :: seen)
  end.

(* the outputs of the operation, whatever its binding style *)
Definition style_ok (S : schema) (st : style) : bool :=
  match st with
  | SWrapped wt => fnames_ok (flat_elems S wt) [] && rnames_ok (returned_types S wt) []
  | SBare ps => rnames_ok (map RE ps) []
  | SRpc ps => rnames_ok (map RE ps) []
  end.

(* simple-content types extend a built-in whose Python type is str: the code
   does not translate the text of an element of complex type at all
   [C02:simple-content-value-untyped] *)
Definition simple_ok (simple : list (qn * N)) : bool :=
  forallb (fun p => N.eqb (spec_tag (snd p)) tag_str) simple.

(* no name of the interface is one the unmarshaller renames (class, def) *)
Definition names_ok (names : list (str * N)) : bool :=
  forallb (fun p => match sfind (fst p) reserved_words with None => true | Some _ => false end) names.

(* built-in positions are inside the table *)
Definition kinds_ok (kinds : list (N * N)) : bool := forallb (fun p => N.ltb (snd p) 46) kinds.

(* no global element is named like a type (BlindQuery looks at elements first) *)
Definition globals_ok (S : schema) (globals : list (qn * qn)) : bool :=
  forallb (fun g => match find_type S (fst g) with None => true | Some _ => false end) globals.

(* ---- the presentation ---- *)
Definition uri_plain (u : option str) : bool :=
  match u with
  | Some us => str_eqb us uri_xsd || negb (starts_with s_w3 us)
  | None => true
  end.

(* xsi:type values: an unprefixed one only where the element's own namespace
   IS the default namespace [C02:unprefixed-qname-default-namespace]; type
   namespaces other than XMLSchema are not under http://www.w3.org *)
Definition qname_ok (env : list frame) (p : option str) (ats : list attr) : bool :=
  match find_xsi env ats s_type with
  | None => true
  | Some ref =>
      match split_colon ref with
      | (None, _) => ostr_eqb (elem_ns p env) (default_ns env) && uri_plain (default_ns env)
      | (Some q, _) => uri_plain (resolve_prefix q env)
      end
  end.

(* xsi:nil is spelled as XML Schema spells booleans: the code lower-cases the
   value first, so "TRUE" (not a valid xsd:boolean) would also count as nil *)
Definition nil_ok (env : list frame) (ats : list attr) : bool :=
  match find_xsi env ats s_nil with
  | None => true
  | Some v => str_eqb v s_true || str_eqb v s_one || negb (str_eqb (lower v) s_true)
  end.

(* what Handler.endElement guarantees: an element with children has no
   whitespace-only text left *)
Definition trimmed (txt : option str) (ks : list elem) : bool :=
  match ks with
  | [] => true
  | _ => negb (has_text txt && all_space (match txt with Some t => t | None => [] end))
  end.

Fixpoint doc_ok (env : list frame) (e : elem) {struct e} : bool :=
  match e with
  | EL p nm x d ats txt ks =>
      let env' := (x, d) :: env in
      qname_ok env' p ats && nil_ok env' ats && trimmed txt ks &&
      (fix go (l : list elem) : bool :=
         match l with
         | [] => true
         | k :: r => doc_ok env' k && go r
         end) ks
  end.

(* every prefix is bound to at most one namespace in the whole document
   [C02:prefix-rebinding-capture] *)
Fixpoint all_decls (e : elem) {struct e} : list (str * str) :=
  match e with
  | EL _ _ _ d _ _ ks =>
      d ++ (fix go (l : list elem) : list (str * str) :=
              match l with
              | [] => []
              | k :: r => all_decls k ++ go r
              end) ks
  end.

Definition functional_b (l : list (str * str)) : bool :=
  forallb (fun a => forallb (fun b => negb (str_eqb (fst a) (fst b)) || str_eqb (snd a) (snd b)) l) l.

Definition consistent (e : elem) : bool := functional_b (all_decls e).

(* the reserved prefix xml is not re-declared *)
Definition no_xml_decl (e : elem) : bool :=
  forallb (fun d => negb (str_eqb (fst d) s_xml)) (all_decls e).

(* children of the Envelope that are called Body are in the Envelope's namespace *)
Definition bodies_ok (x : inode) : bool :=
  forallb (fun k => negb (str_eqb (i_nm k) s_Body) || ostr_eqb (i_u k) (i_u x)) (i_kids x).

(* ---- all the guards of the whole-reply theorem, on one harness case ---- *)
Definition case_guard (c : case) : bool :=
  match case_style c, build (c_raw c) with
  | Some st, [root] =>
      schema_ok (c_schema c) && names_ok (c_names c) && kinds_ok (c_kinds c) &&
      globals_ok (c_schema c) (c_globals c) && simple_ok (c_simple c) &&
      style_ok (c_schema c) st &&
      match erase [] root with
      | Some x =>
          consistent root && no_xml_decl root && doc_ok [] (promote_node root) && bodies_ok x &&
          match flags_reply (c_schema c) (c_names c) (c_uris c) (c_kinds c) (c_simple c) st x with
          | [] => true
          | _ => false
          end &&
          match ref_reply (c_schema c) (c_names c) (c_uris c) (c_kinds c) (c_simple c) (c_wq c) st x with
          | Some _ => true
          | None => false
          end
      | None => false
      end
  | _, _ => false
  end.

(* the instance of the theorem on one case: inside the guard, the model returns
   exactly the reference value of the document's (Coq-computed) infoset *)
Definition theorem_instance (c : case) : bool :=
  negb (case_guard c) ||
  match case_style c, build (c_raw c) with
  | Some st, [root] =>
      match erase [] root with
      | Some x =>
          match ref_reply (c_schema c) (c_names c) (c_uris c) (c_kinds c) (c_simple c) (c_wq c) st x,
                model_reply c with
          | Some v, DOk v' => pyval_eqb v v' && pyval_eqb v' v
          | _, _ => false
          end
      | None => false
      end
  | _, _ => false
  end.
