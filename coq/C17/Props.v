(* C17 — SOAP headers and security tokens are sent as configured, every time.
   Property theorems only (model and reference: C17/Headers.v; proofs:
   C17/Proofs.v; one entry is marshalled by C01's marshaller, whose theorem
   marshal_conforms is reused; dateTime texts are C06's, datetime_roundtrip).

   Statement: for EVERY schema, declared header parts (any number), soapheaders
   value and WS-Security object, the Header holds the Security element plus
   exactly the reference entries  ref_headers.  The boolean guard guard_C17
   only asks that the values fit their schema (None, the empty list and lists
   of fitting items included), that the items of a list-valued entry are not
   lists themselves (mkheader maps itself over the items, headercontent's add
   looks one level deep) and that the ready-made elements exist.

   History: before the repairs 02a92ff, dfdc017 and c4ebdf6 the statement was
   false in four reproduced ways, and the guard had to exclude them: a
   list-valued entry raised AttributeError; a ready-made element after more
   plain values than declared parts was dropped; a positional None sent an
   empty element or, for a part declared with type=, raised AttributeError.
   The old function is kept (headercontent_q, one switch per defect); the
   *_regression theorems below show, on the witness of each former defect, what
   the old function did and what the current one does. *)
From SV Require Import Lib.Base Fam.Schema C01.Marshal C01.Guard C01.MarshalProofs
  C06.DateTime C17.Headers C17.Proofs.

(* 1. what headercontent returns: the Security element (if any) and then
      exactly the configured entries — marshalled per their schema, one element
      per item for a list-valued entry, declared parts without a value (absent,
      or None in either form) omitted, ready-made elements verbatim and in
      order (also after surplus plain values, which are dropped) — for any
      number of declared parts and any soapheaders length *)
Theorem headers_as_configured : forall S xstq (st : store) pts wsse sh,
  guard_C17 S (length st) pts sh = true ->
  exists entries,
    ref_headers S xstq (map ce_tree st) pts sh = Some entries /\
    headercontent S xstq st pts wsse sh =
      hbind (sec_content wsse) (fun c0 => HOk (fst c0 ++ map RFresh entries, snd c0)).
Proof. exact headers_as_configured_l. Qed.
Print Assumptions headers_as_configured.

(* ... and what ends up under the Header element of message m *)
Theorem sent_as_configured : forall g m st sec stamps,
  guard_C17 (g_schema g) (length st) (g_pts g) (g_sh g) = true ->
  sec_content (g_wsse g) = HOk (map RFresh sec, stamps) ->
  exists entries,
    ref_headers (g_schema g) (g_xstq g) (map ce_tree st) (g_pts g) (g_sh g) = Some entries /\
    send g m st = (HOk (sec ++ entries, stamps), st).
Proof. exact sent_as_configured_l. Qed.
Print Assumptions sent_as_configured.

(* each element added for an entry (every item of a list-valued one) is named
   and qualified by the part's own declaration *)
Theorem entries_named_and_qualified_by_their_declaration : forall S xstq d v ns,
  entry_ok S d v = true -> add_entry S xstq d v = HOk ns ->
  Forall (fun n => xname n = e_name d /\ xnsid n = elem_ns d) ns.
Proof. exact entry_named_l. Qed.
Print Assumptions entries_named_and_qualified_by_their_declaration.

(* 1a. a list-valued entry (positional or dict value) adds, in order, what
       each of its items adds on its own, which is what the reference
       prescribes for that item ... *)
Theorem list_entry_one_element_per_item : forall S xstq d l,
  entry_ok S d (VList l) = true ->
  exists per_item,
    Forall2 (fun x ns => ref_elem S xstq d false x = Some ns /\ add_entry S xstq d x = HOk ns) l per_item /\
    add_entry S xstq d (VList l) = HOk (concat per_item) /\
    ref_elem S xstq d false (VList l) = Some (concat per_item).
Proof. exact list_entry_per_item_l. Qed.
Print Assumptions list_entry_one_element_per_item.

(* ... and a plain item (text or object) adds exactly one element *)
Theorem plain_value_one_element : forall S xstq d v,
  conforming S d v = true -> is_list v = false -> is_none v = false ->
  exists n, ref_elem S xstq d false v = Some [n] /\ add_entry S xstq d v = HOk [n] /\
            xname n = e_name d /\ xnsid n = elem_ns d.
Proof. exact plain_value_one_element_l. Qed.
Print Assumptions plain_value_one_element.

(* 1b. a positional None uses up its declared part and sends nothing for it:
       the rest is matched against the remaining parts (no guard) *)
Theorem positional_none_leaves_part_out : forall S xstq st d pts wsse hs,
  headercontent S xstq st (d :: pts) wsse (SHSeq (HVal VNone :: hs)) =
  headercontent S xstq st pts wsse (SHSeq hs).
Proof. exact positional_none_leaves_part_out_l. Qed.
Print Assumptions positional_none_leaves_part_out.

(* 1c. once the declared parts are used up, plain values add nothing and the
       ready-made elements that follow are still copied, in order (no guard
       on the values) *)
Theorem surplus_values_skipped_elements_kept : forall S xstq st pts hs,
  elems_in_store st hs = true ->
  seq_loop S xstq st pts (length pts) hs = HOk (map RFresh (elems_of st hs)).
Proof. exact surplus_values_skipped_elements_kept_l. Qed.
Print Assumptions surplus_values_skipped_elements_kept.

(* 1d. a ready-made Element given as the VALUE of a declared part (dict form)
       is sent as it is, in the part's position (it goes through the marshaller,
       which wraps it: the caller's object is covered by theorem 2, no guard) *)
Theorem element_value_sent_verbatim : forall S xstq st d pts dict i ce,
  dict_get (e_name d) dict = Some (HElem i) -> nth_error st i = Some ce ->
  dict_loop S xstq st (d :: pts) dict =
    hbind (dict_loop S xstq st pts dict) (fun r => HOk (RFresh (ce_tree ce) :: r)).
Proof. exact element_value_sent_verbatim_l. Qed.
Print Assumptions element_value_sent_verbatim.

(* 1e. the declared parts a request is built from are the soap:header children
       of the operation's wsdl:input, in document order; those of wsdl:output
       are the reply's and never reach the request *)
Theorem request_parts_are_the_input_side : forall ins outs,
  headpart_types (add_operation ins outs) true = ins /\
  headpart_types (add_operation ins outs) false = outs.
Proof. exact request_parts_are_the_input_side_l. Qed.
Print Assumptions request_parts_are_the_input_side.

Theorem reply_header_parts_not_in_request : forall S xstq ins outs wsse sh m st,
  send (mkCfg S xstq (request_parts ins outs) wsse sh) m st = send (mkCfg S xstq ins wsse sh) m st.
Proof. exact reply_header_parts_not_in_request_l. Qed.
Print Assumptions reply_header_parts_not_in_request.

(* 2. the caller's header objects: whatever the configuration (no guard), the
      store of caller elements is the same after the call, content and parent *)
Theorem caller_objects_untouched : forall g m st, snd (send g m st) = st.
Proof. exact caller_objects_untouched_l. Qed.
Print Assumptions caller_objects_untouched.

(* 3. repeating: any number of calls with the same configuration and objects
      (no guard) all send what the first one sent, errors included, and leave
      the objects as they were *)
Theorem repeat_same : forall g ms st,
  send_all g ms st = (map (fun _ => fst (send g 0 st)) ms, st).
Proof. exact repeat_same_l. Qed.
Print Assumptions repeat_same.

(* 4. WS-Security: a configured object adds exactly one element, in front of
      what the same configuration sends without it; it is wsse:Security and
      carries every token's username, password or digest, nonce (+encoding
      type) and creation/expiry times (token checker security_ok) *)
Theorem wsse_one_security : forall S xstq st pts s sh x stamps,
  sec_valid s = true -> sec_xml s = HOk (x, stamps) ->
  headercontent S xstq st pts (Some s) sh =
    hbind (headercontent S xstq st pts None sh) (fun r => HOk (RFresh x :: fst r, stamps)) /\
  is_security x = true /\ security_ok dt_reads_back s x stamps = true.
Proof. exact wsse_one_security_l. Qed.
Print Assumptions wsse_one_security.

(* 5. every timestamp text is the isoformat text of the token's own datetime
      and reads back (C06 parser: hence lexically a dateTime) as the same date,
      time of day and UTC offset *)
Theorem wsse_timestamps_lexical : forall s x stamps,
  sec_valid s = true -> sec_xml s = HOk (x, stamps) ->
  Forall2 stamp_lexical (sec_dts s) stamps.
Proof. exact wsse_timestamps_lexical_l. Qed.
Print Assumptions wsse_timestamps_lexical.

(* ---- regression witnesses: the four former defects ---- *)
(* the old function with every switch off is the current one *)
Theorem repaired_is_current : forall S xstq st pts wsse sh,
  headercontent_q S xstq st repaired pts wsse sh = headercontent S xstq st pts wsse sh.
Proof. exact repaired_is_current_l. Qed.
Print Assumptions repaired_is_current.

Local Open Scope N_scope.
Definition ex_H : edecl := mkE 30 1 true TBuiltin false false false None.          (* a global element *)
Definition ex_P : edecl := mkE 31 0 false TBuiltin true false false None.          (* a part declared with type= *)
Definition ex_x : xnode := XN 9 50 [(0, 51, AText 52)] (Some 53) [].               (* a ready-made element *)

(* (a) a list-valued entry: two elements are prescribed and sent; the old
       function raised AttributeError *)
Theorem list_header_regression : exists S xstq st pts sh entries,
  ref_headers S xstq (map ce_tree st) pts sh = Some entries /\ length entries = 2%nat /\
  headercontent S xstq st pts None sh = HOk (map RFresh entries, []) /\
  headercontent_q S xstq st (mkQ true false false false) pts None sh = HErr EAttr /\
  headercontent_q S xstq st before_repairs pts None sh = HErr EAttr.
Proof.
  exists [], true, [], [ex_H], (SHSeq [HVal (VList [VText 40; VText 41])]),
         [XN 1 30 [] (Some 40) []; XN 1 30 [] (Some 41) []].
  repeat split; reflexivity.
Qed.
Print Assumptions list_header_regression.

(* (b) a ready-made element after more plain values than declared parts is
       sent; the old function dropped it *)
Theorem surplus_then_element_regression : exists S xstq st pts sh,
  ref_headers S xstq (map ce_tree st) pts sh = Some [XN 1 30 [] (Some 40) []; ex_x] /\
  headercontent S xstq st pts None sh = HOk ([RFresh (XN 1 30 [] (Some 40) []); RFresh ex_x], []) /\
  headercontent_q S xstq st (mkQ false false true false) pts None sh = HOk ([RFresh (XN 1 30 [] (Some 40) [])], []) /\
  headercontent_q S xstq st before_repairs pts None sh = HOk ([RFresh (XN 1 30 [] (Some 40) [])], []).
Proof.
  exists [], true, [mkCE ex_x None], [ex_H], (SHSeq [HVal (VText 40); HVal (VText 41); HElem 0]).
  repeat split; reflexivity.
Qed.
Print Assumptions surplus_then_element_regression.

(* (c) a positional None: the part is omitted; the old function sent an empty element *)
Theorem positional_none_regression : exists S xstq st pts sh,
  ref_headers S xstq (map ce_tree st) pts sh = Some [] /\
  headercontent S xstq st pts None sh = HOk ([], []) /\
  headercontent_q S xstq st (mkQ false false false true) pts None sh = HOk ([RFresh (XN 1 30 [] None [])], []) /\
  headercontent_q S xstq st before_repairs pts None sh = HOk ([RFresh (XN 1 30 [] None [])], []).
Proof.
  exists [], true, [], [ex_H], (SHSeq [HVal VNone]). repeat split; reflexivity.
Qed.
Print Assumptions positional_none_regression.

(* (c') ... and for a part declared with type= the old function failed (the
        marshaller skips the value; both the None check of the positional loop
        and the None check of add now stand in the way) *)
Theorem positional_none_type_part_regression : exists S xstq st pts sh,
  ref_headers S xstq (map ce_tree st) pts sh = Some [] /\
  headercontent S xstq st pts None sh = HOk ([], []) /\
  headercontent_q S xstq st (mkQ false true false true) pts None sh = HErr EAttr /\
  headercontent_q S xstq st before_repairs pts None sh = HErr EAttr /\
  (* a skipped item of a list-valued entry is the other way to get there *)
  headercontent S xstq st pts None (SHSeq [HVal (VList [VNone; VText 40])]) =
    HOk ([RFresh (XN 0 31 [] (Some 40) [])], []) /\
  headercontent_q S xstq st (mkQ false true false false) pts None (SHSeq [HVal (VList [VNone; VText 40])]) = HErr EAttr.
Proof.
  exists [], true, [], [ex_P], (SHSeq [HVal VNone]). repeat split; reflexivity.
Qed.
Print Assumptions positional_none_type_part_regression.

(* the same four inputs are inside the guard now; a list of lists is not *)
Example regression_inputs_inside_guard :
  guard_C17 [] 0 [ex_H] (SHSeq [HVal (VList [VText 40; VText 41])]) = true /\
  guard_C17 [] 1 [ex_H] (SHSeq [HVal (VText 40); HVal (VText 41); HElem 0]) = true /\
  guard_C17 [] 0 [ex_H] (SHSeq [HVal VNone]) = true /\
  guard_C17 [] 0 [ex_P] (SHSeq [HVal VNone]) = true /\
  guard_C17 [] 0 [ex_H] (SHSeq [HVal (VList [VList [VText 40]])]) = false /\
  headercontent [] true [] [ex_H] None (SHSeq [HVal (VList [VList [VText 40]])]) = HErr EAttr.
Proof. repeat split; reflexivity. Qed.

(* ---- non-vacuity: a complex part in another namespace, a simple part, a
   type= part, ready-made elements before/between/after (one used twice), a
   Security object with a full UsernameToken and a Timestamp ---- *)
Definition ex_schema : schema :=
  [ mkC 10 1 None [PC KSeq false [PE (mkE 20 1 true TBuiltin false false false None);
                                    PE (mkE 21 1 false TBuiltin true false false None)]] [] ].
Definition ex_H2 : edecl := mkE 32 2 true (TNamed 1 10) false false true None.
Definition ex_pts : list edecl := [ex_H; ex_H2; ex_P].
Definition ex_store : store := [mkCE ex_x None; mkCE (XN 0 54 [] None [XN 9 55 [] (Some 56) []]) None].
Definition ex_sh : soapheaders :=
  SHSeq [HElem 0; HVal (VText 40); HElem 1; HVal (VObj None [(20, false, VText 41)]); HVal (VText 42); HElem 0].
(* ... and a None, a list-valued entry, surplus values before a ready-made element *)
Definition ex_sh2 : soapheaders :=
  SHSeq [HVal VNone; HVal (VList [VObj None [(20, false, VText 41)]; VObj None []]); HVal (VList []);
         HVal (VText 43); HElem 1; HVal VNone; HElem 0].
Definition ex_dt : dtv := DT (mkCivil 2020 1 2) (mkTod 3 4 5 678) (TzFixed 330).
Definition ex_sec : security :=
  mkSec true [TUser (mkUT (Some 60) (Some 61) None (Some 62) true (Some ex_dt));
              TStamp ex_dt (DT (mkCivil 2020 1 2) (mkTod 3 4 15 678) TzUtc)].
Definition ex_cfg : config := mkCfg ex_schema true ex_pts (Some ex_sec) ex_sh.

Example guard_nonvacuous :
  guard_C17 ex_schema (length ex_store) ex_pts ex_sh = true /\ sec_valid ex_sec = true /\
  guard_C17 ex_schema (length ex_store) ex_pts ex_sh2 = true.
Proof. repeat split; reflexivity. Qed.

Example send2_nonvacuous :
  send (mkCfg ex_schema true ex_pts None ex_sh2) 3 ex_store =
    (HOk ([XN 2 32 [] None [XN 1 20 [] (Some 41) []]; XN 2 32 [] None [];
           XN 0 54 [] None [XN 9 55 [] (Some 56) []]; ex_x], []), ex_store).
Proof. reflexivity. Qed.

Example send_nonvacuous :
  exists sec_node stamps,
    send ex_cfg 7 ex_store =
      (HOk ([sec_node; ex_x; XN 1 30 [] (Some 40) []; XN 0 54 [] None [XN 9 55 [] (Some 56) []];
             XN 2 32 [] None [XN 1 20 [] (Some 41) []]; XN 0 31 [] (Some 42) []; ex_x], stamps), ex_store) /\
    is_security sec_node = true /\ length stamps = 3%nat /\
    security_ok dt_ok ex_sec sec_node stamps = true.
Proof. eexists. eexists. split; [vm_compute; reflexivity|]. repeat split; vm_compute; reflexivity. Qed.

Example dict_nonvacuous :
  headercontent ex_schema true [] ex_pts None
    (SHDict [(31, HVal (VText 42)); (30, HVal VNone); (32, HVal (VObj None [(20, false, VText 41)])); (99, HVal (VText 43))]) =
  HOk ([RFresh (XN 2 32 [] None [XN 1 20 [] (Some 41) []]); RFresh (XN 0 31 [] (Some 42) [])], []).
Proof. reflexivity. Qed.

(* a ready-made element as a dict value (twice the same object), reply-side
   parts declared: inside the guard; sent verbatim; the reply part 33 — for
   which the dict has a value too — is not sent; the variant that registers it
   on the request side would send it *)
Definition ex_R : edecl := mkE 33 1 true TBuiltin false false false None.
Definition ex_dict : soapheaders :=
  SHDict [(31, HElem 0); (30, HElem 0); (32, HVal (VObj None [(20, false, VText 41)])); (33, HVal (VText 44))].
Example dict_element_nonvacuous :
  guard_C17 ex_schema (length ex_store) ex_pts ex_dict = true /\
  send (mkCfg ex_schema true (request_parts ex_pts [ex_R; ex_H]) None ex_dict) 2 ex_store =
    (HOk ([ex_x; XN 2 32 [] None [XN 1 20 [] (Some 41) []]; ex_x], []), ex_store) /\
  fst (send (mkCfg ex_schema true (headpart_types (add_operation_q true ex_pts [ex_R; ex_H]) true) None ex_dict) 2 ex_store) =
    HOk ([ex_x; XN 2 32 [] None [XN 1 20 [] (Some 41) []]; ex_x; XN 1 33 [] (Some 44) []; ex_x], []).
Proof. repeat split; reflexivity. Qed.
