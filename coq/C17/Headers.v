(* C17 — SOAP headers and security tokens are sent as configured, every time.

   Model of suds.bindings.binding.Binding.headercontent / mkheader /
   headpart_types (+ wsdl.Binding.header / __resolveheaders: the declared
   header parts arrive as element declarations, one per soap:header, in
   document order), of Binding.header + Element.append (the content is attached
   to the Header element) and of suds.wsse Security / UsernameToken /
   Timestamp .xml(), at the level of the namespace infoset.  Header entries are
   marshalled by the SAME marshaller as body parameters: C01's marshal_elem is
   reused, not re-modelled; dateTime texts are C06's iso_datetime.

   The reference ref_headers and the token checker security_ok are written from
   the property text.  Definitions only. *)
From SV Require Import Lib.Base Fam.Schema C01.Marshal C01.Guard C06.DateTime.

(* ------------------------------------------------------------------ *)
(* interned constants (harness/c17.py interns these first, in order)   *)
(* ------------------------------------------------------------------ *)
Definition t_empty : N := 4%N.            (* the empty text "" *)
Definition t_stamp : N := 5%N.            (* placeholder for a dateTime text; the texts travel in a side list *)
Definition n_Security : name := 6%N.
Definition n_UsernameToken : name := 7%N.
Definition n_Username : name := 8%N.
Definition n_Password : name := 9%N.
Definition n_Nonce : name := 10%N.
Definition n_Created : name := 11%N.
Definition n_Timestamp : name := 12%N.
Definition n_Expires : name := 13%N.
Definition n_Type : name := 14%N.
Definition n_EncodingType : name := 15%N.
Definition n_mustUnderstand : name := 16%N.
Definition t_wstext : N := 17%N.          (* ...username-token-profile-1.0#PasswordText *)
Definition t_wsdigest : N := 18%N.        (* ...username-token-profile-1.0#PasswordDigest *)
Definition t_b64 : N := 19%N.             (* ...soap-message-security-1.0#Base64Binary *)
Definition t_false : N := 20%N.
Definition ns_wsse : nsid := 110%N.
Definition ns_wsu : nsid := 111%N.

(* ------------------------------------------------------------------ *)
(* results                                                             *)
(* ------------------------------------------------------------------ *)
Inductive herr := EAttr | ETypeNotFound | EOther.   (* AttributeError | TypeNotFound | anything else *)
Inductive hres (A : Type) := HOk (a : A) | HErr (e : herr).
Arguments HOk {A} a.
Arguments HErr {A} e.

Definition hbind {A B} (r : hres A) (f : A -> hres B) : hres B :=
  match r with HOk a => f a | HErr e => HErr e end.

Definition of_mres {A} (r : mres A) : hres A :=
  match r with MOk a => HOk a | MTypeNotFound => HErr ETypeNotFound | MError => HErr EOther end.

Definition herr_eqb (a b : herr) : bool :=
  match a, b with EAttr, EAttr | ETypeNotFound, ETypeNotFound | EOther, EOther => true | _, _ => false end.

(* ------------------------------------------------------------------ *)
(* configuration                                                       *)
(* ------------------------------------------------------------------ *)
(* the caller's ready-made Element objects: content + the `parent` field
   (None = detached, Some m = attached under the Header of message m) *)
Record celem := mkCE { ce_tree : xnode; ce_parent : option nat }.
Definition store := list celem.

Inductive hval := HElem (i : nat) | HVal (v : value).     (* i = which caller Element *)
Inductive soapheaders :=
| SHOne (h : hval)                      (* a single value, not a tuple/list/dict *)
| SHSeq (l : list hval)                 (* tuple or list: positional *)
| SHDict (l : list (name * hval)).      (* dict keyed by header element (part) name; a value may be a ready-made Element *)

(* a datetime value held by a token, or something DateTime() rejects *)
Inductive dtv := DT (c : civil) (t : tod) (tz : tzr) | DTBad.

Record utoken := mkUT {
  ut_user : option N; ut_pass : option N; ut_digest : option N;
  ut_nonce : option N; ut_nonce_enc : bool; ut_created : option dtv }.
Inductive token := TUser (u : utoken) | TStamp (created expires : dtv).
Record security := mkSec { sec_mu : bool; sec_tokens : list token }.

(* what headercontent puts into its list: a new element, or (never, in the
   unchanged code) the caller's own object *)
Inductive href := RFresh (n : xnode) | RCaller (i : nat).

(* ------------------------------------------------------------------ *)
(* suds.wsse                                                           *)
(* ------------------------------------------------------------------ *)
(* Python truthiness of a str-or-None; "" and None write no text *)
Definition truthy (o : option N) : bool :=
  match o with Some t => negb (N.eqb t t_empty) | None => false end.
Definition norm_text (o : option N) : option N := if truthy o then o else None.

Definition stamp_node (nm : name) : xnode := XN ns_wsu nm [] (Some t_stamp) [].

(* str(DateTime(value)) *)
Definition dt_text (d : dtv) : hres str :=
  match d with DT c t tz => HOk (iso_datetime c t tz) | DTBad => HErr EOther end.

(* UsernameToken.xml *)
Definition utoken_xml (u : utoken) : hres (xnode * list str) :=
  let use_digest := truthy (ut_digest u) in
  let uname := XN ns_wsse n_Username [] (norm_text (ut_user u)) [] in
  let pw := XN ns_wsse n_Password
              [(0%N, n_Type, AText (if use_digest then t_wsdigest else t_wstext))]
              (norm_text (if use_digest then ut_digest u else ut_pass u)) [] in
  let nonce := match ut_nonce u with
               | Some _ => [XN ns_wsse n_Nonce
                              (if ut_nonce_enc u then [(0%N, n_EncodingType, AText t_b64)] else [])
                              (norm_text (ut_nonce u)) []]
               | None => []
               end in
  match ut_created u with
  | None => HOk (XN ns_wsse n_UsernameToken [] None ([uname; pw] ++ nonce), [])
  | Some d => hbind (dt_text d) (fun s =>
                HOk (XN ns_wsse n_UsernameToken [] None ([uname; pw] ++ nonce ++ [stamp_node n_Created]), [s]))
  end.

(* Timestamp.xml *)
Definition tstamp_xml (created expires : dtv) : hres (xnode * list str) :=
  hbind (dt_text created) (fun a => hbind (dt_text expires) (fun b =>
    HOk (XN ns_wsu n_Timestamp [] None [stamp_node n_Created; stamp_node n_Expires], [a; b]))).

Definition token_xml (t : token) : hres (xnode * list str) :=
  match t with TUser u => utoken_xml u | TStamp c e => tstamp_xml c e end.

Fixpoint tokens_xml (l : list token) : hres (list xnode * list str) :=
  match l with
  | [] => HOk ([], [])
  | t :: l' => hbind (token_xml t) (fun a => hbind (tokens_xml l') (fun b =>
                 HOk (fst a :: fst b, snd a ++ snd b)))
  end.

(* Security.xml *)
Definition sec_xml (s : security) : hres (xnode * list str) :=
  hbind (tokens_xml (sec_tokens s)) (fun r =>
    HOk (XN ns_wsse n_Security
            [(0%N, n_mustUnderstand, AText (if sec_mu s then t_true else t_false))] None (fst r), snd r)).

(* "if wsse is not None: content.append(wsse.xml())" *)
Definition sec_content (wsse : option security) : hres (list href * list str) :=
  match wsse with
  | Some s => hbind (sec_xml s) (fun r => HOk ([RFresh (fst r)], snd r))
  | None => HOk ([], [])
  end.

(* ------------------------------------------------------------------ *)
(* Binding.mkheader / headercontent                                    *)
(* ------------------------------------------------------------------ *)
Definition is_list (v : value) : bool := match v with VList _ => true | _ => false end.
(* a list directly inside a list-valued entry *)
Definition has_list_item (v : value) : bool :=
  match v with VList l => existsb is_list l | _ => false end.

(* Element.setPrefix(p, u) on the entry: the entry is in namespace u *)
Definition set_ns (ns : nsid) (n : xnode) : xnode :=
  match n with XN _ nm ats t ks => XN ns nm ats t ks end.

Section Headers.
Variable S : schema.
Variable xstq : bool.
Variable st : store.

(* the local function add(pt, header) of headercontent: mkheader, then one
   setPrefix + append per node.
   - mkheader maps itself over a list/tuple value (every item is marshalled
     before anything is appended, so an item's exception wins) and add appends
     one element per item;
   - a value the marshaller skips (None for an optional declaration) comes back
     as None and adds nothing;
   - add looks one level deep only: a list inside the list is handed to
     setPrefix, which a list does not have. *)
Definition add_entry (d : edecl) (v : value) : hres (list xnode) :=
  match of_mres (marshal_elem S xstq d false v) with
  | HErr e => HErr e
  | HOk ns => if has_list_item v then HErr EAttr else HOk (map (set_ns (elem_ns d)) ns)
  end.

(* deepcopy(header) *)
Definition copy_of (i : nat) : hres href :=
  match nth_error st i with Some ce => HOk (RFresh (ce_tree ce)) | None => HErr EOther end.

(* the positional loop, with its counter n *)
Fixpoint seq_loop (pts : list edecl) (n : nat) (hs : list hval) : hres (list href) :=
  match hs with
  | [] => HOk []
  | HElem i :: hs' =>
      hbind (copy_of i) (fun c => hbind (seq_loop pts n hs') (fun r => HOk (c :: r)))
  | HVal v :: hs' =>
      if Nat.eqb (length pts) n then seq_loop pts n hs'        (* continue: a surplus plain value *)
      else match nth_error pts n with
           | None => HErr EOther                                (* IndexError: n never exceeds len(pts) *)
           | Some d =>
               match v with
               | VNone => seq_loop pts (Datatypes.S n) hs'      (* "if header is not None": the part is left out *)
               | _ =>
                   hbind (add_entry d v) (fun h =>
                   hbind (seq_loop pts (Datatypes.S n) hs') (fun r => HOk (map RFresh h ++ r)))
               end
           end
  end.

(* dict.get: keys of a dict are unique; first entry with that key *)
Fixpoint dict_get (k : name) (l : list (name * hval)) : option hval :=
  match l with
  | [] => None
  | (k', v) :: l' => if N.eqb k' k then Some v else dict_get k l'
  end.

(* a ready-made Element given as the VALUE of a declared part goes through
   mkheader and the marshaller like any value: mx.appender.ElementAppender puts
   a new ElementWrapper around it (a fresh node that prints the caller's
   element), so what add() renames and Header.append re-parents is the wrapper,
   never the caller's object; the element is sent as it is *)
Definition wrapped_of (i : nat) : hres href := copy_of i.

Fixpoint dict_loop (pts : list edecl) (dict : list (name * hval)) : hres (list href) :=
  match pts with
  | [] => HOk []
  | d :: pts' =>
      match dict_get (e_name d) dict with
      | None | Some (HVal VNone) => dict_loop pts' dict         (* continue *)
      | Some (HElem i) =>
          hbind (wrapped_of i) (fun c => hbind (dict_loop pts' dict) (fun r => HOk (c :: r)))
      | Some (HVal v) =>
          hbind (add_entry d v) (fun h =>
          hbind (dict_loop pts' dict) (fun r => HOk (map RFresh h ++ r)))
      end
  end.

(* options.soapheaders after Definition.nvl: None is the default () *)
Definition normalise (sh : soapheaders) : soapheaders :=
  match sh with
  | SHOne (HVal VNone) => SHSeq []
  | SHOne h => SHSeq [h]          (* "if not isinstance(headers, (tuple, list, dict)): headers = (headers,)" *)
  | _ => sh
  end.

Definition headercontent (pts : list edecl) (wsse : option security) (sh : soapheaders)
  : hres (list href * list str) :=
  hbind (sec_content wsse) (fun c0 =>
  match normalise sh with
  | SHSeq [] | SHDict [] => HOk c0                              (* "elif not headers: return content" *)
  | SHSeq l => hbind (seq_loop pts 0 l) (fun r => HOk (fst c0 ++ r, snd c0))
  | SHDict l => hbind (dict_loop pts l) (fun r => HOk (fst c0 ++ r, snd c0))
  | SHOne _ => HErr EOther                                       (* normalise never returns it *)
  end).

(* ---- the same function as it was before the repairs 02a92ff, dfdc017 and
   c4ebdf6, one switch per repaired defect (kept for the regression witnesses
   in Props.v and so that the harness can name the defect when an
   implementation shows one of these behaviours again) ---- *)
Record quirks := mkQ {
  q_list : bool;        (* a list-valued entry is handed to setPrefix as a whole: AttributeError *)
  q_skipped : bool;     (* a node the marshaller skipped (None) is handed to setPrefix: AttributeError *)
  q_break : bool;       (* the positional loop breaks at the first surplus plain value *)
  q_none : bool }.      (* a positional None is marshalled like any other value *)

Section Before.
Variable q : quirks.

(* an item for which mkheader returns None *)
Definition skipped_item (d : edecl) (x : value) : bool :=
  match x with VNone => e_opt d | _ => false end.

Definition add_entry_q (d : edecl) (v : value) : hres (list xnode) :=
  match of_mres (marshal_elem S xstq d false v) with
  | HErr e => HErr e
  | HOk ns =>
      match v with
      | VList l =>
          if q_list q || existsb is_list l || (q_skipped q && existsb (skipped_item d) l) then HErr EAttr
          else HOk (map (set_ns (elem_ns d)) ns)
      | _ => if q_skipped q && skipped_item d v then HErr EAttr else HOk (map (set_ns (elem_ns d)) ns)
      end
  end.

Fixpoint seq_loop_q (pts : list edecl) (n : nat) (hs : list hval) : hres (list href) :=
  match hs with
  | [] => HOk []
  | HElem i :: hs' =>
      hbind (copy_of i) (fun c => hbind (seq_loop_q pts n hs') (fun r => HOk (c :: r)))
  | HVal v :: hs' =>
      if Nat.eqb (length pts) n then (if q_break q then HOk [] else seq_loop_q pts n hs')
      else match nth_error pts n with
           | None => HErr EOther
           | Some d =>
               if negb (q_none q) && match v with VNone => true | _ => false end
               then seq_loop_q pts (Datatypes.S n) hs'
               else hbind (add_entry_q d v) (fun h =>
                    hbind (seq_loop_q pts (Datatypes.S n) hs') (fun r => HOk (map RFresh h ++ r)))
           end
  end.

Fixpoint dict_loop_q (pts : list edecl) (dict : list (name * hval)) : hres (list href) :=
  match pts with
  | [] => HOk []
  | d :: pts' =>
      match dict_get (e_name d) dict with
      | None | Some (HVal VNone) => dict_loop_q pts' dict
      | Some (HElem i) =>
          hbind (wrapped_of i) (fun c => hbind (dict_loop_q pts' dict) (fun r => HOk (c :: r)))
      | Some (HVal v) =>
          hbind (add_entry_q d v) (fun h =>
          hbind (dict_loop_q pts' dict) (fun r => HOk (map RFresh h ++ r)))
      end
  end.

Definition headercontent_q (pts : list edecl) (wsse : option security) (sh : soapheaders)
  : hres (list href * list str) :=
  hbind (sec_content wsse) (fun c0 =>
  match normalise sh with
  | SHSeq [] | SHDict [] => HOk c0
  | SHSeq l => hbind (seq_loop_q pts 0 l) (fun r => HOk (fst c0 ++ r, snd c0))
  | SHDict l => hbind (dict_loop_q pts l) (fun r => HOk (fst c0 ++ r, snd c0))
  | SHOne _ => HErr EOther
  end).
End Before.

End Headers.

Definition repaired : quirks := mkQ false false false false.
Definition before_repairs : quirks := mkQ true true true true.

(* Binding.header: header.append(content) — Element.append sets child.parent *)
Fixpoint set_parent (st : store) (i m : nat) : store :=
  match st, i with
  | [], _ => []
  | ce :: st', O => mkCE (ce_tree ce) (Some m) :: st'
  | ce :: st', Datatypes.S i' => ce :: set_parent st' i' m
  end.

Fixpoint attach (m : nat) (refs : list href) (st : store) : list xnode * store :=
  match refs with
  | [] => ([], st)
  | RFresh n :: r => let '(ns, st') := attach m r st in (n :: ns, st')
  | RCaller i :: r =>
      match nth_error st i with
      | Some ce => let '(ns, st') := attach m r (set_parent st i m) in (ce_tree ce :: ns, st')
      | None => attach m r st
      end
  end.

(* ------------------------------------------------------------------ *)
(* wsdl.Binding.add_operations / header, bindings.Binding.headpart_types *)
(* ------------------------------------------------------------------ *)
(* every soap:header child of wsdl:input is appended to soap.input.headers,
   every soap:header child of wsdl:output to soap.output.headers (document
   order); headpart_types(method, input) reads one of the two lists.  The
   switch `slip` is the variant in which the loop over the output's children
   registers on the input side (used only to name that defect). *)
Record soap_headers := mkSoapH { sh_in : list edecl; sh_out : list edecl }.

Definition register (to_input : bool) (s : soap_headers) (h : edecl) : soap_headers :=
  if to_input then mkSoapH (sh_in s ++ [h]) (sh_out s) else mkSoapH (sh_in s) (sh_out s ++ [h]).

Definition add_operation_q (slip : bool) (ins outs : list edecl) : soap_headers :=
  fold_left (register slip) outs (fold_left (register true) ins (mkSoapH [] [])).
Definition add_operation : list edecl -> list edecl -> soap_headers := add_operation_q false.

Definition headpart_types (s : soap_headers) (input : bool) : list edecl :=
  if input then sh_in s else sh_out s.

(* the declared parts a request is built from *)
Definition request_parts (ins outs : list edecl) : list edecl := headpart_types (add_operation ins outs) true.

Record config := mkCfg {
  g_schema : schema; g_xstq : bool; g_pts : list edecl;
  g_wsse : option security; g_sh : soapheaders }.

(* one invocation (message number m): the children of the Header element and
   the dateTime texts, and the caller's objects afterwards *)
Definition send (g : config) (m : nat) (st : store) : hres (list xnode * list str) * store :=
  match headercontent (g_schema g) (g_xstq g) st (g_pts g) (g_wsse g) (g_sh g) with
  | HErr e => (HErr e, st)
  | HOk (refs, stamps) => let '(ns, st') := attach m refs st in (HOk (ns, stamps), st')
  end.

(* a sequence of invocations reusing the same configuration and objects *)
Fixpoint send_all (g : config) (ms : list nat) (st : store)
  : list (hres (list xnode * list str)) * store :=
  match ms with
  | [] => ([], st)
  | m :: ms' => let '(r, st') := send g m st in
                let '(rs, st'') := send_all g ms' st' in (r :: rs, st'')
  end.

(* ------------------------------------------------------------------ *)
(* the reference, from the property text                               *)
(* ------------------------------------------------------------------ *)
Section Reference.
Variable S : schema.
Variable xstq : bool.
Variable trees : list xnode.         (* the caller's ready-made elements *)

(* one configured entry for a declared part: marshalled per its schema (C01's
   reference translator) — the element is named and qualified by the part's own
   declaration; no value = the part is omitted; a list-valued entry = one
   element per item, in order.  None = the value does not fit the schema (or
   is a list of lists): the property says nothing. *)
Definition ref_entry (d : edecl) (v : value) : option (list xnode) :=
  if negb (conforming S d v) || has_list_item v then None else
  match v with
  | VNone => Some []
  | _ => ref_elem S xstq d false v
  end.

Definition ocons_app (a b : option (list xnode)) : option (list xnode) :=
  match a, b with Some x, Some y => Some (x ++ y) | _, _ => None end.

(* a sequence: the k-th plain value belongs to the k-th declared part; ready-made
   elements are included verbatim, in their position; plain values beyond the
   declared parts have nothing to be marshalled against *)
Fixpoint ref_seq (pts : list edecl) (hs : list hval) : option (list xnode) :=
  match hs with
  | [] => Some []
  | HElem i :: hs' =>
      match nth_error trees i with
      | Some t => ocons_app (Some [t]) (ref_seq pts hs')
      | None => None
      end
  | HVal v :: hs' =>
      match pts with
      | [] => ref_seq [] hs'
      | d :: pts' => ocons_app (ref_entry d v) (ref_seq pts' hs')
      end
  end.

(* a dict: every declared part whose element name is a key; a ready-made
   element given as the value is included verbatim *)
Definition ref_dict_value (d : edecl) (h : hval) : option (list xnode) :=
  match h with
  | HVal v => ref_entry d v
  | HElem i => match nth_error trees i with Some t => Some [t] | None => None end
  end.

Fixpoint ref_dict (pts : list edecl) (dict : list (name * hval)) : option (list xnode) :=
  match pts with
  | [] => Some []
  | d :: pts' =>
      ocons_app (match find (fun kv => N.eqb (fst kv) (e_name d)) dict with
                 | Some kv => ref_dict_value d (snd kv)
                 | None => Some []
                 end) (ref_dict pts' dict)
  end.

Definition ref_headers (pts : list edecl) (sh : soapheaders) : option (list xnode) :=
  match sh with
  | SHOne h => ref_seq pts [h]
  | SHSeq l => ref_seq pts l
  | SHDict l => ref_dict pts l
  end.

End Reference.

(* ---- WS-Security: what one token must look like ---- *)
Definition text_is (o : option N) (n : xnode) : bool :=
  match n with XN _ _ _ t _ => opt_eqb N.eqb (norm_text o) t end.

Fixpoint xnodes_eqb' (a b : list xnode) : bool :=
  match a, b with
  | [], [] => true
  | x :: a', y :: b' => xnode_eqb x y && xnodes_eqb' a' b'
  | _, _ => false
  end.

(* order-insensitive comparison of element lists *)
Fixpoint remove_first (x : xnode) (l : list xnode) : option (list xnode) :=
  match l with
  | [] => None
  | y :: l' => if xnode_eqb x y then Some l'
               else match remove_first x l' with Some r => Some (y :: r) | None => None end
  end.
Fixpoint perm_eqb (a b : list xnode) : bool :=
  match a with
  | [] => match b with [] => true | _ => false end
  | x :: a' => match remove_first x b with Some b' => perm_eqb a' b' | None => false end
  end.

Definition dt_ok (d : dtv) (s : str) : bool :=
  match d with DT c t tz => write_spec_ok (WDateTime c t tz, s) | DTBad => false end.

(* a UsernameToken carries the username; the password, or the digest when one
   is set (labelled as such); the nonce when set (with the encoding type when
   asked for); the creation time when set, as a valid XSD dateTime denoting it *)
Definition utoken_expected (u : utoken) (with_pw : bool) : list xnode :=
  let dig := truthy (ut_digest u) in
  [XN ns_wsse n_Username [] (norm_text (ut_user u)) []] ++
  (if with_pw then
     [XN ns_wsse n_Password [(0%N, n_Type, AText (if dig then t_wsdigest else t_wstext))]
         (norm_text (if dig then ut_digest u else ut_pass u)) []]
   else []) ++
  (match ut_nonce u with
   | Some _ => [XN ns_wsse n_Nonce (if ut_nonce_enc u then [(0%N, n_EncodingType, AText t_b64)] else [])
                   (norm_text (ut_nonce u)) []]
   | None => []
   end) ++
  (match ut_created u with Some _ => [stamp_node n_Created] | None => [] end).

Section TokenCheck.
(* how a dateTime text is judged against the token's own datetime value *)
Variable dtp : dtv -> str -> bool.

Definition token_ok (t : token) (n : xnode) (stamps : list str) : bool :=
  match t, n with
  | TUser u, XN ns nm ats txt kids =>
      N.eqb ns ns_wsse && N.eqb nm n_UsernameToken &&
      (perm_eqb (utoken_expected u true) kids ||
       (* nothing to carry: the Password element may be left out *)
       (negb (truthy (ut_digest u)) && negb (truthy (ut_pass u)) && perm_eqb (utoken_expected u false) kids)) &&
      match ut_created u, stamps with
      | None, [] => true
      | Some d, [s] => dtp d s
      | _, _ => false
      end
  | TStamp c e, XN ns nm ats txt kids =>
      N.eqb ns ns_wsu && N.eqb nm n_Timestamp &&
      xnodes_eqb' [stamp_node n_Created; stamp_node n_Expires] kids &&
      match stamps with [a; b] => dtp c a && dtp e b | _ => false end
  end.

Definition nstamps (t : token) : nat :=
  match t with
  | TUser u => match ut_created u with Some _ => 1 | None => 0 end
  | TStamp _ _ => 2
  end.

Fixpoint tokens_ok (ts : list token) (kids : list xnode) (stamps : list str) : bool :=
  match ts, kids with
  | [], [] => match stamps with [] => true | _ => false end
  | t :: ts', k :: kids' =>
      token_ok t k (firstn (nstamps t) stamps) && tokens_ok ts' kids' (skipn (nstamps t) stamps)
  | _, _ => false
  end.

(* the Security element (its own attributes are not part of the property) *)
Definition security_ok (s : security) (x : xnode) (stamps : list str) : bool :=
  match x with XN ns nm _ _ kids =>
    N.eqb ns ns_wsse && N.eqb nm n_Security && tokens_ok (sec_tokens s) kids stamps
  end.

End TokenCheck.

(* weaker judgement used by the theorem about the model: the text reads back
   (C06 parser) as the same date, time of day and UTC offset *)
Definition dt_reads_back (d : dtv) (s : str) : bool :=
  match d with
  | DT c t tz =>
      match parse_datetime s with
      | Ok (c', t', tz') => civil_eqb c c' && tod_eqb t t' && opt_eqb Z.eqb (tz_offset tz') (tz_offset tz)
      | _ => false
      end
  | DTBad => false
  end.

Definition is_security (n : xnode) : bool :=
  match n with XN ns nm _ _ _ => N.eqb ns ns_wsse && N.eqb nm n_Security end.

Definition dtv_valid (d : dtv) : bool :=
  match d with DT c t tz => civil_ok c && tod_ok t && tz_ok tz | DTBad => false end.
Definition token_valid (t : token) : bool :=
  match t with
  | TUser u => match ut_created u with Some d => dtv_valid d | None => true end
  | TStamp c e => dtv_valid c && dtv_valid e
  end.
Definition sec_valid (s : security) : bool := forallb token_valid (sec_tokens s).

(* ------------------------------------------------------------------ *)
(* the guard of headers_as_configured                                  *)
(* ------------------------------------------------------------------ *)
Section Guard.
Variable S : schema.
Variable nstore : nat.

(* a value for a declared part: fits the schema (None, lists of fitting items
   and the empty list included); the items of a list-valued entry are not
   lists themselves *)
Definition entry_ok (d : edecl) (v : value) : bool :=
  conforming S d v && negb (has_list_item v).

Fixpoint seq_guard (pts : list edecl) (hs : list hval) : bool :=
  match hs with
  | [] => true
  | HElem i :: hs' => Nat.ltb i nstore && seq_guard pts hs'
  | HVal v :: hs' =>
      match pts with
      | [] => seq_guard [] hs'              (* a surplus plain value: anything *)
      | d :: pts' => entry_ok d v && seq_guard pts' hs'
      end
  end.

Fixpoint dict_guard (pts : list edecl) (dict : list (name * hval)) : bool :=
  match pts with
  | [] => true
  | d :: pts' =>
      match dict_get (e_name d) dict with
      | None => dict_guard pts' dict
      | Some (HVal v) => entry_ok d v && dict_guard pts' dict
      | Some (HElem i) => Nat.ltb i nstore && dict_guard pts' dict
      end
  end.

Definition guard_C17 (pts : list edecl) (sh : soapheaders) : bool :=
  match sh with
  | SHOne (HVal VNone) => true
  | SHOne h => seq_guard pts [h]
  | SHSeq l => seq_guard pts l
  | SHDict l => dict_guard pts l
  end.
End Guard.

(* ------------------------------------------------------------------ *)
(* what the harness evaluates                                          *)
(* ------------------------------------------------------------------ *)
Inductive ires := IHdr (kids : list xnode) (stamps : list str) | IErr (e : herr).
(* one call: the Header's children (+ dateTime texts in document order) or
   the exception class; the caller's elements afterwards (infoset, attached?) *)
Record icall := mkIC { ic_res : ires; ic_after : list (xnode * bool) }.

Record hcase := mkH {
  h_schema : schema; h_xstq : bool;
  h_pts : list edecl;                     (* the soap:header children of the operation's wsdl:input ... *)
  h_out : list edecl;                     (* ... and of its wsdl:output, as written in the WSDL *)
  h_trees : list xnode;                   (* the caller's elements before the first call *)
  h_wsse : option security; h_sh : soapheaders;
  h_calls : list icall }.

Definition h_cfg (c : hcase) : config :=
  mkCfg (h_schema c) (h_xstq c) (request_parts (h_pts c) (h_out c)) (h_wsse c) (h_sh c).
Definition init_store (c : hcase) : store := map (fun t => mkCE t None) (h_trees c).

Definition res_matches (r : hres (list xnode * list str)) (i : ires) : bool :=
  match r, i with
  | HOk (ns, ss), IHdr ks ts => xnodes_eqb' ns ks && list_eqb str_eqb ss ts
  | HErr a, IErr b => herr_eqb a b
  | _, _ => false
  end.

Definition is_some {A} (o : option A) : bool := match o with Some _ => true | None => false end.

Fixpoint list_eqb2 {A B} (eqb : A -> B -> bool) (a : list A) (b : list B) : bool :=
  match a, b with
  | [], [] => true
  | x :: a', y :: b' => eqb x y && list_eqb2 eqb a' b'
  | _, _ => false
  end.

Definition store_matches (st : store) (after : list (xnode * bool)) : bool :=
  list_eqb2 (fun ce p => xnode_eqb (ce_tree ce) (fst p) && Bool.eqb (is_some (ce_parent ce)) (snd p)) st after.

Fixpoint run_model (g : config) (m : nat) (st : store) (calls : list icall) : bool :=
  match calls with
  | [] => true
  | c :: cs => let '(r, st') := send g m st in
               res_matches r (ic_res c) && store_matches st' (ic_after c) && run_model g (Datatypes.S m) st' cs
  end.

Definition hdr_agrees (c : hcase) : bool := run_model (h_cfg c) 0 (init_store c) (h_calls c).

(* the same comparison against the function as it was before the repairs
   (switches q): tells WHICH repaired defect an implementation shows again *)
Definition send_q (q : quirks) (g : config) (m : nat) (st : store) : hres (list xnode * list str) * store :=
  match headercontent_q (g_schema g) (g_xstq g) st q (g_pts g) (g_wsse g) (g_sh g) with
  | HErr e => (HErr e, st)
  | HOk (refs, stamps) => let '(ns, st') := attach m refs st in (HOk (ns, stamps), st')
  end.
Fixpoint run_model_q (q : quirks) (g : config) (m : nat) (st : store) (calls : list icall) : bool :=
  match calls with
  | [] => true
  | c :: cs => let '(r, st') := send_q q g m st in
               res_matches r (ic_res c) && store_matches st' (ic_after c) && run_model_q q g (Datatypes.S m) st' cs
  end.
Definition hdr_agrees_q (q : quirks) (c : hcase) : bool :=
  run_model_q q (h_cfg c) 0 (init_store c) (h_calls c).

(* ... and against the variant in which the reply's header parts are
   registered as request parts *)
Definition hdr_agrees_slip (c : hcase) : bool :=
  run_model (mkCfg (h_schema c) (h_xstq c) (headpart_types (add_operation_q true (h_pts c) (h_out c)) true)
                   (h_wsse c) (h_sh c)) 0 (init_store c) (h_calls c).

Definition ires_eqb (a b : ires) : bool :=
  match a, b with
  | IHdr k1 s1, IHdr k2 s2 => xnodes_eqb' k1 k2 && list_eqb str_eqb s1 s2
  | IErr x, IErr y => herr_eqb x y
  | _, _ => false
  end.

(* the caller's objects are as before: same content, still detached *)
Definition untouched (trees : list xnode) (after : list (xnode * bool)) : bool :=
  list_eqb2 (fun t p => xnode_eqb t (fst p) && negb (snd p)) trees after.
Definition objects_ok (c : hcase) : bool := forallb (fun ic => untouched (h_trees c) (ic_after ic)) (h_calls c).

(* every call of the sequence sent the same as the first *)
Definition repeat_ok (c : hcase) : bool :=
  match h_calls c with
  | [] => true
  | ic :: rest => forallb (fun x => ires_eqb (ic_res ic) (ic_res x)) rest
  end.

(* None = the property has no opinion on this configuration *)
Definition expected_entries (c : hcase) : option (list xnode) :=
  if existsb is_security (h_trees c) then None
  else if negb (match h_wsse c with Some s => sec_valid s | None => true end) then None
  else ref_headers (h_schema c) (h_xstq c) (h_trees c) (h_pts c) (h_sh c).

(* exactly one Security element, carrying every token, when (and only when) wsse is configured *)
Definition sec_part_ok (c : hcase) (secs : list xnode) (stamps : list str) : bool :=
  match h_wsse c with
  | None => match secs with [] => true | _ => false end
  | Some s => match secs with [x] => security_ok dt_ok s x stamps | _ => false end
  end.

(* exactly the configured entries, in order (a dict has no order of its own) *)
Definition entries_part_ok (c : hcase) (entries rest : list xnode) : bool :=
  match h_sh c with
  | SHDict _ => perm_eqb entries rest
  | _ => xnodes_eqb' entries rest
  end.

Definition content_ok (c : hcase) (r : ires) : bool :=
  match expected_entries c with
  | None => true
  | Some entries =>
      match r with
      | IErr _ => false
      | IHdr kids stamps =>
          let secs := filter is_security kids in
          let rest := filter (fun n => negb (is_security n)) kids in
          sec_part_ok c secs stamps && entries_part_ok c entries rest
      end
  end.

(* which half fails (for the report only) *)
Definition first_security_ok (c : hcase) : bool :=
  match h_calls c, expected_entries c with
  | ic :: _, Some _ =>
      match ic_res ic with
      | IHdr kids stamps => sec_part_ok c (filter is_security kids) stamps
      | IErr _ => true
      end
  | _, _ => true
  end.

Definition first_ok (c : hcase) : bool :=
  match h_calls c with [] => true | ic :: _ => content_ok c (ic_res ic) end.

Definition hdr_spec_ok (c : hcase) : bool := objects_ok c && repeat_ok c && first_ok c.

Definition hdr_guard (c : hcase) : bool :=
  guard_C17 (h_schema c) (length (h_trees c)) (h_pts c) (h_sh c) &&
  match h_wsse c with Some s => sec_valid s | None => true end.
