(* C17 — lemmas about the header model (C17/Headers.v).  The marshalling of
   one entry is C01's theorem (marshal_conforms_l), the dateTime texts are
   C06's (datetime_roundtrip_l); nothing of those is re-proved here. *)
From SV Require Import Lib.Base Fam.Schema C01.Marshal C01.Guard C01.MarshalProofs
  C06.DateTime C06.TimeProofs C17.Headers.

(* ------------------------------------------------------------------ *)
(* one entry                                                           *)
(* ------------------------------------------------------------------ *)
Lemma set_ns_same ns nm ats t ks : set_ns ns (XN ns nm ats t ks) = XN ns nm ats t ks.
Proof. reflexivity. Qed.

Lemma set_ns_id ns n : xnsid n = ns -> set_ns ns n = n.
Proof. destruct n. cbn. intro H. subst. reflexivity. Qed.

Lemma map_set_ns_id ns l : Forall (fun n => xnsid n = ns) l -> map (set_ns ns) l = l.
Proof.
  induction 1 as [|x l Hx _ IH]; [reflexivity|]. cbn. rewrite (set_ns_id ns x Hx), IH. reflexivity.
Qed.

(* a fitting value — a plain value, None, or a list of fitting items that are
   not lists themselves — adds exactly the elements the reference prescribes
   (one per item for a list); setPrefix leaves each in the part's namespace *)
Lemma add_entry_ok_l S xstq d v :
  entry_ok S d v = true ->
  exists ns, ref_elem S xstq d false v = Some ns /\
             add_entry S xstq d v = HOk ns /\
             Forall (fun n => xname n = e_name d /\ xnsid n = elem_ns d) ns.
Proof.
  unfold entry_ok. intro H. apply andb_true_iff in H as [Hc Hnl].
  destruct (marshal_conforms_l S xstq v d false Hc) as [ns [Hr Hm]].
  pose proof (ref_elem_names S xstq v d false ns Hr) as Hn.
  exists ns. split; [exact Hr|]. split; [|exact Hn].
  unfold add_entry. rewrite Hm. cbn [of_mres].
  destruct (has_list_item v); [discriminate|].
  rewrite map_set_ns_id; [reflexivity|].
  eapply Forall_impl; [|exact Hn]. intros n [_ Hs]. exact Hs.
Qed.

(* ... for the reference a None is "no value": the part is omitted *)
Lemma ref_entry_ok S xstq d v :
  entry_ok S d v = true ->
  ref_entry S xstq d v = match v with VNone => Some [] | _ => ref_elem S xstq d false v end.
Proof.
  unfold entry_ok, ref_entry. intro H. apply andb_true_iff in H as [Hc Hnl].
  rewrite Hc. apply negb_true_iff in Hnl. rewrite Hnl. reflexivity.
Qed.

Lemma ref_entry_none S xstq d : ref_entry S xstq d VNone = Some [].
Proof. reflexivity. Qed.

(* ------------------------------------------------------------------ *)
(* the positional loop: the counter is the number of parts consumed     *)
(* ------------------------------------------------------------------ *)
Lemma skipn_nth {A} (l : list A) n :
  match nth_error l n with
  | Some d => skipn n l = d :: skipn (Datatypes.S n) l
  | None => skipn n l = []
  end.
Proof.
  revert n. induction l as [|x l IH]; intros [|n]; cbn; try reflexivity.
  apply IH.
Qed.

Lemma skipn_nil_len {A} (l : list A) n : n <= length l -> skipn n l = [] -> length l = n.
Proof.
  revert n. induction l as [|x l IH]; intros [|n] Hle H; cbn in *; try reflexivity; try discriminate; try lia.
  f_equal. apply IH; [lia|exact H].
Qed.

Lemma skipn_cons_len {A} (l : list A) n d r : skipn n l = d :: r -> n < length l.
Proof.
  revert n. induction l as [|x l IH]; intros [|n] H; cbn in *; try discriminate; try lia.
  apply IH in H. lia.
Qed.

Lemma nth_error_map_tree (st : store) i ce :
  nth_error st i = Some ce -> nth_error (map ce_tree st) i = Some (ce_tree ce).
Proof. intro H. rewrite nth_error_map, H. reflexivity. Qed.

Lemma seq_loop_ok S xstq (st : store) pts : forall hs n,
  n <= length pts ->
  seq_guard S (length st) (skipn n pts) hs = true ->
  exists entries,
    ref_seq S xstq (map ce_tree st) (skipn n pts) hs = Some entries /\
    seq_loop S xstq st pts n hs = HOk (map RFresh entries).
Proof.
  induction hs as [|h hs IH]; intros n Hn Hg.
  - exists []. split; reflexivity.
  - destruct h as [i|v].
    + (* a ready-made element: copied *)
      cbn [seq_guard] in Hg. apply andb_true_iff in Hg as [Hi Hg].
      apply Nat.ltb_lt in Hi.
      destruct (nth_error st i) as [ce|] eqn:Hce; [|apply nth_error_None in Hce; lia].
      destruct (IH n Hn Hg) as [es [Hr Hl]].
      exists (ce_tree ce :: es). split.
      * cbn [ref_seq]. rewrite (nth_error_map_tree st i ce Hce), Hr. reflexivity.
      * cbn [seq_loop]. unfold copy_of. rewrite Hce. cbn [hbind]. rewrite Hl. reflexivity.
    + cbn [seq_guard] in Hg. cbn [ref_seq seq_loop].
      pose proof (skipn_nth pts n) as Hs.
      destruct (skipn n pts) as [|d rest] eqn:Hsk.
      * (* declared parts exhausted: the plain value is skipped, the loop goes on *)
        rewrite (skipn_nil_len pts n Hn Hsk), Nat.eqb_refl.
        assert (Hn' : n <= length pts) by exact Hn.
        rewrite <- Hsk in Hg. destruct (IH n Hn' Hg) as [es [Hr Hl]].
        rewrite Hsk in Hr. exists es. split; [exact Hr | exact Hl].
      * pose proof (skipn_cons_len pts n d rest Hsk) as Hlt.
        destruct (Nat.eqb (length pts) n) eqn:He; [apply Nat.eqb_eq in He; lia|].
        destruct (nth_error pts n) as [d'|] eqn:Hnth; [|discriminate].
        assert (Hd : d' = d) by congruence.
        assert (Hrest : rest = skipn (Datatypes.S n) pts) by congruence.
        clear Hs. subst d'. subst rest.
        apply andb_true_iff in Hg as [He' Hg].
        destruct (IH (Datatypes.S n) Hlt Hg) as [es [Hr' Hl]].
        rewrite (ref_entry_ok S xstq d v He').
        destruct (add_entry_ok_l S xstq d v He') as [xs [Hr [Hm _]]].
        destruct v as [|t|l|ty fs].
        -- (* None: the part is left out *)
           exists es. split; [rewrite Hr'; reflexivity | exact Hl].
        -- exists (xs ++ es). split; [rewrite Hr, Hr'; reflexivity|].
           rewrite Hm. cbn [hbind]. rewrite Hl, map_app. reflexivity.
        -- exists (xs ++ es). split; [rewrite Hr, Hr'; reflexivity|].
           rewrite Hm. cbn [hbind]. rewrite Hl, map_app. reflexivity.
        -- exists (xs ++ es). split; [rewrite Hr, Hr'; reflexivity|].
           rewrite Hm. cbn [hbind]. rewrite Hl, map_app. reflexivity.
Qed.

(* ------------------------------------------------------------------ *)
(* the dict form                                                       *)
(* ------------------------------------------------------------------ *)
Lemma dict_get_find k l :
  dict_get k l = match find (fun kv : N * hval => N.eqb (fst kv) k) l with
                 | Some kv => Some (snd kv) | None => None end.
Proof.
  induction l as [|[k' v] l IH]; [reflexivity|]. cbn. destruct (N.eqb k' k); [reflexivity|exact IH].
Qed.

Lemma dict_loop_ok S xstq (st : store) dict : forall pts,
  dict_guard S (length st) pts dict = true ->
  exists entries,
    ref_dict S xstq (map ce_tree st) pts dict = Some entries /\
    dict_loop S xstq st pts dict = HOk (map RFresh entries).
Proof.
  induction pts as [|d pts IH]; intro Hg.
  - exists []. split; reflexivity.
  - cbn [dict_guard] in Hg. cbn [ref_dict dict_loop].
    pose proof (dict_get_find (e_name d) dict) as Hf.
    destruct (dict_get (e_name d) dict) as [hv|] eqn:Hd.
    + destruct (find (fun kv : N * hval => N.eqb (fst kv) (e_name d)) dict) as [kv|]; [|discriminate]. inversion Hf; subst hv.
      destruct (snd kv) as [i|v]; cbn [ref_dict_value].
      * (* a ready-made element as the value: wrapped, sent as it is *)
        apply andb_true_iff in Hg as [Hi Hg]. destruct (IH Hg) as [es [Hr Hl]].
        apply Nat.ltb_lt in Hi.
        destruct (nth_error st i) as [ce|] eqn:Hce; [|apply nth_error_None in Hce; lia].
        exists (ce_tree ce :: es). split.
        -- rewrite (nth_error_map_tree st i ce Hce), Hr. reflexivity.
        -- unfold wrapped_of, copy_of. rewrite Hce. cbn [hbind]. rewrite Hl. reflexivity.
      * apply andb_true_iff in Hg as [Hv Hg]. destruct (IH Hg) as [es [Hr Hl]].
        rewrite (ref_entry_ok S xstq d v Hv).
        destruct (add_entry_ok_l S xstq d v Hv) as [xs [Hx [Hm _]]].
        destruct v as [|t|l|ty fs].
        -- exists es. split; [rewrite Hr; reflexivity | exact Hl].
        -- exists (xs ++ es). split; [rewrite Hx, Hr; reflexivity|].
           rewrite Hm. cbn [hbind]. rewrite Hl, map_app. reflexivity.
        -- exists (xs ++ es). split; [rewrite Hx, Hr; reflexivity|].
           rewrite Hm. cbn [hbind]. rewrite Hl, map_app. reflexivity.
        -- exists (xs ++ es). split; [rewrite Hx, Hr; reflexivity|].
           rewrite Hm. cbn [hbind]. rewrite Hl, map_app. reflexivity.
    + destruct (find (fun kv : N * hval => N.eqb (fst kv) (e_name d)) dict); [discriminate|]. destruct (IH Hg) as [es [Hr Hl]].
      exists es. split; [rewrite Hr; reflexivity | exact Hl].
Qed.

(* ------------------------------------------------------------------ *)
(* headers_as_configured                                               *)
(* ------------------------------------------------------------------ *)
Lemma headers_as_configured_l : forall S xstq (st : store) pts wsse sh,
  guard_C17 S (length st) pts sh = true ->
  exists entries,
    ref_headers S xstq (map ce_tree st) pts sh = Some entries /\
    headercontent S xstq st pts wsse sh =
      hbind (sec_content wsse) (fun c0 => HOk (fst c0 ++ map RFresh entries, snd c0)).
Proof.
  intros S xstq st pts wsse sh Hg.
  assert (Hseq : forall l, seq_guard S (length st) pts l = true ->
            exists entries, ref_seq S xstq (map ce_tree st) pts l = Some entries /\
              hbind (sec_content wsse) (fun c0 =>
                 match l with
                 | [] => HOk c0
                 | _ => hbind (seq_loop S xstq st pts 0 l) (fun r => HOk (fst c0 ++ r, snd c0))
                 end) =
              hbind (sec_content wsse) (fun c0 => HOk (fst c0 ++ map RFresh entries, snd c0))).
  { intros l Hl. destruct (seq_loop_ok S xstq st pts l 0 (Nat.le_0_l _) Hl) as [es [Hr Hs]].
    cbn [skipn] in Hr. exists es. split; [exact Hr|].
    destruct (sec_content wsse) as [[c s]|e]; [|reflexivity]. cbn [hbind fst snd].
    destruct l as [|h l].
    - cbn in Hr. inversion Hr; subst es. cbn [map]. rewrite app_nil_r. reflexivity.
    - rewrite Hs. reflexivity. }
  unfold headercontent.
  destruct sh as [h|l|l].
  - (* a single value *)
    destruct h as [i|v].
    + cbn [guard_C17] in Hg. destruct (Hseq [HElem i] Hg) as [es [Hr He]].
      exists es. split; [exact Hr|]. cbn [normalise]. exact He.
    + destruct v as [|t|l|ty fs].
      * exists []. split; [destruct pts; reflexivity|]. cbn [normalise].
        destruct (sec_content wsse) as [[c s]|e]; [|reflexivity]. cbn. rewrite app_nil_r. reflexivity.
      * cbn [guard_C17] in Hg. destruct (Hseq [HVal (VText t)] Hg) as [es [Hr He]].
        exists es. split; [exact Hr|]. cbn [normalise]. exact He.
      * cbn [guard_C17] in Hg. destruct (Hseq [HVal (VList l)] Hg) as [es [Hr He]].
        exists es. split; [exact Hr|]. cbn [normalise]. exact He.
      * cbn [guard_C17] in Hg. destruct (Hseq [HVal (VObj ty fs)] Hg) as [es [Hr He]].
        exists es. split; [exact Hr|]. cbn [normalise]. exact He.
  - cbn [guard_C17] in Hg. destruct (Hseq l Hg) as [es [Hr He]].
    exists es. split; [exact Hr|]. cbn [normalise]. destruct l; exact He.
  - cbn [guard_C17] in Hg. destruct (dict_loop_ok S xstq st l pts Hg) as [es [Hr Hl]].
    exists es. split; [exact Hr|]. cbn [normalise].
    destruct (sec_content wsse) as [[c s]|e]; [|reflexivity]. cbn [hbind fst snd].
    destruct l as [|kv l].
    + assert (es = []).
      { clear -Hr. revert es Hr. induction pts as [|d pts IH]; intros es Hr; cbn in Hr.
        - inversion Hr. reflexivity.
        - destruct (ref_dict S xstq (map ce_tree st) pts []) as [r|]; [|discriminate].
          inversion Hr; subst es. apply IH. reflexivity. }
      subst es. cbn. rewrite app_nil_r. reflexivity.
    + rewrite Hl. reflexivity.
Qed.

(* every element added for a declared part (all of them, for a list-valued
   entry) carries that part's name and namespace *)
Lemma entry_named_l S xstq d v ns :
  entry_ok S d v = true -> add_entry S xstq d v = HOk ns ->
  Forall (fun n => xname n = e_name d /\ xnsid n = elem_ns d) ns.
Proof.
  intros He Hm. destruct (add_entry_ok_l S xstq d v He) as [xs [_ [Hm' Hn]]].
  rewrite Hm in Hm'. inversion Hm'; subst xs. exact Hn.
Qed.

(* ------------------------------------------------------------------ *)
(* the caller's objects                                                *)
(* ------------------------------------------------------------------ *)
Definition is_fresh (r : href) : bool := match r with RFresh _ => true | RCaller _ => false end.
Definition ref_tree (r : href) : xnode := match r with RFresh n => n | RCaller _ => XN 0%N 0%N [] None [] end.

Lemma forallb_fresh_map l : forallb is_fresh (map RFresh l) = true.
Proof. induction l as [|x l IH]; [reflexivity|exact IH]. Qed.

Lemma seq_loop_fresh S xstq st pts : forall hs n r,
  seq_loop S xstq st pts n hs = HOk r -> forallb is_fresh r = true.
Proof.
  induction hs as [|h hs IH]; intros n r H.
  - inversion H. reflexivity.
  - destruct h as [i|v]; cbn [seq_loop] in H.
    + unfold copy_of in H. destruct (nth_error st i); [|discriminate]. cbn [hbind] in H.
      destruct (seq_loop S xstq st pts n hs) as [r'|] eqn:Hl; [|discriminate].
      inversion H; subst r. cbn. eapply IH, Hl.
    + destruct (Nat.eqb (length pts) n); [eapply IH, H|].
      destruct (nth_error pts n); [|discriminate].
      assert (Hcase : hbind (add_entry S xstq e v) (fun h =>
                        hbind (seq_loop S xstq st pts (Datatypes.S n) hs) (fun r => HOk (map RFresh h ++ r))) = HOk r ->
                      forallb is_fresh r = true).
      { intro Hv. destruct (add_entry S xstq e v) as [h|]; [|discriminate]. cbn [hbind] in Hv.
        destruct (seq_loop S xstq st pts (Datatypes.S n) hs) as [r'|] eqn:Hl; [|discriminate].
        inversion Hv; subst r. rewrite forallb_app, forallb_fresh_map. eapply IH, Hl. }
      destruct v; try (apply Hcase, H). eapply IH, H.
Qed.

Lemma dict_loop_fresh S xstq st dict : forall pts r,
  dict_loop S xstq st pts dict = HOk r -> forallb is_fresh r = true.
Proof.
  induction pts as [|d pts IH]; intros r H.
  - inversion H. reflexivity.
  - cbn [dict_loop] in H.
    assert (Hcase : forall v, hbind (add_entry S xstq d v) (fun h =>
                       hbind (dict_loop S xstq st pts dict) (fun r => HOk (map RFresh h ++ r))) = HOk r ->
                     forallb is_fresh r = true).
    { intros v Hv. destruct (add_entry S xstq d v) as [h|]; [|discriminate]. cbn [hbind] in Hv.
      destruct (dict_loop S xstq st pts dict) as [r'|] eqn:Hl; [|discriminate].
      inversion Hv; subst r. rewrite forallb_app, forallb_fresh_map. apply IH. reflexivity. }
    destruct (dict_get (e_name d) dict) as [[i|v]|]; [| |apply IH, H].
    + unfold wrapped_of, copy_of in H. destruct (nth_error st i); [|discriminate]. cbn [hbind] in H.
      destruct (dict_loop S xstq st pts dict) as [r'|] eqn:Hl; [|discriminate].
      inversion H; subst r. cbn. apply IH. reflexivity.
    + destruct v; try (eapply Hcase, H). apply IH, H.
Qed.

Lemma headercontent_fresh S xstq st pts wsse sh refs stamps :
  headercontent S xstq st pts wsse sh = HOk (refs, stamps) -> forallb is_fresh refs = true.
Proof.
  unfold headercontent. intro H.
  assert (H0 : forall c0, sec_content wsse = HOk c0 -> forallb is_fresh (fst c0) = true).
  { intros c0 Hc. unfold sec_content in Hc. destruct wsse as [s|].
    - destruct (sec_xml s); [|discriminate]. inversion Hc. reflexivity.
    - inversion Hc. reflexivity. }
  destruct (sec_content wsse) as [c0|e]; [|discriminate].
  specialize (H0 c0 eq_refl). cbn [hbind] in H.
  destruct (normalise sh) as [h|l|l].
  - discriminate.
  - destruct l as [|h l]; [inversion H; subst; exact H0|].
    destruct (seq_loop S xstq st pts 0 (h :: l)) as [r|] eqn:Hl; [|discriminate].
    inversion H; subst. rewrite forallb_app, H0. eapply seq_loop_fresh, Hl.
  - destruct l as [|h l]; [inversion H; subst; exact H0|].
    destruct (dict_loop S xstq st pts (h :: l)) as [r|] eqn:Hl; [|discriminate].
    inversion H; subst. rewrite forallb_app, H0. eapply dict_loop_fresh, Hl.
Qed.

Lemma attach_fresh m : forall refs st,
  forallb is_fresh refs = true -> attach m refs st = (map ref_tree refs, st).
Proof.
  induction refs as [|r refs IH]; intros st H; [reflexivity|].
  cbn [forallb] in H. apply andb_true_iff in H as [Hr H].
  destruct r; [|discriminate]. cbn [attach]. rewrite (IH st H). reflexivity.
Qed.

(* sending never depends on the message number and never writes the store *)
Lemma send_pure g m st : send g m st = (fst (send g 0 st), st).
Proof.
  unfold send.
  destruct (headercontent (g_schema g) (g_xstq g) st (g_pts g) (g_wsse g) (g_sh g)) as [[refs stamps]|e] eqn:H;
    [|reflexivity].
  pose proof (headercontent_fresh _ _ _ _ _ _ _ _ H) as Hf.
  rewrite !(attach_fresh _ refs st Hf). reflexivity.
Qed.

Lemma caller_objects_untouched_l : forall g m st, snd (send g m st) = st.
Proof. intros. rewrite send_pure. reflexivity. Qed.

Lemma repeat_same_l : forall g ms st,
  send_all g ms st = (map (fun _ => fst (send g 0 st)) ms, st).
Proof.
  induction ms as [|m ms IH]; intro st; [reflexivity|].
  cbn [send_all]. rewrite (send_pure g m st). rewrite IH. reflexivity.
Qed.

(* ------------------------------------------------------------------ *)
(* WS-Security                                                         *)
(* ------------------------------------------------------------------ *)
Lemma remove_first_head x l : remove_first x (x :: l) = Some l.
Proof. cbn. rewrite xnode_eqb_refl. reflexivity. Qed.

Lemma perm_eqb_refl l : perm_eqb l l = true.
Proof. induction l as [|x l IH]; [reflexivity|]. cbn [perm_eqb]. rewrite remove_first_head. exact IH. Qed.

Lemma xnodes_eqb'_refl l : xnodes_eqb' l l = true.
Proof. induction l as [|x l IH]; [reflexivity|]. cbn. rewrite xnode_eqb_refl. exact IH. Qed.

Lemma civil_eqb_refl c : civil_eqb c c = true.
Proof. unfold civil_eqb. rewrite !Z.eqb_refl. reflexivity. Qed.
Lemma tod_eqb_refl t : tod_eqb t t = true.
Proof. unfold tod_eqb. rewrite !Z.eqb_refl. reflexivity. Qed.

Lemma dt_text_reads_back d s : dtv_valid d = true -> dt_text d = HOk s -> dt_reads_back d s = true.
Proof.
  destruct d as [c t tz|]; [|discriminate]. cbn [dtv_valid dt_text]. intros Hv Hs.
  inversion Hs; subst s.
  apply andb_true_iff in Hv as [Hv Hz]. apply andb_true_iff in Hv as [Hc Ht].
  destruct (datetime_roundtrip_l c t tz Hc Ht Hz) as [tz' [Hp Ho]].
  unfold dt_reads_back. rewrite Hp, civil_eqb_refl, tod_eqb_refl, Ho. cbn.
  destruct (tz_offset tz); cbn; [apply Z.eqb_refl | reflexivity].
Qed.

Lemma token_xml_ok t x ss :
  token_valid t = true -> token_xml t = HOk (x, ss) ->
  token_ok dt_reads_back t x ss = true /\ length ss = nstamps t.
Proof.
  destruct t as [u|c e]; cbn [token_valid token_xml nstamps].
  - unfold utoken_xml. intros Hv H.
    destruct (ut_created u) as [d|] eqn:Hc.
    + destruct (dt_text d) as [s|] eqn:Hd; [|discriminate]. cbn [hbind] in H.
      inversion H; subst x ss. split; [|reflexivity].
      cbn [token_ok]. rewrite !N.eqb_refl. cbn [andb].
      rewrite Hc. rewrite (dt_text_reads_back d s Hv Hd).
      unfold utoken_expected. rewrite Hc.
      replace ([XN ns_wsse n_Username [] (norm_text (ut_user u)) []] ++ _)
        with ([XN ns_wsse n_Username [] (norm_text (ut_user u)) [];
               XN ns_wsse n_Password
                 [(0%N, n_Type, AText (if truthy (ut_digest u) then t_wsdigest else t_wstext))]
                 (norm_text (if truthy (ut_digest u) then ut_digest u else ut_pass u)) []] ++
              match ut_nonce u with
              | Some _ => [XN ns_wsse n_Nonce
                             (if ut_nonce_enc u then [(0%N, n_EncodingType, AText t_b64)] else [])
                             (norm_text (ut_nonce u)) []]
              | None => []
              end ++ [stamp_node n_Created]) by reflexivity.
      rewrite perm_eqb_refl. reflexivity.
    + inversion H; subst x ss. split; [|reflexivity].
      cbn [token_ok]. rewrite !N.eqb_refl. cbn [andb]. rewrite Hc.
      unfold utoken_expected. rewrite Hc.
      replace ([XN ns_wsse n_Username [] (norm_text (ut_user u)) []] ++ _)
        with ([XN ns_wsse n_Username [] (norm_text (ut_user u)) [];
               XN ns_wsse n_Password
                 [(0%N, n_Type, AText (if truthy (ut_digest u) then t_wsdigest else t_wstext))]
                 (norm_text (if truthy (ut_digest u) then ut_digest u else ut_pass u)) []] ++
              match ut_nonce u with
              | Some _ => [XN ns_wsse n_Nonce
                             (if ut_nonce_enc u then [(0%N, n_EncodingType, AText t_b64)] else [])
                             (norm_text (ut_nonce u)) []]
              | None => []
              end).
      * rewrite perm_eqb_refl. reflexivity.
      * cbn [app]. rewrite app_nil_r. reflexivity.
  - unfold tstamp_xml. intros Hv H. apply andb_true_iff in Hv as [Hvc Hve].
    destruct (dt_text c) as [a|] eqn:Ha; [|discriminate].
    destruct (dt_text e) as [b|] eqn:Hb; [|discriminate].
    cbn [hbind] in H. inversion H; subst x ss. split; [|reflexivity].
    cbn [token_ok]. rewrite !N.eqb_refl, xnodes_eqb'_refl.
    rewrite (dt_text_reads_back c a Hvc Ha), (dt_text_reads_back e b Hve Hb). reflexivity.
Qed.

Lemma firstn_app_len {A} (a b : list A) n : length a = n -> firstn n (a ++ b) = a.
Proof. intro H. subst n. rewrite firstn_app, Nat.sub_diag, firstn_all. cbn. apply app_nil_r. Qed.
Lemma skipn_app_len {A} (a b : list A) n : length a = n -> skipn n (a ++ b) = b.
Proof. intro H. subst n. rewrite skipn_app, Nat.sub_diag, skipn_all. reflexivity. Qed.

Lemma tokens_xml_ok : forall ts xs ss,
  forallb token_valid ts = true -> tokens_xml ts = HOk (xs, ss) ->
  tokens_ok dt_reads_back ts xs ss = true.
Proof.
  induction ts as [|t ts IH]; intros xs ss Hv H.
  - inversion H. reflexivity.
  - cbn [forallb] in Hv. apply andb_true_iff in Hv as [Ht Hv].
    cbn [tokens_xml] in H.
    destruct (token_xml t) as [[x s1]|] eqn:Hx; [|discriminate]. cbn [hbind] in H.
    destruct (tokens_xml ts) as [[xs' s2]|] eqn:Hxs; [|discriminate]. cbn [hbind fst snd] in H.
    inversion H; subst xs ss.
    destruct (token_xml_ok t x s1 Ht Hx) as [Hok Hlen].
    cbn [tokens_ok]. rewrite (firstn_app_len s1 s2 _ Hlen), (skipn_app_len s1 s2 _ Hlen), Hok.
    apply (IH xs' s2 Hv eq_refl).
Qed.

Lemma hbind_sec_shape A (r : hres (xnode * list str)) (f : list href * list str -> hres A) :
  hbind (hbind r (fun r => HOk ([RFresh (fst r)], snd r))) f =
  hbind r (fun r => f ([RFresh (fst r)], snd r)).
Proof. destruct r; reflexivity. Qed.

(* a configured Security object contributes exactly one element, in front of
   whatever the same configuration sends without it; that element is
   wsse:Security and carries every token *)
Lemma wsse_one_security_l : forall S xstq st pts s sh x stamps,
  sec_valid s = true -> sec_xml s = HOk (x, stamps) ->
  headercontent S xstq st pts (Some s) sh =
    hbind (headercontent S xstq st pts None sh) (fun r => HOk (RFresh x :: fst r, stamps)) /\
  is_security x = true /\ security_ok dt_reads_back s x stamps = true.
Proof.
  intros S xstq st pts s sh x stamps Hv Hx. split; [|split].
  - unfold headercontent, sec_content. rewrite Hx. cbn [hbind fst snd].
    destruct (normalise sh) as [h|l|l]; [reflexivity| |].
    + destruct l as [|h l]; [reflexivity|].
      destruct (seq_loop S xstq st pts 0 (h :: l)); reflexivity.
    + destruct l as [|h l]; [reflexivity|].
      destruct (dict_loop S xstq st pts (h :: l)); reflexivity.
  - unfold sec_xml in Hx. destruct (tokens_xml (sec_tokens s)) as [[xs ss]|]; [|discriminate].
    inversion Hx. reflexivity.
  - unfold sec_xml in Hx. destruct (tokens_xml (sec_tokens s)) as [[xs ss]|] eqn:Ht; [|discriminate].
    cbn [hbind fst snd] in Hx. inversion Hx; subst x stamps.
    cbn [security_ok]. rewrite !N.eqb_refl. cbn [andb].
    apply (tokens_xml_ok _ xs ss Hv Ht).
Qed.

(* the datetime values of a Security object, in document order *)
Definition token_dts (t : token) : list dtv :=
  match t with
  | TUser u => match ut_created u with Some d => [d] | None => [] end
  | TStamp c e => [c; e]
  end.
Definition sec_dts (s : security) : list dtv := flat_map token_dts (sec_tokens s).

Definition stamp_lexical (d : dtv) (text : str) : Prop :=
  exists c t tz tz', d = DT c t tz /\ text = iso_datetime c t tz /\
    parse_datetime text = Ok (c, t, tz') /\ tz_offset tz' = tz_offset tz.

Lemma dt_text_lexical d s : dtv_valid d = true -> dt_text d = HOk s -> stamp_lexical d s.
Proof.
  destruct d as [c t tz|]; [|discriminate]. cbn [dtv_valid dt_text]. intros Hv Hs.
  inversion Hs; subst s.
  apply andb_true_iff in Hv as [Hv Hz]. apply andb_true_iff in Hv as [Hc Ht].
  destruct (datetime_roundtrip_l c t tz Hc Ht Hz) as [tz' [Hp Ho]].
  exists c, t, tz, tz'. repeat split; assumption.
Qed.

Lemma tokens_stamps_lexical : forall ts xs ss,
  forallb token_valid ts = true -> tokens_xml ts = HOk (xs, ss) ->
  Forall2 stamp_lexical (flat_map token_dts ts) ss.
Proof.
  induction ts as [|t ts IH]; intros xs ss Hv H.
  - inversion H. constructor.
  - cbn [forallb] in Hv. apply andb_true_iff in Hv as [Ht Hv].
    cbn [tokens_xml] in H.
    destruct (token_xml t) as [[x s1]|] eqn:Hx; [|discriminate]. cbn [hbind] in H.
    destruct (tokens_xml ts) as [[xs' s2]|] eqn:Hxs; [|discriminate]. cbn [hbind fst snd] in H.
    inversion H; subst xs ss. cbn [flat_map].
    apply Forall2_app; [|apply (IH xs' s2 Hv eq_refl)].
    destruct t as [u|c e]; cbn [token_xml token_dts token_valid] in *.
    + unfold utoken_xml in Hx. destruct (ut_created u) as [d|].
      * destruct (dt_text d) as [s|] eqn:Hd; [|discriminate]. inversion Hx; subst.
        constructor; [apply dt_text_lexical; assumption | constructor].
      * inversion Hx. constructor.
    + unfold tstamp_xml in Hx. apply andb_true_iff in Ht as [Hvc Hve].
      destruct (dt_text c) as [a|] eqn:Ha; [|discriminate].
      destruct (dt_text e) as [b|] eqn:Hb; [|discriminate].
      inversion Hx; subst.
      constructor; [apply dt_text_lexical; assumption|].
      constructor; [apply dt_text_lexical; assumption | constructor].
Qed.

Lemma wsse_timestamps_lexical_l : forall s x stamps,
  sec_valid s = true -> sec_xml s = HOk (x, stamps) ->
  Forall2 stamp_lexical (sec_dts s) stamps.
Proof.
  intros s x stamps Hv Hx. unfold sec_xml in Hx.
  destruct (tokens_xml (sec_tokens s)) as [[xs ss]|] eqn:Ht; [|discriminate].
  cbn [hbind fst snd] in Hx. inversion Hx; subst.
  apply (tokens_stamps_lexical _ xs stamps Hv Ht).
Qed.

(* ------------------------------------------------------------------ *)
(* the whole invocation                                                *)
(* ------------------------------------------------------------------ *)
Lemma map_ref_tree_fresh l : map ref_tree (map RFresh l) = l.
Proof. induction l as [|x l IH]; [reflexivity|]. cbn. rewrite IH. reflexivity. Qed.


(* under the guard, the children of the Header are: the Security element (when
   configured) followed by exactly the reference entries; the store is as before *)
Lemma sent_as_configured_l : forall g m st sec stamps,
  guard_C17 (g_schema g) (length st) (g_pts g) (g_sh g) = true ->
  sec_content (g_wsse g) = HOk (map RFresh sec, stamps) ->
  exists entries,
    ref_headers (g_schema g) (g_xstq g) (map ce_tree st) (g_pts g) (g_sh g) = Some entries /\
    send g m st = (HOk (sec ++ entries, stamps), st).
Proof.
  intros g m st sec stamps Hg Hs.
  destruct (headers_as_configured_l (g_schema g) (g_xstq g) st (g_pts g) (g_wsse g) (g_sh g) Hg)
    as [es [Hr Hh]].
  exists es. split; [exact Hr|].
  unfold send. rewrite Hh, Hs. cbn [hbind fst snd].
  rewrite attach_fresh.
  - rewrite map_app, !map_ref_tree_fresh. reflexivity.
  - rewrite forallb_app, !forallb_fresh_map. reflexivity.
Qed.

(* ------------------------------------------------------------------ *)
(* the repaired behaviours, one by one                                 *)
(* ------------------------------------------------------------------ *)
(* a plain value (text or object) that fits adds exactly one element *)
Lemma plain_value_one_element_l S xstq d v :
  conforming S d v = true -> is_list v = false -> is_none v = false ->
  exists n, ref_elem S xstq d false v = Some [n] /\ add_entry S xstq d v = HOk [n] /\
            xname n = e_name d /\ xnsid n = elem_ns d.
Proof.
  intros Hc Hl Hn.
  assert (He : entry_ok S d v = true).
  { unfold entry_ok. rewrite Hc. destruct v; try discriminate; reflexivity. }
  destruct (add_entry_ok_l S xstq d v He) as [ns [Hr [Hm Hf]]].
  assert (Hone : exists n, ns = [n]).
  { destruct v as [|t|l|ty fs]; try discriminate.
    - cbn in Hr. inversion Hr. eexists; reflexivity.
    - rewrite ref_elem_obj in Hr.
      destruct (real_type S d ty); [|discriminate].
      destruct (decls_of _ _); [|discriminate].
      inversion Hr. eexists; reflexivity. }
  destruct Hone as [n Hn']. subst ns. exists n.
  split; [exact Hr|]. split; [exact Hm|]. inversion Hf; subst. assumption.
Qed.

Lemma item_entry_ok S d l x :
  entry_ok S d (VList l) = true -> In x l -> entry_ok S d x = true.
Proof.
  unfold entry_ok. intros H Hx. apply andb_true_iff in H as [Hc Hn].
  rewrite conforming_list, forallb_forall in Hc. rewrite (Hc x Hx). cbn [has_list_item] in Hn.
  apply negb_true_iff in Hn.
  assert (Hl : is_list x = false).
  { destruct (is_list x) eqn:E; [|reflexivity].
    assert (existsb is_list l = true) by (apply existsb_exists; exists x; split; assumption). congruence. }
  destruct x; try discriminate; reflexivity.
Qed.

(* a list-valued entry adds, in order, what each of its items adds on its own *)
Lemma list_entry_per_item_l S xstq d l :
  entry_ok S d (VList l) = true ->
  exists per_item,
    Forall2 (fun x ns => ref_elem S xstq d false x = Some ns /\ add_entry S xstq d x = HOk ns) l per_item /\
    add_entry S xstq d (VList l) = HOk (concat per_item) /\
    ref_elem S xstq d false (VList l) = Some (concat per_item).
Proof.
  intro He.
  assert (Hitems : exists per_item,
            Forall2 (fun x ns => ref_elem S xstq d false x = Some ns /\ add_entry S xstq d x = HOk ns) l per_item /\
            oconcat (map (ref_elem S xstq d false) l) = Some (concat per_item)).
  { assert (Hall : forall x, In x l -> entry_ok S d x = true) by (intros x Hx; eapply item_entry_ok; eauto).
    clear He. induction l as [|x l IH].
    - exists []. split; [constructor|reflexivity].
    - destruct IH as [pi [Hf Ho]]; [intros y Hy; apply Hall; right; exact Hy|].
      destruct (add_entry_ok_l S xstq d x (Hall x (or_introl eq_refl))) as [ns [Hr [Hm _]]].
      exists (ns :: pi). split; [constructor; [split; assumption | exact Hf]|].
      cbn [map oconcat concat]. rewrite Hr, Ho. reflexivity. }
  destruct Hitems as [pi [Hf Ho]]. exists pi. split; [exact Hf|].
  destruct (add_entry_ok_l S xstq d (VList l) He) as [ns [Hr [Hm _]]].
  rewrite ref_elem_list, Ho in Hr. inversion Hr; subst ns.
  split; [exact Hm|]. rewrite ref_elem_list. exact Ho.
Qed.

(* a positional None uses up its declared part and sends nothing for it *)
Lemma seq_loop_shift S xstq st d pts : forall hs n,
  seq_loop S xstq st (d :: pts) (Datatypes.S n) hs = seq_loop S xstq st pts n hs.
Proof.
  induction hs as [|h hs IH]; intro n; [reflexivity|].
  destruct h as [i|v]; cbn [seq_loop].
  - rewrite IH. reflexivity.
  - cbn [length nth_error Nat.eqb]. rewrite IH, (IH (Datatypes.S n)). reflexivity.
Qed.

Lemma positional_none_leaves_part_out_l : forall S xstq st d pts wsse hs,
  headercontent S xstq st (d :: pts) wsse (SHSeq (HVal VNone :: hs)) =
  headercontent S xstq st pts wsse (SHSeq hs).
Proof.
  intros. unfold headercontent. cbn [normalise].
  destruct (sec_content wsse) as [[c s]|e]; [|reflexivity]. cbn [hbind fst snd].
  cbn [seq_loop length Nat.eqb nth_error]. rewrite seq_loop_shift.
  destruct hs as [|h hs]; [|reflexivity].
  cbn. rewrite app_nil_r. reflexivity.
Qed.

(* once the declared parts are used up, plain values add nothing and the
   ready-made elements that follow are still copied, in order *)
Definition elems_of (st : store) (hs : list hval) : list xnode :=
  flat_map (fun h => match h with
                     | HElem i => match nth_error st i with Some ce => [ce_tree ce] | None => [] end
                     | HVal _ => []
                     end) hs.
Definition elems_in_store (st : store) (hs : list hval) : bool :=
  forallb (fun h => match h with HElem i => Nat.ltb i (length st) | HVal _ => true end) hs.

Lemma surplus_values_skipped_elements_kept_l : forall S xstq st pts hs,
  elems_in_store st hs = true ->
  seq_loop S xstq st pts (length pts) hs = HOk (map RFresh (elems_of st hs)).
Proof.
  intros S xstq st pts. induction hs as [|h hs IH]; intro H; [reflexivity|].
  cbn [elems_in_store forallb] in H. apply andb_true_iff in H as [Hh H].
  destruct h as [i|v]; cbn [seq_loop elems_of flat_map].
  - apply Nat.ltb_lt in Hh. unfold copy_of.
    destruct (nth_error st i) as [ce|] eqn:Hce; [|apply nth_error_None in Hce; lia].
    cbn [hbind]. rewrite (IH H). reflexivity.
  - rewrite Nat.eqb_refl. apply IH, H.
Qed.

(* ------------------------------------------------------------------ *)
(* the function before the repairs, all switches off, IS the current one *)
(* ------------------------------------------------------------------ *)
Lemma add_entry_repaired S xstq d v : add_entry_q S xstq repaired d v = add_entry S xstq d v.
Proof.
  unfold add_entry_q, add_entry. destruct (of_mres (marshal_elem S xstq d false v)); [|reflexivity].
  destruct v; cbn; try reflexivity. rewrite Bool.orb_false_r. reflexivity.
Qed.

Lemma seq_loop_repaired S xstq st pts : forall hs n,
  seq_loop_q S xstq st repaired pts n hs = seq_loop S xstq st pts n hs.
Proof.
  induction hs as [|h hs IH]; intro n; [reflexivity|].
  destruct h as [i|v]; cbn [seq_loop_q seq_loop].
  - rewrite IH. reflexivity.
  - rewrite IH, (IH (Datatypes.S n)). change (q_break repaired) with false. change (q_none repaired) with false.
    destruct (Nat.eqb (length pts) n); [reflexivity|].
    destruct (nth_error pts n) as [d|]; [|reflexivity].
    rewrite add_entry_repaired. destruct v; reflexivity.
Qed.

Lemma dict_loop_repaired S xstq st dict : forall pts,
  dict_loop_q S xstq st repaired pts dict = dict_loop S xstq st pts dict.
Proof.
  induction pts as [|d pts IH]; [reflexivity|].
  cbn [dict_loop_q dict_loop]. rewrite IH.
  destruct (dict_get (e_name d) dict) as [[i|v]|]; [reflexivity| |reflexivity].
  rewrite add_entry_repaired. reflexivity.
Qed.

Lemma repaired_is_current_l : forall S xstq st pts wsse sh,
  headercontent_q S xstq st repaired pts wsse sh = headercontent S xstq st pts wsse sh.
Proof.
  intros. unfold headercontent_q, headercontent.
  destruct (sec_content wsse) as [c0|e]; [|reflexivity]. cbn [hbind].
  destruct (normalise sh) as [h|l|l]; [reflexivity| |].
  - destruct l; [reflexivity|]. rewrite seq_loop_repaired. reflexivity.
  - destruct l; [reflexivity|]. rewrite dict_loop_repaired. reflexivity.
Qed.

(* ------------------------------------------------------------------ *)
(* a ready-made element as the value of a declared part (dict form)     *)
(* ------------------------------------------------------------------ *)
Lemma element_value_sent_verbatim_l : forall S xstq st d pts dict i ce,
  dict_get (e_name d) dict = Some (HElem i) -> nth_error st i = Some ce ->
  dict_loop S xstq st (d :: pts) dict =
    hbind (dict_loop S xstq st pts dict) (fun r => HOk (RFresh (ce_tree ce) :: r)).
Proof.
  intros S xstq st d pts dict i ce Hd Hce. cbn [dict_loop]. rewrite Hd.
  unfold wrapped_of, copy_of. rewrite Hce. reflexivity.
Qed.

(* ------------------------------------------------------------------ *)
(* which declared parts a request is built from                        *)
(* ------------------------------------------------------------------ *)
Lemma fold_register_in l : forall s,
  fold_left (register true) l s = mkSoapH (sh_in s ++ l) (sh_out s).
Proof.
  induction l as [|h l IH]; intro s; cbn [fold_left].
  - rewrite app_nil_r. destruct s; reflexivity.
  - rewrite IH. cbn. rewrite <- app_assoc. reflexivity.
Qed.

Lemma fold_register_out l : forall s,
  fold_left (register false) l s = mkSoapH (sh_in s) (sh_out s ++ l).
Proof.
  induction l as [|h l IH]; intro s; cbn [fold_left].
  - rewrite app_nil_r. destruct s; reflexivity.
  - rewrite IH. cbn. rewrite <- app_assoc. reflexivity.
Qed.

(* the soap:header children of wsdl:input are the request's parts, those of
   wsdl:output the reply's, each in document order *)
Lemma request_parts_are_the_input_side_l : forall ins outs,
  headpart_types (add_operation ins outs) true = ins /\
  headpart_types (add_operation ins outs) false = outs.
Proof.
  intros. unfold add_operation, add_operation_q. rewrite fold_register_in, fold_register_out.
  split; reflexivity.
Qed.

Lemma request_parts_eq ins outs : request_parts ins outs = ins.
Proof. apply request_parts_are_the_input_side_l. Qed.

(* the variant kept for naming the defect: the reply's parts follow the request's *)
Lemma slip_appends_reply_parts ins outs :
  headpart_types (add_operation_q true ins outs) true = ins ++ outs.
Proof. unfold add_operation_q. rewrite !fold_register_in. reflexivity. Qed.

(* whatever the reply declares, the request is the one built from the input side alone *)
Lemma reply_header_parts_not_in_request_l : forall S xstq ins outs wsse sh m st,
  send (mkCfg S xstq (request_parts ins outs) wsse sh) m st = send (mkCfg S xstq ins wsse sh) m st.
Proof. intros. rewrite request_parts_eq. reflexivity. Qed.
