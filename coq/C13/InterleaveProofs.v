(* C13 -- the data-race-freedom theorem of the generic semantics (lemmas). *)
From SV Require Import Lib.Base C13.Interleave.

Section Proofs.
  Variables (loc val P : Type).
  Variable loc_eqb : loc -> loc -> bool.
  Hypothesis loc_eqb_spec : forall a b, loc_eqb a b = true <-> a = b.
  Variable vnone : val.
  Variable memo : loc -> option val.
  Variable next : P -> @action loc val P.

  Notation store := (store loc val).
  Notation upd := (upd loc val loc_eqb).
  Notation step1 := (step1 loc val P loc_eqb next).
  Notation solo := (solo loc val P loc_eqb next).
  Notation finishes_in := (finishes_in loc val P loc_eqb next).
  Notation finishes := (finishes loc val P loc_eqb next).
  Notation stepi := (stepi loc val P loc_eqb next).
  Notation exec := (exec loc val P loc_eqb next).
  Notation fp_ok := (fp_ok loc val P memo next).
  Notation mok := (mok loc val vnone memo).
  Notation sim := (sim loc val vnone memo).
  Notation memo_conv := (memo_conv loc val P loc_eqb vnone memo next).
  Notation compatible := (compatible loc val memo).
  Notation wr_ok := (wr_ok loc val memo).

  Lemma loc_eqb_refl a : loc_eqb a a = true.
  Proof. apply loc_eqb_spec. reflexivity. Qed.

  Lemma upd_same (s : store) l v : upd s l v l = v.
  Proof. unfold Interleave.upd. rewrite loc_eqb_refl. reflexivity. Qed.

  Lemma upd_other (s : store) l v x : x <> l -> upd s l v x = s x.
  Proof.
    intro H. unfold Interleave.upd. destruct (loc_eqb x l) eqn:E; [|reflexivity].
    apply loc_eqb_spec in E. contradiction.
  Qed.

  Lemma loc_dec (a b : loc) : a = b \/ a <> b.
  Proof.
    destruct (loc_eqb a b) eqn:E.
    - left. apply loc_eqb_spec. exact E.
    - right. intro H. apply loc_eqb_spec in H. congruence.
  Qed.

  (* ---------------- solo runs ---------------- *)

  Lemma solo_add n m p s :
    solo (n + m) p s = solo m (fst (solo n p s)) (snd (solo n p s)).
  Proof.
    revert p s. induction n as [|n IH]; intros p s; cbn; [reflexivity|].
    apply IH.
  Qed.

  Lemma done_step p s r : next p = ADone r -> step1 p s = (p, s).
  Proof. intro H. unfold Interleave.step1. rewrite H. reflexivity. Qed.

  Lemma done_stutter n p s r : next p = ADone r -> solo n p s = (p, s).
  Proof.
    intro H. induction n as [|n IH]; cbn; [reflexivity|].
    rewrite (done_step p s r H). cbn. exact IH.
  Qed.

  Lemma finishes_in_mono n m p s r :
    finishes_in n p s r -> n <= m -> finishes_in m p s r.
  Proof.
    unfold Interleave.finishes_in. intros H L.
    replace m with (n + (m - n)) by lia. rewrite solo_add.
    rewrite (done_stutter _ _ _ _ H). exact H.
  Qed.

  Lemma finishes_step p s r :
    finishes (fst (step1 p s)) (snd (step1 p s)) r -> finishes p s r.
  Proof. intros [n H]. exists (S n). exact H. Qed.

  Lemma finishes_after m p s r :
    finishes (fst (solo m p s)) (snd (solo m p s)) r -> finishes p s r.
  Proof.
    intros [n H]. exists (m + n). unfold Interleave.finishes_in. rewrite solo_add. exact H.
  Qed.

  Lemma finishes_done_eq p s r r' : next p = ADone r' -> finishes p s r -> r' = r.
  Proof.
    intros D [n H]. unfold Interleave.finishes_in in H.
    rewrite (done_stutter _ _ _ _ D) in H. cbn in H. congruence.
  Qed.

  (* ---------------- sim ---------------- *)

  Lemma sim_sym F s s' : sim F s s' -> sim F s' s.
  Proof.
    intros H x Hx. specialize (H x Hx). destruct (memo x); [tauto|congruence].
  Qed.

  Lemma sim_trans F s1 s2 s3 : sim F s1 s2 -> sim F s2 s3 -> sim F s1 s3.
  Proof.
    intros H1 H2 x Hx. specialize (H1 x Hx). specialize (H2 x Hx).
    destruct (memo x); [tauto|congruence].
  Qed.

  Lemma sim_refl_l F s s' : sim F s s' -> sim F s s.
  Proof. intro H. eapply sim_trans; [exact H|apply sim_sym; exact H]. Qed.

  Lemma mok_sim F s : mok s -> sim F s s.
  Proof.
    intros H x _. destruct (memo x) as [mv|] eqn:E; [|reflexivity].
    split; apply (H x mv E).
  Qed.

  Lemma sim_upd F s s' l v :
    wr_ok l v -> sim F s s' -> sim F (upd s l v) (upd s' l v).
  Proof.
    intros W H x Hx. destruct (loc_dec x l) as [->|N].
    - rewrite !upd_same. unfold Interleave.wr_ok in W.
      destruct (memo l); [subst; tauto|reflexivity].
    - rewrite !upd_other by exact N. apply H. exact Hx.
  Qed.

  (* ---------------- the sequential core: results do not depend on the
     sim-class of the store ---------------- *)

  Section OneThread.
    Variable F : fprint loc.
    Variable Inv : P -> Prop.
    Hypothesis Hfp : fp_ok F Inv.
    Hypothesis Hmc : memo_conv F Inv.

    Lemma inv_step p s : Inv p -> Inv (fst (step1 p s)).
    Proof.
      intro I. pose proof (Hfp p I) as H. unfold Interleave.step1.
      destruct (next p); cbn; try tauto.
      - apply H.
      - apply H.
    Qed.

    Lemma inv_solo n p s : Inv p -> Inv (fst (solo n p s)).
    Proof.
      revert p s. induction n as [|n IH]; intros p s I; cbn; [exact I|].
      apply IH. apply inv_step. exact I.
    Qed.

    Lemma finishes_sim n :
      forall p s s' r, Inv p -> sim F s s' -> finishes_in n p s r -> finishes p s' r.
    Proof.
      induction n as [n IH] using lt_wf_ind.
      intros p s s' r I S H.
      destruct n as [|n'].
      { exists 0. exact H. }
      unfold Interleave.finishes_in in H. cbn [Interleave.solo] in H.
      pose proof (Hfp p I) as Hp.
      destruct (next p) as [l k|l v p'|l f k|p'|r0] eqn:E.
      - (* read *)
        destruct Hp as [HR HI].
        assert (St : forall t, step1 p t = (k (t l), t)).
        { intro t. unfold Interleave.step1. rewrite E. reflexivity. }
        rewrite St in H. cbn [fst snd] in H.
        pose proof (S l HR) as Sl.
        assert (Same : s l = s' l -> finishes p s' r).
        { intro Q. apply finishes_step. rewrite St. cbn [fst snd]. rewrite <- Q.
          apply (IH n' (Nat.lt_succ_diag_r n') (k (s l)) s s' r (HI _) S H). }
        destruct (memo l) as [mv|] eqn:M; [|apply Same; exact Sl].
        destruct Sl as [[A|A] [B|B]].
        + apply Same. congruence.
        + (* s l empty, s' l filled *)
          rewrite A in H.
          destruct (Hmc p l k mv I E M s (sim_refl_l _ _ _ S)) as [m [Q1 Q2]].
          apply finishes_step. rewrite St. cbn [fst snd]. rewrite B.
          destruct (Nat.le_gt_cases m n') as [L|G].
          * replace n' with (m + (n' - m)) in H by lia.
            rewrite solo_add in H. rewrite Q1 in H.
            refine (IH (n' - m) _ (k mv) _ s' r (HI _) _ H); [lia|].
            eapply sim_trans; [apply sim_sym; exact Q2|exact S].
          * assert (H' : finishes_in m (k vnone) s r).
            { apply (finishes_in_mono n'); [exact H|lia]. }
            unfold Interleave.finishes_in in H'. rewrite Q1 in H'.
            exists 0. exact H'.
        + (* s l filled, s' l empty *)
          rewrite A in H.
          destruct (Hmc p l k mv I E M s' (sim_refl_l _ _ _ (sim_sym _ _ _ S))) as [m [Q1 Q2]].
          apply finishes_step. rewrite St. cbn [fst snd]. rewrite B.
          apply (finishes_after m). rewrite Q1.
          refine (IH n' (Nat.lt_succ_diag_r n') (k mv) s _ r (HI _) _ H).
          eapply sim_trans; [exact S|exact Q2].
        + apply Same. congruence.
      - (* write *)
        destruct Hp as [HW [Hwr HI]].
        assert (St : forall t, step1 p t = (p', upd t l v)).
        { intro t. unfold Interleave.step1. rewrite E. reflexivity. }
        rewrite St in H. cbn [fst snd] in H.
        apply finishes_step. rewrite St. cbn [fst snd].
        apply (IH n' (Nat.lt_succ_diag_r n') p' (upd s l v) _ r HI); [|exact H].
        apply sim_upd; assumption.
      - (* read-modify-write of a non-memo cell inside fR *)
        destruct Hp as [HR [HW [M HI]]].
        assert (St : forall t, step1 p t = (k (t l), upd t l (f (t l)))).
        { intro t. unfold Interleave.step1. rewrite E. reflexivity. }
        rewrite St in H. cbn [fst snd] in H.
        pose proof (S l HR) as Sl. rewrite M in Sl.
        apply finishes_step. rewrite St. cbn [fst snd]. rewrite <- Sl.
        apply (IH n' (Nat.lt_succ_diag_r n') (k (s l)) (upd s l (f (s l))) _ r (HI _)); [|exact H].
        apply sim_upd; [|exact S]. unfold Interleave.wr_ok. rewrite M. exact Logic.I.
      - (* private step *)
        assert (St : forall t, step1 p t = (p', t)).
        { intro t. unfold Interleave.step1. rewrite E. reflexivity. }
        rewrite St in H. cbn [fst snd] in H.
        apply finishes_step. rewrite St. cbn [fst snd].
        apply (IH n' (Nat.lt_succ_diag_r n') p' s s' r Hp S H).
      - (* finished *)
        rewrite (done_step p s r0 E) in H. cbn [fst snd] in H.
        rewrite (done_stutter _ _ _ _ E) in H. cbn in H.
        exists 0. unfold Interleave.finishes_in. cbn. congruence.
    Qed.

    Lemma finishes_sim' p s s' r :
      Inv p -> sim F s s' -> finishes p s r -> finishes p s' r.
    Proof. intros I S [n H]. eapply finishes_sim; eassumption. Qed.
  End OneThread.

  (* ---------------- several threads ---------------- *)

  Lemma nth_error_set_nth_same (ps : list P) i x p :
    nth_error ps i = Some p -> nth_error (set_nth P i x ps) i = Some x.
  Proof.
    revert i. induction ps as [|h t IH]; intros [|i] H; cbn in *; try discriminate.
    - reflexivity.
    - apply IH. exact H.
  Qed.

  Lemma nth_error_set_nth_other (ps : list P) i j x :
    i <> j -> nth_error (set_nth P j x ps) i = nth_error ps i.
  Proof.
    revert i j. induction ps as [|h t IH]; intros [|i] [|j] N; cbn; try reflexivity.
    - contradiction.
    - apply IH. congruence.
  Qed.

  Section Threads.
    Variable F : nat -> fprint loc.
    Variable Inv : nat -> P -> Prop.
    Hypothesis Hfp : forall i, fp_ok (F i) (Inv i).
    Hypothesis Hmc : forall i, memo_conv (F i) (Inv i).
    Hypothesis Hcompat : forall i j, i <> j -> compatible (F i) (F j).

    Definition good (c : store * list P) : Prop :=
      mok (fst c) /\ forall i p, nth_error (snd c) i = Some p -> Inv i p.

    Lemma mok_step j p s : Inv j p -> mok s -> mok (snd (step1 p s)).
    Proof.
      intros I M. pose proof (Hfp j p I) as H. unfold Interleave.step1.
      destruct (next p) as [l k|l v p'|l f k|p'|r0]; cbn; try exact M.
      - destruct H as [_ [W _]]. intros x mv Hx.
        destruct (loc_dec x l) as [->|N].
        + rewrite upd_same. unfold Interleave.wr_ok in W. rewrite Hx in W. right. exact W.
        + rewrite upd_other by exact N. apply (M x mv Hx).
      - destruct H as [_ [_ [Mn _]]]. intros x mv Hx.
        destruct (loc_dec x l) as [->|N]; [congruence|].
        rewrite upd_other by exact N. apply (M x mv Hx).
    Qed.

    Lemma stepi_good j c : good c -> good (stepi j c).
    Proof.
      intros [M I]. unfold Interleave.stepi.
      destruct (nth_error (snd c) j) as [p|] eqn:E; [|split; assumption].
      split; cbn [fst snd].
      - apply (mok_step j); [apply I; exact E|exact M].
      - intros i q Hq. destruct (Nat.eq_dec i j) as [->|N].
        + rewrite (nth_error_set_nth_same _ _ _ _ E) in Hq. inversion Hq; subst.
          apply (inv_step (F j) (Inv j) (Hfp j)). apply I. exact E.
        + rewrite nth_error_set_nth_other in Hq by exact N. apply I. exact Hq.
    Qed.

    (* a step of thread j leaves the store in the same sim-class for every
       other thread i: this is where the footprint condition is used *)
    Lemma other_step_sim i j p s :
      i <> j -> Inv j p -> mok s -> sim (F i) s (snd (step1 p s)).
    Proof.
      intros N I M. pose proof (Hfp j p I) as H. unfold Interleave.step1.
      destruct (next p) as [l k|l v p'|l f k|p'|r0]; cbn [snd]; try (apply mok_sim; exact M).
      - destruct H as [HW [W _]]. intros x Hx.
        destruct (loc_dec x l) as [->|Nx].
        + rewrite upd_same. pose proof (Hcompat i j N l HW Hx) as C.
          unfold Interleave.wr_ok in W.
          destruct (memo l) as [mv|] eqn:Ml; [|congruence].
          subst v. split; [apply (M l mv Ml)|right; reflexivity].
        + rewrite upd_other by exact Nx. apply (mok_sim (F i) s M x Hx).
      - destruct H as [_ [HW [Mn _]]]. intros x Hx.
        destruct (loc_dec x l) as [->|Nx].
        + exfalso. apply (Hcompat i j N l HW Hx). exact Mn.
        + rewrite upd_other by exact Nx. apply (mok_sim (F i) s M x Hx).
    Qed.

    Lemma stepi_keeps j c i p r :
      good c -> nth_error (snd c) i = Some p -> finishes p (fst c) r ->
      exists p', nth_error (snd (stepi j c)) i = Some p' /\ finishes p' (fst (stepi j c)) r.
    Proof.
      intros [M I] Hi Hf. unfold Interleave.stepi.
      destruct (nth_error (snd c) j) as [q|] eqn:E; [|exists p; split; assumption].
      cbn [fst snd]. destruct (Nat.eq_dec i j) as [->|N].
      - rewrite E in Hi. inversion Hi; subst q.
        exists (fst (step1 p (fst c))). split; [eapply nth_error_set_nth_same; exact E|].
        destruct Hf as [[|n] Hn].
        + unfold Interleave.finishes_in in Hn. cbn in Hn.
          rewrite (done_step _ _ _ Hn). cbn. exists 0. exact Hn.
        + exists n. exact Hn.
      - exists p. split; [rewrite nth_error_set_nth_other by exact N; exact Hi|].
        eapply (finishes_sim' (F i) (Inv i)); [apply Hfp|apply Hmc|apply I; exact Hi| |exact Hf].
        apply (other_step_sim i j); [exact N|apply I; exact E|exact M].
    Qed.

    Lemma drf_noninterference_l sched :
      forall c, good c ->
      forall i p r, nth_error (snd c) i = Some p -> finishes p (fst c) r ->
      exists p', nth_error (snd (exec sched c)) i = Some p'
                 /\ finishes p' (fst (exec sched c)) r.
    Proof.
      induction sched as [|j rest IH]; intros c G i p r Hi Hf; cbn.
      - exists p. split; assumption.
      - destruct (stepi_keeps j c i p r G Hi Hf) as [p' [H1 H2]].
        apply (IH (stepi j c) (stepi_good j c G) i p' r H1 H2).
    Qed.

    Lemma drf_results_l sched c :
      good c ->
      forall i p r p' r', nth_error (snd c) i = Some p -> finishes p (fst c) r ->
      nth_error (snd (exec sched c)) i = Some p' -> next p' = ADone r' -> r' = r.
    Proof.
      intros G i p r p' r' Hi Hf Hp' D.
      destruct (drf_noninterference_l sched c G i p r Hi Hf) as [q [Q1 Q2]].
      rewrite Hp' in Q1. inversion Q1; subst q.
      eapply finishes_done_eq; eassumption.
    Qed.
    (* memo cells only ever grow: once filled, a memo cell keeps its value under
       every schedule (every write to it writes its memo value: wr_ok) *)
    Lemma memo_step_keeps j p s l mv :
      Inv j p -> memo l = Some mv -> s l = mv -> snd (step1 p s) l = mv.
    Proof.
      intros I M E. pose proof (Hfp j p I) as H. unfold Interleave.step1.
      destruct (next p) as [l' k|l' v p'|l' f k|p'|r0]; cbn [snd]; try exact E.
      - destruct H as [_ [W _]]. destruct (loc_dec l l') as [<-|N].
        + rewrite upd_same. unfold Interleave.wr_ok in W. rewrite M in W. exact W.
        + rewrite upd_other by exact N. exact E.
      - destruct H as [_ [_ [Mn _]]]. destruct (loc_dec l l') as [<-|N]; [congruence|].
        rewrite upd_other by exact N. exact E.
    Qed.

    Lemma memo_cells_monotone_l sched :
      forall c, good c -> forall l mv, memo l = Some mv -> fst c l = mv ->
      fst (exec sched c) l = mv.
    Proof.
      induction sched as [|j rest IH]; intros c G l mv M E; cbn; [exact E|].
      apply (IH (stepi j c) (stepi_good j c G) l mv M).
      unfold Interleave.stepi. destruct (nth_error (snd c) j) as [p|] eqn:Ej; [|exact E].
      cbn [fst]. apply (memo_step_keeps j); [apply G; exact Ej|exact M|exact E].
    Qed.
  End Threads.
End Proofs.
