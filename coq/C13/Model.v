(* C13 -- the step program of one suds invocation over the shared state of a
   client, as the code has it today, and the same program with the multiref
   scratch state kept on the shared binding (the code before ef3e1e2).
   Definitions only.

   Shared locations (what is reachable from a Client, or class level):
     LOpt c          the option values of client c            (client.py: self.options)
     LMsgTx/LMsgRx c Client.messages['tx'/'rx'] of client c   (_SoapClient.last_sent/last_received)
     LResolved e nb  TypedContent.resolved_cache[nb] of schema object e   (sxbasic.py)
     LFactory k      sudsobject.Factory.cache[k]                           (sudsobject.py)
     LMrNodes o / LMrCatalog o   MultiRef.nodes / MultiRef.catalog of the MultiRef object o
     LProxy c        the state the transport of client c (re-)assigns at every request with values
                     determined by its own options: HttpTransport.proxy (transport/http.py: send) and
                     the entries pm.passwd[realm][uri] = (username, password) of its password manager
                     (transport/https.py: addcredentials); read by u2handlers / the auth handler
     LClassAttr k a  a cell owned by a class or a module of suds: class attribute a of class k,
                     an entry of a class-level dictionary or list, a module global (other than
                     sudsobject.Factory.cache, which is LFactory)
     LBinding b a    a cell of a Binding object b (an attribute, or an entry of a container it holds):
                     bindings are shared by all methods of a service and by all threads
     LOther a b      anything else (never touched by the model; observed writes
                     the harness cannot classify land here)
   A MultiRef object is identified by a number: objects created by a call
   (Binding.get_reply: MultiRef().process(body)) are numbered from [fresh_base]
   with the call's own index; the object the old code kept on the Binding has
   the binding's (small) number. *)
From SV Require Import Lib.Base C13.Interleave.
Local Open Scope N_scope.

Inductive cloc :=
| LOpt (c : N) | LMsgTx (c : N) | LMsgRx (c : N)
| LResolved (e : N) (nb : bool) | LFactory (k : N)
| LMrNodes (o : N) | LMrCatalog (o : N)
| LProxy (c : N)
| LClassAttr (k a : N)
| LBinding (b a : N)
| LOther (a b : N).

Definition cloc_eqb (a b : cloc) : bool :=
  match a, b with
  | LOpt x, LOpt y | LMsgTx x, LMsgTx y | LMsgRx x, LMsgRx y
  | LFactory x, LFactory y | LMrNodes x, LMrNodes y | LMrCatalog x, LMrCatalog y
  | LProxy x, LProxy y => x =? y
  | LResolved x p, LResolved y q => (x =? y) && Bool.eqb p q
  | LOther x p, LOther y q | LClassAttr x p, LClassAttr y q | LBinding x p, LBinding y q =>
      (x =? y) && (p =? q)
  | _, _ => false
  end.

Inductive cval :=
| VNone
| VNum (n : N)
| VNodes (ns : list N)
| VMap (m : list (N * N))
| VResult (req : N) (body : list N) (refs : list (N * N)) (memos : list N).

Definition nodes_of (v : cval) : list N := match v with VNodes ns => ns | _ => [] end.
Definition map_of (v : cval) : list (N * N) := match v with VMap m => m | _ => [] end.
Definition is_none (v : cval) : bool := match v with VNone => true | _ => false end.
Definition num_of (v : cval) : N := match v with VNum n => n | _ => 0 end.

(* dict semantics: last binding wins; 0 = absent (node ids are >= 1) *)
Fixpoint lookup (m : list (N * N)) (k : N) : N :=
  match m with
  | [] => 0
  | (k', v) :: t => let r := lookup t k in if (k' =? k) then (if r =? 0 then v else r) else r
  end.
Definition put (m : list (N * N)) (k v : N) : list (N * N) := m ++ [(k, v)].

(* the request document: a function of the call's own arguments and of the
   options of the client it was made through *)
Definition mkreq (args : N) (opt : cval) : N := args * 1000 + num_of opt.

Inductive instr :=
| IReadOpt (c : N)                   (* build the request: reads the client's options *)
| IMemo (l : cloc)                   (* x = cache.get(k); if x is None: x = compute(); cache[k] = x *)
| IWriteTx (c : N)                   (* self.last_sent(soapenv) *)
| IProxy (c : N)                     (* HttpTransport.send: self.proxy = self.options.proxy ... u2handlers reads self.proxy *)
| ISend                              (* urlopener.open(request): private *)
| IWriteRx (c : N)                   (* self.last_received(replyroot) *)
| IMrResetNodes (o : N)              (* self.nodes = [] *)
| IMrResetCatalog (o : N)            (* self.catalog = {} *)
| IMrRoot (o child : N)              (* self.nodes.append(child) *)
| IMrId (o key child : N)            (* self.catalog[key] = child *)
| IMrHref (o key : N)                (* ref = self.catalog.get(id) *)
| IMrFinish (o : N)                  (* body.children = self.nodes *)
| ISetOpt (c v : N).                 (* client.set_options(...), a different kind of thread *)

Record cstate := mkst {
  code : list instr;      (* what is left to execute *)
  sub : nat;              (* position inside an IMemo: 0 get, 1 compute, 2 store *)
  args : N;
  req : N;                (* the request built *)
  body : list N;          (* body.children after multiref processing *)
  refs : list (N * N);    (* href key -> node found in the catalog (0: not resolved) *)
  memos : list N          (* values obtained from the memo caches, in order *)
}.

Definition set_code (st : cstate) (cd : list instr) : cstate :=
  mkst cd 0 (args st) (req st) (body st) (refs st) (memos st).

Section Program.
  (* the value a memo cell is filled with: a function of the cell (the type a
     schema node resolves to, the class made for a name) -- ANY function *)
  Variable mv : cloc -> N.

  Definition memo_of (l : cloc) : option cval :=
    match l with
    | LResolved _ _ | LFactory _ | LProxy _ => Some (VNum (mv l))
    | _ => None
    end.

  Definition cnext (st : cstate) : @action cloc cval cstate :=
    match code st with
    | [] => ADone (VResult (req st) (body st) (refs st) (memos st))
    | i :: rest =>
      match i with
      | IReadOpt c =>
          ARead (LOpt c) (fun v => mkst rest 0 (args st) (mkreq (args st) v) (body st) (refs st) (memos st))
      | IMemo l =>
          match sub st with
          | O => ARead l (fun v =>
                   if is_none v
                   then mkst (code st) 1 (args st) (req st) (body st) (refs st) (memos st)
                   else mkst rest 0 (args st) (req st) (body st) (refs st) (memos st ++ [num_of v]))
          | S O => ATau (mkst (code st) 2 (args st) (req st) (body st) (refs st) (memos st))
          | _ => AWrite l (VNum (mv l))
                   (mkst rest 0 (args st) (req st) (body st) (refs st) (memos st ++ [mv l]))
          end
      | IWriteTx c => AWrite (LMsgTx c) (VNum (req st)) (set_code st rest)
      | IProxy c =>
          (* the assignment stores the proxy setting of the transport's own options: the same
             value whichever call does it (nobody sets options on a client in use: threads_ok);
             the later read (u2handlers) always follows the call's own assignment -- should it
             ever see the cell unset, the assignment is repeated *)
          match sub st with
          | O => AWrite (LProxy c) (VNum (mv (LProxy c)))
                   (mkst (code st) 1 (args st) (req st) (body st) (refs st) (memos st))
          | _ => ARead (LProxy c) (fun v =>
                   if is_none v
                   then mkst (code st) 0 (args st) (req st) (body st) (refs st) (memos st)
                   else mkst rest 0 (args st) (req st) (body st) (refs st) (memos st))
          end
      | ISend => ATau (set_code st rest)
      | IWriteRx c => AWrite (LMsgRx c) (VNum (req st + 1)) (set_code st rest)
      | IMrResetNodes o => AWrite (LMrNodes o) (VNodes []) (set_code st rest)
      | IMrResetCatalog o => AWrite (LMrCatalog o) (VMap []) (set_code st rest)
      | IMrRoot o ch =>
          ARmw (LMrNodes o) (fun v => VNodes (nodes_of v ++ [ch])) (fun _ => set_code st rest)
      | IMrId o key ch =>
          ARmw (LMrCatalog o) (fun v => VMap (put (map_of v) key ch)) (fun _ => set_code st rest)
      | IMrHref o key =>
          ARead (LMrCatalog o) (fun v =>
            mkst rest 0 (args st) (req st) (body st) (refs st ++ [(key, lookup (map_of v) key)]) (memos st))
      | IMrFinish o =>
          ARead (LMrNodes o) (fun v =>
            mkst rest 0 (args st) (req st) (nodes_of v) (refs st) (memos st))
      | ISetOpt c v => AWrite (LOpt c) (VNum v) (set_code st rest)
      end
    end.
End Program.

(* ---- the program of one invocation ---- *)

(* a child of the reply's <Body>: node id (>= 1), soapenc:root != "0", its id
   key (0: none), the href keys occurring in it *)
Record child := mkchild { nid : N; isroot : bool; idkey : N; hrefs : list N }.

Definition catalog_instrs (o : N) (c : child) : list instr :=
  (if isroot c then [IMrRoot o (nid c)] else []) ++
  (if idkey c =? 0 then [] else [IMrId o (idkey c) (nid c)]).

Definition href_instrs (o : N) (c : child) : list instr := map (IMrHref o) (hrefs c).

(* MultiRef.process(body) on the MultiRef object o *)
Definition mr_code (o : N) (cs : list child) : list instr :=
  [IMrResetNodes o; IMrResetCatalog o] ++ flat_map (catalog_instrs o) cs
  ++ flat_map (href_instrs o) cs ++ [IMrFinish o].

Record call := mkcall {
  c_client : N;             (* the Client object the call is made through *)
  c_mr : N;                 (* the MultiRef object it uses *)
  c_args : N;
  c_in : list cloc;         (* memo cells consulted while marshalling *)
  c_out : list cloc;        (* memo cells consulted while unmarshalling *)
  c_children : list child   (* the children of its own reply's body *)
}.

Definition call_code (k : call) : list instr :=
  [IReadOpt (c_client k)] ++ map IMemo (c_in k)
  ++ [IWriteTx (c_client k); IProxy (c_client k); ISend; IWriteRx (c_client k)]
  ++ mr_code (c_mr k) (c_children k) ++ map IMemo (c_out k).

Inductive thread := TCall (k : call) | TSetOpt (c v : N).

Definition thread_code (t : thread) : list instr :=
  match t with TCall k => call_code k | TSetOpt c v => [ISetOpt c v] end.

Definition init_state (t : thread) : cstate :=
  mkst (thread_code t) 0 (match t with TCall k => c_args k | _ => 0 end) 0 [] [] [].

(* what the call must return when it is decoded from its OWN reply: written
   from the reply alone (roots in document order; every href bound to the
   last child carrying that id) *)
Definition own_roots (cs : list child) : list N := map nid (filter isroot cs).
Definition own_catalog (cs : list child) : list (N * N) :=
  flat_map (fun c => if idkey c =? 0 then [] else [(idkey c, nid c)]) cs.
Definition own_refs (cs : list child) : list (N * N) :=
  map (fun k => (k, lookup (own_catalog cs) k)) (flat_map hrefs cs).

Definition expected (mv : cloc -> N) (opt : cval) (k : call) : cval :=
  VResult (mkreq (c_args k) opt) (own_roots (c_children k)) (own_refs (c_children k))
          (map mv (c_in k ++ c_out k)).

(* ---- footprints, computed from the program text ---- *)

Definition instr_rlocs (i : instr) : list cloc :=
  match i with
  | IReadOpt c => [LOpt c]
  | IMemo m => [m]
  | IProxy c => [LProxy c]
  | IMrRoot o _ | IMrFinish o => [LMrNodes o]
  | IMrId o _ _ | IMrHref o _ => [LMrCatalog o]
  | _ => []
  end.

Definition instr_wlocs (i : instr) : list cloc :=
  match i with
  | IMemo m => [m]
  | IProxy c => [LProxy c]
  | IWriteTx c => [LMsgTx c]
  | IWriteRx c => [LMsgRx c]
  | IMrResetNodes o | IMrRoot o _ => [LMrNodes o]
  | IMrResetCatalog o | IMrId o _ _ => [LMrCatalog o]
  | ISetOpt c _ => [LOpt c]
  | _ => []
  end.

Definition fp_of_code (cd : list instr) : fprint cloc :=
  Build_fprint (fun l => existsb (cloc_eqb l) (flat_map instr_rlocs cd))
               (fun l => existsb (cloc_eqb l) (flat_map instr_wlocs cd)).

Definition is_memo_loc (l : cloc) : bool :=
  match l with LResolved _ _ | LFactory _ | LProxy _ => true | _ => false end.

Definition is_cache_loc (l : cloc) : bool :=
  match l with LResolved _ _ | LFactory _ => true | _ => false end.

(* who owns a cell: a class or module of suds (state shared by EVERY client in
   the process), a Binding (shared by every call through a service) *)
Definition class_owned (l : cloc) : bool :=
  match l with LFactory _ | LClassAttr _ _ => true | _ => false end.
Definition binding_owned (l : cloc) : bool :=
  match l with LBinding _ _ => true | _ => false end.

Definition call_wf (k : call) : bool := forallb is_cache_loc (c_in k ++ c_out k).

(* ---- when do threads satisfy the footprint condition?  Stated on the
   threads themselves: ti is the reader, tj the writer ---- *)
Definition thread_wf (t : thread) : bool :=
  match t with TCall k => call_wf k | TSetOpt _ _ => true end.

Definition pair_ok (ti tj : thread) : Prop :=
  match ti, tj with
  | TCall ki, TCall kj => c_mr ki <> c_mr kj       (* different MultiRef objects *)
  | TCall ki, TSetOpt c _ => c_client ki <> c      (* options set on a client nobody is calling through *)
  | TSetOpt _ _, _ => True                         (* set_options reads nothing *)
  end.

Definition threads_ok (ts : list thread) : Prop :=
  (forall t, In t ts -> thread_wf t = true) /\
  (forall i j ti tj, i <> j -> nth_error ts i = Some ti -> nth_error ts j = Some tj -> pair_ok ti tj).

(* ---- running threads under a schedule (used by the harness and by the
   refutation witness) ---- *)

Definition cstore := cloc -> cval.
Definition cexec (mv : cloc -> N) := exec cloc cval cstate cloc_eqb (cnext mv).
Definition csolo (mv : cloc -> N) := solo cloc cval cstate cloc_eqb (cnext mv).

Definition result_of (mv : cloc -> N) (st : cstate) : option cval :=
  match cnext mv st with ADone r => Some r | _ => None end.

Definition cval_eqb (a b : cval) : bool :=
  match a, b with
  | VNone, VNone => true
  | VNum x, VNum y => x =? y
  | VNodes x, VNodes y => list_eqb N.eqb x y
  | VMap x, VMap y => list_eqb (fun p q => (fst p =? fst q) && (snd p =? snd q)) x y
  | VResult r1 b1 f1 m1, VResult r2 b2 f2 m2 =>
      (r1 =? r2) && list_eqb N.eqb b1 b2
      && list_eqb (fun p q => (fst p =? fst q) && (snd p =? snd q)) f1 f2
      && list_eqb N.eqb m1 m2
  | _, _ => false
  end.

(* ================================================================== *)
(* What the harness evaluates                                          *)
(* ================================================================== *)

Definition fresh_base : N := 1000000.
Definition default_mv (l : cloc) : N :=
  match l with LResolved e nb => 2 * e + (if nb then 2 else 1) | LFactory k => k + 1
  | LProxy c => c + 3 | _ => 0 end.
Definition store0 : cstore := fun l => match l with LOpt c => VNum (c + 7) | _ => VNone end.

(* --- (1) measured write footprint of one real invocation --- *)

Record obs_write := mkow {
  ow_loc : cloc;
  ow_empty : bool;    (* the cell was absent / None before the write *)
  ow_idem : bool;     (* recomputing gives an equal value and a repeated call leaves the cell alone *)
  ow_kind : N         (* 0 fill of an absent cell; 1 overwrite with an equivalent value;
                         2 overwrite with a different value; 3 the cell was DELETED
                         (del / pop / clear / eviction) *)
}.

(* memo cells only ever grow: no observed write removes a memo entry or
   replaces it by a different value (the measured counterpart of wr_ok, see
   memo_cells_monotone) *)
Definition memo_write_monotone (w : obs_write) : bool :=
  match ow_loc w with
  | LResolved _ _ | LFactory _ => ow_kind w <=? 1
  | _ => true
  end.

Record fp_case := mkfp {
  fc_client : N;                   (* the client the call was made through *)
  fc_writes : list obs_write;      (* before/after diff of everything reachable + class caches *)
  fc_transient : list obs_write;   (* additional writes seen between intermediate snapshots *)
  fc_msg_reads : N                 (* reads of Client.messages during the call *)
}.

(* the model's write footprint for ANY invocation through client c with a
   per-call MultiRef object (see call_writes_declared in CallProofs.v) *)
Definition declared_W (c : N) (l : cloc) : bool :=
  match l with
  | LMsgTx c' | LMsgRx c' | LProxy c' => c' =? c
  | LResolved _ _ | LFactory _ => true
  | LMrNodes o | LMrCatalog o => fresh_base <=? o
  | _ => false
  end.

Definition fp_agrees (x : fp_case) : bool :=
  forallb (fun w => declared_W (fc_client x) (ow_loc w)) (fc_writes x ++ fc_transient x).

(* the property's side: a call may leave behind only (a) the message slots of
   the client it was made through, which no call reads, (b) fills of
   value-idempotent memo cells, (c) its own transport's proxy attribute
   re-assigned with the value every call through that client assigns *)
Definition write_allowed (c : N) (w : obs_write) : bool :=
  match ow_loc w with
  | LMsgTx c' | LMsgRx c' => c' =? c
  | LResolved _ _ | LFactory _ =>
      ow_idem w && ((ow_empty w && (ow_kind w =? 0)) || (ow_kind w =? 1))
  | LProxy c' => (c' =? c) && ow_idem w     (* re-assigned with the same value by every call *)
  | _ => false
  end.

Definition fp_monotone (x : fp_case) : bool :=
  forallb memo_write_monotone (fc_writes x ++ fc_transient x).

Definition fp_spec_ok (x : fp_case) : bool :=
  forallb (write_allowed (fc_client x)) (fc_writes x ++ fc_transient x) && (fc_msg_reads x =? 0)
  && fp_monotone x.

(* --- (2) two..four real invocations under a controlled schedule --- *)

(* per thread: request equals the solo request; result: 0 own (= solo), 1 another
   thread's solo result, 2 something else, 3 exception, 4 blocked *)
Record outcome := mkout { o_req_own : bool; o_res : N }.

(* A schedule is given by LABELS: a segment (i, (pc, sub)) means "thread i runs
   until it has completed pc instructions of its program and is at
   sub-position sub of the next one" -- the harness computes the label of the
   point where the real thread was suspended from that thread's stack (which
   statement of MultiRef.process / build_catalog / replace_references /
   TypedContent.resolve / Factory.subclass / HttpTransport.send / last_sent /
   last_received it is executing).  Segments are listed in the order in which
   the real threads ran. *)
Record sched_case := mksc {
  sc_calls : list call;
  sc_plan : list (nat * (nat * nat));
  sc_obs : list outcome
}.

(* number of steps of a call that misses every memo cell *)
Definition prog_len (k : call) : nat := length (call_code k) + 2 * length (c_in k ++ c_out k) + 1.

Definition pos_of (total : nat) (st : cstate) : nat * nat := ((total - length (code st))%nat, sub st).
Definition pos_reached (tgt cur : nat * nat) : bool :=
  (fst tgt <? fst cur)%nat || ((fst tgt =? fst cur)%nat && (snd tgt <=? snd cur)%nat).

Definition cstepi (mv : cloc -> N) := stepi cloc cval cstate cloc_eqb (cnext mv).

Fixpoint run_to (mv : cloc -> N) (fuel i total : nat) (tgt : nat * nat)
                (c : cloc -> cval) (ps : list cstate) : (cloc -> cval) * list cstate :=
  match fuel with
  | O => (c, ps)
  | S f =>
      match nth_error ps i with
      | None => (c, ps)
      | Some st =>
          if pos_reached tgt (pos_of total st) then (c, ps)
          else run_to mv f i total tgt (fst (cstepi mv i (c, ps))) (snd (cstepi mv i (c, ps)))
      end
  end.

Fixpoint run_plan (mv : cloc -> N) (calls : list call) (plan : list (nat * (nat * nat)))
                  (c : (cloc -> cval) * list cstate) : (cloc -> cval) * list cstate :=
  match plan with
  | [] => c
  | (i, tgt) :: rest =>
      run_plan mv calls rest
        (match nth_error calls i with
         | Some k => run_to mv (prog_len k) i (length (call_code k)) tgt (fst c) (snd c)
         | None => c
         end)
  end.

Fixpoint completion (calls : list call) (i : nat) : list nat :=
  match calls with
  | [] => []
  | k :: rest => repeat i (prog_len k) ++ completion rest (S i)
  end.

Definition pairs_eqb (f f' : list (N * N)) : bool :=
  list_eqb (fun p q => (fst p =? fst q) && (snd p =? snd q)) f f'.

(* result classes: 0 the value decoded from the call's own reply; 1 the nodes
   of another call's reply (body.children of another thread: in the code the
   nodes carry their resolved content with them); 2 anything else *)
Definition classify (mv : cloc -> N) (calls : list call) (i : nat) (st : cstate) : outcome :=
  match result_of mv st, nth_error calls i with
  | Some (VResult rq b f m), Some k =>
      let req_own := rq =? mkreq (c_args k) (store0 (LOpt (c_client k))) in
      let own := list_eqb N.eqb b (own_roots (c_children k))
                 && pairs_eqb f (own_refs (c_children k))
                 && list_eqb N.eqb m (map mv (c_in k ++ c_out k)) in
      let others (k' : call) := list_eqb N.eqb b (own_roots (c_children k')) in
      mkout req_own (if own then 0 else if existsb others calls then 1 else 2)
  | _, _ => mkout false 4
  end.

Definition model_outcomes (x : sched_case) : list outcome :=
  let calls := sc_calls x in
  let final := cexec default_mv (completion calls 0)
                     (run_plan default_mv calls (sc_plan x)
                               (store0, map (fun k => init_state (TCall k)) calls)) in
  (fix go (i : nat) (sts : list cstate) :=
     match sts with [] => [] | st :: r => classify default_mv calls i st :: go (S i) r end)
  0%nat (snd final).

Definition outcome_eqb (a b : outcome) : bool :=
  Bool.eqb (o_req_own a) (o_req_own b) && (o_res a =? o_res b).

Definition sc_agrees (x : sched_case) : bool :=
  list_eqb outcome_eqb (model_outcomes x) (sc_obs x).

(* the property's side: every call sent its own request and returned the value
   decoded from its own reply; none failed or blocked *)
Definition sc_spec_ok (x : sched_case) : bool :=
  forallb (fun o => o_req_own o && (o_res o =? 0)) (sc_obs x)
  && (length (sc_obs x) =? length (sc_calls x))%nat.

(* --- (3) clones --- *)

(* the model: a clone is a new client number with a copy of the option values
   and an empty message history; every other cell (WSDL, schema, caches) is
   the same cell *)
Definition clone_model (orig fresh : N) (s : cstore) : cstore :=
  fun l => match l with
           | LOpt c => if c =? fresh then s (LOpt orig) else s l
           | LMsgTx c | LMsgRx c => if c =? fresh then VNone else s l
           | _ => s l
           end.

Definition cupd := upd cloc cval cloc_eqb.

Record clone_case := mkcl {
  cl_made : bool;            (* clone() returned a client *)
  cl_wsdl_shared : bool;     (* clone.wsdl / factory / sd are the original's objects *)
  cl_msgs_fresh : bool;      (* clone.messages is a distinct dict holding tx=None, rx=None *)
  cl_a : N;                  (* value of the probed option on the original before cloning *)
  cl_v : N;                  (* value then set on the clone *)
  cl_w : N;                  (* value then set on the original *)
  cl_seen : list N           (* observed: clone after clone(); original, clone after the first
                                set; original, clone after the second set *)
}.

Definition clone_model_seen (x : clone_case) : list N :=
  let s0 := cupd store0 (LOpt 0) (VNum (cl_a x)) in
  let s1 := clone_model 0 1 s0 in
  let s2 := cupd s1 (LOpt 1) (VNum (cl_v x)) in
  let s3 := cupd s2 (LOpt 0) (VNum (cl_w x)) in
  [num_of (s1 (LOpt 1)); num_of (s2 (LOpt 0)); num_of (s2 (LOpt 1));
   num_of (s3 (LOpt 0)); num_of (s3 (LOpt 1))].

Definition cl_agrees (x : clone_case) : bool :=
  cl_made x && list_eqb N.eqb (clone_model_seen x) (cl_seen x)
  && Bool.eqb (cl_msgs_fresh x) (is_none (clone_model 0 1 store0 (LMsgTx 1)))
  && cl_wsdl_shared x.

(* from the text: a clone can be made; it starts with the original's option
   values; afterwards each side keeps what was set on it; own (empty) message
   history; the loaded WSDL is shared *)
Definition cl_spec_ok (x : clone_case) : bool :=
  cl_made x && cl_wsdl_shared x && cl_msgs_fresh x
  && list_eqb N.eqb (cl_seen x) [cl_a x; cl_a x; cl_v x; cl_w x; cl_v x].

(* --- (4) "a clone can always be made": attribute lookup on a link Endpoint
   (suds/properties.py).  copy.deepcopy of the option graph re-creates every
   Endpoint without calling __init__ and then asks it for __deepcopy__ /
   __reduce_ex__ / __setstate__; Endpoint.__getattr__ is what answers when
   normal lookup fails.  [guard] is the test added by a66f8e5. --- *)
Inductive aname := NLink | NTarget | NDunder | NPlain.
Inductive lkres := Found | AttrErr | Recursion.

Definition guarded (n : aname) : bool :=
  match n with NPlain => false | _ => true end.

(* Endpoint.__getattr__(name), called only when normal lookup failed.
   fuel = interpreter recursion limit *)
Fixpoint endpoint_getattr (guard has_target target_has : bool) (fuel : nat) (n : aname) : lkres :=
  match fuel with
  | O => Recursion
  | S f =>
      if guard && guarded n then AttrErr
      else if has_target then (if target_has then Found else AttrErr)   (* getattr(self.target, name) *)
      else (* self.target is not there yet: normal lookup fails, __getattr__('target') *)
           match endpoint_getattr guard has_target target_has f NTarget with
           | Recursion => Recursion
           | _ => AttrErr
           end
  end.

Record lookup_case := mklk {
  lk_name : aname;
  lk_has_target : bool;      (* the endpoint is fully built *)
  lk_target_has : bool;      (* the target Properties object has the attribute *)
  lk_obs : lkres
}.

Definition lookup_eqb (a b : lkres) : bool :=
  match a, b with Found, Found | AttrErr, AttrErr | Recursion, Recursion => true | _, _ => false end.

Definition lk_agrees (x : lookup_case) : bool :=
  lookup_eqb (endpoint_getattr true (lk_has_target x) (lk_target_has x) 900 (lk_name x)) (lk_obs x).

(* from the text: no lookup on a half-built endpoint recurses (else no clone
   can be made); on a complete endpoint ordinary names are the target's *)
Definition lk_spec_ok (x : lookup_case) : bool :=
  negb (lookup_eqb (lk_obs x) Recursion)
  && (if lk_has_target x && negb (guarded (lk_name x))
      then lookup_eqb (lk_obs x) (if lk_target_has x then Found else AttrErr)
      else true).

(* --- compact case literals (the harness prints numbers only) --- *)
Definition cell_of_code (c : N) : cloc :=
  match c mod 4 with
  | 0 => LFactory (c / 4)
  | 1 => LResolved (c / 4) false
  | _ => LResolved (c / 4) true
  end.

Definition child_of_code (l : list N) : child :=
  match l with
  | n :: r :: k :: hs => mkchild n (negb (r =? 0)) k hs
  | _ => mkchild 0 false 0 []
  end.

(* CL [client; multiref object; args] cells-in cells-out children *)
Definition CL (h ins outs : list N) (cs : list (list N)) : call :=
  mkcall (nth 0 h 0) (nth 1 h 0) (nth 2 h 0) (map cell_of_code ins) (map cell_of_code outs)
         (map child_of_code cs).

(* SC calls [[thread; pc; sub] ...] [[request own; result class] ...] *)
Definition SC (calls : list call) (plan obs : list (list N)) : sched_case :=
  mksc calls
       (map (fun s => (N.to_nat (nth 0 s 0), (N.to_nat (nth 1 s 0), N.to_nat (nth 2 s 0)))) plan)
       (map (fun o => mkout (negb (nth 0 o 0 =? 0)) (nth 1 o 0)) obs).

(* compact literals for measured footprints *)
Definition loc_of_code (l : list N) : cloc :=
  let a := nth 1 l 0 in let b := nth 2 l 0 in
  match nth 0 l 0 with
  | 0 => LOpt a | 1 => LMsgTx a | 2 => LMsgRx a
  | 3 => LResolved a (negb (b =? 0)) | 4 => LFactory a
  | 5 => LMrNodes a | 6 => LMrCatalog a | 7 => LProxy a
  | 8 => LClassAttr a b | 9 => LBinding a b
  | _ => LOther a b
  end.

(* OW [loc tag; a; b; empty; idem; kind] *)
Definition OW (l : list N) : obs_write :=
  mkow (loc_of_code l) (negb (nth 3 l 0 =? 0)) (negb (nth 4 l 0 =? 0)) (nth 5 l 0).

Definition FP (client : N) (writes transient : list (list N)) (reads : N) : fp_case :=
  mkfp client (map OW writes) (map OW transient) reads.
