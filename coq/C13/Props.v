(* C13 -- Concurrent calls do not see each other's data.  Theorems only. *)
From SV Require Import Lib.Base C13.Interleave C13.InterleaveProofs.

(* ALL schedules, ANY number of threads and preemptions.  Threads are
   deterministic step programs over a shared store.  If every thread keeps to
   its declared footprint (fp_ok), reads memo cells only through the memo
   pattern (memo_conv) and, for any two different threads, what one writes and
   the other reads is at most a value-idempotent memo cell (compatible), then
   after ANY schedule prefix every thread that would complete alone from the
   initial store with result r can still complete alone from the current
   configuration with the same r: no thread is made to fail or to return
   something else by what the others did. *)
Theorem drf_noninterference :
  forall (loc val P : Type) (loc_eqb : loc -> loc -> bool),
  (forall a b, loc_eqb a b = true <-> a = b) ->
  forall (vnone : val) (memo : loc -> option val) (next : P -> @action loc val P)
         (F : nat -> fprint loc) (Inv : nat -> P -> Prop),
  (forall i, fp_ok loc val P memo next (F i) (Inv i)) ->
  (forall i, memo_conv loc val P loc_eqb vnone memo next (F i) (Inv i)) ->
  (forall i j, i <> j -> compatible loc val memo (F i) (F j)) ->
  forall (sched : list nat) (s0 : store loc val) (ps0 : list P),
  mok loc val vnone memo s0 ->
  (forall i p, nth_error ps0 i = Some p -> Inv i p) ->
  forall i p r, nth_error ps0 i = Some p ->
  finishes loc val P loc_eqb next p s0 r ->
  exists p', nth_error (snd (exec loc val P loc_eqb next sched (s0, ps0))) i = Some p'
             /\ finishes loc val P loc_eqb next p' (fst (exec loc val P loc_eqb next sched (s0, ps0))) r.
Proof.
  intros loc val P loc_eqb Hspec vnone memo next F Inv Hfp Hmc Hc sched s0 ps0 Hm Hi i p r Hp Hf.
  apply (drf_noninterference_l loc val P loc_eqb Hspec vnone memo next F Inv Hfp Hmc Hc sched
           (s0, ps0) (conj Hm Hi) i p r Hp Hf).
Qed.
Print Assumptions drf_noninterference.

(* ... in particular a thread that is finished after the schedule holds the
   result of its solo run. *)
Theorem drf_results :
  forall (loc val P : Type) (loc_eqb : loc -> loc -> bool),
  (forall a b, loc_eqb a b = true <-> a = b) ->
  forall (vnone : val) (memo : loc -> option val) (next : P -> @action loc val P)
         (F : nat -> fprint loc) (Inv : nat -> P -> Prop),
  (forall i, fp_ok loc val P memo next (F i) (Inv i)) ->
  (forall i, memo_conv loc val P loc_eqb vnone memo next (F i) (Inv i)) ->
  (forall i j, i <> j -> compatible loc val memo (F i) (F j)) ->
  forall (sched : list nat) (s0 : store loc val) (ps0 : list P),
  mok loc val vnone memo s0 ->
  (forall i p, nth_error ps0 i = Some p -> Inv i p) ->
  forall i p r p' r', nth_error ps0 i = Some p ->
  finishes loc val P loc_eqb next p s0 r ->
  nth_error (snd (exec loc val P loc_eqb next sched (s0, ps0))) i = Some p' ->
  next p' = ADone r' -> r' = r.
Proof.
  intros loc val P loc_eqb Hspec vnone memo next F Inv Hfp Hmc Hc sched s0 ps0 Hm Hi i p r p' r' Hp Hf Hp' D.
  apply (drf_results_l loc val P loc_eqb Hspec vnone memo next F Inv Hfp Hmc Hc sched (s0, ps0)
           (conj Hm Hi) i p r p' r' Hp Hf Hp' D).
Qed.
Print Assumptions drf_results.
