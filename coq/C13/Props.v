(* C13 -- Concurrent calls do not see each other's data.  Theorems only. *)
From SV Require Import Lib.Base C13.Interleave C13.InterleaveProofs C13.Model C13.CallProofs
  C13.SoloProofs C13.ThreadsProofs.

(* ALL schedules, ANY number of threads and preemptions.  Threads are
   deterministic step programs over a shared store.  If every thread keeps to
   its declared footprint (fp_ok), reads memo cells only through the memo
   pattern (memo_conv) and, for any two different threads, what one writes and
   the other reads is at most a value-idempotent memo cell (compatible), then
   after ANY schedule prefix every thread that would complete alone from the
   initial store with result r can still complete alone from the current
   configuration with the same r: no thread is made to fail or to return
   something else by what the others did. *)
Theorem drf_noninterference :
  forall (loc val P : Type) (loc_eqb : loc -> loc -> bool),
  (forall a b, loc_eqb a b = true <-> a = b) ->
  forall (vnone : val) (memo : loc -> option val) (next : P -> @action loc val P)
         (F : nat -> fprint loc) (Inv : nat -> P -> Prop),
  (forall i, fp_ok loc val P memo next (F i) (Inv i)) ->
  (forall i, memo_conv loc val P loc_eqb vnone memo next (F i) (Inv i)) ->
  (forall i j, i <> j -> compatible loc val memo (F i) (F j)) ->
  forall (sched : list nat) (s0 : store loc val) (ps0 : list P),
  mok loc val vnone memo s0 ->
  (forall i p, nth_error ps0 i = Some p -> Inv i p) ->
  forall i p r, nth_error ps0 i = Some p ->
  finishes loc val P loc_eqb next p s0 r ->
  exists p', nth_error (snd (exec loc val P loc_eqb next sched (s0, ps0))) i = Some p'
             /\ finishes loc val P loc_eqb next p' (fst (exec loc val P loc_eqb next sched (s0, ps0))) r.
Proof.
  intros loc val P loc_eqb Hspec vnone memo next F Inv Hfp Hmc Hc sched s0 ps0 Hm Hi i p r Hp Hf.
  apply (drf_noninterference_l loc val P loc_eqb Hspec vnone memo next F Inv Hfp Hmc Hc sched
           (s0, ps0) (conj Hm Hi) i p r Hp Hf).
Qed.
Print Assumptions drf_noninterference.

(* ... in particular a thread that is finished after the schedule holds the
   result of its solo run. *)
Theorem drf_results :
  forall (loc val P : Type) (loc_eqb : loc -> loc -> bool),
  (forall a b, loc_eqb a b = true <-> a = b) ->
  forall (vnone : val) (memo : loc -> option val) (next : P -> @action loc val P)
         (F : nat -> fprint loc) (Inv : nat -> P -> Prop),
  (forall i, fp_ok loc val P memo next (F i) (Inv i)) ->
  (forall i, memo_conv loc val P loc_eqb vnone memo next (F i) (Inv i)) ->
  (forall i j, i <> j -> compatible loc val memo (F i) (F j)) ->
  forall (sched : list nat) (s0 : store loc val) (ps0 : list P),
  mok loc val vnone memo s0 ->
  (forall i p, nth_error ps0 i = Some p -> Inv i p) ->
  forall i p r p' r', nth_error ps0 i = Some p ->
  finishes loc val P loc_eqb next p s0 r ->
  nth_error (snd (exec loc val P loc_eqb next sched (s0, ps0))) i = Some p' ->
  next p' = ADone r' -> r' = r.
Proof.
  intros loc val P loc_eqb Hspec vnone memo next F Inv Hfp Hmc Hc sched s0 ps0 Hm Hi i p r p' r' Hp Hf Hp' D.
  apply (drf_results_l loc val P loc_eqb Hspec vnone memo next F Inv Hfp Hmc Hc sched (s0, ps0)
           (conj Hm Hi) i p r p' r' Hp Hf Hp' D).
Qed.
Print Assumptions drf_results.

(* Memo cells only ever grow.  Under the same footprint hypothesis (every
   write to a memo cell writes its memo value: wr_ok inside fp_ok), a memo
   cell that is filled stays filled with the same value under EVERY schedule:
   nothing a thread is about to read back is ever removed or replaced.  A
   bounded cache that evicts or clears entries violates exactly this
   hypothesis; the harness checks it on every measured footprint
   (fp_monotone, part of fp_spec_ok). *)
Theorem memo_cells_monotone :
  forall (loc val P : Type) (loc_eqb : loc -> loc -> bool),
  (forall a b, loc_eqb a b = true <-> a = b) ->
  forall (vnone : val) (memo : loc -> option val) (next : P -> @action loc val P)
         (F : nat -> fprint loc) (Inv : nat -> P -> Prop),
  (forall i, fp_ok loc val P memo next (F i) (Inv i)) ->
  forall (sched : list nat) (s0 : store loc val) (ps0 : list P),
  mok loc val vnone memo s0 ->
  (forall i p, nth_error ps0 i = Some p -> Inv i p) ->
  forall l mv, memo l = Some mv -> s0 l = mv ->
    fst (exec loc val P loc_eqb next sched (s0, ps0)) l = mv.
Proof.
  intros loc val P loc_eqb Hspec vnone memo next F Inv Hfp sched s0 ps0 Hm Hi l mv M E.
  apply (memo_cells_monotone_l loc val P loc_eqb Hspec vnone memo next F Inv Hfp sched (s0, ps0)
           (conj Hm Hi) l mv M E).
Qed.
Print Assumptions memo_cells_monotone.

(* The sequential core of the above: for one thread, the result does not
   depend on which memo cells happen to be filled (stores related by [sim]
   agree on everything the thread reads except that memo cells may be empty
   in one and filled in the other). *)
Theorem memo_fill_is_invisible :
  forall (loc val P : Type) (loc_eqb : loc -> loc -> bool),
  (forall a b, loc_eqb a b = true <-> a = b) ->
  forall (vnone : val) (memo : loc -> option val) (next : P -> @action loc val P)
         (F : fprint loc) (Inv : P -> Prop),
  fp_ok loc val P memo next F Inv ->
  memo_conv loc val P loc_eqb vnone memo next F Inv ->
  forall p s s' r, Inv p -> sim loc val vnone memo F s s' ->
  finishes loc val P loc_eqb next p s r -> finishes loc val P loc_eqb next p s' r.
Proof.
  intros loc val P loc_eqb Hspec vnone memo next F Inv Hfp Hmc p s s' r.
  apply (finishes_sim' loc val P loc_eqb Hspec vnone memo next F Inv Hfp Hmc).
Qed.
Print Assumptions memo_fill_is_invisible.

(* ------------------------------------------------------------------ *)
(* the step program of a suds invocation (C13/Model.v)                 *)
(* ------------------------------------------------------------------ *)
Local Open Scope N_scope.

(* Whatever values it reads, a thread executing a piece of the invocation
   program reads and writes only the cells computed from the program text
   (fp_of_code), writes memo cells only with their memo value, and consults
   memo cells only through get / compute / store, which converges. *)
Theorem call_footprint_sound :
  forall (mv : cloc -> N) (cd : list instr),
    fp_ok cloc cval cstate (memo_of mv) (cnext mv) (fp_of_code cd) (fun st => incl (code st) cd)
    /\ memo_conv cloc cval cstate cloc_eqb VNone (memo_of mv) (cnext mv) (fp_of_code cd)
                 (fun st => incl (code st) cd).
Proof. intros mv cd. split; [apply call_fp_ok|apply call_memo_conv]. Qed.
Print Assumptions call_footprint_sound.

(* The write footprint of an invocation through client c with a MultiRef
   object of its own is inside [declared_W c] -- the set the harness compares
   the MEASURED writes of real invocations with (fp_agrees): the two message
   slots of c, memo cells, the private MultiRef object. *)
Theorem call_writes_declared :
  forall k l, call_wf k = true -> fresh_base <= c_mr k ->
    fW (fp_of_code (call_code k)) l = true -> declared_W (c_client k) l = true.
Proof. exact (call_writes_declared_l default_mv). Qed.
Print Assumptions call_writes_declared.

(* Alone, from any store whose memo cells are empty or correctly filled, an
   invocation completes with: the request built from its own arguments and
   its client's options; body.children = the roots of its own reply; every
   href bound by its own reply's ids; the memo values -- replies with any
   number of children, any number of memo lookups. *)
Theorem call_solo_result :
  forall mv k s, call_wf k = true -> mok cloc cval VNone (memo_of mv) s ->
    finishes cloc cval cstate cloc_eqb (cnext mv) (init_state (TCall k)) s
             (expected mv (s (LOpt (c_client k))) k).
Proof. exact call_solo_result_l. Qed.
Print Assumptions call_solo_result.

(* THE PROPERTY ON THE MODEL.  Any number of threads -- invocations through
   any clients, plus set_options threads -- such that no two invocations use
   the same MultiRef object and options are only set on clients nobody is
   calling through (threads_ok), under ANY schedule (any number of
   preemptions, at every step): every invocation can still complete, and
   whenever it has completed it returns what it returns alone: its own
   request, the value of its own reply. *)
Theorem calls_noninterference :
  forall mv ts s0 sched, threads_ok ts -> mok cloc cval VNone (memo_of mv) s0 ->
  forall i k, nth_error ts i = Some (TCall k) ->
    (exists p', nth_error (snd (cexec mv sched (s0, map init_state ts))) i = Some p'
       /\ finishes cloc cval cstate cloc_eqb (cnext mv) p'
                   (fst (cexec mv sched (s0, map init_state ts)))
                   (expected mv (s0 (LOpt (c_client k))) k))
    /\ (forall p' r', nth_error (snd (cexec mv sched (s0, map init_state ts))) i = Some p' ->
         cnext mv p' = ADone r' -> r' = expected mv (s0 (LOpt (c_client k))) k).
Proof.
  intros mv ts s0 sched Ok M i k Hi. split.
  - apply calls_noninterference_l; assumption.
  - intros p' r'. apply calls_results_l; assumption.
Qed.
Print Assumptions calls_noninterference.

(* The code as it is now: Binding.get_reply creates a MultiRef per reply, so
   the objects are pairwise different (NoDup) whatever clients, services and
   ports the calls go through: the footprint condition holds, and every call
   returns the value of its own reply under every schedule. *)
Theorem multiref_per_call_safe :
  forall mv calls, NoDup (map c_mr calls) -> (forall k, In k calls -> call_wf k = true) ->
    threads_ok (map TCall calls)
    /\ forall s0 sched i k p' r', mok cloc cval VNone (memo_of mv) s0 ->
         nth_error calls i = Some k ->
         nth_error (snd (cexec mv sched (s0, map init_state (map TCall calls)))) i = Some p' ->
         cnext mv p' = ADone r' -> r' = expected mv (s0 (LOpt (c_client k))) k.
Proof.
  intros mv calls ND Wf. pose proof (per_call_threads_ok calls ND Wf) as Ok. split; [exact Ok|].
  intros s0 sched i k p' r' M Hi Hp D.
  apply (calls_results_l mv (map TCall calls) s0 sched Ok M i k p' r'); try assumption.
  rewrite nth_error_map, Hi. reflexivity.
Qed.
Print Assumptions multiref_per_call_safe.

(* The code before ef3e1e2: ONE MultiRef object on the binding shared by all
   calls through a service.  Same program, same c_mr: there is a schedule of
   two well-formed calls through one client after which the first returns
   the nodes of the second call's reply.  (threads_ok fails exactly on
   c_mr kA <> c_mr kB.)  The harness replays this schedule on real threads:
   finding key C13:shared-multiref-state, status fixed. *)
Theorem multiref_shared_refuted :
  exists kA kB sched stA rq f m,
    c_mr kA = c_mr kB /\ c_client kA = c_client kB
    /\ call_wf kA = true /\ call_wf kB = true
    /\ nth_error (snd (cexec default_mv sched
                         (store0, [init_state (TCall kA); init_state (TCall kB)]))) 0 = Some stA
    /\ cnext default_mv stA = ADone (VResult rq (own_roots (c_children kB)) f m)
    /\ own_roots (c_children kB) <> own_roots (c_children kA).
Proof. exact multiref_shared_refuted_l. Qed.
Print Assumptions multiref_shared_refuted.

(* Clones.  A clone is another client number: it shares every schema / WSDL
   cell (and so the memo caches) but has its own option and message cells.
   Setting options on it while calls run through other clients -- at any
   point of any schedule -- changes none of their requests or results. *)
Theorem clone_independent :
  forall mv calls c v, NoDup (map c_mr calls) -> (forall k, In k calls -> call_wf k = true) ->
    (forall k, In k calls -> c_client k <> c) ->
    forall s0 sched i k p' r', mok cloc cval VNone (memo_of mv) s0 ->
      nth_error calls i = Some k ->
      nth_error (snd (cexec mv sched (s0, map init_state (TSetOpt c v :: map TCall calls)))) (S i) = Some p' ->
      cnext mv p' = ADone r' -> r' = expected mv (s0 (LOpt (c_client k))) k.
Proof.
  intros mv calls c v ND Wf Hc s0 sched i k p' r' M Hi Hp D.
  apply (calls_results_l mv (TSetOpt c v :: map TCall calls) s0 sched
           (setopt_threads_ok calls c v ND Wf Hc) M (S i) k p' r'); try assumption.
  cbn. rewrite nth_error_map, Hi. reflexivity.
Qed.
Print Assumptions clone_independent.

(* what clone() does to the store of the model: the clone starts with the
   original's option values and an empty message history; nothing else --
   in particular nothing of the original -- changes *)
Theorem clone_keeps_original :
  forall orig fresh s,
    clone_model orig fresh s (LOpt fresh) = s (LOpt orig)
    /\ clone_model orig fresh s (LMsgTx fresh) = VNone
    /\ clone_model orig fresh s (LMsgRx fresh) = VNone
    /\ (forall l, l <> LOpt fresh -> l <> LMsgTx fresh -> l <> LMsgRx fresh ->
        clone_model orig fresh s l = s l).
Proof. exact clone_model_spec. Qed.
Print Assumptions clone_keeps_original.

(* No class-level state.  A cell owned by a class or a module of suds is
   shared by EVERY client in the process.  The only such cell an invocation
   writes is an entry of sudsobject.Factory.cache, a declared value-idempotent
   memo cell; in particular no class attribute, no entry of a class-level
   dictionary (header templates, registries), no module global.  The harness
   classifies every MEASURED write by its owner (class / module / Binding /
   client / schema object): an observed LClassAttr or LBinding write is outside
   declared_W and fails fp_agrees and fp_spec_ok. *)
Theorem no_class_level_writes :
  forall k l, call_wf k = true ->
    fW (fp_of_code (call_code k)) l = true -> class_owned l = true ->
    (exists key, l = LFactory key)
    /\ (forall mv, memo_of mv l <> None)
    /\ (forall c kk a, declared_W c (LClassAttr kk a) = false).
Proof.
  intros k l Wf H C. destruct (no_class_level_writes_l k l Wf H C) as [key ->].
  split; [exists key; reflexivity|]. split; [intro mv; discriminate|reflexivity].
Qed.
Print Assumptions no_class_level_writes.

(* ... and the tie to the implementation: every MEASURED footprint the harness
   accepts (fp_agrees: the before/after and intermediate snapshots of a real
   invocation, every write classified by its owner) contains no write to a
   cell owned by a class or module other than Factory.cache entries, and no
   write to a cell of a Binding. *)
Theorem measured_footprint_no_class_level :
  forall x, fp_agrees x = true ->
  forall w, In w (fc_writes x ++ fc_transient x) ->
    (class_owned (ow_loc w) = true -> exists key, ow_loc w = LFactory key)
    /\ binding_owned (ow_loc w) = false.
Proof. exact measured_footprint_owned_l. Qed.
Print Assumptions measured_footprint_no_class_level.

(* ... and memo cells: in a measured footprint that meets fp_spec_ok every
   write to TypedContent.resolved_cache / Factory.cache is a fill of an absent
   entry or an overwrite with an equivalent value -- never a deletion
   (del / pop / clear / eviction) and never a different value. *)
Theorem measured_memo_writes_monotone :
  forall x, fp_spec_ok x = true ->
  forall w, In w (fc_writes x ++ fc_transient x) ->
    is_cache_loc (ow_loc w) = true -> (ow_kind w <= 1)%N.
Proof. exact measured_memo_monotone_l. Qed.
Print Assumptions measured_memo_writes_monotone.

(* No per-binding state.  Binding objects are shared by all methods of a
   service (wsdl.py: Definitions.add_methods) and by all threads; the
   marshaller, unmarshaller, MultiRef resolver and SOAP client objects are
   created per call.  On the program text: an invocation neither writes nor
   reads any cell of a Binding, and such a write is never inside declared_W. *)
Theorem binding_cells_untouched :
  forall k l, call_wf k = true ->
    fW (fp_of_code (call_code k)) l = true \/ fR (fp_of_code (call_code k)) l = true ->
    binding_owned l = false /\ (forall c b a, declared_W c (LBinding b a) = false).
Proof.
  intros k l Wf H. split; [apply (no_binding_cell_l k l Wf H)|reflexivity].
Qed.
Print Assumptions binding_cells_untouched.

(* The labelled plans the harness derives from real interleavings (thread i
   runs up to the label where the real thread was suspended) are schedules of
   the semantics above: what sc_agrees executes is cexec of some schedule, so
   calls_noninterference speaks about it. *)
Theorem labelled_plan_is_schedule :
  forall mv calls plan c, exists sched, run_plan mv calls plan c = cexec mv sched c.
Proof. exact run_plan_is_schedule_l. Qed.
Print Assumptions labelled_plan_is_schedule.

(* "A clone can always be made": while copy.deepcopy rebuilds a link Endpoint
   (no 'target' yet) every lookup that reaches Endpoint.__getattr__ -- any
   name, any recursion limit >= 2 -- ends in AttributeError, never in
   unbounded recursion; a complete endpoint still answers ordinary names from
   its target. *)
Theorem clone_lookup_total :
  forall fuel th n, (2 <= fuel)%nat ->
    endpoint_getattr true false th fuel n = AttrErr
    /\ endpoint_getattr true true th fuel NPlain = (if th then Found else AttrErr).
Proof.
  intros fuel th n H. split; [apply clone_lookup_total_l; exact H|].
  destruct fuel; [lia|reflexivity].
Qed.
Print Assumptions clone_lookup_total.

(* Without the guard (the code before a66f8e5) every such lookup exhausts
   every recursion limit: Client.clone() failed for every client.  Finding
   C14:clone-recursion, status fixed. *)
Theorem clone_lookup_unguarded_refuted :
  forall fuel th n, endpoint_getattr false false th fuel n = Recursion.
Proof. exact clone_lookup_unguarded_l. Qed.
Print Assumptions clone_lookup_unguarded_refuted.

(* ---- non-vacuity ---- *)
Example store0_memo_ok : mok cloc cval VNone (memo_of default_mv) store0.
Proof. intros x mx H. left. destruct x; cbn in H; try discriminate; reflexivity. Qed.

(* the hypotheses are satisfiable and the conclusion is about real runs: the
   two witness calls with MultiRef objects of their own satisfy threads_ok,
   and under the very schedule that breaks the shared variant both return the
   value of their own reply *)
Definition nv_calls := [mkcall 0 (fresh_base + 0) 1 [LResolved 3 true] [LFactory 4] wit_chA;
                        mkcall 0 (fresh_base + 1) 2 [LResolved 3 true] [LFactory 4] wit_chB].
Example calls_nonvacuous :
  threads_ok (map TCall nv_calls)
  /\ map (result_of default_mv)
         (snd (cexec default_mv wit_sched (store0, map init_state (map TCall nv_calls))))
     = map (fun k => Some (expected default_mv (store0 (LOpt (c_client k))) k)) nv_calls.
Proof.
  split.
  - apply per_call_threads_ok.
    + vm_compute. repeat constructor; cbn; intuition discriminate.
    + intros k [<-|[<-|[]]]; reflexivity.
  - vm_compute. reflexivity.
Qed.

(* the memo pattern is really exercised: both witness threads miss the same
   cell and both fill it *)
Example memo_race_nonvacuous :
  let final := cexec default_mv (repeat 0%nat 3 ++ repeat 1%nat 40 ++ repeat 0%nat 40)
                     (store0, map init_state (map TCall nv_calls)) in
  fst final (LResolved 3 true) = VNum (default_mv (LResolved 3 true))
  /\ map (result_of default_mv) (snd final)
     = map (fun k => Some (expected default_mv (store0 (LOpt (c_client k))) k)) nv_calls.
Proof. vm_compute. split; reflexivity. Qed.
