(* C13 -- generic shared-memory interleaving semantics (definitions only).

   A program is a deterministic transition function [next] over private
   states [P]; every step performs at most one access to the shared store:
   a read, a write, an atomic read-modify-write (a C-level container method
   such as list.append executed under the GIL), a private step, or it is
   finished with a result.  Threads are a list of private states; a schedule
   is a list of thread indexes (ANY list: any number of threads, any number of
   preemptions, unfair schedules included).

   [memo] marks the value-idempotent memo cells: a location [l] with
   [memo l = Some mv] is only ever written with [mv]; it holds [vnone]
   (not filled yet) or [mv]. *)
From SV Require Import Lib.Base.

Section Interleave.
  Variables (loc val P : Type).
  Variable loc_eqb : loc -> loc -> bool.
  Variable vnone : val.
  Variable memo : loc -> option val.

  Inductive action :=
  | ARead (l : loc) (k : val -> P)
  | AWrite (l : loc) (v : val) (p : P)
  | ARmw (l : loc) (f : val -> val) (k : val -> P)
  | ATau (p : P)
  | ADone (r : val).

  Variable next : P -> action.

  Definition store := loc -> val.
  Definition upd (s : store) (l : loc) (v : val) : store :=
    fun x => if loc_eqb x l then v else s x.

  (* one step of one thread on the shared store; a finished thread stutters *)
  Definition step1 (p : P) (s : store) : P * store :=
    match next p with
    | ARead l k => (k (s l), s)
    | AWrite l v p' => (p', upd s l v)
    | ARmw l f k => (k (s l), upd s l (f (s l)))
    | ATau p' => (p', s)
    | ADone _ => (p, s)
    end.

  (* a thread running alone *)
  Fixpoint solo (n : nat) (p : P) (s : store) : P * store :=
    match n with
    | O => (p, s)
    | S n' => solo n' (fst (step1 p s)) (snd (step1 p s))
    end.

  Definition finishes_in (n : nat) (p : P) (s : store) (r : val) : Prop :=
    next (fst (solo n p s)) = ADone r.
  (* "thread in state p, continuing alone on store s, completes with result r" *)
  Definition finishes (p : P) (s : store) (r : val) : Prop :=
    exists n, finishes_in n p s r.

  (* several threads under a schedule *)
  Fixpoint set_nth (i : nat) (x : P) (ps : list P) : list P :=
    match ps, i with
    | [], _ => []
    | _ :: t, O => x :: t
    | h :: t, S i' => h :: set_nth i' x t
    end.

  Definition stepi (i : nat) (c : store * list P) : store * list P :=
    match nth_error (snd c) i with
    | None => c
    | Some p => (snd (step1 p (fst c)), set_nth i (fst (step1 p (fst c))) (snd c))
    end.

  Fixpoint exec (sched : list nat) (c : store * list P) : store * list P :=
    match sched with
    | [] => c
    | i :: rest => exec rest (stepi i c)
    end.

  (* footprints *)
  Record fprint := { fR : loc -> bool; fW : loc -> bool }.

  Definition wr_ok (l : loc) (v : val) : Prop :=
    match memo l with Some mv => v = mv | None => True end.

  (* every state satisfying [Inv] only reads inside fR, only writes inside fW,
     writes a memo cell only with its memo value, and [Inv] is closed under
     steps whatever values are read (other threads may have written them) *)
  Definition fp_ok (F : fprint) (Inv : P -> Prop) : Prop :=
    forall p, Inv p ->
      match next p with
      | ARead l k => fR F l = true /\ forall v, Inv (k v)
      | AWrite l v p' => fW F l = true /\ wr_ok l v /\ Inv p'
      | ARmw l f k => fR F l = true /\ fW F l = true /\ memo l = None /\ forall v, Inv (k v)
      | ATau p' => Inv p'
      | ADone _ => True
      end.

  (* all memo cells are empty or filled with their memo value *)
  Definition mok (s : store) : Prop :=
    forall x mv, memo x = Some mv -> s x = vnone \/ s x = mv.

  (* two stores are indistinguishable for footprint F up to memo filling *)
  Definition sim (F : fprint) (s s' : store) : Prop :=
    forall x, fR F x = true ->
      match memo x with
      | None => s x = s' x
      | Some mv => (s x = vnone \/ s x = mv) /\ (s' x = vnone \/ s' x = mv)
      end.

  (* the memo pattern, stated locally and sequentially: reading an empty memo
     cell leads, after finitely many steps of the thread alone that do not
     leave the sim-class of the store, to the very state reached by reading
     the filled cell *)
  Definition memo_conv (F : fprint) (Inv : P -> Prop) : Prop :=
    forall p l k mv, Inv p -> next p = ARead l k -> memo l = Some mv ->
      forall s, sim F s s ->
        exists m, fst (solo m (k vnone) s) = k mv /\ sim F s (snd (solo m (k vnone) s)).

  (* THE FOOTPRINT CONDITION between threads i (reader) and j (writer): what j
     may write and i may read is a value-idempotent memo cell.  Write/write
     overlaps on cells nobody reads (Client.messages) are allowed. *)
  Definition compatible (Fi Fj : fprint) : Prop :=
    forall l, fW Fj l = true -> fR Fi l = true -> memo l <> None.

End Interleave.

Arguments ARead {loc val P}.
Arguments AWrite {loc val P}.
Arguments ARmw {loc val P}.
Arguments ATau {loc val P}.
Arguments ADone {loc val P}.
Arguments fR {loc}.
Arguments fW {loc}.
Arguments Build_fprint {loc}.
