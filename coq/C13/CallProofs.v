(* C13 -- the step program of a suds invocation meets the hypotheses of the
   data-race-freedom theorem (lemmas). *)
From SV Require Import Lib.Base C13.Interleave C13.InterleaveProofs C13.Model.
Local Open Scope N_scope.

Lemma cloc_eqb_spec a b : cloc_eqb a b = true <-> a = b.
Proof.
  destruct a, b; cbn; split; intro H; try discriminate; try congruence;
    repeat match goal with
    | H : _ && _ = true |- _ => apply andb_true_iff in H; destruct H
    | H : (_ =? _) = true |- _ => apply N.eqb_eq in H
    | H : Bool.eqb _ _ = true |- _ => apply Bool.eqb_prop in H
    end; subst; try reflexivity;
    inversion H; subst; rewrite ?N.eqb_refl, ?Bool.eqb_reflx; reflexivity.
Qed.

Lemma cloc_eqb_refl a : cloc_eqb a a = true.
Proof. apply cloc_eqb_spec. reflexivity. Qed.

Lemma existsb_cloc l ls : existsb (cloc_eqb l) ls = true <-> In l ls.
Proof.
  rewrite existsb_exists. split.
  - intros [x [Hx E]]. apply cloc_eqb_spec in E. subst. exact Hx.
  - intro H. exists l. split; [exact H|apply cloc_eqb_refl].
Qed.

Section WithMv.
  Variable mv : cloc -> N.

  Notation memo := (memo_of mv).
  Notation next := (cnext mv).
  Notation cupd := (upd cloc cval cloc_eqb).
  Notation cstep := (step1 cloc cval cstate cloc_eqb next).
  Notation csolo := (solo cloc cval cstate cloc_eqb next).
  Notation cfinishes := (finishes cloc cval cstate cloc_eqb next).
  Notation cmok := (mok cloc cval VNone memo).
  Notation csim := (sim cloc cval VNone memo).

  Lemma cupd_same s l v : cupd s l v l = v.
  Proof. apply upd_same. exact cloc_eqb_spec. Qed.
  Lemma cupd_other s l v x : x <> l -> cupd s l v x = s x.
  Proof. apply upd_other. exact cloc_eqb_spec. Qed.

  Lemma memo_of_some l v : memo l = Some v -> v = VNum (mv l) /\ is_memo_loc l = true.
  Proof. destruct l; cbn; intro H; inversion H; split; reflexivity. Qed.

  Lemma memo_of_memo_loc l : is_memo_loc l = true -> memo l = Some (VNum (mv l)).
  Proof. destruct l; cbn; intro H; try discriminate; reflexivity. Qed.

  Lemma memo_of_none l : is_memo_loc l = false -> memo l = None.
  Proof. destruct l; cbn; intro H; try discriminate; reflexivity. Qed.

  (* ---------- footprints are sound for the program text ---------- *)

  Definition cinv (cd : list instr) (st : cstate) : Prop := incl (code st) cd.

  Lemma in_rlocs cd i l : In i cd -> In l (instr_rlocs i) -> fR (fp_of_code cd) l = true.
  Proof.
    intros Hi Hl. cbn. apply existsb_cloc. apply in_flat_map. exists i. split; assumption.
  Qed.

  Lemma in_wlocs cd i l : In i cd -> In l (instr_wlocs i) -> fW (fp_of_code cd) l = true.
  Proof.
    intros Hi Hl. cbn. apply existsb_cloc. apply in_flat_map. exists i. split; assumption.
  Qed.

  Lemma incl_tail (i : instr) rest cd : incl (i :: rest) cd -> incl rest cd.
  Proof. intros H x Hx. apply H. right. exact Hx. Qed.

  Lemma call_fp_ok cd : fp_ok cloc cval cstate memo next (fp_of_code cd) (cinv cd).
  Proof.
    intros st I. unfold cinv in I. unfold cnext.
    destruct (code st) as [|i rest] eqn:E; [exact Logic.I|].
    assert (Hi : In i cd) by (apply I; left; reflexivity).
    assert (Ht : incl rest cd) by (eapply incl_tail; exact I).
    destruct i; cbn [set_code].
    - (* IReadOpt *) split; [apply (in_rlocs cd (IReadOpt c)); [exact Hi|left; reflexivity]|].
      intro v. exact Ht.
    - (* IMemo *)
      destruct (sub st) as [|[|n]].
      + split; [apply (in_rlocs cd (IMemo l)); [exact Hi|left; reflexivity]|].
        intro v. destruct (is_none v); unfold cinv; cbn; [exact I|exact Ht].
      + unfold cinv; cbn. exact I.
      + split; [apply (in_wlocs cd (IMemo l)); [exact Hi|left; reflexivity]|].
        split; [|exact Ht].
        unfold wr_ok. destruct (memo l) eqn:M; [|exact Logic.I].
        apply memo_of_some in M. symmetry. apply M.
    - split; [apply (in_wlocs cd (IWriteTx c)); [exact Hi|left; reflexivity]|].
      split; [exact Logic.I|exact Ht].
    - (* IProxy *)
      destruct (sub st) as [|n].
      + split; [apply (in_wlocs cd (IProxy c)); [exact Hi|left; reflexivity]|].
        split; [unfold wr_ok; cbn; reflexivity|]. unfold cinv; cbn. exact I.
      + split; [apply (in_rlocs cd (IProxy c)); [exact Hi|left; reflexivity]|].
        intro v. destruct (is_none v); unfold cinv; cbn; [exact I|exact Ht].
    - exact Ht.
    - split; [apply (in_wlocs cd (IWriteRx c)); [exact Hi|left; reflexivity]|].
      split; [exact Logic.I|exact Ht].
    - split; [apply (in_wlocs cd (IMrResetNodes o)); [exact Hi|left; reflexivity]|].
      split; [exact Logic.I|exact Ht].
    - split; [apply (in_wlocs cd (IMrResetCatalog o)); [exact Hi|left; reflexivity]|].
      split; [exact Logic.I|exact Ht].
    - split; [apply (in_rlocs cd (IMrRoot o child)); [exact Hi|left; reflexivity]|].
      split; [apply (in_wlocs cd (IMrRoot o child)); [exact Hi|left; reflexivity]|].
      split; [reflexivity|intro v; exact Ht].
    - split; [apply (in_rlocs cd (IMrId o key child)); [exact Hi|left; reflexivity]|].
      split; [apply (in_wlocs cd (IMrId o key child)); [exact Hi|left; reflexivity]|].
      split; [reflexivity|intro v; exact Ht].
    - split; [apply (in_rlocs cd (IMrHref o key)); [exact Hi|left; reflexivity]|].
      intro v. exact Ht.
    - split; [apply (in_rlocs cd (IMrFinish o)); [exact Hi|left; reflexivity]|].
      intro v. exact Ht.
    - split; [apply (in_wlocs cd (ISetOpt c v)); [exact Hi|left; reflexivity]|].
      split; [exact Logic.I|exact Ht].
  Qed.

  (* ---------- the memo pattern converges ---------- *)

  Lemma sim_fill F s l :
    memo l = Some (VNum (mv l)) -> csim F s s -> csim F s (cupd s l (VNum (mv l))).
  Proof.
    intros M S x Hx. destruct (memo x) as [mx|] eqn:Mx.
    - pose proof (S x Hx) as Sx. rewrite Mx in Sx. split; [apply Sx|].
      destruct (cloc_eqb x l) eqn:Q.
      + apply cloc_eqb_spec in Q. subst x. rewrite cupd_same. rewrite M in Mx. inversion Mx. right. reflexivity.
      + rewrite cupd_other; [apply Sx|]. intro; subst. rewrite cloc_eqb_refl in Q. discriminate.
    - rewrite cupd_other; [reflexivity|]. intro; subst. congruence.
  Qed.

  Lemma call_memo_conv cd : memo_conv cloc cval cstate cloc_eqb VNone memo next (fp_of_code cd) (cinv cd).
  Proof.
    intros st l k mvv I N M s S.
    unfold cnext in N.
    destruct (code st) as [|i rest] eqn:E; [discriminate|].
    destruct i; try discriminate.
    - (* IReadOpt: not a memo cell *)
      inversion N; subst. cbn in M. discriminate.
    - (* IMemo *)
      destruct (sub st) as [|[|n]] eqn:Es; try discriminate.
      inversion N; subst l k. clear N.
      destruct (memo_of_some _ _ M) as [-> Hm].
      exists 2%nat. cbn [is_none num_of].
      unfold Interleave.solo, Interleave.step1. cbn [cnext code sub fst snd args req body refs memos].
      split; [reflexivity|]. apply sim_fill; assumption.
    - (* IProxy: the read that follows the assignment *)
      destruct (sub st) as [|n] eqn:Es; try discriminate.
      inversion N; subst l k. clear N.
      destruct (memo_of_some _ _ M) as [-> Hm].
      exists 2%nat. cbn [is_none num_of].
      unfold Interleave.solo, Interleave.step1. cbn [cnext code sub fst snd args req body refs memos].
      rewrite cupd_same. cbn [is_none fst snd].
      split; [reflexivity|]. apply sim_fill; assumption.
    - inversion N; subst. cbn in M. discriminate.
    - inversion N; subst. cbn in M. discriminate.
  Qed.

  (* ---------- which cells a call reads and writes ---------- *)

  Lemma flat_rlocs_memo ms l : In l (flat_map instr_rlocs (map IMemo ms)) -> In l ms.
  Proof.
    induction ms as [|m ms IH]; cbn; [intuition congruence|]. intros [H|H]; [left; exact H|right; apply IH; exact H].
  Qed.

  Lemma flat_wlocs_memo ms l : In l (flat_map instr_wlocs (map IMemo ms)) -> In l ms.
  Proof.
    induction ms as [|m ms IH]; cbn; [intuition congruence|]. intros [H|H]; [left; exact H|right; apply IH; exact H].
  Qed.

  Definition mr_cell (o : N) (l : cloc) : Prop := l = LMrNodes o \/ l = LMrCatalog o.

  Lemma rlocs_catalog o cs l :
    In l (flat_map instr_rlocs (flat_map (catalog_instrs o) cs)) -> mr_cell o l.
  Proof.
    induction cs as [|c cs IH]; cbn; [intuition congruence|].
    rewrite flat_map_app. rewrite in_app_iff. intros [H|H]; [|apply IH; exact H].
    unfold catalog_instrs in H. rewrite flat_map_app in H. apply in_app_iff in H.
    destruct H as [H|H].
    - destruct (isroot c); cbn in H; [|intuition congruence]. left. intuition congruence.
    - destruct (idkey c =? 0); cbn in H; [intuition congruence|]. right. intuition congruence.
  Qed.

  Lemma wlocs_catalog o cs l :
    In l (flat_map instr_wlocs (flat_map (catalog_instrs o) cs)) -> mr_cell o l.
  Proof.
    induction cs as [|c cs IH]; cbn; [intuition congruence|].
    rewrite flat_map_app. rewrite in_app_iff. intros [H|H]; [|apply IH; exact H].
    unfold catalog_instrs in H. rewrite flat_map_app in H. apply in_app_iff in H.
    destruct H as [H|H].
    - destruct (isroot c); cbn in H; [|intuition congruence]. left. intuition congruence.
    - destruct (idkey c =? 0); cbn in H; [intuition congruence|]. right. intuition congruence.
  Qed.

  Lemma rlocs_href o cs l :
    In l (flat_map instr_rlocs (flat_map (href_instrs o) cs)) -> mr_cell o l.
  Proof.
    induction cs as [|c cs IH]; cbn; [intuition congruence|].
    rewrite flat_map_app. rewrite in_app_iff. intros [H|H]; [|apply IH; exact H].
    unfold href_instrs in H. induction (hrefs c) as [|h hs IHh]; cbn in H; [intuition congruence|].
    destruct H as [H|H]; [right; symmetry; exact H|apply IHh; exact H].
  Qed.

  Lemma wlocs_href o cs l :
    In l (flat_map instr_wlocs (flat_map (href_instrs o) cs)) -> False.
  Proof.
    induction cs as [|c cs IH]; cbn; [intuition congruence|].
    rewrite flat_map_app. rewrite in_app_iff. intros [H|H]; [|apply IH; exact H].
    unfold href_instrs in H. induction (hrefs c) as [|h hs IHh]; cbn in H; [intuition congruence|].
    apply IHh; exact H.
  Qed.

  Lemma rlocs_mr o cs l : In l (flat_map instr_rlocs (mr_code o cs)) -> mr_cell o l.
  Proof.
    unfold mr_code. rewrite !flat_map_app. rewrite !in_app_iff. cbn.
    intros [H|[H|[H|H]]].
    - intuition congruence.
    - eapply rlocs_catalog; exact H.
    - eapply rlocs_href; exact H.
    - left. intuition congruence.
  Qed.

  Lemma wlocs_mr o cs l : In l (flat_map instr_wlocs (mr_code o cs)) -> mr_cell o l.
  Proof.
    unfold mr_code. rewrite !flat_map_app. rewrite !in_app_iff. cbn.
    intros [H|[H|[H|H]]].
    - destruct H as [H|[H|H]]; [left|right|]; intuition congruence.
    - eapply wlocs_catalog; exact H.
    - exfalso. eapply wlocs_href; exact H.
    - intuition congruence.
  Qed.

  Lemma rlocs_call k l :
    In l (flat_map instr_rlocs (call_code k)) ->
    l = LOpt (c_client k) \/ l = LProxy (c_client k) \/ In l (c_in k ++ c_out k)
    \/ mr_cell (c_mr k) l.
  Proof.
    unfold call_code. rewrite !flat_map_app. rewrite !in_app_iff. cbn.
    intros [H|[H|[H|[H|H]]]].
    - left. intuition congruence.
    - right. right. left. left. apply flat_rlocs_memo. exact H.
    - right. left. intuition congruence.
    - right. right. right. eapply rlocs_mr. exact H.
    - right. right. left. right. apply flat_rlocs_memo. exact H.
  Qed.

  Lemma wlocs_call k l :
    In l (flat_map instr_wlocs (call_code k)) ->
    l = LMsgTx (c_client k) \/ l = LMsgRx (c_client k) \/ l = LProxy (c_client k)
    \/ In l (c_in k ++ c_out k) \/ mr_cell (c_mr k) l.
  Proof.
    unfold call_code. rewrite !flat_map_app. rewrite !in_app_iff. cbn.
    intros [H|[H|[H|[H|H]]]].
    - intuition congruence.
    - right. right. right. left. left. apply flat_wlocs_memo. exact H.
    - destruct H as [H|[H|[H|H]]]; [left|right; right; left|right; left|]; intuition congruence.
    - right. right. right. right. eapply wlocs_mr. exact H.
    - right. right. right. left. right. apply flat_wlocs_memo. exact H.
  Qed.

  Lemma call_wf_cache k l : call_wf k = true -> In l (c_in k ++ c_out k) -> is_cache_loc l = true.
  Proof. unfold call_wf. rewrite forallb_forall. intros H Hl. apply H. exact Hl. Qed.

  Lemma cache_is_memo l : is_cache_loc l = true -> is_memo_loc l = true.
  Proof. destruct l; cbn; congruence. Qed.

  Lemma call_wf_memo k l : call_wf k = true -> In l (c_in k ++ c_out k) -> is_memo_loc l = true.
  Proof. intros H Hl. apply cache_is_memo. eapply call_wf_cache; eassumption. Qed.

  (* the model's write footprint is inside what the harness accepts as
     "declared" for a call through that client with a per-call MultiRef *)
  Lemma call_writes_declared_l k l :
    call_wf k = true -> fresh_base <= c_mr k ->
    fW (fp_of_code (call_code k)) l = true -> declared_W (c_client k) l = true.
  Proof.
    intros Wf Fr H. cbn in H. apply existsb_cloc in H. apply wlocs_call in H.
    destruct H as [->|[->|[->|[H|[->| ->]]]]]; cbn.
    - apply N.eqb_refl.
    - apply N.eqb_refl.
    - apply N.eqb_refl.
    - pose proof (call_wf_cache k l Wf H) as M. destruct l; cbn in M; try discriminate; reflexivity.
    - apply N.leb_le. exact Fr.
    - apply N.leb_le. exact Fr.
  Qed.

  (* ---------- the footprint condition between two threads ---------- *)

  Lemma pair_compatible ti tj :
    thread_wf ti = true -> thread_wf tj = true -> pair_ok ti tj ->
    compatible cloc cval memo (fp_of_code (thread_code ti)) (fp_of_code (thread_code tj)).
  Proof.
    intros Wi Wj Ok l HW HR. cbn in HW, HR. apply existsb_cloc in HW. apply existsb_cloc in HR.
    destruct (is_memo_loc l) eqn:Ml.
    { rewrite (memo_of_memo_loc l Ml). discriminate. }
    exfalso.
    destruct ti as [ki|ci vi].
    2:{ cbn in HR. intuition congruence. }
    apply rlocs_call in HR.
    assert (RR : l = LOpt (c_client ki) \/ mr_cell (c_mr ki) l).
    { destruct HR as [HR|[HR|[HR|HR]]]; [left; exact HR| | |right; exact HR].
      - subst l. discriminate.
      - rewrite (call_wf_memo ki l Wi HR) in Ml. discriminate. }
    destruct tj as [kj|cj vj].
    - apply wlocs_call in HW. cbn in Ok.
      destruct HW as [HW|[HW|[HW|[HW|HW]]]].
      + subst l. destruct RR as [R|[R|R]]; discriminate.
      + subst l. destruct RR as [R|[R|R]]; discriminate.
      + subst l. discriminate.
      + rewrite (call_wf_memo kj l Wj HW) in Ml. discriminate.
      + destruct HW as [HW|HW]; subst l; destruct RR as [R|[R|R]]; try discriminate;
          inversion R; apply Ok; congruence.
    - cbn in HW. destruct HW as [HW|[]]. subst l. cbn in Ok.
      destruct RR as [R|[R|R]]; try discriminate. inversion R. congruence.
  Qed.
End WithMv.
