(* C13 -- any number of invocations under any schedule (lemmas). *)
From SV Require Import Lib.Base C13.Interleave C13.InterleaveProofs C13.Model C13.CallProofs C13.SoloProofs.
Local Open Scope N_scope.

Section WithMv.
  Variable mv : cloc -> N.

  Notation memo := (memo_of mv).
  Notation next := (cnext mv).
  Notation cfinishes := (finishes cloc cval cstate cloc_eqb next).
  Notation cmok := (mok cloc cval VNone memo).

  Definition tF (ts : list thread) (i : nat) : fprint cloc :=
    match nth_error ts i with
    | Some t => fp_of_code (thread_code t)
    | None => fp_of_code []
    end.

  Definition tInv (ts : list thread) (i : nat) (st : cstate) : Prop :=
    match nth_error ts i with
    | Some t => cinv (thread_code t) st
    | None => False
    end.

  Lemma tfp_ok ts i : fp_ok cloc cval cstate memo next (tF ts i) (tInv ts i).
  Proof.
    unfold tF, tInv. destruct (nth_error ts i); [apply call_fp_ok|]. intros p [].
  Qed.

  Lemma tmemo_conv ts i : memo_conv cloc cval cstate cloc_eqb VNone memo next (tF ts i) (tInv ts i).
  Proof.
    unfold tF, tInv. destruct (nth_error ts i); [apply call_memo_conv|]. intros p l k m [].
  Qed.

  Lemma tcompat ts : threads_ok ts ->
    forall i j, i <> j -> compatible cloc cval memo (tF ts i) (tF ts j).
  Proof.
    intros [Wf Ok] i j N. unfold tF.
    destruct (nth_error ts i) as [ti|] eqn:Ei; destruct (nth_error ts j) as [tj|] eqn:Ej;
      try (intros l HW HR; cbn in HW, HR; discriminate).
    apply pair_compatible.
    - apply Wf. eapply nth_error_In; exact Ei.
    - apply Wf. eapply nth_error_In; exact Ej.
    - apply (Ok i j ti tj N Ei Ej).
  Qed.

  Lemma tinit ts i p : nth_error (map init_state ts) i = Some p -> tInv ts i p.
  Proof.
    rewrite nth_error_map. unfold tInv. destruct (nth_error ts i) as [t|]; cbn; [|discriminate].
    intro H. inversion H. unfold cinv. destruct t; cbn; apply incl_refl.
  Qed.

  Lemma calls_noninterference_l ts s0 sched :
    threads_ok ts -> cmok s0 ->
    forall i k, nth_error ts i = Some (TCall k) ->
    exists p', nth_error (snd (cexec mv sched (s0, map init_state ts))) i = Some p'
      /\ cfinishes p' (fst (cexec mv sched (s0, map init_state ts)))
                   (expected mv (s0 (LOpt (c_client k))) k).
  Proof.
    intros Ok M i k Hi.
    assert (Wf : call_wf k = true).
    { destruct Ok as [Wf _]. apply (Wf (TCall k)). eapply nth_error_In; exact Hi. }
    apply (drf_noninterference_l cloc cval cstate cloc_eqb cloc_eqb_spec VNone memo next
             (tF ts) (tInv ts) (tfp_ok ts) (tmemo_conv ts) (tcompat ts Ok) sched
             (s0, map init_state ts) (conj M (tinit ts)) i (init_state (TCall k))).
    - cbn [snd]. rewrite nth_error_map, Hi. reflexivity.
    - apply call_solo_result_l; assumption.
  Qed.

  Lemma calls_results_l ts s0 sched :
    threads_ok ts -> cmok s0 ->
    forall i k p' r', nth_error ts i = Some (TCall k) ->
    nth_error (snd (cexec mv sched (s0, map init_state ts))) i = Some p' ->
    next p' = ADone r' -> r' = expected mv (s0 (LOpt (c_client k))) k.
  Proof.
    intros Ok M i k p' r' Hi Hp D.
    destruct (calls_noninterference_l ts s0 sched Ok M i k Hi) as [q [Q1 Q2]].
    unfold cexec in *. rewrite Hp in Q1. inversion Q1; subst q.
    eapply (finishes_done_eq cloc cval cstate cloc_eqb); eassumption.
  Qed.

  (* per-call MultiRef objects give the footprint condition *)
  Lemma per_call_threads_ok calls :
    NoDup (map c_mr calls) -> (forall k, In k calls -> call_wf k = true) ->
    threads_ok (map TCall calls).
  Proof.
    intros ND Wf. split.
    - intros t Ht. apply in_map_iff in Ht. destruct Ht as [k [<- Hk]]. cbn. apply Wf. exact Hk.
    - intros i j ti tj N Hi Hj. rewrite nth_error_map in Hi, Hj.
      destruct (nth_error calls i) as [ki|] eqn:Ei; [|discriminate].
      destruct (nth_error calls j) as [kj|] eqn:Ej; [|discriminate].
      cbn in Hi, Hj. inversion Hi; inversion Hj; subst. cbn. intro E.
      apply N. rewrite NoDup_nth_error in ND. apply ND.
      + rewrite map_length. apply nth_error_Some. congruence.
      + rewrite !nth_error_map, Ei, Ej. cbn. congruence.
  Qed.

  (* set_options on a client nobody calls through (a clone) next to calls *)
  Lemma setopt_threads_ok calls c v :
    NoDup (map c_mr calls) -> (forall k, In k calls -> call_wf k = true) ->
    (forall k, In k calls -> c_client k <> c) ->
    threads_ok (TSetOpt c v :: map TCall calls).
  Proof.
    intros ND Wf Hc. destruct (per_call_threads_ok calls ND Wf) as [W1 P1]. split.
    - intros t [<-|Ht]; [reflexivity|apply W1; exact Ht].
    - intros [|i] [|j] ti tj N Hi Hj; cbn in Hi, Hj.
      + congruence.
      + inversion Hi; subst. exact Logic.I.
      + inversion Hj; subst. rewrite nth_error_map in Hi.
        destruct (nth_error calls i) as [ki|] eqn:Ei; [|discriminate].
        cbn in Hi. inversion Hi; subst. cbn. apply Hc. eapply nth_error_In; exact Ei.
      + apply (P1 i j ti tj); [congruence|exact Hi|exact Hj].
  Qed.
End WithMv.

(* the clone model *)
Lemma clone_model_spec orig fresh s :
  clone_model orig fresh s (LOpt fresh) = s (LOpt orig)
  /\ clone_model orig fresh s (LMsgTx fresh) = VNone
  /\ clone_model orig fresh s (LMsgRx fresh) = VNone
  /\ (forall l, l <> LOpt fresh -> l <> LMsgTx fresh -> l <> LMsgRx fresh ->
      clone_model orig fresh s l = s l).
Proof.
  unfold clone_model. rewrite !N.eqb_refl. repeat split.
  intros l A B C. destruct l; try reflexivity;
    destruct (c =? fresh) eqn:E; try reflexivity; apply N.eqb_eq in E; subst; congruence.
Qed.

(* the old code: one MultiRef object on the binding *)
Definition wit_chA := [mkchild 11 true 0 [5]; mkchild 12 false 5 []].
Definition wit_chB := [mkchild 21 true 0 [6]; mkchild 22 false 6 []].
Definition wit_kA := mkcall 0 3 1 [LResolved 3 true] [LFactory 4] wit_chA.
Definition wit_kB := mkcall 0 3 2 [LResolved 3 true] [LFactory 4] wit_chB.
(* A runs up to (not including) body.children = self.nodes; B runs completely; A finishes *)
Definition wit_sched : list nat := repeat 0%nat 12 ++ repeat 1%nat 40 ++ repeat 0%nat 40.

Lemma multiref_shared_refuted_l :
  exists kA kB sched stA rq f m,
    c_mr kA = c_mr kB /\ c_client kA = c_client kB
    /\ call_wf kA = true /\ call_wf kB = true
    /\ nth_error (snd (cexec default_mv sched
                         (store0, [init_state (TCall kA); init_state (TCall kB)]))) 0 = Some stA
    /\ cnext default_mv stA = ADone (VResult rq (own_roots (c_children kB)) f m)
    /\ own_roots (c_children kB) <> own_roots (c_children kA).
Proof.
  exists wit_kA, wit_kB, wit_sched,
         (mkst [] 0 1 1007 [21] [(5, 12)] [8; 5]), 1007, [(5, 12)], [8; 5].
  split; [reflexivity|]. split; [reflexivity|]. split; [reflexivity|]. split; [reflexivity|].
  split; [vm_compute; reflexivity|]. split; [vm_compute; reflexivity|].
  vm_compute. discriminate.
Qed.

(* attribute lookup on a half-built Endpoint *)
Lemma clone_lookup_total_l fuel th n :
  (2 <= fuel)%nat -> endpoint_getattr true false th fuel n = AttrErr.
Proof.
  intro H. destruct fuel as [|[|f]]; try lia. destruct n; reflexivity.
Qed.

Lemma clone_lookup_unguarded_l fuel th n : endpoint_getattr false false th fuel n = Recursion.
Proof.
  revert n. induction fuel as [|f IH]; intro n; [reflexivity|].
  cbn. rewrite IH. reflexivity.
Qed.

Lemma clone_lookup_complete_l fuel th : endpoint_getattr true true th (S fuel) NPlain = if th then Found else AttrErr.
Proof. reflexivity. Qed.

(* ---- a labelled plan (what the harness derives from the real interleaving)
   is a schedule of the semantics the theorems quantify over ---- *)
Lemma cexec_app mv s1 s2 c : cexec mv (s1 ++ s2) c = cexec mv s2 (cexec mv s1 c).
Proof.
  unfold cexec. revert c. induction s1 as [|i s1 IH]; intro c; cbn; [reflexivity|apply IH].
Qed.

Lemma run_to_is_schedule mv fuel i total tgt :
  forall c ps, exists n, run_to mv fuel i total tgt c ps = cexec mv (repeat i n) (c, ps).
Proof.
  induction fuel as [|f IH]; intros c ps; cbn [run_to].
  - exists 0%nat. reflexivity.
  - destruct (nth_error ps i) as [st|]; [|exists 0%nat; reflexivity].
    destruct (pos_reached tgt (pos_of total st)); [exists 0%nat; reflexivity|].
    destruct (IH (fst (cstepi mv i (c, ps))) (snd (cstepi mv i (c, ps)))) as [n Hn].
    exists (S n). rewrite Hn. cbn [repeat]. unfold cexec, cstepi. cbn [exec].
    destruct (stepi cloc cval cstate cloc_eqb (cnext mv) i (c, ps)); reflexivity.
Qed.

Lemma run_plan_is_schedule_l mv calls plan :
  forall c, exists sched, run_plan mv calls plan c = cexec mv sched c.
Proof.
  induction plan as [|[i tgt] rest IH]; intro c; cbn [run_plan].
  - exists []. reflexivity.
  - destruct (nth_error calls i) as [k|].
    + destruct (run_to_is_schedule mv (prog_len k) i (length (call_code k)) tgt (fst c) (snd c)) as [n Hn].
      rewrite Hn. destruct (IH (cexec mv (repeat i n) (fst c, snd c))) as [s Hs].
      exists (repeat i n ++ s). rewrite Hs, cexec_app. destruct c; reflexivity.
    + apply IH.
Qed.

(* ---- no class-level and no per-binding state ---- *)
Lemma no_class_level_writes_l k l :
  call_wf k = true -> fW (fp_of_code (call_code k)) l = true -> class_owned l = true ->
  exists key, l = LFactory key.
Proof.
  intros Wf H C. unfold fp_of_code in H. cbn [fR fW] in H. apply existsb_cloc in H. apply (wlocs_call default_mv) in H.
  destruct H as [->|[->|[->|[H|[->| ->]]]]]; try discriminate.
  pose proof (call_wf_cache k l Wf H) as M.
  destruct l; cbn in M, C; try discriminate. exists k0. reflexivity.
Qed.

Lemma no_binding_cell_l k l :
  call_wf k = true ->
  fW (fp_of_code (call_code k)) l = true \/ fR (fp_of_code (call_code k)) l = true ->
  binding_owned l = false.
Proof.
  intros Wf [H|H]; unfold fp_of_code in H; cbn [fR fW] in H; apply existsb_cloc in H.
  - apply (wlocs_call default_mv) in H.
    destruct H as [->|[->|[->|[H|[->| ->]]]]]; try reflexivity.
    pose proof (call_wf_cache k l Wf H) as M. destruct l; cbn in M; try discriminate; reflexivity.
  - apply (rlocs_call default_mv) in H.
    destruct H as [->|[->|[H|[->| ->]]]]; try reflexivity.
    pose proof (call_wf_cache k l Wf H) as M. destruct l; cbn in M; try discriminate; reflexivity.
Qed.

(* a MEASURED footprint accepted by fp_agrees has no class-level and no
   per-binding write other than Factory.cache entries *)
Lemma measured_footprint_owned_l x :
  fp_agrees x = true ->
  forall w, In w (fc_writes x ++ fc_transient x) ->
    (class_owned (ow_loc w) = true -> exists key, ow_loc w = LFactory key)
    /\ binding_owned (ow_loc w) = false.
Proof.
  unfold fp_agrees. rewrite forallb_forall. intros H w Hw. specialize (H w Hw).
  destruct (ow_loc w); cbn in *; try discriminate; split; try reflexivity; try discriminate;
    intro C; try discriminate. exists k. reflexivity.
Qed.

(* a measured footprint accepted by fp_spec_ok only fills memo cells or
   overwrites them with an equivalent value: nothing is removed *)
Lemma measured_memo_monotone_l x :
  fp_spec_ok x = true ->
  forall w, In w (fc_writes x ++ fc_transient x) ->
    is_cache_loc (ow_loc w) = true -> (ow_kind w <= 1)%N.
Proof.
  unfold fp_spec_ok, fp_monotone. rewrite !andb_true_iff, !forallb_forall.
  intros [_ H] w Hw C. specialize (H w Hw). unfold memo_write_monotone in H.
  destruct (ow_loc w); cbn in C; try discriminate; apply N.leb_le; exact H.
Qed.
