(* C13 -- what one invocation returns when it runs alone: the request built
   from its own arguments and the value decoded from its own reply (lemmas). *)
From SV Require Import Lib.Base C13.Interleave C13.InterleaveProofs C13.Model C13.CallProofs.
Local Open Scope N_scope.

Section WithMv.
  Variable mv : cloc -> N.

  Notation memo := (memo_of mv).
  Notation next := (cnext mv).
  Notation cupd := (upd cloc cval cloc_eqb).
  Notation cstep := (step1 cloc cval cstate cloc_eqb next).
  Notation csolo := (solo cloc cval cstate cloc_eqb next).
  Notation cfinishes := (finishes cloc cval cstate cloc_eqb next).
  Notation cmok := (mok cloc cval VNone memo).

  Definition runs (st : cstate) (s : cstore) (st' : cstate) (s' : cstore) : Prop :=
    exists n, csolo n st s = (st', s').

  Lemma runs_refl st s : runs st s st s.
  Proof. exists 0%nat. reflexivity. Qed.

  Lemma runs_trans st1 s1 st2 s2 st3 s3 :
    runs st1 s1 st2 s2 -> runs st2 s2 st3 s3 -> runs st1 s1 st3 s3.
  Proof.
    intros [n H1] [m H2]. exists (n + m)%nat.
    rewrite (solo_add cloc cval cstate cloc_eqb next). rewrite H1. exact H2.
  Qed.

  Lemma runs_step st s st' s' :
    runs (fst (cstep st s)) (snd (cstep st s)) st' s' -> runs st s st' s'.
  Proof. intros [n H]. exists (S n). exact H. Qed.

  Lemma runs_finishes st s st' s' r :
    runs st s st' s' -> next st' = ADone r -> cfinishes st s r.
  Proof.
    intros [n H] D. exists n. unfold finishes_in. rewrite H. exact D.
  Qed.

  Lemma cmok_upd_nonmemo s l v : is_memo_loc l = false -> cmok s -> cmok (cupd s l v).
  Proof.
    intros Hl M x mx Hx. destruct (memo_of_some mv _ _ Hx) as [_ Hm].
    rewrite (cupd_other s l v x); [apply (M x mx Hx)|]. intro; subst. congruence.
  Qed.

  (* ---- a run of memo lookups ---- *)
  Lemma run_memos ms : forall rest a rq b f m s,
    Forall (fun l => is_memo_loc l = true) ms -> cmok s ->
    exists s', runs (mkst (map IMemo ms ++ rest) 0 a rq b f m) s
                    (mkst rest 0 a rq b f (m ++ map mv ms)) s'
      /\ cmok s' /\ (forall x, is_memo_loc x = false -> s' x = s x).
  Proof.
    induction ms as [|l ms IH]; intros rest a rq b f m s Hf M.
    - exists s. cbn. rewrite app_nil_r. split; [apply runs_refl|]. split; [exact M|reflexivity].
    - inversion Hf as [|l' ms' Hl Hf']; subst.
      pose proof (memo_of_memo_loc mv l Hl) as Ml.
      destruct (M l _ Ml) as [E|E].
      + (* miss: get, compute, store *)
        set (s1 := cupd s l (VNum (mv l))).
        assert (M1 : cmok s1).
        { intros x mx Hx. unfold s1. destruct (cloc_eqb x l) eqn:Q.
          - apply cloc_eqb_spec in Q. subst x. rewrite cupd_same. rewrite Ml in Hx. inversion Hx. right. reflexivity.
          - rewrite cupd_other; [apply (M x mx Hx)|]. intro; subst. rewrite cloc_eqb_refl in Q. discriminate. }
        destruct (IH rest a rq b f (m ++ [mv l]) s1 Hf' M1) as [s' [R [M' Fr]]].
        exists s'. split; [|split; [exact M'|]].
        * apply runs_step. unfold step1. cbn [map app cnext code sub fst snd]. rewrite E. cbn [is_none fst snd].
          apply runs_step. unfold step1. cbn [cnext code sub fst snd args req body refs memos].
          apply runs_step. unfold step1. cbn [cnext code sub fst snd args req body refs memos].
          fold s1. cbn [map]. rewrite <- app_assoc in R. exact R.
        * intros x Hx. rewrite (Fr x Hx). unfold s1. apply cupd_other. intro; subst. congruence.
      + (* hit *)
        destruct (IH rest a rq b f (m ++ [mv l]) s Hf' M) as [s' [R [M' Fr]]].
        exists s'. split; [|split; [exact M'|exact Fr]].
        apply runs_step. unfold step1. cbn [map app cnext code sub fst snd]. rewrite E.
        cbn [is_none num_of fst snd args req body refs memos].
        cbn [map]. rewrite <- app_assoc in R. exact R.
  Qed.

  (* ---- MultiRef.process ---- *)
  Lemma own_roots_cons c cs :
    own_roots (c :: cs) = (if isroot c then [nid c] else []) ++ own_roots cs.
  Proof. unfold own_roots. cbn. destruct (isroot c); reflexivity. Qed.

  Lemma own_catalog_cons c cs :
    own_catalog (c :: cs) = (if idkey c =? 0 then [] else [(idkey c, nid c)]) ++ own_catalog cs.
  Proof. reflexivity. Qed.

  Lemma nodes_ne_catalog o : LMrNodes o <> LMrCatalog o.
  Proof. discriminate. Qed.

  Lemma run_catalog o cs : forall rest a rq b f m s ns mp,
    s (LMrNodes o) = VNodes ns -> s (LMrCatalog o) = VMap mp ->
    exists s', runs (mkst (flat_map (catalog_instrs o) cs ++ rest) 0 a rq b f m) s
                    (mkst rest 0 a rq b f m) s'
      /\ s' (LMrNodes o) = VNodes (ns ++ own_roots cs)
      /\ s' (LMrCatalog o) = VMap (mp ++ own_catalog cs)
      /\ (forall x, x <> LMrNodes o -> x <> LMrCatalog o -> s' x = s x).
  Proof.
    induction cs as [|c cs IH]; intros rest a rq b f m s ns mp Hn Hc.
    - exists s. cbn. rewrite !app_nil_r. split; [apply runs_refl|]. auto.
    - rewrite own_roots_cons, own_catalog_cons. cbn [flat_map]. unfold catalog_instrs at 1.
      rewrite <- !app_assoc.
      destruct (isroot c) eqn:Er; destruct (idkey c =? 0) eqn:Ek; cbn [app].
      + set (s1 := cupd s (LMrNodes o) (VNodes (ns ++ [nid c]))).
        destruct (IH rest a rq b f m s1 (ns ++ [nid c]) mp) as [s' [R [A [B C]]]].
        { unfold s1. apply cupd_same. }
        { unfold s1. rewrite cupd_other; [exact Hc|]. discriminate. }
        exists s'. split; [|split; [|split]].
        * apply runs_step. unfold step1. cbn [cnext code sub fst snd set_code args req body refs memos].
          rewrite Hn. cbn [nodes_of]. exact R.
        * rewrite A. rewrite <- ?app_assoc. reflexivity.
        * rewrite B. reflexivity.
        * intros x X1 X2. rewrite (C x X1 X2). unfold s1. apply cupd_other. exact X1.
      + set (s1 := cupd s (LMrNodes o) (VNodes (ns ++ [nid c]))).
        set (s2 := cupd s1 (LMrCatalog o) (VMap (put mp (idkey c) (nid c)))).
        destruct (IH rest a rq b f m s2 (ns ++ [nid c]) (put mp (idkey c) (nid c))) as [s' [R [A [B C]]]].
        { unfold s2. rewrite cupd_other; [|discriminate]. unfold s1. apply cupd_same. }
        { unfold s2. apply cupd_same. }
        exists s'. split; [|split; [|split]].
        * apply runs_step. unfold step1. cbn [cnext code sub fst snd set_code args req body refs memos].
          rewrite Hn. cbn [nodes_of]. fold s1.
          apply runs_step. unfold step1. cbn [cnext code sub fst snd set_code args req body refs memos].
          replace (s1 (LMrCatalog o)) with (VMap mp)
            by (unfold s1; rewrite cupd_other; [symmetry; exact Hc|discriminate]).
          cbn [map_of]. fold s2. exact R.
        * rewrite A. rewrite <- ?app_assoc. reflexivity.
        * rewrite B. unfold put. rewrite <- ?app_assoc. reflexivity.
        * intros x X1 X2. rewrite (C x X1 X2). unfold s2, s1.
          rewrite cupd_other by exact X2. apply cupd_other. exact X1.
      + destruct (IH rest a rq b f m s ns mp Hn Hc) as [s' [R [A [B C]]]].
        exists s'. split; [exact R|]. split; [exact A|]. split; [|exact C].
        rewrite B. reflexivity.
      + set (s2 := cupd s (LMrCatalog o) (VMap (put mp (idkey c) (nid c)))).
        destruct (IH rest a rq b f m s2 ns (put mp (idkey c) (nid c))) as [s' [R [A [B C]]]].
        { unfold s2. rewrite cupd_other; [exact Hn|]. discriminate. }
        { unfold s2. apply cupd_same. }
        exists s'. split; [|split; [|split]].
        * apply runs_step. unfold step1. cbn [cnext code sub fst snd set_code args req body refs memos].
          rewrite Hc. cbn [map_of]. fold s2. exact R.
        * rewrite A. reflexivity.
        * rewrite B. unfold put. rewrite <- ?app_assoc. reflexivity.
        * intros x X1 X2. rewrite (C x X1 X2). unfold s2. apply cupd_other. exact X2.
  Qed.

  Lemma run_href_keys o ks : forall rest a rq b f m s mp,
    s (LMrCatalog o) = VMap mp ->
    runs (mkst (map (IMrHref o) ks ++ rest) 0 a rq b f m) s
         (mkst rest 0 a rq b (f ++ map (fun k => (k, lookup mp k)) ks) m) s.
  Proof.
    induction ks as [|k ks IH]; intros rest a rq b f m s mp Hc.
    - cbn. rewrite app_nil_r. apply runs_refl.
    - apply runs_step. unfold step1. cbn [map app cnext code sub fst snd args req body refs memos].
      rewrite Hc. cbn [map_of].
      pose proof (IH rest a rq b (f ++ [(k, lookup mp k)]) m s mp Hc) as R.
      rewrite <- app_assoc in R. exact R.
  Qed.

  Lemma run_hrefs o cs : forall rest a rq b f m s mp,
    s (LMrCatalog o) = VMap mp ->
    runs (mkst (flat_map (href_instrs o) cs ++ rest) 0 a rq b f m) s
         (mkst rest 0 a rq b (f ++ map (fun k => (k, lookup mp k)) (flat_map hrefs cs)) m) s.
  Proof.
    induction cs as [|c cs IH]; intros rest a rq b f m s mp Hc.
    - cbn. rewrite app_nil_r. apply runs_refl.
    - cbn [flat_map]. unfold href_instrs at 1. rewrite <- app_assoc.
      eapply runs_trans; [apply (run_href_keys o (hrefs c) _ a rq b f m s mp Hc)|].
      rewrite map_app, app_assoc. apply IH. exact Hc.
  Qed.

  Lemma run_mr o cs rest a rq b f m s :
    exists s', runs (mkst (mr_code o cs ++ rest) 0 a rq b f m) s
                    (mkst rest 0 a rq (own_roots cs) (f ++ own_refs cs) m) s'
      /\ (forall x, x <> LMrNodes o -> x <> LMrCatalog o -> s' x = s x).
  Proof.
    unfold mr_code. rewrite <- !app_assoc. cbn [app].
    set (s1 := cupd s (LMrNodes o) (VNodes [])).
    set (s2 := cupd s1 (LMrCatalog o) (VMap [])).
    destruct (run_catalog o cs (flat_map (href_instrs o) cs ++ IMrFinish o :: rest) a rq b f m s2 [] [])
      as [s' [R [A [B C]]]].
    { unfold s2. rewrite cupd_other; [|discriminate]. unfold s1. apply cupd_same. }
    { unfold s2. apply cupd_same. }
    exists s'. split.
    - apply runs_step. unfold step1. cbn [cnext code sub fst snd set_code args req body refs memos]. fold s1.
      apply runs_step. unfold step1. cbn [cnext code sub fst snd set_code args req body refs memos]. fold s2.
      eapply runs_trans; [exact R|].
      cbn [app] in B.
      eapply runs_trans; [apply (run_hrefs o cs (IMrFinish o :: rest) a rq b f m s' _ B)|].
      apply runs_step. unfold step1. cbn [cnext code sub fst snd set_code args req body refs memos].
      rewrite A. cbn [nodes_of app]. apply runs_refl.
    - intros x X1 X2. rewrite (C x X1 X2). unfold s2, s1.
      rewrite cupd_other by exact X2. apply cupd_other. exact X1.
  Qed.

  (* ---- the whole invocation ---- *)
  Lemma forallb_Forall_memo ls :
    forallb is_cache_loc ls = true -> Forall (fun l => is_memo_loc l = true) ls.
  Proof.
    rewrite forallb_forall. intro H. apply Forall_forall. intros x Hx.
    apply cache_is_memo. apply H. exact Hx.
  Qed.

  Lemma cmok_fill s l : is_memo_loc l = true -> cmok s -> cmok (cupd s l (VNum (mv l))).
  Proof.
    intros Hl M x mx Hx. destruct (cloc_eqb x l) eqn:Q.
    - apply cloc_eqb_spec in Q. subst x. rewrite cupd_same.
      rewrite (memo_of_memo_loc mv l Hl) in Hx. inversion Hx. right. reflexivity.
    - rewrite cupd_other; [apply (M x mx Hx)|]. intro; subst. rewrite cloc_eqb_refl in Q. discriminate.
  Qed.

  Lemma call_solo_result_l k s :
    call_wf k = true -> cmok s ->
    cfinishes (init_state (TCall k)) s (expected mv (s (LOpt (c_client k))) k).
  Proof.
    intros Wf M. unfold call_wf in Wf. rewrite forallb_app in Wf. apply andb_true_iff in Wf.
    destruct Wf as [Win Wout]. apply forallb_Forall_memo in Win. apply forallb_Forall_memo in Wout.
    unfold init_state, thread_code, call_code. cbn [app].
    set (c := c_client k).
    set (rq := mkreq (c_args k) (s (LOpt c))).
    set (tail1 := [IWriteTx c; IProxy c; ISend; IWriteRx c] ++ mr_code (c_mr k) (c_children k) ++ map IMemo (c_out k)).
    destruct (run_memos (c_in k) tail1 (c_args k) rq [] [] [] s Win M) as [s2 [R2 [M2 F2]]].
    set (s3 := cupd (cupd (cupd s2 (LMsgTx c) (VNum rq)) (LProxy c) (VNum (mv (LProxy c))))
                    (LMsgRx c) (VNum (rq + 1))).
    assert (M3 : cmok s3).
    { unfold s3. apply cmok_upd_nonmemo; [reflexivity|]. apply cmok_fill; [reflexivity|].
      apply cmok_upd_nonmemo; [reflexivity|exact M2]. }
    destruct (run_mr (c_mr k) (c_children k) (map IMemo (c_out k)) (c_args k) rq [] [] ([] ++ map mv (c_in k)) s3)
      as [s4 [R4 F4]].
    assert (M4 : cmok s4).
    { intros x mx Hx. destruct (memo_of_some mv _ _ Hx) as [_ Hm].
      rewrite F4; [apply (M3 x mx Hx)| |]; intro; subst; discriminate. }
    destruct (run_memos (c_out k) [] (c_args k) rq (own_roots (c_children k)) ([] ++ own_refs (c_children k))
                ([] ++ map mv (c_in k)) s4 Wout M4) as [s5 [R5 [M5 F5]]].
    eapply runs_finishes.
    - apply runs_step. unfold step1. cbn [cnext code sub fst snd args req body refs memos]. fold c. fold rq.
      eapply runs_trans; [exact R2|]. unfold tail1. cbn [app].
      apply runs_step. unfold step1. cbn [cnext code sub fst snd set_code args req body refs memos].
      apply runs_step. unfold step1. cbn [cnext code sub fst snd set_code args req body refs memos].
      apply runs_step. unfold step1. cbn [cnext code sub fst snd set_code args req body refs memos].
      rewrite cupd_same. cbn [is_none fst snd].
      apply runs_step. unfold step1. cbn [cnext code sub fst snd set_code args req body refs memos].
      apply runs_step. unfold step1. cbn [cnext code sub fst snd set_code args req body refs memos]. fold s3.
      eapply runs_trans; [exact R4|].
      rewrite app_nil_r in R5. exact R5.
    - cbn. unfold expected. fold c. fold rq. rewrite map_app. reflexivity.
  Qed.
End WithMv.
