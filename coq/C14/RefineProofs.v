(* C14 -- lemmas: the Properties graph model refines the map specification. *)
From SV Require Import Lib.Base C14.Model.
Local Open Scope N_scope.

(* ------------------------------------------------------------------ *)
(* layer 0: lists, keys                                                *)
(* ------------------------------------------------------------------ *)

Lemma node_eqb_eq a b : node_eqb a b = true <-> a = b.
Proof.
  destruct a, b; cbn; split; intro H; try discriminate; try congruence.
  - apply N.eqb_eq in H. congruence.
  - inversion H. apply N.eqb_refl.
  - apply andb_true_iff in H as [H1 H2]. apply N.eqb_eq in H1, H2. congruence.
  - inversion H. rewrite !N.eqb_refl. reflexivity.
Qed.

Lemma node_eqb_refl a : node_eqb a a = true.
Proof. apply node_eqb_eq. reflexivity. Qed.

Lemma node_eqb_neq a b : a <> b -> node_eqb a b = false.
Proof.
  intro H. destruct (node_eqb a b) eqn:E; [|reflexivity].
  apply node_eqb_eq in E. contradiction.
Qed.

Lemma node_eqb_sym a b : node_eqb a b = node_eqb b a.
Proof.
  destruct (node_eqb a b) eqn:E.
  - apply node_eqb_eq in E. subst. symmetry. apply node_eqb_refl.
  - destruct (node_eqb b a) eqn:E2; [|reflexivity].
    apply node_eqb_eq in E2. subst. rewrite node_eqb_refl in E. discriminate.
Qed.

Lemma node_dec (a b : node) : {a = b} + {a <> b}.
Proof.
  destruct (node_eqb a b) eqn:E.
  - left. apply node_eqb_eq. exact E.
  - right. intro H. subst. rewrite node_eqb_refl in E. discriminate.
Qed.

Lemma assoc_upd_same {A} k (v : A) l : assoc k (upd k v l) = Some v.
Proof.
  induction l as [|[k' v'] l IH]; cbn.
  - rewrite node_eqb_refl. reflexivity.
  - destruct (node_eqb k k') eqn:E; cbn.
    + rewrite node_eqb_refl. reflexivity.
    + rewrite E. exact IH.
Qed.

Lemma assoc_upd_other {A} k k' (v : A) l : k' <> k -> assoc k' (upd k v l) = assoc k' l.
Proof.
  intro H. induction l as [|[k2 v2] l IH]; cbn.
  - rewrite (node_eqb_neq _ _ H). reflexivity.
  - destruct (node_eqb k k2) eqn:E; cbn.
    + apply node_eqb_eq in E. subst k2. rewrite (node_eqb_neq _ _ H). reflexivity.
    + destruct (node_eqb k' k2); [reflexivity|exact IH].
Qed.

Lemma assocN_updN_same {A} k (v : A) l : assocN k (updN k v l) = Some v.
Proof.
  induction l as [|[k' v'] l IH]; cbn.
  - rewrite N.eqb_refl. reflexivity.
  - destruct (N.eqb k k') eqn:E; cbn.
    + rewrite N.eqb_refl. reflexivity.
    + rewrite E. exact IH.
Qed.

Lemma assocN_updN_other {A} k k' (v : A) l : k' <> k -> assocN k' (updN k v l) = assocN k' l.
Proof.
  intro H. apply N.eqb_neq in H.
  induction l as [|[k2 v2] l IH]; cbn.
  - rewrite H. reflexivity.
  - destruct (N.eqb k k2) eqn:E; cbn.
    + apply N.eqb_eq in E. subst k2. rewrite H. reflexivity.
    + destruct (N.eqb k' k2); [reflexivity|exact IH].
Qed.

Lemma memN_In x l : memN x l = true <-> In x l.
Proof.
  induction l as [|y l IH]; cbn; [split; [discriminate|tauto]|].
  rewrite orb_true_iff, N.eqb_eq, IH. split; intros [H|H]; auto.
Qed.

Lemma intersects_false a b :
  intersects a b = false -> forall x, In x a -> In x b -> False.
Proof.
  unfold intersects. intros H x Ha Hb.
  assert (existsb (fun x => memN x b) a = true).
  { apply existsb_exists. exists x. split; [exact Ha|apply memN_In; exact Hb]. }
  congruence.
Qed.

Lemma intersects_false_intro a b :
  (forall x, In x a -> In x b -> False) -> intersects a b = false.
Proof.
  intro H. unfold intersects. destruct (existsb _ a) eqn:E; [|reflexivity].
  apply existsb_exists in E as [x [Ha Hb]]. apply memN_In in Hb. exfalso. eauto.
Qed.

Lemma find_def_name ds name d : find_def ds name = Some d -> d_name d = name /\ In d ds.
Proof.
  induction ds as [|d' ds IH]; cbn; [discriminate|].
  destruct (N.eqb name (d_name d')) eqn:E; intro H.
  - inversion H; subst. apply N.eqb_eq in E. auto.
  - destruct (IH H). auto.
Qed.

Lemma find_def_In ds name : In name (names_of ds) <-> find_def ds name <> None.
Proof.
  induction ds as [|d ds IH]; cbn; [tauto|].
  destruct (N.eqb name (d_name d)) eqn:E.
  - apply N.eqb_eq in E. split; [discriminate|auto].
  - apply N.eqb_neq in E. rewrite <- IH. split; [intros [H|H]; [congruence|exact H]|auto].
Qed.

(* ------------------------------------------------------------------ *)
(* layer 1: state primitives                                           *)
(* ------------------------------------------------------------------ *)

Section Refine.
Variable T : tables.
Hypothesis TOK : tables_ok T = true.

Notation getp := (getp T).
Notation links := (links T).
Notation defined := (defined T).

Lemma getp_setp_same st n p : getp (setp st n p) n = p.
Proof. unfold Model.getp, setp; cbn. rewrite assoc_upd_same. reflexivity. Qed.

Lemma getp_setp_other st n m p : m <> n -> getp (setp st n p) m = getp st m.
Proof. intro H. unfold Model.getp, setp; cbn. rewrite assoc_upd_other by exact H. reflexivity. Qed.

Lemma getp_setp st n m p : getp (setp st n p) m = if node_eqb m n then p else getp st m.
Proof.
  destruct (node_eqb m n) eqn:E.
  - apply node_eqb_eq in E. subst. apply getp_setp_same.
  - apply getp_setp_other. intro; subst. rewrite node_eqb_refl in E. discriminate.
Qed.

Lemma nextc_setp st n p : nextc (setp st n p) = nextc st.
Proof. reflexivity. Qed.

Lemma getp_set_links st n l m :
  getp (set_links T st n l) m = if node_eqb m n then mkP (p_def (getp st n)) l else getp st m.
Proof. unfold set_links. apply getp_setp. Qed.

Lemma getp_set_defined st n name v m :
  getp (set_defined T st n name v) m =
  if node_eqb m n then mkP (updN name v (p_def (getp st n))) (p_links (getp st n)) else getp st m.
Proof. unfold set_defined. apply getp_setp. Qed.

Lemma links_set_links st n l m :
  links (set_links T st n l) m = if node_eqb m n then l else links st m.
Proof. unfold Model.links. rewrite getp_set_links. destruct (node_eqb m n); reflexivity. Qed.

Lemma pdef_set_links st n l m : p_def (getp (set_links T st n l) m) = p_def (getp st m).
Proof.
  rewrite getp_set_links. destruct (node_eqb m n) eqn:E; [|reflexivity].
  apply node_eqb_eq in E. subst. reflexivity.
Qed.

Lemma defined_set_links st n l m name : defined (set_links T st n l) m name = defined st m name.
Proof. unfold Model.defined. rewrite pdef_set_links. reflexivity. Qed.

Lemma links_set_defined st n name v m : links (set_defined T st n name v) m = links st m.
Proof.
  unfold Model.links. rewrite getp_set_defined. destruct (node_eqb m n) eqn:E; [|reflexivity].
  apply node_eqb_eq in E. subst. reflexivity.
Qed.

Lemma defined_set_defined st n name v m name' :
  defined (set_defined T st n name v) m name' =
  if node_eqb m n && N.eqb name' name then v else defined st m name'.
Proof.
  unfold Model.defined. rewrite getp_set_defined.
  destruct (node_eqb m n) eqn:E; cbn; [|reflexivity].
  apply node_eqb_eq in E. subst m.
  destruct (N.eqb name' name) eqn:E2.
  - apply N.eqb_eq in E2. subst. rewrite assocN_updN_same. reflexivity.
  - apply N.eqb_neq in E2. rewrite assocN_updN_other by exact E2. reflexivity.
Qed.

(* ------------------------------------------------------------------ *)
(* layer 2: what tables_ok gives                                       *)
(* ------------------------------------------------------------------ *)

Lemma tok_parts :
  intersects (names_of (cdefs T)) (names_of (tdefs T)) = false
  /\ ddist T = true
  /\ forallb (fun d => negb (d_linker d)) (tdefs T) = true
  /\ forallb (fun d => Bool.eqb (d_linker d) (N.eqb (d_name d) name_transport)) (cdefs T) = true
  /\ memN name_transport (names_of (cdefs T)) = true
  /\ negb (memN name_unknown (names_of (cdefs T) ++ names_of (tdefs T))) = true
  /\ forallb (fun d => validate T d (d_default d)) (cdefs T ++ tdefs T) = true
  /\ forallb (fun d => negb (d_linker d && is_transport T (d_default d))) (cdefs T) = true.
Proof.
  pose proof TOK as H. unfold tables_ok in H.
  repeat (apply andb_true_iff in H; destruct H as [H ?]).
  apply negb_true_iff in H. repeat split; assumption.
Qed.

Lemma names_disjoint name d d' :
  find_def (cdefs T) name = Some d -> find_def (tdefs T) name = Some d' -> False.
Proof.
  intros H1 H2. destruct tok_parts as [D _].
  apply (intersects_false _ _ D name); apply find_def_In; congruence.
Qed.

Lemma tdef_no_linker name d : find_def (tdefs T) name = Some d -> d_linker d = false.
Proof.
  intro H. destruct tok_parts as (_ & _ & L & _).
  apply find_def_name in H as [_ Hin].
  rewrite forallb_forall in L. apply L in Hin. apply negb_true_iff in Hin. exact Hin.
Qed.

Lemma cdef_linker name d :
  find_def (cdefs T) name = Some d -> d_linker d = N.eqb name name_transport.
Proof.
  intro H. destruct tok_parts as (_ & _ & _ & L & _).
  apply find_def_name in H as [Hn Hin].
  rewrite forallb_forall in L. apply L in Hin. apply Bool.eqb_prop in Hin. congruence.
Qed.

Lemma transport_def : exists d, find_def (cdefs T) name_transport = Some d.
Proof.
  destruct tok_parts as (_ & _ & _ & _ & M & _).
  apply memN_In in M. apply find_def_In in M.
  destruct (find_def (cdefs T) name_transport) as [d|]; [eauto|congruence].
Qed.

Lemma transport_default_not_transport d :
  find_def (cdefs T) name_transport = Some d -> is_transport T (d_default d) = false.
Proof.
  intro H. destruct tok_parts as (_ & _ & _ & _ & _ & _ & _ & L).
  pose proof (cdef_linker _ _ H) as HL. rewrite N.eqb_refl in HL.
  apply find_def_name in H as [_ Hin].
  rewrite forallb_forall in L. apply L in Hin. rewrite HL in Hin. cbn in Hin.
  apply negb_true_iff in Hin. exact Hin.
Qed.

Lemma ddist_true : ddist T = true.
Proof. apply tok_parts. Qed.

Lemma has_def_client_transport c name :
  has_def T (NC c) name = true -> has_def T (NT c 0) name = false.
Proof.
  unfold has_def; cbn. destruct (find_def (cdefs T) name) eqn:E1; [|discriminate].
  destruct (find_def (tdefs T) name) eqn:E2; [|reflexivity].
  exfalso. eapply names_disjoint; eauto.
Qed.

(* ------------------------------------------------------------------ *)
(* layer 3: the invariant and the closed form of the provider search   *)
(* ------------------------------------------------------------------ *)

Definition cur (st : state) (c : N) : option N :=
  let v := defined st (NC c) name_transport in
  if is_transport T v then Some (snd v) else None.

(* link_invariant: a client's options are linked to exactly the options of
   the transport object stored in its `transport` option, and a transport's
   options are linked back to that client and to nothing else *)
Definition INV (st : state) : Prop :=
  (forall c, links st (NC c) = match cur st c with Some i => [NT c i] | None => [] end)
  /\ (forall c i, links st (NT c i) =
                  match cur st c with
                  | Some j => if N.eqb i j then [NC c] else []
                  | None => []
                  end)
  /\ (forall n, nextc st <= owner n -> getp st n = fresh T n).

Definition mres (st : state) (n : node) (name : N) : node :=
  if has_def T n name then n else
  match n with
  | NC c => match cur st c with
            | Some i => if has_def T (NT c i) name then NT c i else n
            | None => n
            end
  | NT c i => match cur st c with
              | Some j => if N.eqb i j && has_def T (NC c) name then NC c else n
              | None => n
              end
  end.

Lemma has_def_NT c i j name : has_def T (NT c i) name = has_def T (NT c j) name.
Proof. reflexivity. Qed.

Lemma provider_simple st name n : INV st -> provider T st name n = mres st n name.
Proof.
  intros [Hc [Ht _]]. unfold provider, mres, FUEL.
  cbn [prov]. destruct (has_def T n name) eqn:Hd; [reflexivity|].
  destruct n as [c | c i].
  - change (Model.links T st (NC c)) with (links st (NC c)). rewrite (Hc c).
    destruct (cur st c) as [i|] eqn:Ec; [|reflexivity].
    cbn [loop_prov app mem node_eqb orb prov].
    destruct (has_def T (NT c i) name) eqn:Hd2; [reflexivity|].
    change (Model.links T st (NT c i)) with (links st (NT c i)). rewrite (Ht c i), Ec, N.eqb_refl.
    cbn [loop_prov app mem node_eqb orb]. rewrite N.eqb_refl. cbn. reflexivity.
  - change (Model.links T st (NT c i)) with (links st (NT c i)). rewrite (Ht c i).
    destruct (cur st c) as [j|] eqn:Ec; [|reflexivity].
    destruct (N.eqb i j) eqn:Eij; [|reflexivity].
    apply N.eqb_eq in Eij. subst j.
    cbn [loop_prov app mem node_eqb orb prov andb].
    destruct (has_def T (NC c) name) eqn:Hd2; [reflexivity|].
    change (Model.links T st (NC c)) with (links st (NC c)). rewrite (Hc c), Ec.
    cbn [loop_prov app mem node_eqb orb]. rewrite !N.eqb_refl. cbn. reflexivity.
Qed.

(* ------------------------------------------------------------------ *)
(* layer 4: TpLinker.updated on a state that satisfies the invariant   *)
(* ------------------------------------------------------------------ *)

Definition shape (st : state) (c : N) (oc : option N) : Prop :=
  links st (NC c) = match oc with Some i => [NT c i] | None => [] end
  /\ forall i, links st (NT c i) =
               match oc with Some j => if N.eqb i j then [NC c] else [] | None => [] end.

Definition same_but (st st' : state) (c : N) : Prop :=
  (forall n, p_def (getp st' n) = p_def (getp st n))
  /\ (forall n, owner n <> c -> getp st' n = getp st n)
  /\ nextc st' = nextc st.

Lemma same_but_refl st c : same_but st st c.
Proof. repeat split; reflexivity. Qed.

Lemma same_but_trans a b d c : same_but a b c -> same_but b d c -> same_but a d c.
Proof.
  intros (A1 & A2 & A3) (B1 & B2 & B3). repeat split.
  - intro n. rewrite B1. apply A1.
  - intros n H. rewrite B2 by exact H. apply A2. exact H.
  - congruence.
Qed.

Lemma same_but_set_links st n l : same_but st (set_links T st n l) (owner n).
Proof.
  repeat split.
  - intro m. apply pdef_set_links.
  - intros m H. rewrite getp_set_links. rewrite node_eqb_neq; [reflexivity|].
    intro; subst. contradiction.
Qed.

Lemma unlink_shape st c i0 :
  shape st c (Some i0) ->
  let st2 := unlink T st (NC c) (NT c i0) in
  shape st2 c None /\ same_but st st2 c.
Proof.
  intros [H1 H2]. unfold unlink.
  change (Model.links T st (NC c)) with (links st (NC c)). rewrite H1.
  cbn [fold_left]. rewrite node_eqb_refl. unfold teardown.
  change (Model.links T st (NT c i0)) with (links st (NT c i0)).
  rewrite (H2 i0), N.eqb_refl. cbn [mem node_eqb orb]. rewrite N.eqb_refl. cbn [orb remove_first node_eqb].
  rewrite N.eqb_refl.
  set (sa := set_links T st (NT c i0) []).
  assert (La : Model.links T sa (NC c) = [NT c i0]).
  { unfold sa. change (Model.links T) with links. rewrite links_set_links. cbn [node_eqb]. exact H1. }
  rewrite La. cbn [mem node_eqb orb]. rewrite !N.eqb_refl. cbn [andb orb remove_first node_eqb].
  rewrite !N.eqb_refl. cbn [andb].
  split; [split|].
  - rewrite links_set_links, node_eqb_refl. reflexivity.
  - intro i. rewrite links_set_links. cbn [node_eqb].
    unfold sa. rewrite links_set_links. cbn [node_eqb]. rewrite N.eqb_refl. cbn [andb].
    destruct (N.eqb i i0) eqn:E; [reflexivity|]. rewrite (H2 i), E. reflexivity.
  - eapply same_but_trans.
    + apply (same_but_set_links st (NT c i0) []).
    + apply (same_but_set_links sa (NC c) []).
Qed.

Lemma reach_leaf st n : links st n = [] -> fst (reach T FUEL st n []) = [n].
Proof.
  intro H. unfold FUEL. cbn [reach].
  change (Model.links T st n) with (links st n). rewrite H. cbn. reflexivity.
Qed.

Lemma link_shape st c i' :
  shape st c None ->
  exists st3, link T st (NC c) (NT c i') = (st3, true)
              /\ shape st3 c (Some i') /\ same_but st st3 c.
Proof.
  intros [H1 H2]. unfold link.
  change (Model.links T st) with (links st).
  rewrite H1, (H2 i'). cbn [mem orb].
  unfold domains, keys. rewrite (reach_leaf st (NC c) H1), (reach_leaf st (NT c i') (H2 i')).
  cbn [map domain_of flat_map defs_of]. rewrite ddist_true. cbn [intersects existsb memN N.eqb orb].
  rewrite !app_nil_r.
  destruct tok_parts as (D & _). unfold names_of in D. rewrite D.
  eexists. split; [reflexivity|].
  set (sa := set_links T st (NC c) ([] ++ [NT c i'])).
  assert (La : Model.links T sa (NT c i') = []).
  { change (Model.links T) with links. unfold sa. rewrite links_set_links. cbn [node_eqb]. apply H2. }
  rewrite La. cbn [app].
  split; [split|].
  - rewrite links_set_links. cbn [node_eqb]. unfold sa. rewrite links_set_links, node_eqb_refl. reflexivity.
  - intro i. rewrite links_set_links. cbn [node_eqb]. rewrite N.eqb_refl. cbn [andb].
    destruct (N.eqb i i') eqn:E; [reflexivity|].
    unfold sa. rewrite links_set_links. cbn [node_eqb]. apply H2.
  - eapply same_but_trans.
    + apply (same_but_set_links st (NC c)).
    + apply (same_but_set_links sa (NT c i')).
Qed.

(* ------------------------------------------------------------------ *)
(* layer 5: one assignment                                              *)
(* ------------------------------------------------------------------ *)

Definition R (st : state) (ss : sstate) : Prop :=
  nextc st = s_next ss
  /\ forall n name, has_def T n name = true -> defined st n name = sval T ss n name.

Lemma has_transport c : has_def T (NC c) name_transport = true.
Proof. unfold has_def; cbn. destruct transport_def as [d H]. rewrite H. reflexivity. Qed.

Lemma cur_R st ss c : R st ss -> cur st c = s_cur T ss c.
Proof. intros [_ H]. unfold cur, s_cur. rewrite (H _ _ (has_transport c)). reflexivity. Qed.

Lemma resolve_mres st ss n name :
  R st ss ->
  resolve T ss n name = if has_def T (mres st n name) name then Some (mres st n name) else None.
Proof.
  intro HR. unfold resolve, mres.
  destruct (has_def T n name) eqn:Hd; [rewrite Hd; reflexivity|].
  destruct n as [c|c i]; rewrite <- (cur_R _ _ c HR); destruct (cur st c) as [j|]; try (rewrite Hd; reflexivity).
  - destruct (has_def T (NT c j) name) eqn:H2; [rewrite H2|rewrite Hd]; reflexivity.
  - destruct (N.eqb i j && has_def T (NC c) name) eqn:H2.
    + apply andb_true_iff in H2 as [_ H2]. rewrite H2. reflexivity.
    + rewrite Hd. reflexivity.
Qed.

Lemma owner_mres st n name : owner (mres st n name) = owner n.
Proof.
  unfold mres. destruct (has_def T n name); [reflexivity|].
  destruct n as [c|c i]; destruct (cur st c) as [j|]; try reflexivity.
  - destruct (has_def T (NT c j) name); reflexivity.
  - destruct (N.eqb i j && has_def T (NC c) name); reflexivity.
Qed.

Lemma INV_shape st c : INV st -> shape st c (cur st c).
Proof. intros (Hc & Ht & _). split; [apply Hc|intro i; apply Ht]. Qed.

Lemma defined_ext st st' n name :
  p_def (getp st' n) = p_def (getp st n) -> defined st' n name = defined st n name.
Proof. intro H. unfold Model.defined. rewrite H. reflexivity. Qed.

Lemma cur_ext st st' c :
  p_def (getp st' (NC c)) = p_def (getp st (NC c)) -> cur st' c = cur st c.
Proof. intro H. unfold cur. rewrite (defined_ext _ _ _ _ H). reflexivity. Qed.

Lemma links_ext st st' n : getp st' n = getp st n -> links st' n = links st n.
Proof. intro H. unfold Model.links. rewrite H. reflexivity. Qed.

Lemma sval_sput ss n name v m name' :
  sval T (sput ss n name v) m name' =
  if node_eqb m n && N.eqb name' name then v else sval T ss m name'.
Proof.
  unfold sval, smap, sput; cbn [s_vals].
  destruct (node_eqb m n) eqn:E; cbn [andb].
  - apply node_eqb_eq in E. subst m. rewrite assoc_upd_same.
    destruct (N.eqb name' name) eqn:E2.
    + apply N.eqb_eq in E2. subst. rewrite assocN_updN_same. reflexivity.
    + apply N.eqb_neq in E2. rewrite assocN_updN_other by exact E2. reflexivity.
  - rewrite assoc_upd_other; [reflexivity|]. intro; subst. rewrite node_eqb_refl in E. discriminate.
Qed.

Lemma snext_sput ss n name v : s_next (sput ss n name v) = s_next ss.
Proof. reflexivity. Qed.

(* the effect of the linker branch of __set *)
Lemma relink st c oc v' :
  shape st c oc ->
  let st2 := match oc with Some i0 => unlink T st (NC c) (NT c i0) | None => st end in
  exists st3 ok,
    (if is_transport T v' then link T st2 (NC c) (NT c (snd v')) else (st2, true)) = (st3, ok)
    /\ ok = true
    /\ shape st3 c (if is_transport T v' then Some (snd v') else None)
    /\ same_but st st3 c.
Proof.
  intros Hs st2.
  assert (H2 : shape st2 c None /\ same_but st st2 c).
  { unfold st2. destruct oc as [i0|].
    - apply unlink_shape. exact Hs.
    - split; [exact Hs|apply same_but_refl]. }
  destruct H2 as [Hs2 Hb2].
  destruct (is_transport T v').
  - destruct (link_shape st2 c (snd v') Hs2) as (st3 & E & Hs3 & Hb3).
    exists st3, true. repeat split; try assumption; try apply Hs3.
    + eapply same_but_trans; eauto.
    + destruct Hb2 as (_ & X & _). destruct Hb3 as (_ & Y & _).
      intros n Hn. rewrite Y by exact Hn. apply X. exact Hn.
    + destruct Hb2 as (_ & _ & X). destruct Hb3 as (_ & _ & Y). congruence.
  - exists st2, true. repeat split; try assumption; try apply Hs2; apply Hb2.
Qed.

Lemma linker_branch st1 c prev v' :
  shape st1 c (if is_transport T prev then Some (snd prev) else None) ->
  exists st3,
    (let st2 := if is_transport T prev then unlink T st1 (NC c) (NT c (snd prev)) else st1 in
     if is_transport T v'
     then let '(st3, ok) := link T st2 (NC c) (NT c (snd v')) in (st3, if ok then OOk else OExc)
     else (st2, OOk)) = (st3, OOk)
    /\ shape st3 c (if is_transport T v' then Some (snd v') else None)
    /\ same_but st1 st3 c.
Proof.
  intro Hs.
  destruct (relink st1 c _ v' Hs) as (st3 & ok & E & Hok & Hs3 & Hb3). subst ok.
  exists st3. cbv zeta.
  destruct (is_transport T prev); destruct (is_transport T v').
  - rewrite E. auto.
  - inversion E; subst. auto.
  - rewrite E. auto.
  - inversion E; subst. auto.
Qed.

Lemma R_set_defined st ss p name v st' :
  R st ss -> same_but (set_defined T st p name v) st' (owner p) ->
  R st' (sput ss p name v).
Proof.
  intros [Hn Hv] (B1 & _ & B3). split.
  - rewrite B3. exact Hn.
  - intros m nm Hd. rewrite (defined_ext _ _ _ _ (B1 m)).
    rewrite defined_set_defined, sval_sput. destruct (node_eqb m p && N.eqb nm name); [reflexivity|].
    apply Hv. exact Hd.
Qed.

Lemma set_refine st ss n name v st' o :
  INV st -> R st ss -> owner n < nextc st ->
  pset T st (provider T st name n) name v = (st', o) ->
  exists ss', sset T false ss n name v = (ss', o) /\ INV st' /\ R st' ss'.
Proof.
  intros HI HR Hex. rewrite (provider_simple _ _ _ HI).
  unfold sset. rewrite (resolve_mres st ss n name HR).
  pose proof (owner_mres st n name) as Hown.
  set (p := mres st n name) in *.
  unfold pset, has_def.
  destruct (find_def (defs_of T p) name) as [d|] eqn:Ed; cbv beta iota; rewrite ?Ed.
  2:{ intro H. inversion H; subst. exists ss. auto. }
  destruct (validate T d v) eqn:Ev; cbn [negb].
  2:{ intro H. inversion H; subst. exists ss. auto. }
  set (v' := nvl d v).
  destruct (d_linker d) eqn:El.
  - (* the transport option: TpLinker.updated *)
    destruct p as [c|c i] eqn:Ep; [|rewrite (tdef_no_linker _ _ Ed) in El; discriminate].
    pose proof (cdef_linker _ _ Ed) as Hl. rewrite El in Hl. symmetry in Hl.
    apply N.eqb_eq in Hl. subst name. cbn [owner] in *.
    set (st1 := set_defined T st (NC c) name_transport v').
    assert (Hs1 : shape st1 c (cur st c)).
    { destruct (INV_shape st c HI) as [A B]. split.
      - unfold st1. rewrite links_set_defined. exact A.
      - intro i. unfold st1. rewrite links_set_defined. apply B. }
    destruct (linker_branch st1 c (defined st (NC c) name_transport) v' Hs1) as (st3 & E & Hs3 & Hb3).
    fold st1. change (Model.defined T st (NC c) name_transport) with (defined st (NC c) name_transport).
    cbv zeta in E. rewrite E. intro H; inversion H; subst st' o; clear H.
    all: eexists; (split; [reflexivity|]).
    all: (split; [|apply (R_set_defined st ss (NC c) name_transport v'); assumption]).
    all: destruct Hb3 as (B1 & B2 & B3); destruct HI as (Ic & It & If).
    all: assert (Hcur : forall c', cur st3 c' = if N.eqb c' c then (if is_transport T v' then Some (snd v') else None) else cur st c')
      by (intro c'; unfold cur at 1; rewrite (defined_ext _ _ _ _ (B1 (NC c'))); unfold st1;
          rewrite defined_set_defined; cbn [node_eqb]; rewrite N.eqb_refl, andb_true_r;
          destruct (N.eqb c' c); reflexivity).
    all: split; [|split].
    all: try (intro c'; rewrite Hcur; destruct (N.eqb c' c) eqn:Ec;
              [apply N.eqb_eq in Ec; subst c'; apply Hs3
              |apply N.eqb_neq in Ec; rewrite (links_ext _ _ _ (B2 (NC c') Ec));
               unfold st1; rewrite links_set_defined; apply Ic]).
    all: try (intros c' i; rewrite Hcur; destruct (N.eqb c' c) eqn:Ec;
              [apply N.eqb_eq in Ec; subst c'; apply Hs3
              |apply N.eqb_neq in Ec; rewrite (links_ext _ _ _ (B2 (NT c' i) Ec));
               unfold st1; rewrite links_set_defined; apply It]).
    all: intros m Hm; rewrite B3 in Hm; cbn [nextc st1 set_defined setp] in Hm;
         assert (owner m <> c) by lia;
         rewrite (B2 m) by assumption; unfold st1; rewrite getp_set_defined;
         rewrite node_eqb_neq; [apply If; exact Hm|intro; subst m; cbn in *; lia].
  - (* any other option *)
    intro H; inversion H; subst st' o; clear H.
    eexists; split; [reflexivity|].
    split; [|apply (R_set_defined st ss p name v'); [exact HR|subst p; apply same_but_refl]].
    destruct HI as (Ic & It & If).
    assert (Hcur : forall c', cur (set_defined T st p name v') c' = cur st c').
    { intro c'. unfold cur. rewrite defined_set_defined.
      destruct (node_eqb (NC c') p && N.eqb name_transport name) eqn:E; [|reflexivity].
      apply andb_true_iff in E as [E1 E2]. apply node_eqb_eq in E1. apply N.eqb_eq in E2.
      subst name. rewrite <- E1 in Ed. cbn [defs_of] in Ed.
      rewrite (cdef_linker _ _ Ed), N.eqb_refl in El. discriminate. }
    split; [|split].
    + intro c'. rewrite Hcur, links_set_defined. apply Ic.
    + intros c' i. rewrite Hcur, links_set_defined. apply It.
    + intros m Hm. cbn [nextc set_defined setp] in Hm. rewrite getp_set_defined.
      rewrite node_eqb_neq; [apply If; exact Hm|]. intro; subst m. lia.
Qed.

(* ------------------------------------------------------------------ *)
(* layer 6: reads, use, clone                                           *)
(* ------------------------------------------------------------------ *)

Lemma get_refine st ss n name : INV st -> R st ss -> get T st n name = sget T ss n name.
Proof.
  intros HI HR. unfold get, sget. rewrite (provider_simple _ _ _ HI), (resolve_mres st ss n name HR).
  unfold pget. destruct (has_def T (mres st n name) name) eqn:Hd; unfold has_def in Hd;
    destruct (find_def (defs_of T (mres st n name)) name) eqn:Ed; try discriminate; [|reflexivity].
  destruct HR as [_ Hv]. rewrite Hv; [reflexivity|]. unfold has_def. rewrite Ed. reflexivity.
Qed.

Lemma use_refine st ss c : INV st -> R st ss -> use T st c = suse T ss c.
Proof.
  intros HI HR. unfold use, suse.
  rewrite !(get_refine st ss _ _ HI HR).
  assert (E : sget T ss (NC c) name_transport = OVal (sval T ss (NC c) name_transport)).
  { unfold sget, resolve. rewrite has_transport. reflexivity. }
  rewrite E. unfold s_cur. destruct (is_transport T (sval T ss (NC c) name_transport));
    rewrite ?(get_refine st ss _ _ HI HR); reflexivity.
Qed.

Lemma assocN_prime ds name :
  assocN name (map (fun d => (d_name d, d_default d)) ds) =
  match find_def ds name with Some d => Some (d_default d) | None => None end.
Proof.
  induction ds as [|d ds IH]; cbn; [reflexivity|].
  destruct (N.eqb name (d_name d)); [reflexivity|exact IH].
Qed.

Lemma defined_fresh st n name : getp st n = fresh T n -> defined st n name = default_of T n name.
Proof.
  intro H. unfold Model.defined, default_of. rewrite H. cbn [fresh p_def].
  rewrite assocN_prime. destruct (find_def (defs_of T n) name); reflexivity.
Qed.

Lemma has_def_memN n name : has_def T n name = memN name (names_of (defs_of T n)).
Proof.
  unfold has_def. destruct (memN name (names_of (defs_of T n))) eqn:E.
  - apply memN_In in E. apply find_def_In in E.
    destruct (find_def (defs_of T n) name); [reflexivity|congruence].
  - destruct (find_def (defs_of T n) name) eqn:E2; [|reflexivity].
    assert (In name (names_of (defs_of T n))) by (apply find_def_In; congruence).
    apply memN_In in H. congruence.
Qed.

Lemma sval_fold ds N0 (f : N -> val) s0 m name :
  sval T (fold_left (fun s d => sput s N0 (d_name d) (f (d_name d))) ds s0) m name =
  if node_eqb m N0 && memN name (names_of ds) then f name else sval T s0 m name.
Proof.
  revert s0. induction ds as [|d ds IH]; intro s0; cbn [fold_left names_of map memN].
  - rewrite andb_false_r. reflexivity.
  - rewrite IH, sval_sput. fold (names_of ds).
    destruct (node_eqb m N0); cbn [andb]; [|reflexivity].
    destruct (N.eqb name (d_name d)) eqn:E; cbn [orb].
    + apply N.eqb_eq in E. subst name. destruct (memN (d_name d) (names_of ds)); reflexivity.
    + reflexivity.
Qed.

Lemma snext_fold ds N0 (f : N -> val) s0 :
  s_next (fold_left (fun s d => sput s N0 (d_name d) (f (d_name d))) ds s0) = s_next s0.
Proof. revert s0. induction ds as [|d ds IH]; intro s0; cbn; [reflexivity|]. rewrite IH. reflexivity. Qed.

Lemma getp_clone st c m :
  getp (clone T st c) m =
  let tv := defined st (NC c) name_transport in
  let k := nextc st in
  if is_transport T tv && node_eqb m (NT k (snd tv))
  then mkP (p_def (getp st (NT c (snd tv)))) [NC k]
  else if node_eqb m (NC k)
       then mkP (p_def (getp st (NC c))) (if is_transport T tv then [NT k (snd tv)] else [])
       else getp st m.
Proof.
  unfold clone. cbv zeta.
  change (Model.defined T st (NC c) name_transport) with (defined st (NC c) name_transport).
  set (tv := defined st (NC c) name_transport). set (k := nextc st).
  destruct (is_transport T tv); cbn [andb].
  - unfold Model.getp at 1. cbn [nodes].
    change (match assoc m (nodes (setp (setp st (NC k) _) (NT k (snd tv)) _)) with
            | Some p => p | None => fresh T m end)
      with (getp (setp (setp st (NC k) (mkP (p_def (getp st (NC c))) [NT k (snd tv)]))
                       (NT k (snd tv)) (mkP (p_def (getp st (NT c (snd tv)))) [NC k])) m).
    rewrite getp_setp. destruct (node_eqb m (NT k (snd tv))); [reflexivity|].
    rewrite getp_setp. reflexivity.
  - unfold Model.getp at 1. cbn [nodes].
    change (match assoc m (nodes (setp st (NC k) _)) with Some p => p | None => fresh T m end)
      with (getp (setp st (NC k) (mkP (p_def (getp st (NC c))) [])) m).
    rewrite getp_setp. reflexivity.
Qed.

Lemma nextc_clone st c : nextc (clone T st c) = nextc st + 1.
Proof. reflexivity. Qed.

Lemma clone_refine st ss c :
  INV st -> R st ss -> INV (clone T st c) /\ R (clone T st c) (sclone T ss c).
Proof.
  intros HI HR. pose proof HI as (Ic & It & If). pose proof HR as [Hn Hv].
  set (k := nextc st).
  set (tv := defined st (NC c) name_transport).
  assert (Hk : forall n, owner n = k -> getp st n = fresh T n) by (intros n H; apply If; unfold k in H; lia).
  assert (Hcur : forall c', cur (clone T st c) c' = if N.eqb c' k then cur st c else cur st c').
  { intro c'. unfold cur at 1. unfold Model.defined. rewrite getp_clone. cbv zeta. fold tv k.
    cbn [node_eqb]. rewrite andb_false_r.
    destruct (N.eqb c' k); reflexivity. }
  assert (Hcc : cur st c = if is_transport T tv then Some (snd tv) else None) by reflexivity.
  split.
  - split; [|split].
    + intro c'. unfold Model.links. rewrite getp_clone. cbv zeta. fold tv k. cbn [node_eqb].
      rewrite andb_false_r, Hcur. destruct (N.eqb c' k) eqn:E.
      * apply N.eqb_eq in E. subst c'. cbn [p_links]. rewrite Hcc. destruct (is_transport T tv); reflexivity.
      * apply Ic.
    + intros c' i. unfold Model.links. rewrite getp_clone. cbv zeta. fold tv k. cbn [node_eqb].
      rewrite Hcur. destruct (N.eqb c' k) eqn:E.
      * apply N.eqb_eq in E. subst c'. rewrite Hcc. cbn [andb].
        destruct (is_transport T tv); cbn [andb].
        -- destruct (N.eqb i (snd tv)); [reflexivity|].
           rewrite (Hk (NT k i)) by reflexivity. reflexivity.
        -- rewrite (Hk (NT k i)) by reflexivity. reflexivity.
      * cbn [andb]. rewrite andb_false_r. apply It.
    + intros m Hm. rewrite nextc_clone in Hm. rewrite getp_clone. cbv zeta. fold tv k.
      assert (owner m <> k) by (unfold k; lia).
      rewrite (node_eqb_neq m (NT k (snd tv))), andb_false_r by (intro; subst m; cbn in *; congruence).
      rewrite (node_eqb_neq m (NC k)) by (intro; subst m; cbn in *; congruence).
      apply If. lia.
  - split.
    + rewrite nextc_clone. unfold sclone. cbn [s_next]. congruence.
    + intros m name Hd.
      assert (Hs : sval T (sclone T ss c) m name =
                   sval T (match s_cur T ss c with
                           | Some i => fold_left (fun s d => sput s (NT (s_next ss) i) (d_name d)
                                                                  (sval T ss (NT c i) (d_name d)))
                                                 (tdefs T)
                                                 (fold_left (fun s d => sput s (NC (s_next ss)) (d_name d)
                                                                             (sval T ss (NC c) (d_name d)))
                                                            (cdefs T) ss)
                           | None => fold_left (fun s d => sput s (NC (s_next ss)) (d_name d)
                                                                (sval T ss (NC c) (d_name d)))
                                               (cdefs T) ss
                           end) m name) by reflexivity.
      rewrite Hs. clear Hs. rewrite <- (cur_R st ss c HR), Hcc, <- Hn. fold k.
      unfold Model.defined. rewrite getp_clone. cbv zeta. fold tv k.
      destruct (is_transport T tv) eqn:Et; cbn [andb].
      * rewrite (sval_fold (tdefs T) (NT k (snd tv)) (fun nm => sval T ss (NT c (snd tv)) nm)).
        destruct (node_eqb m (NT k (snd tv))) eqn:E1; cbn [andb].
        -- apply node_eqb_eq in E1. subst m. rewrite has_def_memN in Hd. cbn [defs_of] in Hd. rewrite Hd.
           cbn [p_def]. apply (Hv (NT c (snd tv)) name). rewrite has_def_memN. exact Hd.
        -- rewrite (sval_fold (cdefs T) (NC k) (fun nm => sval T ss (NC c) nm)).
           destruct (node_eqb m (NC k)) eqn:E2; cbn [andb].
           ++ apply node_eqb_eq in E2. subst m. rewrite has_def_memN in Hd. cbn [defs_of] in Hd. rewrite Hd.
              cbn [p_def]. apply (Hv (NC c) name). rewrite has_def_memN. exact Hd.
           ++ apply Hv. exact Hd.
      * rewrite (sval_fold (cdefs T) (NC k) (fun nm => sval T ss (NC c) nm)).
        destruct (node_eqb m (NC k)) eqn:E2; cbn [andb].
        -- apply node_eqb_eq in E2. subst m. rewrite has_def_memN in Hd. cbn [defs_of] in Hd. rewrite Hd.
           cbn [p_def]. apply (Hv (NC c) name). rewrite has_def_memN. exact Hd.
        -- apply Hv. exact Hd.
Qed.

(* ------------------------------------------------------------------ *)
(* layer 7: one step, any history                                       *)
(* ------------------------------------------------------------------ *)

Lemma step_refine st ss o st' r :
  INV st -> R st ss -> step T st o = (st', r) ->
  exists ss', sstep T false ss o = (ss', r) /\ INV st' /\ R st' ss'.
Proof.
  intros HI HR. pose proof HR as [Hn _].
  destruct o as [n name v|n name|n names|c|c]; cbn [step sstep]; unfold exists_node; rewrite <- Hn.
  - destruct (owner n <? nextc st) eqn:E.
    + apply N.ltb_lt in E. intro H. eapply set_refine; eauto.
    + intro H; inversion H; subst. eauto.
  - intro H; inversion H; subst. eexists; split; [|split; eassumption].
    destruct (owner n <? nextc st'); [rewrite (get_refine _ _ _ _ HI HR)|]; reflexivity.
  - intro H; inversion H; subst. eexists; split; [|split; eassumption].
    destruct (owner n <? nextc st'); [|reflexivity].
    f_equal. f_equal. apply map_ext. intro nm. rewrite (get_refine _ _ _ _ HI HR). reflexivity.
  - intro H; inversion H; subst. eexists; split; [|split; eassumption].
    destruct (c <? nextc st'); [rewrite (use_refine _ _ _ HI HR)|]; reflexivity.
  - destruct (c <? nextc st).
    + intro H; inversion H; subst. eexists; split; [reflexivity|]. apply clone_refine; assumption.
    + intro H; inversion H; subst. eauto.
Qed.

Lemma run_refine ops : forall st ss,
  INV st -> R st ss ->
  snd (run T st ops) = snd (srun T false ss ops)
  /\ INV (fst (run T st ops))
  /\ R (fst (run T st ops)) (fst (srun T false ss ops)).
Proof.
  induction ops as [|o ops IH]; intros st ss HI HR; cbn [run srun].
  - auto.
  - destruct (step T st o) as [st1 r] eqn:E.
    destruct (step_refine _ _ _ _ _ HI HR E) as (ss1 & E' & HI1 & HR1).
    rewrite E'. specialize (IH st1 ss1 HI1 HR1).
    destruct (run T st1 ops) as [st2 rs]. destruct (srun T false ss1 ops) as [ss2 rs'].
    cbn [fst snd] in *. destruct IH as (A & B & C). subst. auto.
Qed.

Lemma INV_virgin : INV virgin.
Proof.
  assert (Hg : forall n, getp virgin n = fresh T n) by reflexivity.
  assert (Hc : forall c, cur virgin c = None).
  { intro c. unfold cur. rewrite (defined_fresh _ _ _ (Hg (NC c))). unfold default_of. cbn [defs_of].
    destruct transport_def as [d Hd]. rewrite Hd, (transport_default_not_transport _ Hd). reflexivity. }
  split; [|split].
  - intro c. rewrite Hc. reflexivity.
  - intros c i. rewrite Hc. reflexivity.
  - intros n _. apply Hg.
Qed.

Lemma R_virgin : R virgin svirgin.
Proof.
  split; [reflexivity|]. intros n name _.
  rewrite (defined_fresh virgin n name) by reflexivity. reflexivity.
Qed.

Lemma init_ok : INV (init T) /\ R (init T) (sinit T).
Proof.
  unfold init, sinit.
  destruct (step T virgin (St (NC 0) name_transport (16, 0))) as [st r] eqn:E.
  destruct (step_refine _ _ _ _ _ INV_virgin R_virgin E) as (ss & E' & HI & HR).
  rewrite E'. auto.
Qed.

(* the model refines the map specification on histories of any length *)
Lemma options_refine_map_l ops :
  snd (run T (init T) ops) = snd (srun T false (sinit T) ops).
Proof. destruct init_ok as [HI HR]. apply (run_refine ops _ _ HI HR). Qed.

Lemma link_invariant_l ops : INV (fst (run T (init T) ops)).
Proof. destruct init_ok as [HI HR]. apply (run_refine ops _ _ HI HR). Qed.

(* ------------------------------------------------------------------ *)
(* layer 8: frame (independence of clients), clone copies               *)
(* ------------------------------------------------------------------ *)

Definition Reach (st : state) : Prop := INV st /\ exists ss, R st ss.

Lemma step_reach st o st' r : Reach st -> step T st o = (st', r) -> Reach st'.
Proof.
  intros [HI [ss HR]] E. destruct (step_refine _ _ _ _ _ HI HR E) as (ss' & _ & HI' & HR').
  split; eauto.
Qed.

Lemma run_reach ops : forall st, Reach st -> Reach (fst (run T st ops)).
Proof.
  induction ops as [|o ops IH]; intros st H; cbn [run]; [exact H|].
  destruct (step T st o) as [st1 r] eqn:E. specialize (IH st1 (step_reach _ _ _ _ H E)).
  destruct (run T st1 ops). exact IH.
Qed.

Lemma init_reach : Reach (init T).
Proof. destruct init_ok. split; eauto. Qed.

Lemma pset_frame st n name v st' r m :
  INV st -> pset T st (mres st n name) name v = (st', r) ->
  owner m <> owner n -> getp st' m = getp st m.
Proof.
  intros HI E Hm. pose proof (owner_mres st n name) as Hown.
  set (p := mres st n name) in *. unfold pset in E.
  destruct (find_def (defs_of T p) name) as [d|] eqn:Ed; [|inversion E; reflexivity].
  destruct (validate T d v); cbn [negb] in E; [|inversion E; reflexivity].
  destruct (d_linker d) eqn:El.
  - destruct p as [c|c i] eqn:Ep; [|rewrite (tdef_no_linker _ _ Ed) in El; discriminate].
    pose proof (cdef_linker _ _ Ed) as Hl. rewrite El in Hl. symmetry in Hl.
    apply N.eqb_eq in Hl. subst name. cbn [owner] in *.
    set (st1 := set_defined T st (NC c) name_transport (nvl d v)) in *.
    assert (Hs1 : shape st1 c (cur st c)).
    { destruct (INV_shape st c HI) as [A B]. split.
      - unfold st1. rewrite links_set_defined. exact A.
      - intro i. unfold st1. rewrite links_set_defined. apply B. }
    destruct (linker_branch st1 c (defined st (NC c) name_transport) (nvl d v) Hs1) as (st3 & E3 & _ & Hb3).
    cbv zeta in E3.
    change (Model.defined T st (NC c) name_transport) with (defined st (NC c) name_transport) in E.
    rewrite E3 in E. inversion E; subst st' r.
    destruct Hb3 as (_ & B2 & _). rewrite B2 by congruence.
    unfold st1. rewrite getp_set_defined. rewrite node_eqb_neq; [reflexivity|].
    intro; subst m. cbn in *. congruence.
  - inversion E; subst st' r. rewrite getp_set_defined. rewrite node_eqb_neq; [reflexivity|].
    intro; subst m. congruence.
Qed.

(* an operation addressed to client k (its options or one of its transports) *)
Definition only_client (k : N) (o : op) : Prop :=
  match o with
  | St n _ _ => owner n = k
  | Cl _ => False
  | _ => True
  end.

Lemma step_frame st o st' r k m :
  INV st -> step T st o = (st', r) -> only_client k o -> owner m <> k -> getp st' m = getp st m.
Proof.
  intros HI E Ho Hm. destruct o as [n name v|n name|n names|c|c]; cbn [step only_client] in *;
    try (inversion E; reflexivity); [|contradiction].
  destruct (exists_node st n); [|inversion E; reflexivity].
  rewrite (provider_simple _ _ _ HI) in E. eapply pset_frame; eauto. congruence.
Qed.

Lemma run_frame ops : forall st k m,
  Reach st -> Forall (only_client k) ops -> owner m <> k ->
  getp (fst (run T st ops)) m = getp st m.
Proof.
  induction ops as [|o ops IH]; intros st k m HR HF Hm; cbn [run]; [reflexivity|].
  inversion HF; subst.
  destruct (step T st o) as [st1 r] eqn:E.
  pose proof (step_reach _ _ _ _ HR E) as HR1.
  specialize (IH st1 k m HR1 H2 Hm).
  destruct (run T st1 ops) as [st2 rs]. cbn [fst] in *.
  rewrite IH. destruct HR as [HI _]. eapply step_frame; eauto.
Qed.

(* what a read through m depends on *)
Lemma get_ext st st' m name :
  INV st -> INV st' ->
  (forall x, owner x = owner m -> getp st' x = getp st x) ->
  get T st' m name = get T st m name.
Proof.
  intros HI HI' H. unfold get. rewrite !provider_simple by assumption.
  assert (Hc : cur st' (owner m) = cur st (owner m)).
  { apply cur_ext. rewrite (H (NC (owner m))) by reflexivity. reflexivity. }
  assert (Hm : mres st' m name = mres st m name).
  { unfold mres. destruct m as [c|c i]; cbn [owner] in Hc; rewrite Hc; reflexivity. }
  rewrite Hm. unfold pget.
  destruct (find_def (defs_of T (mres st m name)) name); [|reflexivity].
  rewrite (defined_ext st st'); [reflexivity|]. rewrite H; [reflexivity|apply owner_mres].
Qed.

(* independence: whatever is done to client k (any number of assignments
   through its options or its transports' options, valid or not), every
   option read through another client or its transports is unchanged *)
Lemma independent_l ops1 ops2 k m name :
  Forall (only_client k) ops2 -> owner m <> k ->
  let st := fst (run T (init T) ops1) in
  get T (fst (run T st ops2)) m name = get T st m name.
Proof.
  intros HF Hm st.
  assert (HR : Reach st) by (apply run_reach, init_reach).
  pose proof (run_reach ops2 st HR) as HR2.
  apply get_ext; [apply HR|apply HR2|].
  intros x Hx. apply (run_frame ops2 st k x); [exact HR|exact HF|congruence].
Qed.

(* a clone starts with the values of its original, and cloning does not
   change what the existing clients read *)
Lemma clone_copies_l ops c name :
  let st := fst (run T (init T) ops) in
  c < nextc st ->
  let st' := fst (step T st (Cl c)) in
  get T st' (NC (nextc st)) name = get T st (NC c) name
  /\ (forall m, owner m < nextc st -> get T st' m name = get T st m name).
Proof.
  intros st Hc st'.
  assert (HR : Reach st) by (apply run_reach, init_reach).
  assert (E : step T st (Cl c) = (clone T st c, OOk)).
  { cbn [step]. apply N.ltb_lt in Hc. rewrite Hc. reflexivity. }
  assert (HR' : Reach st') by (unfold st'; rewrite E; eapply step_reach; eauto).
  unfold st'. rewrite E. cbn [fst]. destruct HR as [HI _]. destruct HR' as [HI' _].
  unfold st' in HI'. rewrite E in HI'. cbn [fst] in HI'.
  set (k := nextc st) in *.
  split.
  - unfold get. rewrite !provider_simple by assumption.
    assert (Hcur : cur (clone T st c) k = cur st c).
    { unfold cur, Model.defined. rewrite getp_clone. cbv zeta. fold k. cbn [node_eqb].
      rewrite andb_false_r, N.eqb_refl. reflexivity. }
    unfold mres. rewrite Hcur.
    change (has_def T (NC k) name) with (has_def T (NC c) name).
    assert (D1 : defined (clone T st c) (NC k) name = defined st (NC c) name).
    { unfold Model.defined. rewrite getp_clone. cbv zeta. fold k. cbn [node_eqb].
      rewrite andb_false_r, N.eqb_refl. reflexivity. }
    destruct (has_def T (NC c) name) eqn:Hd.
    + unfold pget. cbn [defs_of]. rewrite D1. reflexivity.
    + destruct (cur st c) as [i|] eqn:Ec.
      * change (has_def T (NT k i) name) with (has_def T (NT c i) name).
        destruct (has_def T (NT c i) name).
        -- unfold pget. cbn [defs_of].
           assert (D2 : defined (clone T st c) (NT k i) name = defined st (NT c i) name).
           { unfold cur in Ec. unfold Model.defined. rewrite getp_clone. cbv zeta. fold k.
             change (Model.defined T st (NC c) name_transport) with (defined st (NC c) name_transport).
             destruct (is_transport T (defined st (NC c) name_transport)); [|discriminate].
             inversion Ec; subst i. rewrite node_eqb_refl. reflexivity. }
           rewrite D2. reflexivity.
        -- unfold pget. cbn [defs_of]. rewrite D1. reflexivity.
      * unfold pget. cbn [defs_of]. rewrite D1. reflexivity.
  - intros m Hm. apply get_ext; try assumption.
    intros x Hx. rewrite getp_clone. cbv zeta. fold k.
    assert (owner x <> k) by (unfold k; lia).
    rewrite (node_eqb_neq x (NT k _)), andb_false_r by (intro; subst x; cbn in *; congruence).
    rewrite (node_eqb_neq x (NC k)) by (intro; subst x; cbn in *; congruence).
    reflexivity.
Qed.

(* ------------------------------------------------------------------ *)
(* layer 9: an accepted assignment is what the next read returns        *)
(* ------------------------------------------------------------------ *)

Lemma sset_sget_client ss c name v ss' :
  sset T false ss (NC c) name v = (ss', OOk) ->
  exists d, (find_def (cdefs T) name = Some d \/ find_def (tdefs T) name = Some d)
            /\ sget T ss' (NC c) name = OVal (nvl d v).
Proof.
  unfold sset. destruct (resolve T ss (NC c) name) as [m|] eqn:Er; [|discriminate].
  destruct (find_def (defs_of T m) name) as [d|] eqn:Ed; [|discriminate].
  destruct (validate T d v); cbn [negb]; [|discriminate].
  intro H; inversion H; subst ss'; clear H. exists d.
  unfold resolve in Er. unfold sget, resolve.
  destruct (has_def T (NC c) name) eqn:Hd.
  - inversion Er; subst m. cbn [defs_of] in Ed. split; [auto|].
    rewrite sval_sput, node_eqb_refl, N.eqb_refl. reflexivity.
  - assert (Hc : s_cur T (sput ss m name (nvl d v)) c = s_cur T ss c).
    { destruct (s_cur T ss c) as [i|] eqn:Ec; [|discriminate].
      destruct (has_def T (NT c i) name); [|discriminate]. inversion Er; subst m.
      unfold s_cur in *. rewrite sval_sput. cbn [node_eqb andb]. exact Ec. }
    rewrite Hc. destruct (s_cur T ss c) as [i|]; [|discriminate].
    destruct (has_def T (NT c i) name) eqn:Hd2; [|discriminate]. inversion Er; subst m.
    cbn [defs_of] in Ed. split; [auto|].
    rewrite sval_sput, node_eqb_refl, N.eqb_refl. reflexivity.
Qed.

Lemma set_then_get_l ops c name v st' :
  let st := fst (run T (init T) ops) in
  c < nextc st ->
  step T st (St (NC c) name v) = (st', OOk) ->
  exists d, (find_def (cdefs T) name = Some d \/ find_def (tdefs T) name = Some d)
            /\ get T st' (NC c) name = OVal (nvl d v).
Proof.
  intros st Hc E.
  destruct (run_reach ops (init T) init_reach) as [HI [ss HR]]. fold st in HI, HR.
  destruct (step_refine _ _ _ _ _ HI HR E) as (ss' & E' & HI' & HR').
  rewrite (get_refine _ _ _ _ HI' HR').
  cbn [sstep] in E'. destruct HR as [Hn _]. rewrite <- Hn in E'. cbn [owner] in E'.
  apply N.ltb_lt in Hc. rewrite Hc in E'. eapply sset_sget_client; eauto.
Qed.

End Refine.

(* ------------------------------------------------------------------ *)
(* invalid assignments (no hypothesis on the tables or on the state)    *)
(* ------------------------------------------------------------------ *)

Section NoEffect.
Variable T : tables.

(* an operation that raised AttributeError changed nothing *)
Lemma attr_error_no_effect_l st o st' : step T st o = (st', OAttrErr) -> st' = st.
Proof.
  destruct o as [n name v|n name|n names|c|c]; cbn [step]; try (intro H; inversion H; reflexivity).
  - destruct (exists_node st n); [|intro H; inversion H; reflexivity].
    unfold pset. destruct (find_def _ name) as [d|]; [|intro H; inversion H; reflexivity].
    destruct (validate T d v); cbn [negb]; [|intro H; inversion H; reflexivity].
    destruct (d_linker d); [|intro H; inversion H].
    destruct (is_transport T (nvl d v)); [|intro H; inversion H].
    destruct (link T _ _ _) as [st3 ok]. destruct ok; intro H; inversion H.
  - destruct (c <? nextc st)%N; intro H; inversion H.
Qed.

(* a value no definition of that name accepts (wrong type), or a name no
   definition has (unknown name), assigned through any existing object in
   ANY state: AttributeError, state unchanged *)
Lemma invalid_raises_l st n name v :
  exists_node st n = true ->
  (forall d, find_def (cdefs T) name = Some d \/ find_def (tdefs T) name = Some d ->
             validate T d v = false) ->
  step T st (St n name v) = (st, OAttrErr).
Proof.
  intros He H. cbn [step]. rewrite He. unfold pset.
  destruct (find_def (defs_of T (provider T st name n)) name) as [d|] eqn:Ed; [|reflexivity].
  rewrite (H d); [reflexivity|].
  destruct (provider T st name n); cbn [defs_of] in Ed; auto.
Qed.

End NoEffect.
