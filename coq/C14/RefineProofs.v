(* C14 -- lemmas: the Properties graph model refines the map specification. *)
From SV Require Import Lib.Base C14.Model.
Local Open Scope N_scope.

(* ------------------------------------------------------------------ *)
(* layer 0: lists, keys                                                *)
(* ------------------------------------------------------------------ *)

Lemma node_eqb_eq a b : node_eqb a b = true <-> a = b.
Proof.
  destruct a, b; cbn; split; intro H; try discriminate; try congruence.
  - apply N.eqb_eq in H. congruence.
  - inversion H. apply N.eqb_refl.
  - apply andb_true_iff in H as [H1 H2]. apply N.eqb_eq in H1, H2. congruence.
  - inversion H. rewrite !N.eqb_refl. reflexivity.
Qed.

Lemma node_eqb_refl a : node_eqb a a = true.
Proof. apply node_eqb_eq. reflexivity. Qed.

Lemma node_eqb_neq a b : a <> b -> node_eqb a b = false.
Proof.
  intro H. destruct (node_eqb a b) eqn:E; [|reflexivity].
  apply node_eqb_eq in E. contradiction.
Qed.

Lemma node_eqb_sym a b : node_eqb a b = node_eqb b a.
Proof.
  destruct (node_eqb a b) eqn:E.
  - apply node_eqb_eq in E. subst. symmetry. apply node_eqb_refl.
  - destruct (node_eqb b a) eqn:E2; [|reflexivity].
    apply node_eqb_eq in E2. subst. rewrite node_eqb_refl in E. discriminate.
Qed.

Lemma node_dec (a b : node) : {a = b} + {a <> b}.
Proof.
  destruct (node_eqb a b) eqn:E.
  - left. apply node_eqb_eq. exact E.
  - right. intro H. subst. rewrite node_eqb_refl in E. discriminate.
Qed.

Lemma assoc_upd_same {A} k (v : A) l : assoc k (upd k v l) = Some v.
Proof.
  induction l as [|[k' v'] l IH]; cbn.
  - rewrite node_eqb_refl. reflexivity.
  - destruct (node_eqb k k') eqn:E; cbn.
    + rewrite node_eqb_refl. reflexivity.
    + rewrite E. exact IH.
Qed.

Lemma assoc_upd_other {A} k k' (v : A) l : k' <> k -> assoc k' (upd k v l) = assoc k' l.
Proof.
  intro H. induction l as [|[k2 v2] l IH]; cbn.
  - rewrite (node_eqb_neq _ _ H). reflexivity.
  - destruct (node_eqb k k2) eqn:E; cbn.
    + apply node_eqb_eq in E. subst k2. rewrite (node_eqb_neq _ _ H). reflexivity.
    + destruct (node_eqb k' k2); [reflexivity|exact IH].
Qed.

Lemma assocN_updN_same {A} k (v : A) l : assocN k (updN k v l) = Some v.
Proof.
  induction l as [|[k' v'] l IH]; cbn.
  - rewrite N.eqb_refl. reflexivity.
  - destruct (N.eqb k k') eqn:E; cbn.
    + rewrite N.eqb_refl. reflexivity.
    + rewrite E. exact IH.
Qed.

Lemma assocN_updN_other {A} k k' (v : A) l : k' <> k -> assocN k' (updN k v l) = assocN k' l.
Proof.
  intro H. apply N.eqb_neq in H.
  induction l as [|[k2 v2] l IH]; cbn.
  - rewrite H. reflexivity.
  - destruct (N.eqb k k2) eqn:E; cbn.
    + apply N.eqb_eq in E. subst k2. rewrite H. reflexivity.
    + destruct (N.eqb k' k2); [reflexivity|exact IH].
Qed.

Lemma memN_In x l : memN x l = true <-> In x l.
Proof.
  induction l as [|y l IH]; cbn; [split; [discriminate|tauto]|].
  rewrite orb_true_iff, N.eqb_eq, IH. split; intros [H|H]; auto.
Qed.

Lemma intersects_false a b :
  intersects a b = false -> forall x, In x a -> In x b -> False.
Proof.
  unfold intersects. intros H x Ha Hb.
  assert (existsb (fun x => memN x b) a = true).
  { apply existsb_exists. exists x. split; [exact Ha|apply memN_In; exact Hb]. }
  congruence.
Qed.

Lemma intersects_false_intro a b :
  (forall x, In x a -> In x b -> False) -> intersects a b = false.
Proof.
  intro H. unfold intersects. destruct (existsb _ a) eqn:E; [|reflexivity].
  apply existsb_exists in E as [x [Ha Hb]]. apply memN_In in Hb. exfalso. eauto.
Qed.

Lemma find_def_name ds name d : find_def ds name = Some d -> d_name d = name /\ In d ds.
Proof.
  induction ds as [|d' ds IH]; cbn; [discriminate|].
  destruct (N.eqb name (d_name d')) eqn:E; intro H.
  - inversion H; subst. apply N.eqb_eq in E. auto.
  - destruct (IH H). auto.
Qed.

Lemma find_def_In ds name : In name (names_of ds) <-> find_def ds name <> None.
Proof.
  induction ds as [|d ds IH]; cbn; [tauto|].
  destruct (N.eqb name (d_name d)) eqn:E.
  - apply N.eqb_eq in E. split; [discriminate|auto].
  - apply N.eqb_neq in E. rewrite <- IH. split; [intros [H|H]; [congruence|exact H]|auto].
Qed.

(* ------------------------------------------------------------------ *)
(* layer 1: state primitives                                           *)
(* ------------------------------------------------------------------ *)

(* the merged header map: lookup *)
Fixpoint hlookup (k : N) (l : list (N * N)) : option N :=
  match l with
  | [] => None
  | (k', v) :: r => if N.eqb k k' then Some v else hlookup k r
  end.

(* the value the caller's map gives header k: the last entry for k *)
Fixpoint caller_value (k : N) (opt : list (N * N)) : option N :=
  match opt with
  | [] => None
  | (k', v) :: r => match caller_value k r with
                    | Some w => Some w
                    | None => if N.eqb k k' then Some v else None
                    end
  end.

Lemma hlookup_put k v l k' :
  hlookup k' (put_hdr k v l) = if N.eqb k' k then Some v else hlookup k' l.
Proof.
  induction l as [|[k1 v1] r IH]; cbn [put_hdr hlookup].
  - destruct (N.eqb k' k); reflexivity.
  - destruct (k <? k1) eqn:E1; [cbn [hlookup]; destruct (N.eqb k' k); reflexivity|].
    destruct (N.eqb k k1) eqn:E2.
    + apply N.eqb_eq in E2. subst k1. cbn [hlookup]. destruct (N.eqb k' k); reflexivity.
    + cbn [hlookup]. rewrite IH. destruct (N.eqb k' k1) eqn:E3; [|reflexivity].
      apply N.eqb_eq in E3. subst k1. destruct (N.eqb k' k) eqn:E4; [|reflexivity].
      apply N.eqb_eq in E4. subst. rewrite N.eqb_refl in E2. discriminate.
Qed.

Lemma hlookup_fold k opt : forall acc,
  hlookup k (fold_left (fun a kv => put_hdr (fst kv) (snd kv) a) opt acc) =
  match caller_value k opt with Some v => Some v | None => hlookup k acc end.
Proof.
  induction opt as [|[k1 v1] r IH]; intro acc; cbn [fold_left caller_value fst snd]; [reflexivity|].
  rewrite IH. destruct (caller_value k r); [reflexivity|]. rewrite hlookup_put.
  destruct (N.eqb k k1); reflexivity.
Qed.

(* the caller's value wins; the two headers suds sets keep suds' value only
   when the caller's map does not name them *)
Lemma caller_headers_win_l opt k :
  hlookup k (soap_headers opt) =
  match caller_value k opt with Some v => Some v | None => hlookup k hdr_defaults end.
Proof. apply hlookup_fold. Qed.

Section Refine.
Variable T : tables.
Hypothesis TOK : tables_ok T = true.

Notation getp := (getp T).
Notation links := (links T).
Notation defined := (defined T).

Lemma getp_setp_same st n p : getp (setp st n p) n = p.
Proof. unfold Model.getp, setp; cbn. rewrite assoc_upd_same. reflexivity. Qed.

Lemma getp_setp_other st n m p : m <> n -> getp (setp st n p) m = getp st m.
Proof. intro H. unfold Model.getp, setp; cbn. rewrite assoc_upd_other by exact H. reflexivity. Qed.

Lemma getp_setp st n m p : getp (setp st n p) m = if node_eqb m n then p else getp st m.
Proof.
  destruct (node_eqb m n) eqn:E.
  - apply node_eqb_eq in E. subst. apply getp_setp_same.
  - apply getp_setp_other. intro; subst. rewrite node_eqb_refl in E. discriminate.
Qed.

Lemma nextc_setp st n p : nextc (setp st n p) = nextc st.
Proof. reflexivity. Qed.

Lemma getp_set_links st n l m :
  getp (set_links T st n l) m = if node_eqb m n then mkP (p_def (getp st n)) l else getp st m.
Proof. unfold set_links. apply getp_setp. Qed.

Lemma getp_set_defined st n name v m :
  getp (set_defined T st n name v) m =
  if node_eqb m n then mkP (updN name v (p_def (getp st n))) (p_links (getp st n)) else getp st m.
Proof. unfold set_defined. apply getp_setp. Qed.

Lemma links_set_links st n l m :
  links (set_links T st n l) m = if node_eqb m n then l else links st m.
Proof. unfold Model.links. rewrite getp_set_links. destruct (node_eqb m n); reflexivity. Qed.

Lemma pdef_set_links st n l m : p_def (getp (set_links T st n l) m) = p_def (getp st m).
Proof.
  rewrite getp_set_links. destruct (node_eqb m n) eqn:E; [|reflexivity].
  apply node_eqb_eq in E. subst. reflexivity.
Qed.

Lemma defined_set_links st n l m name : defined (set_links T st n l) m name = defined st m name.
Proof. unfold Model.defined. rewrite pdef_set_links. reflexivity. Qed.

Lemma links_set_defined st n name v m : links (set_defined T st n name v) m = links st m.
Proof.
  unfold Model.links. rewrite getp_set_defined. destruct (node_eqb m n) eqn:E; [|reflexivity].
  apply node_eqb_eq in E. subst. reflexivity.
Qed.

Lemma defined_set_defined st n name v m name' :
  defined (set_defined T st n name v) m name' =
  if node_eqb m n && N.eqb name' name then v else defined st m name'.
Proof.
  unfold Model.defined. rewrite getp_set_defined.
  destruct (node_eqb m n) eqn:E; cbn; [|reflexivity].
  apply node_eqb_eq in E. subst m.
  destruct (N.eqb name' name) eqn:E2.
  - apply N.eqb_eq in E2. subst. rewrite assocN_updN_same. reflexivity.
  - apply N.eqb_neq in E2. rewrite assocN_updN_other by exact E2. reflexivity.
Qed.

(* ------------------------------------------------------------------ *)
(* layer 2: what tables_ok gives                                       *)
(* ------------------------------------------------------------------ *)

Lemma tok_parts :
  intersects (names_of (cdefs T)) (names_of (tdefs T)) = false
  /\ ddist T = true
  /\ forallb (fun d => negb (d_linker d)) (tdefs T) = true
  /\ forallb (fun d => Bool.eqb (d_linker d) (N.eqb (d_name d) name_transport)) (cdefs T) = true
  /\ memN name_transport (names_of (cdefs T)) = true
  /\ negb (memN name_unknown (names_of (cdefs T) ++ names_of (tdefs T))) = true
  /\ forallb (fun d => validate T d (d_default d)) (cdefs T ++ tdefs T) = true
  /\ forallb (fun d => negb (d_linker d && is_transport T (d_default d))) (cdefs T) = true.
Proof.
  pose proof TOK as H. unfold tables_ok in H.
  repeat (apply andb_true_iff in H; destruct H as [H ?]).
  apply negb_true_iff in H. repeat split; assumption.
Qed.

Lemma names_disjoint name d d' :
  find_def (cdefs T) name = Some d -> find_def (tdefs T) name = Some d' -> False.
Proof.
  intros H1 H2. destruct tok_parts as [D _].
  apply (intersects_false _ _ D name); apply find_def_In; congruence.
Qed.

Lemma tdef_no_linker name d : find_def (tdefs T) name = Some d -> d_linker d = false.
Proof.
  intro H. destruct tok_parts as (_ & _ & L & _).
  apply find_def_name in H as [_ Hin].
  rewrite forallb_forall in L. apply L in Hin. apply negb_true_iff in Hin. exact Hin.
Qed.

Lemma cdef_linker name d :
  find_def (cdefs T) name = Some d -> d_linker d = N.eqb name name_transport.
Proof.
  intro H. destruct tok_parts as (_ & _ & _ & L & _).
  apply find_def_name in H as [Hn Hin].
  rewrite forallb_forall in L. apply L in Hin. apply Bool.eqb_prop in Hin. congruence.
Qed.

Lemma transport_def : exists d, find_def (cdefs T) name_transport = Some d.
Proof.
  destruct tok_parts as (_ & _ & _ & _ & M & _).
  apply memN_In in M. apply find_def_In in M.
  destruct (find_def (cdefs T) name_transport) as [d|]; [eauto|congruence].
Qed.

Lemma transport_default_not_transport d :
  find_def (cdefs T) name_transport = Some d -> is_transport T (d_default d) = false.
Proof.
  intro H. destruct tok_parts as (_ & _ & _ & _ & _ & _ & _ & L).
  pose proof (cdef_linker _ _ H) as HL. rewrite N.eqb_refl in HL.
  apply find_def_name in H as [_ Hin].
  rewrite forallb_forall in L. apply L in Hin. rewrite HL in Hin. cbn in Hin.
  apply negb_true_iff in Hin. exact Hin.
Qed.

Lemma ddist_true : ddist T = true.
Proof. apply tok_parts. Qed.

Lemma has_def_client_transport c name :
  has_def T (NC c) name = true -> has_def T (NT c 0) name = false.
Proof.
  unfold has_def; cbn. destruct (find_def (cdefs T) name) eqn:E1; [|discriminate].
  destruct (find_def (tdefs T) name) eqn:E2; [|reflexivity].
  exfalso. eapply names_disjoint; eauto.
Qed.

(* ------------------------------------------------------------------ *)
(* layer 3: the invariant and the closed form of the provider search   *)
(* ------------------------------------------------------------------ *)

Lemma find_holder_some f n c :
  find_holder f n = Some c -> f c = true /\ (N.to_nat c < n)%nat.
Proof.
  induction n as [|n IH]; cbn; [discriminate|].
  destruct (find_holder f n) as [c'|] eqn:E.
  - intro H; inversion H; subst c'. destruct (IH eq_refl). split; [assumption|lia].
  - destruct (f (N.of_nat n)) eqn:Ef; [|discriminate].
    intro H; inversion H; subst c. split; [exact Ef|]. rewrite Nat2N.id. lia.
Qed.

Lemma find_holder_none f n :
  find_holder f n = None -> forall c, (N.to_nat c < n)%nat -> f c = false.
Proof.
  induction n as [|n IH]; cbn; intros H c Hc; [lia|].
  destruct (find_holder f n) as [c'|] eqn:E; [discriminate|].
  destruct (f (N.of_nat n)) eqn:Ef; [discriminate|].
  destruct (Nat.eq_dec (N.to_nat c) n) as [<-|Hne].
  - rewrite N2Nat.id in Ef. exact Ef.
  - apply IH; [reflexivity|lia].
Qed.

Lemma find_holder_ext f g n :
  (forall c, (N.to_nat c < n)%nat -> f c = g c) -> find_holder f n = find_holder g n.
Proof.
  induction n as [|n IH]; cbn; intro H; [reflexivity|].
  rewrite IH by (intros c Hc; apply H; lia).
  rewrite (H (N.of_nat n)) by (rewrite Nat2N.id; lia). reflexivity.
Qed.

Lemma node_opt_is_true o t : node_opt_is o t = true <-> o = Some t.
Proof.
  destruct o as [x|]; cbn; [|split; discriminate].
  rewrite node_eqb_eq. split; congruence.
Qed.

Definition cur (st : state) (c : N) : option node :=
  let v := defined st (NC c) name_transport in
  if is_transport T v then Some (tnode v) else None.

(* the client whose `transport` option holds transport object t *)
Definition holder (st : state) (t : node) : option N :=
  find_holder (fun c => node_opt_is (cur st c) t) (N.to_nat (nextc st)).

(* link_invariant: a client's options are linked to exactly the options of
   the transport object stored in its `transport` option; that transport's
   options are linked back to that client and to nothing else; the options of
   a transport object no client holds (never used, or released) are linked to
   nothing *)
Definition INV (st : state) : Prop :=
  (forall c, links st (NC c) = match cur st c with Some t => [t] | None => [] end)
  /\ (forall c t, cur st c = Some t -> links st t = [NC c])
  /\ (forall a i, (forall c, cur st c <> Some (NT a i)) -> links st (NT a i) = [])
  /\ (forall n, nextc st <= owner n -> getp st n = fresh T n)
  /\ (forall c t, cur st c = Some t -> owner t < nextc st).

Lemma cur_nt st c t : cur st c = Some t -> exists a i, t = NT a i.
Proof.
  unfold cur. destruct (is_transport T _); [|discriminate].
  intro H; inversion H. unfold tnode. eauto.
Qed.

Lemma assocN_prime ds name :
  assocN name (map (fun d => (d_name d, d_default d)) ds) =
  match find_def ds name with Some d => Some (d_default d) | None => None end.
Proof.
  induction ds as [|d ds IH]; cbn; [reflexivity|].
  destruct (N.eqb name (d_name d)); [reflexivity|exact IH].
Qed.

Lemma defined_fresh st n name : getp st n = fresh T n -> defined st n name = default_of T n name.
Proof.
  intro H. unfold Model.defined, default_of. rewrite H. cbn [fresh p_def].
  rewrite assocN_prime. destruct (find_def (defs_of T n) name); reflexivity.
Qed.

Lemma cur_fresh st c : getp st (NC c) = fresh T (NC c) -> cur st c = None.
Proof.
  intro H. unfold cur. rewrite (defined_fresh _ _ _ H). unfold default_of. cbn [defs_of].
  destruct transport_def as [d Hd]. rewrite Hd, (transport_default_not_transport _ Hd). reflexivity.
Qed.

Lemma cur_bounded st c t : INV st -> cur st c = Some t -> c < nextc st.
Proof.
  intros (_ & _ & _ & If & _) H.
  destruct (N.ltb_spec c (nextc st)) as [L|L]; [exact L|].
  rewrite (cur_fresh st c) in H by (apply If; exact L). discriminate.
Qed.

Lemma cur_unique st c c' t : INV st -> cur st c = Some t -> cur st c' = Some t -> c = c'.
Proof.
  intros (_ & I2 & _) H H'. pose proof (I2 _ _ H) as A. rewrite (I2 _ _ H') in A. congruence.
Qed.

Lemma holder_cur st t c : INV st -> (holder st t = Some c <-> cur st c = Some t).
Proof.
  intro HI. unfold holder. split.
  - intro H. apply find_holder_some in H as [H _]. apply node_opt_is_true. exact H.
  - intro H. pose proof (cur_bounded _ _ _ HI H) as Hb.
    destruct (find_holder _ _) as [c'|] eqn:E.
    + apply find_holder_some in E as [E _]. apply node_opt_is_true in E.
      f_equal. eapply cur_unique; eauto.
    + assert (Hlt : (N.to_nat c < N.to_nat (nextc st))%nat) by lia.
      pose proof (find_holder_none _ _ E c Hlt) as F. cbv beta in F.
      rewrite H in F. cbn in F. rewrite node_eqb_refl in F. discriminate.
Qed.

Lemma holder_none st t : INV st -> holder st t = None -> forall c, cur st c <> Some t.
Proof.
  intros HI H c Hc. apply (holder_cur st t c HI) in Hc. congruence.
Qed.

Definition mres (st : state) (n : node) (name : N) : node :=
  if has_def T n name then n else
  match n with
  | NC c => match cur st c with
            | Some t => if has_def T t name then t else n
            | None => n
            end
  | NT _ _ => match holder st n with
              | Some c => if has_def T (NC c) name then NC c else n
              | None => n
              end
  end.

Lemma provider_simple st name n : INV st -> provider T st name n = mres st n name.
Proof.
  intros HI. pose proof HI as (Hc & Ht & Hf & _). unfold provider, mres, FUEL.
  cbn [prov]. destruct (has_def T n name) eqn:Hd; [reflexivity|].
  destruct n as [c | a i].
  - change (Model.links T st (NC c)) with (links st (NC c)). rewrite (Hc c).
    destruct (cur st c) as [t|] eqn:Ec; [|reflexivity].
    destruct (cur_nt _ _ _ Ec) as (a & i & ->).
    cbn [loop_prov app mem node_eqb orb prov].
    destruct (has_def T (NT a i) name) eqn:Hd2; [reflexivity|].
    change (Model.links T st (NT a i)) with (links st (NT a i)). rewrite (Ht c _ Ec).
    cbn [loop_prov app mem node_eqb orb]. rewrite N.eqb_refl. cbn. reflexivity.
  - change (Model.links T st (NT a i)) with (links st (NT a i)).
    destruct (holder st (NT a i)) as [c|] eqn:Eh.
    + apply (holder_cur _ _ _ HI) in Eh. rewrite (Ht c _ Eh).
      cbn [loop_prov app mem node_eqb orb prov].
      destruct (has_def T (NC c) name) eqn:Hd2; [reflexivity|].
      change (Model.links T st (NC c)) with (links st (NC c)). rewrite (Hc c), Eh.
      cbn [loop_prov app mem node_eqb orb]. rewrite !N.eqb_refl. cbn. reflexivity.
    + rewrite (Hf a i (holder_none _ _ HI Eh)). reflexivity.
Qed.

(* ------------------------------------------------------------------ *)
(* layer 4: TpLinker.updated                                           *)
(* ------------------------------------------------------------------ *)

Definition same_defs (st st' : state) : Prop :=
  (forall n, p_def (getp st' n) = p_def (getp st n)) /\ nextc st' = nextc st.

Lemma same_defs_refl st : same_defs st st.
Proof. split; reflexivity. Qed.

Lemma same_defs_trans a b d : same_defs a b -> same_defs b d -> same_defs a d.
Proof.
  intros (A1 & A2) (B1 & B2). split; [|congruence].
  intro n. rewrite B1. apply A1.
Qed.

Lemma same_defs_set_links st n l : same_defs st (set_links T st n l).
Proof. split; [intro m; apply pdef_set_links|reflexivity]. Qed.

Lemma getp_set_links_other st n l x : x <> n -> getp (set_links T st n l) x = getp st x.
Proof. intro H. rewrite getp_set_links, node_eqb_neq by exact H. reflexivity. Qed.

(* Properties.unlink of the transport options the client is linked to:
   Link.teardown removes both endpoints *)
Lemma unlink_eff st c a i :
  links st (NC c) = [NT a i] -> links st (NT a i) = [NC c] ->
  let st2 := unlink T st (NC c) (NT a i) in
  links st2 (NC c) = [] /\ links st2 (NT a i) = []
  /\ (forall x, x <> NC c -> x <> NT a i -> getp st2 x = getp st x)
  /\ same_defs st st2.
Proof.
  intros H1 H2. unfold unlink.
  change (Model.links T st (NC c)) with (links st (NC c)). rewrite H1.
  cbn [fold_left]. rewrite node_eqb_refl. unfold teardown.
  change (Model.links T st (NT a i)) with (links st (NT a i)).
  rewrite H2. cbn [mem node_eqb orb]. rewrite N.eqb_refl. cbn [orb remove_first node_eqb].
  rewrite N.eqb_refl.
  set (sa := set_links T st (NT a i) []).
  assert (La : Model.links T sa (NC c) = [NT a i]).
  { unfold sa. change (Model.links T) with links. rewrite links_set_links. cbn [node_eqb]. exact H1. }
  rewrite La. cbn [mem node_eqb orb]. rewrite !N.eqb_refl. cbn [andb orb remove_first node_eqb].
  rewrite !N.eqb_refl. cbn [andb].
  repeat split.
  - rewrite links_set_links, node_eqb_refl. reflexivity.
  - rewrite links_set_links. cbn [node_eqb].
    unfold sa. rewrite links_set_links, node_eqb_refl. reflexivity.
  - intros x Hx1 Hx2. rewrite getp_set_links_other by exact Hx1.
    unfold sa. apply getp_set_links_other. exact Hx2.
  - intro n. rewrite pdef_set_links. unfold sa. apply pdef_set_links.
Qed.

Lemma reach_leaf st n : links st n = [] -> fst (reach T FUEL st n []) = [n].
Proof.
  intro H. unfold FUEL. cbn [reach].
  change (Model.links T st n) with (links st n). rewrite H. cbn. reflexivity.
Qed.

(* Link(client options, options of a transport object nobody holds) *)
Lemma link_eff st c a i :
  links st (NC c) = [] -> links st (NT a i) = [] ->
  exists st3, link T st (NC c) (NT a i) = (st3, true)
    /\ links st3 (NC c) = [NT a i] /\ links st3 (NT a i) = [NC c]
    /\ (forall x, x <> NC c -> x <> NT a i -> getp st3 x = getp st x)
    /\ same_defs st st3.
Proof.
  intros H1 H2. unfold link.
  change (Model.links T st) with (links st).
  rewrite H1, H2. cbn [mem orb].
  unfold domains, keys. rewrite (reach_leaf st (NC c) H1), (reach_leaf st (NT a i) H2).
  cbn [map domain_of flat_map defs_of]. rewrite ddist_true. cbn [intersects existsb memN N.eqb orb].
  rewrite !app_nil_r.
  destruct tok_parts as (D & _). unfold names_of in D. rewrite D.
  eexists. split; [reflexivity|].
  set (sa := set_links T st (NC c) ([] ++ [NT a i])).
  assert (La : Model.links T sa (NT a i) = []).
  { change (Model.links T) with links. unfold sa. rewrite links_set_links. cbn [node_eqb]. exact H2. }
  rewrite La. cbn [app].
  repeat split.
  - rewrite links_set_links. cbn [node_eqb]. unfold sa. rewrite links_set_links, node_eqb_refl. reflexivity.
  - rewrite links_set_links, node_eqb_refl. reflexivity.
  - intros x Hx1 Hx2. rewrite getp_set_links_other by exact Hx2.
    unfold sa. apply getp_set_links_other. exact Hx1.
  - intro n. rewrite pdef_set_links. unfold sa. apply pdef_set_links.
Qed.

Definition tof (v : val) : option node := if is_transport T v then Some (tnode v) else None.

Lemma tof_nt v t : tof v = Some t -> exists a i, t = NT a i.
Proof. unfold tof. destruct (is_transport T v); [|discriminate]. intro H; inversion H. unfold tnode. eauto. Qed.

(* the linker branch of __set: unlink the previous transport, link the new one *)
Lemma linker_branch st1 c prev v' :
  links st1 (NC c) = (match tof prev with Some t0 => [t0] | None => [] end) ->
  (forall t0, tof prev = Some t0 -> links st1 t0 = [NC c]) ->
  (forall t', tof v' = Some t' -> tof prev <> Some t' -> links st1 t' = []) ->
  exists st3,
    (let st2 := if is_transport T prev then unlink T st1 (NC c) (tnode prev) else st1 in
     if is_transport T v'
     then let '(st3, ok) := link T st2 (NC c) (tnode v') in (st3, if ok then OOk else OExc)
     else (st2, OOk)) = (st3, OOk)
    /\ links st3 (NC c) = (match tof v' with Some t' => [t'] | None => [] end)
    /\ (forall t', tof v' = Some t' -> links st3 t' = [NC c])
    /\ (forall t0, tof prev = Some t0 -> tof v' <> Some t0 -> links st3 t0 = [])
    /\ (forall x, x <> NC c -> tof prev <> Some x -> tof v' <> Some x -> getp st3 x = getp st1 x)
    /\ same_defs st1 st3.
Proof.
  intros H1 H2 H3. cbv zeta.
  (* after the unlink *)
  assert (U : exists st2,
     (if is_transport T prev then unlink T st1 (NC c) (tnode prev) else st1) = st2
     /\ links st2 (NC c) = []
     /\ (forall t0, tof prev = Some t0 -> links st2 t0 = [])
     /\ (forall x, x <> NC c -> tof prev <> Some x -> getp st2 x = getp st1 x)
     /\ same_defs st1 st2).
  { unfold tof in *. destruct (is_transport T prev) eqn:Ep.
    - unfold tnode in *. set (a := snd prev / TW) in *. set (i := snd prev mod TW) in *.
      destruct (unlink_eff st1 c a i H1 (H2 _ eq_refl)) as (A & B & C & D).
      eexists. split; [reflexivity|]. repeat split; try assumption; try apply D.
      + intros t0 E. inversion E; subst. exact B.
      + intros x Hx Hn. apply C; [exact Hx|]. intro; subst x. apply Hn. reflexivity.
    - exists st1. repeat split; try assumption; try reflexivity. intros t0 E. discriminate. }
  destruct U as (st2 & E2 & L2 & F2 & G2 & D2). rewrite E2. clear E2.
  unfold tof in *. destruct (is_transport T v') eqn:Ev.
  - unfold tnode in H3 |- *. set (a := snd v' / TW) in *. set (i := snd v' mod TW) in *.
    assert (Lt : links st2 (NT a i) = []).
    { destruct (is_transport T prev) eqn:Ep.
      - destruct (node_dec (tnode prev) (NT a i)) as [E|E].
        + apply F2. rewrite E. reflexivity.
        + unfold Model.links. rewrite G2.
          * apply (H3 _ eq_refl). unfold tnode in E. congruence.
          * discriminate.
          * congruence.
      - unfold Model.links. rewrite G2; [apply (H3 _ eq_refl)| |]; discriminate. }
    destruct (link_eff st2 c a i L2 Lt) as (st3 & E3 & A & B & C & D).
    exists st3. rewrite E3. repeat split; try assumption.
    + intros t' E. inversion E; subst. exact B.
    + intros t0 E Hn. unfold Model.links. rewrite C.
      * apply F2. exact E.
      * destruct (is_transport T prev); [|discriminate]. inversion E. unfold tnode. discriminate.
      * intro; subst t0. apply Hn. reflexivity.
    + intros x Hx Hp Hv. rewrite C; [apply G2; assumption|exact Hx|].
      intro; subst x. apply Hv. reflexivity.
    + intro n. destruct D as [D _]. destruct D2 as [D2 _]. rewrite D. apply D2.
    + destruct D as [_ D]. destruct D2 as [_ D2]. congruence.
  - exists st2. repeat split; try assumption; try apply D2.
    + intros t' E. discriminate.
    + intros t0 E _. apply F2. exact E.
    + intros x Hx Hp _. apply G2; assumption.
Qed.

(* ------------------------------------------------------------------ *)
(* layer 5: one assignment                                              *)
(* ------------------------------------------------------------------ *)

Definition R (st : state) (ss : sstate) : Prop :=
  nextc st = s_next ss
  /\ forall n name, has_def T n name = true -> defined st n name = sval T ss n name.

Lemma has_transport c : has_def T (NC c) name_transport = true.
Proof. unfold has_def; cbn. destruct transport_def as [d H]. rewrite H. reflexivity. Qed.

Lemma cur_R st ss c : R st ss -> cur st c = s_cur T ss c.
Proof. intros [_ H]. unfold cur, s_cur. rewrite (H _ _ (has_transport c)). reflexivity. Qed.

Lemma holder_R st ss t : R st ss -> holder st t = s_holder T ss t.
Proof.
  intro HR. unfold holder, s_holder. destruct HR as [Hn Hv]. rewrite Hn.
  apply find_holder_ext. intros c _. rewrite (cur_R st ss c); [reflexivity|split; assumption].
Qed.

Lemma resolve_mres st ss n name :
  R st ss ->
  resolve T ss n name = if has_def T (mres st n name) name then Some (mres st n name) else None.
Proof.
  intro HR. unfold resolve, mres.
  destruct (has_def T n name) eqn:Hd; [rewrite Hd; reflexivity|].
  destruct n as [c|a i].
  - rewrite <- (cur_R _ _ c HR). destruct (cur st c) as [t|]; [|rewrite Hd; reflexivity].
    destruct (has_def T t name) eqn:H2; [rewrite H2|rewrite Hd]; reflexivity.
  - rewrite <- (holder_R _ _ _ HR). destruct (holder st (NT a i)) as [c|]; [|rewrite Hd; reflexivity].
    destruct (has_def T (NC c) name) eqn:H2; [rewrite H2|rewrite Hd]; reflexivity.
Qed.

Lemma owner_mres_lt st n name : INV st -> owner n < nextc st -> owner (mres st n name) < nextc st.
Proof.
  intros HI Hn. unfold mres. destruct (has_def T n name); [exact Hn|].
  destruct n as [c|a i].
  - destruct (cur st c) as [t|] eqn:Ec; [|exact Hn].
    destruct (has_def T t name); [|exact Hn]. destruct HI as (_ & _ & _ & _ & I5). eapply I5; eauto.
  - destruct (holder st (NT a i)) as [c|] eqn:Eh; [|exact Hn].
    destruct (has_def T (NC c) name); [|exact Hn].
    apply (holder_cur _ _ _ HI) in Eh. cbn. eapply cur_bounded; eauto.
Qed.

Lemma defined_ext st st' n name :
  p_def (getp st' n) = p_def (getp st n) -> defined st' n name = defined st n name.
Proof. intro H. unfold Model.defined. rewrite H. reflexivity. Qed.

Lemma cur_ext st st' c :
  p_def (getp st' (NC c)) = p_def (getp st (NC c)) -> cur st' c = cur st c.
Proof. intro H. unfold cur. rewrite (defined_ext _ _ _ _ H). reflexivity. Qed.

Lemma links_ext st st' n : getp st' n = getp st n -> links st' n = links st n.
Proof. intro H. unfold Model.links. rewrite H. reflexivity. Qed.

Lemma sval_sput ss n name v m name' :
  sval T (sput ss n name v) m name' =
  if node_eqb m n && N.eqb name' name then v else sval T ss m name'.
Proof.
  unfold sval, smap, sput; cbn [s_vals].
  destruct (node_eqb m n) eqn:E; cbn [andb].
  - apply node_eqb_eq in E. subst m. rewrite assoc_upd_same.
    destruct (N.eqb name' name) eqn:E2.
    + apply N.eqb_eq in E2. subst. rewrite assocN_updN_same. reflexivity.
    + apply N.eqb_neq in E2. rewrite assocN_updN_other by exact E2. reflexivity.
  - rewrite assoc_upd_other; [reflexivity|]. intro; subst. rewrite node_eqb_refl in E. discriminate.
Qed.

Lemma snext_sput ss n name v : s_next (sput ss n name v) = s_next ss.
Proof. reflexivity. Qed.

Lemma R_set_defined st ss p name v st' :
  R st ss -> same_defs (set_defined T st p name v) st' ->
  R st' (sput ss p name v).
Proof.
  intros [Hn Hv] (B1 & B3). split.
  - rewrite B3. exact Hn.
  - intros m nm Hd. rewrite (defined_ext _ _ _ _ (B1 m)).
    rewrite defined_set_defined, sval_sput. destruct (node_eqb m p && N.eqb nm name); [reflexivity|].
    apply Hv. exact Hd.
Qed.

Lemma tof_not_client v c : tof v <> Some (NC c).
Proof. unfold tof. destruct (is_transport T v); [|discriminate]. unfold tnode. discriminate. Qed.

Lemma nvl_transport d v :
  find_def (cdefs T) name_transport = Some d -> is_transport T (nvl d v) = true ->
  nvl d v = v /\ is_transport T v = true.
Proof.
  intros Hd H. unfold nvl in *. destruct (is_none v).
  - rewrite (transport_default_not_transport _ Hd) in H. discriminate.
  - auto.
Qed.

(* nobody but client c holds the transport object named by v *)
Definition free_for (st : state) (c : N) (v : val) : Prop :=
  forall c1, cur st c1 = Some (tnode v) -> c1 = c.

Lemma shares_free st ss n v c :
  INV st -> R st ss ->
  mres st n name_transport = NC c ->
  shares T ss (St n name_transport v) = false -> is_transport T v = true ->
  free_for st c v.
Proof.
  intros HI HR Hm Hs Hv c1 Hc1. unfold shares in Hs.
  rewrite N.eqb_refl, Hv, (resolve_mres st ss n name_transport HR), Hm, has_transport in Hs.
  cbn [andb] in Hs. rewrite <- (holder_R st ss _ HR) in Hs.
  apply (holder_cur _ _ _ HI) in Hc1. rewrite Hc1 in Hs.
  apply negb_false_iff, N.eqb_eq in Hs. congruence.
Qed.

(* assigning the `transport` option of client c *)
Lemma set_transport_inv st c d v st' o :
  INV st -> c < nextc st ->
  find_def (cdefs T) name_transport = Some d -> validate T d v = true ->
  vexists T st v = true -> (is_transport T v = true -> free_for st c v) ->
  pset T st (NC c) name_transport v = (st', o) ->
  o = OOk /\ INV st' /\ same_defs (set_defined T st (NC c) name_transport (nvl d v)) st'.
Proof.
  intros HI Hc Hd Hval Hex Hfree. unfold pset. cbn [defs_of]. rewrite Hd, Hval. cbn [negb].
  pose proof (cdef_linker _ _ Hd) as Hl. rewrite N.eqb_refl in Hl. rewrite Hl.
  set (v' := nvl d v).
  set (st1 := set_defined T st (NC c) name_transport v').
  change (Model.defined T st (NC c) name_transport) with (defined st (NC c) name_transport).
  set (prev := defined st (NC c) name_transport).
  assert (Hprev : tof prev = cur st c) by reflexivity.
  pose proof HI as (I1 & I2 & I3 & I4 & I5).
  (* the new transport, when there is one, is v itself, exists, and is free for c *)
  assert (Hnew : forall t', tof v' = Some t' ->
                 owner t' < nextc st /\ (forall c1, cur st c1 = Some t' -> c1 = c)).
  { intros t' E. unfold tof in E. destruct (is_transport T v') eqn:Ev; [|discriminate].
    destruct (nvl_transport d v Hd Ev) as [Ev1 Ev2]. fold v' in Ev1. inversion E; subst t'. rewrite Ev1.
    split.
    - unfold vexists in Hex. rewrite Ev2 in Hex. cbn in Hex. apply N.ltb_lt. exact Hex.
    - apply Hfree. exact Ev2. }
  destruct (linker_branch st1 c prev v') as (st3 & E & L1 & L2 & L3 & L4 & D).
  { unfold st1. rewrite links_set_defined, Hprev. apply I1. }
  { intros t0 E0. unfold st1. rewrite links_set_defined. apply (I2 c). congruence. }
  { intros t' E' Hne. unfold st1. rewrite links_set_defined.
    destruct (tof_nt _ _ E') as (a & i & ->). apply I3. intros c1 Hc1.
    destruct (Hnew _ E') as [_ F]. rewrite (F c1 Hc1) in Hc1. congruence. }
  cbv zeta in E. fold st1. rewrite E. intro H; inversion H; subst st' o; clear H.
  split; [reflexivity|]. split; [|exact D].
  destruct D as (B1 & B3).
  assert (Hcur : forall c1, cur st3 c1 = if N.eqb c1 c then tof v' else cur st c1).
  { intro c1. unfold cur at 1. rewrite (defined_ext _ _ _ _ (B1 (NC c1))). unfold st1.
    rewrite defined_set_defined. cbn [node_eqb]. rewrite N.eqb_refl, andb_true_r.
    destruct (N.eqb c1 c); reflexivity. }
  assert (Hst1 : forall x, x <> NC c -> getp st1 x = getp st x).
  { intros x Hx. unfold st1. rewrite getp_set_defined, node_eqb_neq by exact Hx. reflexivity. }
  split; [|split; [|split; [|split]]].
  - (* I1 *)
    intro c1. rewrite Hcur. destruct (N.eqb c1 c) eqn:Ec.
    + apply N.eqb_eq in Ec. subst c1. exact L1.
    + apply N.eqb_neq in Ec. unfold Model.links. rewrite L4, Hst1; try congruence.
      * apply I1.
      * apply tof_not_client.
      * apply tof_not_client.
  - (* I2a *)
    intros c1 t Ht. rewrite Hcur in Ht. destruct (N.eqb c1 c) eqn:Ec.
    + apply N.eqb_eq in Ec. subst c1. apply L2. exact Ht.
    + apply N.eqb_neq in Ec. destruct (cur_nt _ _ _ Ht) as (a & i & ->).
      unfold Model.links. rewrite L4, Hst1; try discriminate.
      * apply (I2 c1). exact Ht.
      * rewrite Hprev. intro X. apply Ec. eapply cur_unique; eauto.
      * intro X. destruct (Hnew _ X) as [_ F]. apply Ec. apply F. exact Ht.
  - (* I2b *)
    intros a i Hno.
    assert (Hv : tof v' <> Some (NT a i)).
    { intro X. apply (Hno c). rewrite Hcur, N.eqb_refl. exact X. }
    destruct (node_dec (NT a i) (tnode prev)) as [Ep|Ep].
    + destruct (is_transport T prev) eqn:Et.
      * apply L3; [unfold tof; rewrite Et; congruence|exact Hv].
      * (* the previous value was not a transport: untouched *)
        unfold Model.links. rewrite L4, Hst1; try discriminate; try exact Hv.
        -- apply I3. intros c1 Hc1. destruct (N.eq_dec c1 c) as [->|Hne].
           ++ rewrite <- Hprev in Hc1. unfold tof in Hc1. rewrite Et in Hc1. discriminate.
           ++ apply (Hno c1). rewrite Hcur. apply N.eqb_neq in Hne. rewrite Hne. exact Hc1.
        -- unfold tof. rewrite Et. discriminate.
    + destruct (tof prev) as [t0|] eqn:Et0.
      * assert (t0 <> NT a i).
        { unfold tof in Et0. destruct (is_transport T prev); [|discriminate]. congruence. }
        unfold Model.links. rewrite L4, Hst1; try discriminate; try exact Hv; try congruence.
        apply I3. intros c1 Hc1. destruct (N.eq_dec c1 c) as [->|Hne].
        -- rewrite <- Hprev in Hc1. congruence.
        -- apply (Hno c1). rewrite Hcur. apply N.eqb_neq in Hne. rewrite Hne. exact Hc1.
      * unfold Model.links. rewrite L4, Hst1; try discriminate; try exact Hv.
        apply I3. intros c1 Hc1. destruct (N.eq_dec c1 c) as [->|Hne].
        -- rewrite <- Hprev in Hc1. congruence.
        -- apply (Hno c1). rewrite Hcur. apply N.eqb_neq in Hne. rewrite Hne. exact Hc1.
  - (* I4 *)
    intros n Hn. rewrite B3 in Hn. cbn [nextc st1 set_defined setp] in Hn.
    rewrite L4, Hst1.
    + apply I4. exact Hn.
    + intro; subst n. cbn in Hn. lia.
    + intro; subst n. cbn in Hn. lia.
    + rewrite Hprev. intro X. pose proof (I5 _ _ X). lia.
    + intro X. destruct (Hnew _ X). lia.
  - (* I5 *)
    intros c1 t Ht. rewrite B3. cbn [nextc st1 set_defined setp].
    rewrite Hcur in Ht. destruct (N.eqb c1 c).
    + apply (Hnew _ Ht).
    + eapply I5; eauto.
Qed.

(* assigning any other option *)
Lemma set_other_inv st p name d v :
  INV st -> owner p < nextc st ->
  find_def (defs_of T p) name = Some d -> d_linker d = false ->
  INV (set_defined T st p name v).
Proof.
  intros (I1 & I2 & I3 & I4 & I5) Hp Ed El.
  assert (Hcur : forall c', cur (set_defined T st p name v) c' = cur st c').
  { intro c'. unfold cur. rewrite defined_set_defined.
    destruct (node_eqb (NC c') p && N.eqb name_transport name) eqn:E; [|reflexivity].
    apply andb_true_iff in E as [E1 E2]. apply node_eqb_eq in E1. apply N.eqb_eq in E2.
    subst name. rewrite <- E1 in Ed. cbn [defs_of] in Ed.
    rewrite (cdef_linker _ _ Ed), N.eqb_refl in El. discriminate. }
  split; [|split; [|split; [|split]]].
  - intro c'. rewrite Hcur, links_set_defined. apply I1.
  - intros c' t Ht. rewrite Hcur in Ht. rewrite links_set_defined. eapply I2; eauto.
  - intros a i Hno. rewrite links_set_defined. apply I3. intros c1. rewrite <- Hcur. apply Hno.
  - intros m Hm. cbn [nextc set_defined setp] in Hm. rewrite getp_set_defined.
    rewrite node_eqb_neq; [apply I4; exact Hm|]. intro; subst m. lia.
  - intros c1 t Ht. rewrite Hcur in Ht. cbn [nextc set_defined setp]. eapply I5; eauto.
Qed.

Lemma set_refine st ss n name v st' o :
  INV st -> R st ss -> owner n < nextc st -> vexists T st v = true ->
  shares T ss (St n name v) = false ->
  pset T st (provider T st name n) name v = (st', o) ->
  exists ss', sset T false ss n name v = (ss', o) /\ INV st' /\ R st' ss'.
Proof.
  intros HI HR Hex Hvx Hsh. rewrite (provider_simple _ _ _ HI).
  unfold sset. rewrite (resolve_mres st ss n name HR).
  pose proof (owner_mres_lt st n name HI Hex) as Hown.
  destruct (has_def T (mres st n name) name) eqn:Hhd.
  2:{ unfold pset. unfold has_def in Hhd. destruct (find_def (defs_of T (mres st n name)) name); [discriminate|].
      intro H; inversion H; subst. exists ss. auto. }
  remember (mres st n name) as p eqn:Ep.
  destruct (find_def (defs_of T p) name) as [d|] eqn:Ed.
  2:{ unfold has_def in Hhd. rewrite Ed in Hhd. discriminate. }
  destruct (validate T d v) eqn:Ev; cbn [negb].
  2:{ unfold pset. rewrite Ed, Ev. cbn [negb]. intro H; inversion H; subst. exists ss. auto. }
  destruct (d_linker d) eqn:El.
  - (* the transport option: TpLinker.updated *)
    destruct p as [c|a i]; [|rewrite (tdef_no_linker _ _ Ed) in El; discriminate].
    pose proof (cdef_linker _ _ Ed) as Hl. rewrite El in Hl. symmetry in Hl.
    apply N.eqb_eq in Hl. subst name. cbn [owner defs_of] in *.
    intro E.
    destruct (set_transport_inv st c d v st' o HI Hown Ed Ev Hvx) as (Ho & HI' & D); [|exact E|].
    { intro Hv. eapply shares_free; eauto. }
    subst o. eexists. split; [reflexivity|]. split; [exact HI'|].
    apply (R_set_defined st ss (NC c) name_transport (nvl d v)); assumption.
  - (* any other option *)
    unfold pset. rewrite Ed, Ev, El. cbn [negb].
    intro H; inversion H; subst st' o; clear H.
    eexists; split; [reflexivity|]. split.
    + eapply set_other_inv; eauto.
    + apply (R_set_defined st ss p name (nvl d v)); [exact HR|apply same_defs_refl].
Qed.

(* ------------------------------------------------------------------ *)
(* layer 6: reads, use, clone                                           *)
(* ------------------------------------------------------------------ *)

Lemma get_refine st ss n name : INV st -> R st ss -> get T st n name = sget T ss n name.
Proof.
  intros HI HR. unfold get, sget. rewrite (provider_simple _ _ _ HI), (resolve_mres st ss n name HR).
  unfold pget. destruct (has_def T (mres st n name) name) eqn:Hd; unfold has_def in Hd;
    destruct (find_def (defs_of T (mres st n name)) name) eqn:Ed; try discriminate; [|reflexivity].
  destruct HR as [_ Hv]. rewrite Hv; [reflexivity|]. unfold has_def. rewrite Ed. reflexivity.
Qed.

Lemma tuse_refine st ss t tag : INV st -> R st ss -> tuse T st t tag = stuse T ss t tag.
Proof. intros HI HR. unfold tuse, stuse. rewrite !(get_refine st ss _ _ HI HR). reflexivity. Qed.

Lemma use_refine st ss c : INV st -> R st ss -> use T st c = suse T ss c.
Proof.
  intros HI HR. unfold use, suse.
  rewrite !(get_refine st ss _ _ HI HR).
  assert (E : sget T ss (NC c) name_transport = OVal (sval T ss (NC c) name_transport)).
  { unfold sget, resolve. rewrite has_transport. reflexivity. }
  rewrite E. destruct (is_transport T (sval T ss (NC c) name_transport)); [|reflexivity].
  rewrite (tuse_refine st ss _ _ HI HR). reflexivity.
Qed.

Lemma has_def_memN n name : has_def T n name = memN name (names_of (defs_of T n)).
Proof.
  unfold has_def. destruct (memN name (names_of (defs_of T n))) eqn:E.
  - apply memN_In in E. apply find_def_In in E.
    destruct (find_def (defs_of T n) name); [reflexivity|congruence].
  - destruct (find_def (defs_of T n) name) eqn:E2; [|reflexivity].
    assert (In name (names_of (defs_of T n))) by (apply find_def_In; congruence).
    apply memN_In in H. congruence.
Qed.

Lemma sval_fold ds N0 (f : N -> val) s0 m name :
  sval T (fold_left (fun s d => sput s N0 (d_name d) (f (d_name d))) ds s0) m name =
  if node_eqb m N0 && memN name (names_of ds) then f name else sval T s0 m name.
Proof.
  revert s0. induction ds as [|d ds IH]; intro s0; cbn [fold_left names_of map memN].
  - rewrite andb_false_r. reflexivity.
  - rewrite IH, sval_sput. fold (names_of ds).
    destruct (node_eqb m N0); cbn [andb]; [|reflexivity].
    destruct (N.eqb name (d_name d)) eqn:E; cbn [orb].
    + apply N.eqb_eq in E. subst name. destruct (memN (d_name d) (names_of ds)); reflexivity.
    + reflexivity.
Qed.

Lemma snext_fold ds N0 (f : N -> val) s0 :
  s_next (fold_left (fun s d => sput s N0 (d_name d) (f (d_name d))) ds s0) = s_next s0.
Proof. revert s0. induction ds as [|d ds IH]; intro s0; cbn; [reflexivity|]. rewrite IH. reflexivity. Qed.

(* the three kinds of node after clone *)
Lemma getp_clone st c m :
  getp (clone T st c) m =
  let tv := defined st (NC c) name_transport in
  let k := nextc st in
  if is_transport T tv
  then if node_eqb m (NT k (tidx (tnode tv)))
       then mkP (p_def (getp st (tnode tv))) [NC k]
       else if node_eqb m (NC k)
            then mkP (updN name_transport (fst tv, tid k (tidx (tnode tv))) (p_def (getp st (NC c))))
                     [NT k (tidx (tnode tv))]
            else getp st m
  else if node_eqb m (NC k) then mkP (p_def (getp st (NC c))) [] else getp st m.
Proof.
  unfold clone. cbv zeta.
  change (Model.defined T st (NC c) name_transport) with (defined st (NC c) name_transport).
  set (tv := defined st (NC c) name_transport). set (k := nextc st).
  destruct (is_transport T tv).
  - match goal with |- getp (mkS (nodes ?s) _) m = _ =>
      change (getp (mkS (nodes s) (k + 1)) m) with (getp s m) end.
    rewrite getp_setp. destruct (node_eqb m (NT k (tidx (tnode tv)))); [reflexivity|].
    rewrite getp_setp. reflexivity.
  - match goal with |- getp (mkS (nodes ?s) _) m = _ =>
      change (getp (mkS (nodes s) (k + 1)) m) with (getp s m) end.
    rewrite getp_setp. reflexivity.
Qed.

Lemma nextc_clone st c : nextc (clone T st c) = nextc st + 1.
Proof. unfold clone. cbv zeta. destruct (is_transport T _); reflexivity. Qed.

Lemma tnode_tid tag k i : i < TW -> tnode (tag, tid k i) = NT k i.
Proof.
  intro H. unfold tnode, tid. cbn [snd]. f_equal.
  - rewrite N.div_add_l by (unfold TW; lia). rewrite N.div_small by exact H. lia.
  - rewrite N.add_comm, N.mod_add by (unfold TW; lia). apply N.mod_small. exact H.
Qed.

Lemma tidx_tnode_lt v : tidx (tnode v) < TW.
Proof. unfold tnode. cbn [tidx]. apply N.mod_lt. unfold TW. lia. Qed.

Lemma is_transport_fst v w : fst v = fst w -> is_transport T v = is_transport T w.
Proof. intro H. unfold is_transport, isinstance, classes_of. rewrite H. reflexivity. Qed.

Lemma cur_clone st c c1 :
  cur (clone T st c) c1 =
  if N.eqb c1 (nextc st)
  then (if is_transport T (defined st (NC c) name_transport)
        then Some (NT (nextc st) (tidx (tnode (defined st (NC c) name_transport)))) else None)
  else cur st c1.
Proof.
  set (tv := defined st (NC c) name_transport). set (k := nextc st).
  assert (D : defined (clone T st c) (NC c1) name_transport =
              if N.eqb c1 k
              then (if is_transport T tv then (fst tv, tid k (tidx (tnode tv))) else tv)
              else defined st (NC c1) name_transport).
  { unfold Model.defined at 1. rewrite getp_clone. cbv zeta. fold tv k. cbn [node_eqb].
    destruct (is_transport T tv) eqn:Et; destruct (N.eqb c1 k) eqn:Ek; cbn [p_def]; try reflexivity.
    rewrite assocN_updN_same. reflexivity. }
  unfold cur at 1. rewrite D. destruct (N.eqb c1 k); [|reflexivity].
  destruct (is_transport T tv) eqn:Et.
  - rewrite (is_transport_fst (fst tv, tid k (tidx (tnode tv))) tv eq_refl), Et.
    rewrite tnode_tid by apply tidx_tnode_lt. reflexivity.
  - rewrite Et. reflexivity.
Qed.

Lemma clone_refine st ss c :
  INV st -> R st ss -> INV (clone T st c) /\ R (clone T st c) (sclone T ss c).
Proof.
  intros HI HR. pose proof HI as (I1 & I2 & I3 & I4 & I5). pose proof HR as [Hn Hv].
  set (k := nextc st).
  set (tv := defined st (NC c) name_transport).
  set (i0 := tidx (tnode tv)).
  assert (Hk : forall n, owner n = k -> getp st n = fresh T n) by (intros n H; apply I4; unfold k in H; lia).
  pose proof (cur_clone st c) as Hcur. fold tv k i0 in Hcur.
  assert (Hcurk : cur st k = None) by (apply cur_fresh, Hk; reflexivity).
  assert (Hold : forall x, owner x < k -> getp (clone T st c) x = getp st x).
  { intros x Hx. rewrite getp_clone. cbv zeta. fold tv k i0.
    assert (node_eqb x (NT k i0) = false) by (apply node_eqb_neq; intro; subst x; cbn in Hx; lia).
    assert (node_eqb x (NC k) = false) by (apply node_eqb_neq; intro; subst x; cbn in Hx; lia).
    rewrite H, H0. destruct (is_transport T tv); reflexivity. }
  split.
  - split; [|split; [|split; [|split]]].
    + (* I1 *)
      intro c1. rewrite Hcur. destruct (N.eqb c1 k) eqn:E.
      * apply N.eqb_eq in E. subst c1. unfold Model.links. rewrite getp_clone. cbv zeta. fold tv k i0.
        cbn [node_eqb]. rewrite N.eqb_refl. destruct (is_transport T tv); reflexivity.
      * apply N.eqb_neq in E. unfold Model.links. rewrite getp_clone. cbv zeta. fold tv k i0.
        cbn [node_eqb]. apply N.eqb_neq in E. rewrite E. destruct (is_transport T tv); apply I1.
    + (* I2a *)
      intros c1 t Ht. rewrite Hcur in Ht. destruct (N.eqb c1 k) eqn:E.
      * apply N.eqb_eq in E. subst c1. destruct (is_transport T tv) eqn:Et; [|discriminate].
        inversion Ht; subst t. unfold Model.links. rewrite getp_clone. cbv zeta. fold tv k i0.
        rewrite Et, node_eqb_refl. reflexivity.
      * unfold Model.links. rewrite Hold by (eapply I5; eauto). eapply I2; eauto.
    + (* I2b *)
      intros a i Hno. unfold Model.links. rewrite getp_clone. cbv zeta. fold tv k i0.
      cbn [node_eqb].
      assert (Hst : links st (NT a i) = []).
      { apply I3. intros c1 Hc1. destruct (N.eqb c1 k) eqn:E.
        - apply N.eqb_eq in E. subst c1. congruence.
        - apply (Hno c1). rewrite Hcur, E. exact Hc1. }
      destruct (is_transport T tv) eqn:Et; [|exact Hst].
      destruct (N.eqb a k && N.eqb i i0) eqn:E; [|exact Hst].
      apply andb_true_iff in E as [E1 E2]. apply N.eqb_eq in E1, E2. subst a i.
      exfalso. apply (Hno k). rewrite Hcur, N.eqb_refl. reflexivity.
    + (* I4 *)
      intros m Hm. rewrite nextc_clone in Hm. fold k in Hm. rewrite getp_clone. cbv zeta. fold tv k i0.
      assert (node_eqb m (NT k i0) = false) by (apply node_eqb_neq; intro; subst m; cbn in Hm; lia).
      assert (node_eqb m (NC k) = false) by (apply node_eqb_neq; intro; subst m; cbn in Hm; lia).
      rewrite H, H0. destruct (is_transport T tv); apply I4; unfold k in Hm; lia.
    + (* I5 *)
      intros c1 t Ht. rewrite nextc_clone. fold k. rewrite Hcur in Ht. destruct (N.eqb c1 k).
      * destruct (is_transport T tv); [|discriminate]. inversion Ht; subst t. cbn. lia.
      * pose proof (I5 _ _ Ht). fold k in H. lia.
  - split.
    + rewrite nextc_clone. unfold sclone. cbn [s_next]. congruence.
    + intros m name Hd.
      assert (Htv : sval T ss (NC c) name_transport = tv) by (symmetry; apply Hv, has_transport).
      assert (Hs : sval T (sclone T ss c) m name =
                   sval T (match s_cur T ss c with
                           | Some t =>
                               sput (fold_left (fun s d => sput s (NT (s_next ss) (tidx t)) (d_name d)
                                                                  (sval T ss t (d_name d)))
                                               (tdefs T)
                                               (fold_left (fun s d => sput s (NC (s_next ss)) (d_name d)
                                                                           (sval T ss (NC c) (d_name d)))
                                                          (cdefs T) ss))
                                    (NC (s_next ss)) name_transport
                                    (fst (sval T ss (NC c) name_transport), tid (s_next ss) (tidx t))
                           | None => fold_left (fun s d => sput s (NC (s_next ss)) (d_name d)
                                                                (sval T ss (NC c) (d_name d)))
                                               (cdefs T) ss
                           end) m name) by reflexivity.
      rewrite Hs. clear Hs. rewrite <- (cur_R st ss c HR), Htv, <- Hn. fold k.
      unfold cur. fold tv.
      unfold Model.defined. rewrite getp_clone. cbv zeta. fold tv k i0.
      destruct (is_transport T tv) eqn:Et.
      * fold i0. rewrite sval_sput.
        rewrite (sval_fold (tdefs T) (NT k i0) (fun nm => sval T ss (tnode tv) nm)).
        rewrite (sval_fold (cdefs T) (NC k) (fun nm => sval T ss (NC c) nm)).
        destruct (node_eqb m (NT k i0)) eqn:E1.
        -- apply node_eqb_eq in E1. subst m. cbn [node_eqb andb p_def].
           rewrite has_def_memN in Hd. cbn [defs_of] in Hd. rewrite Hd.
           apply (Hv (tnode tv) name). rewrite has_def_memN. exact Hd.
        -- destruct (node_eqb m (NC k)) eqn:E2; cbn [andb p_def].
           ++ apply node_eqb_eq in E2. subst m.
              destruct (N.eqb name name_transport) eqn:E3.
              ** apply N.eqb_eq in E3. subst name. rewrite assocN_updN_same. reflexivity.
              ** apply N.eqb_neq in E3. rewrite assocN_updN_other by exact E3.
                 rewrite has_def_memN in Hd. cbn [defs_of] in Hd. rewrite Hd.
                 apply (Hv (NC c) name). rewrite has_def_memN. exact Hd.
           ++ apply Hv. exact Hd.
      * rewrite (sval_fold (cdefs T) (NC k) (fun nm => sval T ss (NC c) nm)).
        destruct (node_eqb m (NC k)) eqn:E2; cbn [andb].
        -- apply node_eqb_eq in E2. subst m. rewrite has_def_memN in Hd. cbn [defs_of] in Hd. rewrite Hd.
           cbn [p_def]. apply (Hv (NC c) name). rewrite has_def_memN. exact Hd.
        -- apply Hv. exact Hd.
Qed.

(* ------------------------------------------------------------------ *)
(* layer 7: one step, any history                                       *)
(* ------------------------------------------------------------------ *)

Lemma vexists_R st ss v : R st ss -> vexists T st v = svexists T ss v.
Proof. intros [Hn _]. unfold vexists, svexists, exists_node. rewrite Hn. reflexivity. Qed.

Lemma step_refine st ss o st' r :
  INV st -> R st ss -> shares T ss o = false -> step T st o = (st', r) ->
  exists ss', sstep T false ss o = (ss', r) /\ INV st' /\ R st' ss'.
Proof.
  intros HI HR Hsh. pose proof HR as [Hn _].
  destruct o as [n name v|n name|n names|c|n tag|c]; cbn [step sstep]; unfold exists_node;
    rewrite <- ?(vexists_R st ss _ HR), <- Hn.
  - destruct (owner n <? nextc st) eqn:E; cbn [andb].
    + destruct (vexists T st v) eqn:Ev.
      * apply N.ltb_lt in E. intro H. eapply set_refine; eauto.
      * intro H; inversion H; subst. eauto.
    + intro H; inversion H; subst. eauto.
  - intro H; inversion H; subst. eexists; split; [|split; eassumption].
    destruct (owner n <? nextc st'); [rewrite (get_refine _ _ _ _ HI HR)|]; reflexivity.
  - intro H; inversion H; subst. eexists; split; [|split; eassumption].
    destruct (owner n <? nextc st'); [|reflexivity].
    f_equal. f_equal. apply map_ext. intro nm. rewrite (get_refine _ _ _ _ HI HR). reflexivity.
  - intro H; inversion H; subst. eexists; split; [|split; eassumption].
    destruct (c <? nextc st'); [rewrite (use_refine _ _ _ HI HR)|]; reflexivity.
  - intro H; inversion H; subst. eexists; split; [|split; eassumption].
    destruct (owner n <? nextc st'); [rewrite (tuse_refine _ _ _ _ HI HR)|]; reflexivity.
  - destruct (c <? nextc st).
    + intro H; inversion H; subst. eexists; split; [reflexivity|]. apply clone_refine; assumption.
    + intro H; inversion H; subst. eauto.
Qed.

Lemma run_refine ops : forall st ss,
  INV st -> R st ss -> noshare_from T ss ops = true ->
  snd (run T st ops) = snd (srun T false ss ops)
  /\ INV (fst (run T st ops))
  /\ R (fst (run T st ops)) (fst (srun T false ss ops)).
Proof.
  induction ops as [|o ops IH]; intros st ss HI HR HG; cbn [run srun].
  - auto.
  - cbn [noshare_from] in HG. apply andb_true_iff in HG as [G1 G2]. apply negb_true_iff in G1.
    destruct (step T st o) as [st1 r] eqn:E.
    destruct (step_refine _ _ _ _ _ HI HR G1 E) as (ss1 & E' & HI1 & HR1).
    rewrite E' in *. cbn [fst] in G2. specialize (IH st1 ss1 HI1 HR1 G2).
    destruct (run T st1 ops) as [st2 rs]. destruct (srun T false ss1 ops) as [ss2 rs'].
    cbn [fst snd] in *. destruct IH as (A & B & C). subst. auto.
Qed.

Lemma INV_virgin : INV virgin.
Proof.
  assert (Hg : forall n, getp virgin n = fresh T n) by reflexivity.
  assert (Hc : forall c, cur virgin c = None) by (intro c; apply cur_fresh, Hg).
  split; [|split; [|split; [|split]]].
  - intro c. rewrite Hc. reflexivity.
  - intros c t H. rewrite Hc in H. discriminate.
  - intros a i _. unfold Model.links. rewrite Hg. reflexivity.
  - intros n _. apply Hg.
  - intros c t H. rewrite Hc in H. discriminate.
Qed.

Lemma R_virgin : R virgin svirgin.
Proof.
  split; [reflexivity|]. intros n name _.
  rewrite (defined_fresh virgin n name) by reflexivity. reflexivity.
Qed.

Lemma shares_virgin o : shares T svirgin o = false.
Proof.
  destruct o as [n name v| | | | |]; try reflexivity. unfold shares.
  destruct (N.eqb name name_transport && is_transport T v); [|reflexivity]. cbn [andb].
  destruct (resolve T svirgin n name) as [[c|a i]|]; try reflexivity.
  rewrite <- (holder_R virgin svirgin _ R_virgin).
  destruct (holder virgin (tnode v)) as [c'|] eqn:E; [|reflexivity].
  apply (holder_cur _ _ _ INV_virgin) in E.
  rewrite (cur_fresh virgin c') in E by reflexivity. discriminate.
Qed.

Lemma init_ok : INV (init T) /\ R (init T) (sinit T).
Proof.
  unfold init, sinit.
  destruct (step T virgin (St (NC 0) name_transport (16, 0))) as [st r] eqn:E.
  destruct (step_refine _ _ _ _ _ INV_virgin R_virgin (shares_virgin _) E) as (ss & E' & HI & HR).
  rewrite E'. auto.
Qed.

(* the model refines the map specification on histories of any length *)
Lemma options_refine_map_l ops :
  noshare T ops = true ->
  snd (run T (init T) ops) = snd (srun T false (sinit T) ops).
Proof. intro HG. destruct init_ok as [HI HR]. apply (run_refine ops _ _ HI HR HG). Qed.

Lemma link_invariant_l ops : noshare T ops = true -> INV (fst (run T (init T) ops)).
Proof. intro HG. destruct init_ok as [HI HR]. apply (run_refine ops _ _ HI HR HG). Qed.

(* ------------------------------------------------------------------ *)
(* layer 8: paired runs; independence of clients                        *)
(* ------------------------------------------------------------------ *)

Definition Pair (st : state) (ss : sstate) : Prop := INV st /\ R st ss.

Lemma run_app ops1 ops2 st :
  fst (run T st (ops1 ++ ops2)) = fst (run T (fst (run T st ops1)) ops2).
Proof.
  revert st. induction ops1 as [|o ops1 IH]; intro st; cbn [app run]; [reflexivity|].
  destruct (step T st o) as [st1 r]. specialize (IH st1).
  destruct (run T st1 (ops1 ++ ops2)). destruct (run T st1 ops1). cbn [fst] in *. exact IH.
Qed.

Lemma srun_app f ops1 ops2 ss :
  fst (srun T f ss (ops1 ++ ops2)) = fst (srun T f (fst (srun T f ss ops1)) ops2).
Proof.
  revert ss. induction ops1 as [|o ops1 IH]; intro ss; cbn [app srun]; [reflexivity|].
  destruct (sstep T f ss o) as [ss1 r]. specialize (IH ss1).
  destruct (srun T f ss1 (ops1 ++ ops2)). destruct (srun T f ss1 ops1). cbn [fst] in *. exact IH.
Qed.

Lemma noshare_from_app ops1 ops2 ss :
  noshare_from T ss (ops1 ++ ops2) =
  noshare_from T ss ops1 && noshare_from T (fst (srun T false ss ops1)) ops2.
Proof.
  revert ss. induction ops1 as [|o ops1 IH]; intro ss; cbn [app noshare_from srun]; [reflexivity|].
  rewrite IH. destruct (sstep T false ss o) as [ss1 r]. cbn [fst].
  destruct (srun T false ss1 ops1). cbn [fst]. rewrite andb_assoc. reflexivity.
Qed.

Lemma run_pair ops st ss :
  Pair st ss -> noshare_from T ss ops = true ->
  Pair (fst (run T st ops)) (fst (srun T false ss ops)).
Proof. intros [HI HR] HG. destruct (run_refine ops st ss HI HR HG) as (_ & A & B). split; assumption. Qed.

Lemma init_pair : Pair (init T) (sinit T).
Proof. exact init_ok. Qed.

Lemma reach_pair ops :
  noshare T ops = true -> Pair (fst (run T (init T) ops)) (fst (srun T false (sinit T) ops)).
Proof. intro HG. apply run_pair; [apply init_pair|exact HG]. Qed.

(* an assignment through <n> is on client k's side: through k's options,
   through the options of the transport object k holds, or through the
   options of a transport object nobody holds *)
Definition side (st : state) (k : N) (n : node) : bool :=
  match n with
  | NC c => N.eqb c k
  | NT _ _ => match holder st n with Some c => N.eqb c k | None => true end
  end.

Fixpoint on_side (k : N) (st : state) (ops : list op) : bool :=
  match ops with
  | [] => true
  | o :: ops' =>
      match o with St n _ _ => side st k n | Cl _ => false | _ => true end
      && on_side k (fst (step T st o)) ops'
  end.

(* the maps client m reads are the same in ss' as in ss *)
Definition Keep (ss ss' : sstate) (m : N) : Prop :=
  (forall nm, sval T ss' (NC m) nm = sval T ss (NC m) nm)
  /\ (forall t nm, s_cur T ss m = Some t -> sval T ss' t nm = sval T ss t nm).

Lemma Keep_refl ss m : Keep ss ss m.
Proof. split; reflexivity. Qed.

Lemma Keep_cur ss ss' m : Keep ss ss' m -> s_cur T ss' m = s_cur T ss m.
Proof. intros [A _]. unfold s_cur. rewrite A. reflexivity. Qed.

Lemma Keep_trans a b d m : Keep a b m -> Keep b d m -> Keep a d m.
Proof.
  intros K1 K2. pose proof (Keep_cur _ _ _ K1) as Hc. destruct K1 as [A1 A2], K2 as [B1 B2]. split.
  - intro nm. rewrite B1. apply A1.
  - intros t nm Ht. rewrite B2 by congruence. apply A2. exact Ht.
Qed.

Lemma sset_keep st ss n name v ss' r k m :
  Pair st ss -> side st k n = true -> m <> k ->
  sset T false ss n name v = (ss', r) -> Keep ss ss' m.
Proof.
  intros [HI HR] Hs Hm. unfold sset. rewrite (resolve_mres st ss n name HR).
  destruct (has_def T (mres st n name) name); [|intro H; inversion H; apply Keep_refl].
  destruct (find_def _ name) as [d|]; [|intro H; inversion H; apply Keep_refl].
  destruct (validate T d v); cbn [negb]; [|intro H; inversion H; apply Keep_refl].
  intro H; inversion H; subst ss' r; clear H.
  assert (P1 : mres st n name <> NC m).
  { unfold mres. destruct (has_def T n name).
    - destruct n as [c|a i]; [|discriminate]. cbn in Hs. apply N.eqb_eq in Hs. congruence.
    - destruct n as [c|a i].
      + cbn in Hs. apply N.eqb_eq in Hs. subst c.
        destruct (cur st k) as [t|] eqn:Ec; [|congruence].
        destruct (cur_nt _ _ _ Ec) as (a & i & ->). destruct (has_def T _ name); congruence.
      + cbn [side] in Hs. destruct (holder st (NT a i)) as [c|]; [|discriminate].
        apply N.eqb_eq in Hs. subst c. destruct (has_def T _ name); congruence. }
  assert (P2 : forall t, cur st m = Some t -> mres st n name <> t).
  { intros t Ht. destruct (cur_nt _ _ _ Ht) as (a0 & i0 & ->). unfold mres.
    assert (Hn : n = NT a0 i0 -> False).
    { intro; subst n. cbn [side] in Hs. apply (holder_cur _ _ _ HI) in Ht. rewrite Ht in Hs.
      apply N.eqb_eq in Hs. congruence. }
    destruct (has_def T n name); [intro X; apply Hn; exact X|].
    destruct n as [c|a i].
    - cbn in Hs. apply N.eqb_eq in Hs. subst c.
      destruct (cur st k) as [t|] eqn:Ec; [|discriminate].
      destruct (has_def T t name); [|discriminate].
      intro; subst t. apply Hm. eapply cur_unique; eauto.
    - destruct (holder st (NT a i)) as [c|]; [|intro X; apply Hn; exact X].
      destruct (has_def T (NC c) name); [discriminate|intro X; apply Hn; exact X]. }
  split.
  - intro nm. rewrite sval_sput, node_eqb_neq; [reflexivity|]. intro X. apply P1. congruence.
  - intros t nm Ht. rewrite <- (cur_R st ss m HR) in Ht.
    rewrite sval_sput, node_eqb_neq; [reflexivity|]. intro X. apply (P2 _ Ht). congruence.
Qed.

Lemma sstep_keep st ss o ss' r k m :
  Pair st ss -> match o with St n _ _ => side st k n | Cl _ => false | _ => true end = true ->
  m <> k -> sstep T false ss o = (ss', r) -> Keep ss ss' m.
Proof.
  intros HP Hs Hm. destruct o as [n name v|n name|n names|c|n tag|c]; cbn [sstep];
    try (intro H; inversion H; apply Keep_refl); [|discriminate].
  destruct (_ && _); [|intro H; inversion H; apply Keep_refl].
  intro H. eapply sset_keep; eauto.
Qed.

Lemma s_holder_cur st ss t c : Pair st ss -> (s_holder T ss t = Some c <-> s_cur T ss c = Some t).
Proof. intros [HI HR]. rewrite <- (holder_R st ss t HR), <- (cur_R st ss c HR). apply holder_cur. exact HI. Qed.

(* what client m reads through its options and through its transport's options *)
Lemma keep_sget st ss st' ss' m x nm :
  Pair st ss -> Pair st' ss' -> Keep ss ss' m ->
  x = NC m \/ s_cur T ss m = Some x ->
  sget T ss' x nm = sget T ss x nm.
Proof.
  intros HP HP' K Hx. pose proof (Keep_cur _ _ _ K) as Hc. destruct K as [K1 K2].
  unfold sget, resolve. destruct Hx as [->|Hx].
  - destruct (has_def T (NC m) nm); [rewrite K1; reflexivity|].
    rewrite Hc. destruct (s_cur T ss m) as [t|] eqn:Ec; [|reflexivity].
    destruct (has_def T t nm); [|reflexivity]. rewrite (K2 t nm eq_refl). reflexivity.
  - destruct (has_def T x nm); [rewrite (K2 x nm Hx); reflexivity|].
    assert (H1 : s_holder T ss x = Some m) by (apply (s_holder_cur st ss x m HP); exact Hx).
    assert (H2 : s_holder T ss' x = Some m) by (apply (s_holder_cur st' ss' x m HP'); congruence).
    pose proof HP as [HI HR].
    destruct (cur_nt st m x) as (a & i & ->); [rewrite (cur_R st ss m HR); exact Hx|].
    rewrite H1, H2. destruct (has_def T (NC m) nm); [rewrite K1; reflexivity|reflexivity].
Qed.

Lemma run_keep k m ops : forall st ss,
  Pair st ss -> noshare_from T ss ops = true -> on_side k st ops = true -> m <> k ->
  Keep ss (fst (srun T false ss ops)) m.
Proof.
  induction ops as [|o ops IH]; intros st ss HP HG HS Hm; cbn [srun]; [apply Keep_refl|].
  cbn [noshare_from] in HG. apply andb_true_iff in HG as [G1 G2]. apply negb_true_iff in G1.
  cbn [on_side] in HS. apply andb_true_iff in HS as [S1 S2].
  destruct (step T st o) as [st1 r] eqn:E.
  destruct HP as [HI HR].
  destruct (step_refine _ _ _ _ _ HI HR G1 E) as (ss1 & E' & HI1 & HR1).
  rewrite E' in *. cbn [fst] in *.
  pose proof (sstep_keep st ss o ss1 r k m (conj HI HR) S1 Hm E') as K1.
  specialize (IH st1 ss1 (conj HI1 HR1) G2 S2 Hm).
  destruct (srun T false ss1 ops) as [ss2 rs]. cbn [fst] in *.
  eapply Keep_trans; eauto.
Qed.

Lemma keep_suse st ss st' ss' m :
  Pair st ss -> Pair st' ss' -> Keep ss ss' m -> suse T ss' m = suse T ss m.
Proof.
  intros HP HP' K. unfold suse. destruct K as [K1 K2] eqn:EK. rewrite K1.
  set (tv := sval T ss (NC m) name_transport).
  destruct (is_transport T tv) eqn:Et; [|reflexivity].
  assert (Hc : s_cur T ss m = Some (tnode tv)) by (unfold s_cur; fold tv; rewrite Et; reflexivity).
  rewrite (keep_sget st ss st' ss' m (NC m) name_headers HP HP' (conj K1 K2) (or_introl eq_refl)).
  unfold stuse.
  rewrite !(keep_sget st ss st' ss' m (tnode tv) _ HP HP' (conj K1 K2) (or_intror Hc)).
  reflexivity.
Qed.

(* independence: whatever is assigned on client k's side (any number of
   assignments, valid or not, through its options, its transport's options,
   replacing its transport), everything client m reads through its options
   and through its transport's options, and everything m's transport uses on
   a send, is unchanged *)
Lemma independent_l ops1 ops2 k m :
  noshare T (ops1 ++ ops2) = true -> m <> k ->
  let st := fst (run T (init T) ops1) in
  on_side k st ops2 = true ->
  let st' := fst (run T st ops2) in
  (forall x nm, x = NC m \/ cur st m = Some x -> get T st' x nm = get T st x nm)
  /\ use T st' m = use T st m.
Proof.
  intros HG Hm st HS st'.
  unfold noshare in HG. rewrite noshare_from_app in HG. apply andb_true_iff in HG as [G1 G2].
  pose proof (reach_pair ops1 G1) as HP. fold st in HP.
  set (ss := fst (srun T false (sinit T) ops1)) in *.
  pose proof (run_pair ops2 st ss HP G2) as HP'. fold st' in HP'.
  pose proof (run_keep k m ops2 st ss HP G2 HS Hm) as K.
  set (ss' := fst (srun T false ss ops2)) in *.
  split.
  - intros x nm Hx. destruct HP as [HI HR]. destruct HP' as [HI' HR'].
    rewrite (get_refine st' ss' x nm HI' HR'), (get_refine st ss x nm HI HR).
    apply (keep_sget st ss st' ss' m x nm); try (split; assumption); [exact K|].
    destruct Hx as [Hx|Hx]; [left; exact Hx|right]. rewrite <- (cur_R st ss m HR). exact Hx.
  - destruct HP as [HI HR]. destruct HP' as [HI' HR'].
    rewrite (use_refine st' ss' m HI' HR'), (use_refine st ss m HI HR).
    apply (keep_suse st ss st' ss' m); try (split; assumption). exact K.
Qed.

(* ------------------------------------------------------------------ *)
(* layer 9: clone copies                                                *)
(* ------------------------------------------------------------------ *)

Lemma getp_clone_old st c x : owner x < nextc st -> getp (clone T st c) x = getp st x.
Proof.
  intro Hx. rewrite getp_clone. cbv zeta.
  set (k := nextc st) in *. set (tv := defined st (NC c) name_transport).
  assert (node_eqb x (NT k (tidx (tnode tv))) = false) by (apply node_eqb_neq; intro; subst x; cbn in Hx; lia).
  assert (node_eqb x (NC k) = false) by (apply node_eqb_neq; intro; subst x; cbn in Hx; lia).
  rewrite H, H0. destruct (is_transport T tv); reflexivity.
Qed.

Lemma holder_clone_old st c a i :
  INV st -> INV (clone T st c) -> a < nextc st ->
  holder (clone T st c) (NT a i) = holder st (NT a i).
Proof.
  intros HI HI' Ha.
  destruct (holder st (NT a i)) as [c1|] eqn:E.
  - apply (holder_cur _ _ _ HI) in E. apply (holder_cur _ _ _ HI').
    rewrite cur_clone. pose proof (cur_bounded _ _ _ HI E) as Hb.
    assert (N.eqb c1 (nextc st) = false) by (apply N.eqb_neq; lia). rewrite H. exact E.
  - destruct (holder (clone T st c) (NT a i)) as [c1|] eqn:E'; [|reflexivity].
    apply (holder_cur _ _ _ HI') in E'. rewrite cur_clone in E'.
    destruct (N.eqb c1 (nextc st)).
    + destruct (is_transport T _); [|discriminate]. inversion E'. lia.
    + exfalso. exact (holder_none st (NT a i) HI E c1 E').
Qed.

(* a clone starts with the values of its original (its transport is a new
   object of the same class carrying the original transport's values), and
   cloning does not change what the existing clients and transports read *)
Lemma clone_copies_l ops c :
  noshare T ops = true ->
  let st := fst (run T (init T) ops) in
  c < nextc st ->
  let st' := fst (step T st (Cl c)) in
  let k := nextc st in
  (forall name, name <> name_transport -> get T st' (NC k) name = get T st (NC c) name)
  /\ (forall tv, get T st (NC c) name_transport = OVal tv ->
        if is_transport T tv
        then get T st' (NC k) name_transport = OVal (fst tv, tid k (tidx (tnode tv)))
             /\ cur st' k = Some (NT k (tidx (tnode tv)))
        else get T st' (NC k) name_transport = OVal tv)
  /\ (forall m name, owner m < nextc st -> get T st' m name = get T st m name).
Proof.
  intros HG st Hc st' k.
  destruct (reach_pair ops HG) as [HI HR]. fold st in HI, HR.
  assert (E : step T st (Cl c) = (clone T st c, OOk)).
  { cbn [step]. apply N.ltb_lt in Hc. rewrite Hc. reflexivity. }
  unfold st'. rewrite E. cbn [fst].
  destruct (clone_refine st _ c HI HR) as [HI' _].
  set (tv0 := defined st (NC c) name_transport).
  assert (Hcurk : cur (clone T st c) k = if is_transport T tv0 then Some (NT k (tidx (tnode tv0))) else None).
  { rewrite cur_clone. unfold k. rewrite N.eqb_refl. reflexivity. }
  assert (Dk : forall name, defined (clone T st c) (NC k) name =
                 if is_transport T tv0 && N.eqb name name_transport
                 then (fst tv0, tid k (tidx (tnode tv0))) else defined st (NC c) name).
  { intro name. unfold Model.defined at 1. rewrite getp_clone. cbv zeta. fold k tv0. cbn [node_eqb].
    rewrite N.eqb_refl. destruct (is_transport T tv0); cbn [andb p_def]; [|reflexivity].
    destruct (N.eqb name name_transport) eqn:En.
    - apply N.eqb_eq in En. subst name. rewrite assocN_updN_same. reflexivity.
    - apply N.eqb_neq in En. rewrite assocN_updN_other by exact En. reflexivity. }
  split; [|split].
  - intros name Hne. unfold get. rewrite !provider_simple by assumption.
    unfold mres. rewrite Hcurk. change (cur st c) with (tof tv0). unfold tof.
    change (has_def T (NC k) name) with (has_def T (NC c) name).
    apply N.eqb_neq in Hne.
    destruct (has_def T (NC c) name) eqn:Hd.
    + unfold pget. cbn [defs_of]. rewrite Dk, Hne, andb_false_r. reflexivity.
    + destruct (is_transport T tv0) eqn:Et.
      * unfold tnode. cbn [tidx].
        change (has_def T (NT k (snd tv0 mod TW)) name)
          with (has_def T (NT (snd tv0 / TW) (snd tv0 mod TW)) name).
        destruct (has_def T (NT (snd tv0 / TW) (snd tv0 mod TW)) name).
        -- unfold pget. cbn [defs_of].
           assert (D2 : defined (clone T st c) (NT k (snd tv0 mod TW)) name
                        = defined st (NT (snd tv0 / TW) (snd tv0 mod TW)) name).
           { unfold Model.defined. rewrite getp_clone. cbv zeta. fold k tv0. rewrite Et.
             unfold tnode. cbn [tidx]. rewrite node_eqb_refl. reflexivity. }
           rewrite D2. reflexivity.
        -- unfold pget. cbn [defs_of]. rewrite Dk, Hne, andb_false_r. reflexivity.
      * unfold pget. cbn [defs_of]. rewrite Dk. reflexivity.
  - intros tv Htv.
    assert (tv = tv0).
    { unfold get in Htv. rewrite provider_simple in Htv by assumption. unfold mres in Htv.
      rewrite has_transport in Htv. unfold pget in Htv. cbn [defs_of] in Htv.
      destruct transport_def as [d Hd]. rewrite Hd in Htv. inversion Htv. reflexivity. }
    subst tv.
    assert (G : get T (clone T st c) (NC k) name_transport
                = OVal (defined (clone T st c) (NC k) name_transport)).
    { unfold get. rewrite provider_simple by assumption. unfold mres. rewrite has_transport.
      unfold pget. cbn [defs_of]. destruct transport_def as [d Hd]. rewrite Hd. reflexivity. }
    rewrite G, Dk, N.eqb_refl, andb_true_r, Hcurk.
    destruct (is_transport T tv0); [split; reflexivity|reflexivity].
  - intros m name Hm. unfold get. rewrite !provider_simple by assumption.
    assert (Hmres : mres (clone T st c) m name = mres st m name).
    { unfold mres. destruct (has_def T m name); [reflexivity|]. destruct m as [c1|a i].
      - rewrite cur_clone. cbn in Hm. assert (N.eqb c1 (nextc st) = false) by (apply N.eqb_neq; lia).
        rewrite H. reflexivity.
      - rewrite holder_clone_old by assumption. reflexivity. }
    rewrite Hmres. unfold pget. destruct (find_def _ name); [|reflexivity].
    unfold Model.defined. rewrite getp_clone_old; [reflexivity|].
    apply owner_mres_lt; assumption.
Qed.

(* ------------------------------------------------------------------ *)
(* layer 10: an accepted assignment is what the next read returns and   *)
(* what the transport uses; released transports                         *)
(* ------------------------------------------------------------------ *)

Lemma s_cur_nt ss c t : s_cur T ss c = Some t -> exists a i, t = NT a i.
Proof. unfold s_cur. destruct (is_transport T _); [|discriminate]. intro H; inversion H. unfold tnode. eauto. Qed.

Lemma sset_sget_client ss c name v ss' :
  sset T false ss (NC c) name v = (ss', OOk) ->
  exists d, (find_def (cdefs T) name = Some d \/ find_def (tdefs T) name = Some d)
            /\ sget T ss' (NC c) name = OVal (nvl d v).
Proof.
  unfold sset. destruct (resolve T ss (NC c) name) as [m|] eqn:Er; [|discriminate].
  destruct (find_def (defs_of T m) name) as [d|] eqn:Ed; [|discriminate].
  destruct (validate T d v); cbn [negb]; [|discriminate].
  intro H; inversion H; subst ss'; clear H. exists d.
  unfold resolve in Er. unfold sget, resolve.
  destruct (has_def T (NC c) name) eqn:Hd.
  - inversion Er; subst m. cbn [defs_of] in Ed. split; [auto|].
    rewrite sval_sput, node_eqb_refl, N.eqb_refl. reflexivity.
  - destruct (s_cur T ss c) as [t|] eqn:Ec; [|discriminate].
    destruct (s_cur_nt _ _ _ Ec) as (a & i & ->).
    destruct (has_def T (NT a i) name) eqn:Hd2; [|discriminate]. inversion Er; subst m.
    assert (Hc : s_cur T (sput ss (NT a i) name (nvl d v)) c = Some (NT a i)).
    { unfold s_cur in *. rewrite sval_sput. cbn [node_eqb andb]. exact Ec. }
    rewrite Hc, Hd2. cbn [defs_of] in Ed. split; [auto|].
    rewrite sval_sput, node_eqb_refl, N.eqb_refl. reflexivity.
Qed.

Lemma last_step_pair ops o st' r :
  noshare T (ops ++ [o]) = true ->
  step T (fst (run T (init T) ops)) o = (st', r) ->
  exists ss ss', Pair (fst (run T (init T) ops)) ss /\ sstep T false ss o = (ss', r) /\ Pair st' ss'.
Proof.
  intros HG E. unfold noshare in HG. rewrite noshare_from_app in HG. apply andb_true_iff in HG as [G1 G2].
  destruct (reach_pair ops G1) as [HI HR].
  cbn [noshare_from] in G2. rewrite andb_true_r in G2. apply negb_true_iff in G2.
  destruct (step_refine _ _ _ _ _ HI HR G2 E) as (ss' & E' & HI' & HR').
  exists (fst (srun T false (sinit T) ops)), ss'. unfold Pair. auto.
Qed.

Lemma set_then_get_l ops c name v st' :
  noshare T (ops ++ [St (NC c) name v]) = true ->
  let st := fst (run T (init T) ops) in
  step T st (St (NC c) name v) = (st', OOk) ->
  exists d, (find_def (cdefs T) name = Some d \/ find_def (tdefs T) name = Some d)
            /\ get T st' (NC c) name = OVal (nvl d v).
Proof.
  intros HG st E.
  destruct (last_step_pair ops _ st' OOk HG E) as (ss & ss' & [HI HR] & E' & [HI' HR']).
  rewrite (get_refine _ _ _ _ HI' HR').
  cbn [sstep] in E'. destruct (_ && _); [|discriminate]. eapply sset_sget_client; eauto.
Qed.

Lemma sset_via_client_tdef ss c name v d ss' :
  find_def (tdefs T) name = Some d ->
  sset T false ss (NC c) name v = (ss', OOk) ->
  is_transport T (sval T ss (NC c) name_transport) = true
  /\ ss' = sput ss (tnode (sval T ss (NC c) name_transport)) name (nvl d v).
Proof.
  intros Hd. unfold sset.
  assert (Hnc : has_def T (NC c) name = false).
  { unfold has_def. cbn [defs_of]. destruct (find_def (cdefs T) name) eqn:X; [|reflexivity].
    exfalso. eapply names_disjoint; eauto. }
  set (tv := sval T ss (NC c) name_transport).
  assert (Er : resolve T ss (NC c) name = if is_transport T tv then Some (tnode tv) else None).
  { unfold resolve. rewrite Hnc. unfold s_cur. fold tv. destruct (is_transport T tv); [|reflexivity].
    unfold tnode, has_def. cbn [defs_of]. rewrite Hd. reflexivity. }
  rewrite Er. destruct (is_transport T tv); [|discriminate].
  unfold tnode at 1. cbn [defs_of]. rewrite Hd.
  destruct (validate T d v); cbn [negb]; [|discriminate].
  intro H; inversion H. split; reflexivity.
Qed.

(* a transport option assigned through the client is the value the client's
   transport object reads from its own options, i.e. hands to urllib *)
Lemma send_uses_what_was_set_l ops c name v d st' :
  noshare T (ops ++ [St (NC c) name v]) = true ->
  let st := fst (run T (init T) ops) in
  find_def (tdefs T) name = Some d ->
  step T st (St (NC c) name v) = (st', OOk) ->
  exists tv, get T st' (NC c) name_transport = OVal tv /\ is_transport T tv = true
             /\ get T st' (tnode tv) name = OVal (nvl d v).
Proof.
  intros HG st Hd E.
  destruct (last_step_pair ops _ st' OOk HG E) as (ss & ss' & [HI HR] & E' & [HI' HR']).
  cbn [sstep] in E'. destruct (_ && _); [|discriminate].
  destruct (sset_via_client_tdef ss c name v d ss' Hd E') as [Et Es].
  set (tv := sval T ss (NC c) name_transport) in *.
  exists tv. rewrite !(get_refine _ _ _ _ HI' HR'). subst ss'.
  split; [|split; [exact Et|]].
  - unfold sget, resolve. rewrite has_transport, sval_sput. unfold tnode. cbn [node_eqb andb]. reflexivity.
  - assert (Ht : has_def T (tnode tv) name = true)
      by (unfold has_def, tnode; cbn [defs_of]; rewrite Hd; reflexivity).
    unfold sget, resolve. rewrite Ht, sval_sput, node_eqb_refl, N.eqb_refl. reflexivity.
Qed.

(* the options of a transport object no client holds (never used, or
   released when the client's transport was replaced) are linked to nothing:
   they read their own values and no client option *)
Lemma unheld_transport_l ops a i :
  noshare T ops = true ->
  let st := fst (run T (init T) ops) in
  (forall c, cur st c <> Some (NT a i)) ->
  links st (NT a i) = []
  /\ forall name, get T st (NT a i) name =
                  if has_def T (NT a i) name then OVal (defined st (NT a i) name) else OAttrErr.
Proof.
  intros HG st Hno. destruct (reach_pair ops HG) as [HI _]. fold st in HI.
  split; [apply HI; exact Hno|].
  intro name. unfold get. rewrite provider_simple by exact HI. unfold mres.
  destruct (has_def T (NT a i) name) eqn:Hd.
  - unfold pget. unfold has_def in Hd. destruct (find_def _ name); [reflexivity|discriminate].
  - destruct (holder st (NT a i)) as [c|] eqn:Eh.
    + apply (holder_cur _ _ _ HI) in Eh. exfalso. exact (Hno c Eh).
    + unfold pget. unfold has_def in Hd. destruct (find_def _ name); [discriminate|reflexivity].
Qed.

(* replacing client c's transport releases the old one: no client holds it *)
Lemma replace_releases_l ops c v st' t0 :
  noshare T (ops ++ [St (NC c) name_transport v]) = true ->
  let st := fst (run T (init T) ops) in
  step T st (St (NC c) name_transport v) = (st', OOk) ->
  cur st c = Some t0 -> cur st' c <> Some t0 ->
  forall c1, cur st' c1 <> Some t0.
Proof.
  intros HG st E Hc Hne c1 Hc1.
  destruct (last_step_pair ops _ st' OOk HG E) as (ss & ss' & [HI HR] & E' & [HI' HR']).
  fold st in HI, HR.
  destruct (N.eq_dec c1 c) as [->|Hd]; [contradiction|].
  cbn [sstep] in E'. destruct (_ && _); [|discriminate].
  unfold sset, resolve in E'. rewrite has_transport in E'. cbn [defs_of] in E'.
  destruct (find_def (cdefs T) name_transport) as [d|]; [|discriminate].
  destruct (validate T d v); cbn [negb] in E'; [|discriminate].
  inversion E'; subst ss'; clear E'.
  rewrite (cur_R st' _ c1 HR') in Hc1. unfold s_cur in Hc1. rewrite sval_sput in Hc1.
  cbn [node_eqb] in Hc1. apply N.eqb_neq in Hd. rewrite Hd in Hc1. cbn [andb] in Hc1.
  fold (s_cur T ss c1) in Hc1. rewrite <- (cur_R st ss c1 HR) in Hc1.
  apply N.eqb_neq in Hd. apply Hd. exact (cur_unique st c1 c t0 HI Hc1 Hc).
Qed.

(* a transport object nobody holds can be given to any client (the client it
   was made for, or another one): the assignment is accepted, the client is
   linked to it and reads the transport's own values *)
Lemma handover_l ops c v d :
  noshare T ops = true ->
  let st := fst (run T (init T) ops) in
  c < nextc st -> owner (tnode v) < nextc st ->
  find_def (cdefs T) name_transport = Some d -> validate T d v = true ->
  is_transport T v = true -> is_none v = false ->
  (forall c1, cur st c1 <> Some (tnode v)) ->
  exists st', step T st (St (NC c) name_transport v) = (st', OOk)
    /\ INV st' /\ cur st' c = Some (tnode v)
    /\ forall name, has_def T (tnode v) name = true ->
                    get T st' (NC c) name = OVal (defined st (tnode v) name).
Proof.
  intros HG st Hc Hv Hd Hval Ht Hnn Hfree. destruct (reach_pair ops HG) as [HI _]. fold st in HI.
  cbn [step]. unfold exists_node, vexists, exists_node. cbn [owner].
  apply N.ltb_lt in Hc. apply N.ltb_lt in Hv. rewrite Hc, Hv, orb_true_r. cbn [andb].
  rewrite provider_simple by exact HI. unfold mres. rewrite has_transport.
  destruct (pset T st (NC c) name_transport v) as [st' o] eqn:E.
  apply N.ltb_lt in Hc.
  destruct (set_transport_inv st c d v st' o HI Hc Hd Hval) as (Ho & HI' & D); [| |exact E|].
  { unfold vexists, exists_node. rewrite Hv. apply orb_true_r. }
  { intros _ c1 Hc1. exfalso. exact (Hfree c1 Hc1). }
  subst o. exists st'. split; [reflexivity|]. split; [exact HI'|].
  assert (Hn : nvl d v = v) by (unfold nvl; rewrite Hnn; reflexivity).
  destruct D as [D1 _].
  assert (Hcur : cur st' c = Some (tnode v)).
  { unfold cur. rewrite (defined_ext _ _ _ _ (D1 (NC c))), defined_set_defined, node_eqb_refl, N.eqb_refl.
    cbn [andb]. rewrite Hn, Ht. reflexivity. }
  split; [exact Hcur|].
  intros name Hhd. unfold get. rewrite provider_simple by exact HI'. unfold mres. rewrite Hcur, Hhd.
  assert (Hnc : has_def T (NC c) name = false).
  { destruct (has_def T (NC c) name) eqn:X; [|reflexivity].
    assert (Y : has_def T (tnode v) name = false) by exact (has_def_client_transport c name X).
    congruence. }
  rewrite Hnc. unfold pget. unfold has_def in Hhd. destruct (find_def _ name); [|discriminate].
  rewrite (defined_ext _ _ _ _ (D1 (tnode v))), defined_set_defined. unfold tnode at 1. cbn [node_eqb andb].
  reflexivity.
Qed.

End Refine.

(* ------------------------------------------------------------------ *)
(* invalid assignments (no hypothesis on the tables or on the state)    *)
(* ------------------------------------------------------------------ *)

Section NoEffect.
Variable T : tables.

(* an operation that raised AttributeError changed nothing *)
Lemma attr_error_no_effect_l st o st' : step T st o = (st', OAttrErr) -> st' = st.
Proof.
  destruct o as [n name v|n name|n names|c|n tag|c]; cbn [step]; try (intro H; inversion H; reflexivity).
  - destruct (exists_node st n && vexists T st v); [|intro H; inversion H; reflexivity].
    unfold pset. destruct (find_def _ name) as [d|]; [|intro H; inversion H; reflexivity].
    destruct (validate T d v); cbn [negb]; [|intro H; inversion H; reflexivity].
    destruct (d_linker d); [|intro H; inversion H].
    destruct (is_transport T (nvl d v)); [|intro H; inversion H].
    destruct (link T _ _ _) as [st3 ok]. destruct ok; intro H; inversion H.
  - destruct (c <? nextc st)%N; intro H; inversion H.
Qed.

(* a value no definition of that name accepts (wrong type), or a name no
   definition has (unknown name), assigned through any existing object in
   ANY state: AttributeError, state unchanged *)
Lemma invalid_raises_l st n name v :
  exists_node st n = true -> vexists T st v = true ->
  (forall d, find_def (cdefs T) name = Some d \/ find_def (tdefs T) name = Some d ->
             validate T d v = false) ->
  step T st (St n name v) = (st, OAttrErr).
Proof.
  intros He Hv H. cbn [step]. rewrite He, Hv. cbn [andb]. unfold pset.
  destruct (find_def (defs_of T (provider T st name n)) name) as [d|] eqn:Ed; [|reflexivity].
  rewrite (H d); [reflexivity|].
  destruct (provider T st name n); cbn [defs_of] in Ed; auto.
Qed.

End NoEffect.
