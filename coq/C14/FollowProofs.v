(* C14 -- "transport options follow the client when the transport is
   replaced": the specification with the follow clause coincides with the one
   without it on histories in which no client replaces its transport after a
   transport option was assigned through it. *)
From SV Require Import Lib.Base C14.Model C14.RefineProofs.
Local Open Scope N_scope.

Section Follow.
Variable T : tables.
Hypothesis TOK : tables_ok T = true.

(* the two runs differ in the carry component only, and only clients recorded
   as dirty by the guard have something to carry *)
Definition Sim (dirty : list N) (a b : sstate) : Prop :=
  s_vals a = s_vals b /\ s_next a = s_next b
  /\ forall c, memN c dirty = false -> carry_of a c = [].

Lemma Sim_mono d d' a b :
  (forall c, memN c d' = false -> memN c d = false) -> Sim d a b -> Sim d' a b.
Proof. intros H (A & B & C). repeat split; auto. Qed.

Lemma resolve_client_to_client ss c name c' :
  resolve T ss (NC c) name = Some (NC c') -> c' = c.
Proof.
  unfold resolve. destruct (has_def T (NC c) name); [intro H; inversion H; reflexivity|].
  destruct (s_cur T ss c) as [t|] eqn:E; [|discriminate].
  unfold s_cur in E. destruct (is_transport T _); [|discriminate]. inversion E; subst t.
  unfold tnode. destruct (has_def T _ name); discriminate.
Qed.

Lemma resolve_client_to_transport ss c name a i :
  resolve T ss (NC c) name = Some (NT a i) -> has_def T (NT c 0) name = true.
Proof.
  unfold resolve. destruct (has_def T (NC c) name); [discriminate|].
  destruct (s_cur T ss c) as [t|] eqn:E; [|discriminate].
  unfold s_cur in E. destruct (is_transport T _); [|discriminate]. inversion E; subst t.
  unfold tnode.
  match goal with |- (if ?b then _ else _) = _ -> _ => destruct b eqn:E2 end; [|discriminate].
  intros _. exact E2.
Qed.

Lemma carry_set_carry ss c l c' :
  carry_of (set_carry ss c l) c' = if N.eqb c' c then l else carry_of ss c'.
Proof.
  unfold carry_of, set_carry; cbn [s_carry].
  destruct (N.eqb c' c) eqn:E.
  - apply N.eqb_eq in E. subst. rewrite assocN_updN_same. reflexivity.
  - apply N.eqb_neq in E. rewrite assocN_updN_other by exact E. reflexivity.
Qed.

(* folds of sput only touch the maps *)
Definition vput (v : list (node * list (N * val))) (n : node) (name : N) (x : val) :=
  upd n (updN name x (match assoc n v with Some m => m | None => [] end)) v.

Lemma fold_sput {A} (ds : list A) (g : A -> node * N * val) v n cr :
  fold_left (fun s d => let '(m, k, x) := g d in sput s m k x) ds (mkSS v n cr) =
  mkSS (fold_left (fun w d => let '(m, k, x) := g d in vput w m k x) ds v) n cr.
Proof.
  revert v. induction ds as [|d ds IH]; intro v; cbn [fold_left]; [reflexivity|].
  destruct (g d) as [[m k] x]. unfold sput at 2. cbn [s_vals s_next s_carry smap]. apply IH.
Qed.

Lemma sclone_parts v n (ca : list (N * list (N * val))) c :
  exists V, forall cr,
    sclone T (mkSS v n cr) c = mkSS V (n + 1) (updN n (carry_of (mkSS v n cr) c) cr).
Proof.
  unfold sclone. cbn [s_next].
  set (f1 := fun d : defn => (NC n, d_name d, sval T (mkSS v n ca) (NC c) (d_name d))).
  set (f2 := fun t (d : defn) => (NT n (tidx t), d_name d, sval T (mkSS v n ca) t (d_name d))).
  exists (match s_cur T (mkSS v n ca) c with
          | Some t => vput (fold_left (fun w d => let '(m, k, x) := f2 t d in vput w m k x) (tdefs T)
                                (fold_left (fun w d => let '(m, k, x) := f1 d in vput w m k x) (cdefs T) v))
                           (NC n) name_transport
                           (fst (sval T (mkSS v n ca) (NC c) name_transport), tid n (tidx t))
          | None => fold_left (fun w d => let '(m, k, x) := f1 d in vput w m k x) (cdefs T) v
          end).
  intro cr.
  change (s_cur T (mkSS v n cr) c) with (s_cur T (mkSS v n ca) c).
  assert (E1 : fold_left (fun s d => sput s (NC n) (d_name d) (sval T (mkSS v n cr) (NC c) (d_name d)))
                         (cdefs T) (mkSS v n cr)
               = mkSS (fold_left (fun w d => let '(m, k, x) := f1 d in vput w m k x) (cdefs T) v) n cr).
  { apply (fold_sput (cdefs T) f1). }
  rewrite E1.
  destruct (s_cur T (mkSS v n ca) c) as [t|].
  - assert (E2 : forall w,
               fold_left (fun s d => sput s (NT n (tidx t)) (d_name d) (sval T (mkSS v n cr) t (d_name d)))
                         (tdefs T) (mkSS w n cr)
               = mkSS (fold_left (fun w d => let '(m, k, x) := f2 t d in vput w m k x) (tdefs T) w) n cr).
    { intro w. apply (fold_sput (tdefs T) (f2 t)). }
    rewrite E2. reflexivity.
  - reflexivity.
Qed.

Lemma Sim_proj dirty a b :
  Sim dirty a b -> a = mkSS (s_vals b) (s_next b) (s_carry a).
Proof. intros (A & B & _). destruct a; cbn in *. subst. reflexivity. Qed.

Lemma guard_mono_dirty c dirty x : memN x (c :: dirty) = false -> memN x dirty = false.
Proof. cbn. intro H. apply orb_false_iff in H. apply H. Qed.

Lemma sstep_follow dirty a b o ops :
  Sim dirty a b ->
  follow_guard_from T dirty (s_next b) (o :: ops) = true ->
  exists dirty',
    snd (sstep T true a o) = snd (sstep T false b o)
    /\ Sim dirty' (fst (sstep T true a o)) (fst (sstep T false b o))
    /\ follow_guard_from T dirty' (s_next (fst (sstep T false b o))) ops = true.
Proof.
  intros HS HG. pose proof (Sim_proj _ _ _ HS) as Ea.
  destruct b as [v nx cb]. cbn [s_vals s_next] in Ea.
  destruct HS as (_ & _ & HC). set (ca := s_carry a) in *. clearbody ca. subst a.
  destruct o as [n name vv|n name|n names|c|n tag|c]; cbn [follow_guard_from] in HG.
  - (* assignment *)
    destruct (N.eqb name name_transport &&
              match n with
              | NC c => memN c dirty
              | NT _ _ => match dirty with [] => false | _ => true end
              end) eqn:Eg; [discriminate|].
    set (dirty' := match n with
                   | NC c => if has_def T (NT c 0) name then c :: dirty else dirty
                   | NT _ _ => dirty
                   end) in *.
    assert (Hmono : forall x, memN x dirty' = false -> memN x dirty = false).
    { intros x Hx. unfold dirty' in Hx. destruct n as [c|c i]; [|exact Hx].
      destruct (has_def T (NT c 0) name); [eapply guard_mono_dirty; eauto|exact Hx]. }
    exists dirty'. cbn [sstep s_next].
    change (svexists T (mkSS v nx ca) vv) with (svexists T (mkSS v nx cb) vv).
    destruct ((owner n <? nx) && svexists T (mkSS v nx cb) vv).
    2:{ cbn [fst snd]. repeat split; auto. }
    unfold sset.
    change (resolve T (mkSS v nx ca) n name) with (resolve T (mkSS v nx cb) n name).
    destruct (resolve T (mkSS v nx cb) n name) as [m|] eqn:Er.
    2:{ cbn [fst snd]. repeat split; auto. }
    destruct (find_def (defs_of T m) name) as [d|] eqn:Ed.
    2:{ cbn [fst snd]. repeat split; auto. }
    destruct (validate T d vv); cbn [negb fst snd].
    2:{ repeat split; auto. }
    split; [reflexivity|]. split; [|exact HG].
    destruct m as [c|a0 i0].
    + (* a client option *)
      assert (Hc : carry_of (sput (mkSS v nx ca) (NC c) name (nvl d vv)) c = [] \/
                   N.eqb name name_transport = false).
      { destruct (N.eqb name name_transport) eqn:E1; [|auto]. left.
        cbn [andb] in Eg.
        change (carry_of (sput (mkSS v nx ca) (NC c) name (nvl d vv)) c) with (carry_of (mkSS v nx ca) c).
        apply HC. destruct n as [c1|a1 i1].
        - apply resolve_client_to_client in Er. subst c. exact Eg.
        - destruct dirty; [reflexivity|discriminate]. }
      assert (Ef : (if N.eqb name name_transport && is_transport T (nvl d vv)
                       && negb (node_opt_is (s_cur T (mkSS v nx ca) c) (tnode (nvl d vv)))
                    then fold_left (fun s kv => sput s (tnode (nvl d vv)) (fst kv) (snd kv))
                                   (carry_of (sput (mkSS v nx ca) (NC c) name (nvl d vv)) c)
                                   (sput (mkSS v nx ca) (NC c) name (nvl d vv))
                    else sput (mkSS v nx ca) (NC c) name (nvl d vv))
                   = sput (mkSS v nx ca) (NC c) name (nvl d vv)).
      { destruct Hc as [Hc|Hc].
        - rewrite Hc. cbn [fold_left]. destruct (_ && _ && _); reflexivity.
        - rewrite Hc. reflexivity. }
      rewrite Ef. repeat split. intros x Hx. apply (HC x), Hmono, Hx.
    + (* a transport option *)
      destruct n as [c1|a1 i1].
      * pose proof (resolve_client_to_transport _ _ _ _ _ Er) as Hd.
        repeat split. intros x Hx. rewrite carry_set_carry.
        unfold dirty' in Hx. rewrite Hd in Hx. cbn [memN] in Hx. apply orb_false_iff in Hx as [Hx1 Hx2].
        rewrite Hx1. apply (HC x Hx2).
      * change (s_holder T (mkSS v nx ca) (NT a0 i0)) with (s_holder T (mkSS v nx cb) (NT a0 i0)).
        destruct (s_holder T (mkSS v nx cb) (NT a0 i0)) as [c|].
        -- repeat split. intros x Hx. rewrite carry_set_carry.
           destruct (N.eqb x c) eqn:E1.
           ++ apply N.eqb_eq in E1. subst x.
              change (carry_of (sput (mkSS v nx ca) (NT a0 i0) name (nvl d vv)) c) with (carry_of (mkSS v nx ca) c).
              rewrite (HC c Hx). reflexivity.
           ++ apply (HC x Hx).
        -- repeat split. intros x Hx. apply (HC x Hx).
  - exists dirty. cbn [sstep fst snd s_next]. repeat split; auto.
  - exists dirty. cbn [sstep fst snd s_next]. repeat split; auto.
  - exists dirty. cbn [sstep fst snd s_next]. repeat split; auto.
  - exists dirty. cbn [sstep fst snd s_next]. repeat split; auto.
  - (* clone *)
    cbn [s_next] in HG. cbn [sstep s_next]. destruct (c <? nx) eqn:Ec.
    + exists (if memN c dirty then nx :: dirty else dirty).
      destruct (sclone_parts v nx ca c) as [V HV].
      rewrite (HV ca), (HV cb). cbn [fst snd s_next]. split; [reflexivity|]. split; [|exact HG].
      repeat split. intros x Hx. unfold carry_of at 1. cbn [s_carry].
      destruct (N.eqb x nx) eqn:E1.
      * apply N.eqb_eq in E1. subst x. rewrite assocN_updN_same.
        destruct (memN c dirty) eqn:Ed.
        -- cbn [memN] in Hx. rewrite N.eqb_refl in Hx. discriminate.
        -- apply (HC c Ed).
      * apply N.eqb_neq in E1. rewrite assocN_updN_other by exact E1.
        apply (HC x). destruct (memN c dirty); [eapply guard_mono_dirty; eauto|exact Hx].
    + exists dirty. cbn [fst snd s_next]. repeat split; auto.
Qed.

Lemma srun_follow ops : forall dirty a b,
  Sim dirty a b -> follow_guard_from T dirty (s_next b) ops = true ->
  snd (srun T true a ops) = snd (srun T false b ops).
Proof.
  induction ops as [|o ops IH]; intros dirty a b HS HG; cbn [srun]; [reflexivity|].
  destruct (sstep_follow dirty a b o ops HS HG) as (dirty' & E1 & HS' & HG').
  destruct (sstep T true a o) as [a1 r1]. destruct (sstep T false b o) as [b1 r2].
  cbn [fst snd] in *. subst r2. specialize (IH dirty' a1 b1 HS' HG').
  destruct (srun T true a1 ops). destruct (srun T false b1 ops). cbn [snd] in *. congruence.
Qed.

Lemma sinit_parts : s_carry (sinit T) = [] /\ s_next (sinit T) = 1.
Proof.
  unfold sinit. cbn [sstep svirgin s_next owner].
  destruct (_ && _); [|auto].
  unfold sset. destruct (resolve T _ _ _); [|auto].
  destruct (find_def _ _); [|auto]. destruct (validate T _ _); cbn [negb fst]; auto.
Qed.

(* follow_partial *)
Lemma follow_partial_l ops :
  noshare T ops = true -> follow_guard T ops = true ->
  snd (run T (init T) ops) = snd (srun T true (sinit T) ops).
Proof.
  intros HN HG. rewrite (options_refine_map_l T TOK ops HN). symmetry.
  destruct sinit_parts as [Hc Hn].
  apply (srun_follow ops [] (sinit T) (sinit T)).
  - repeat split. intros c _. unfold carry_of. rewrite Hc. reflexivity.
  - rewrite Hn. exact HG.
Qed.

End Follow.

(* follow_refuted: timeout assigned through the client, then the transport
   replaced: the new transport keeps its own 90 *)
Definition follow_witness : list op :=
  [St (NC 0) name_timeout (2, 5); St (NC 0) name_transport (15, 1); Gt (NC 0) name_timeout].

Lemma follow_refuted_l :
  snd (run gen_tables (init gen_tables) follow_witness)
  <> snd (srun pinned_tables true (sinit pinned_tables) follow_witness).
Proof. vm_compute. discriminate. Qed.

Lemma follow_witness_values :
  snd (run gen_tables (init gen_tables) follow_witness) = [OOk; OOk; OVal (2, 90)]
  /\ snd (srun pinned_tables true (sinit pinned_tables) follow_witness) = [OOk; OOk; OVal (2, 5)].
Proof. vm_compute. split; reflexivity. Qed.
