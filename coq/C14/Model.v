(* C14 -- options: model of suds/properties.py (Properties, Definition, Link,
   Endpoint, Skin), suds/options.py (TpLinker), the clone path of
   suds/client.py with Transport.__deepcopy__ / HttpTransport.__deepcopy__, and
   of what the transports of suds/transport/http.py, https.py hand to urllib on
   a send; plus the map-based executable specification.

   Everything is parameterised by a record of tables.  The MODEL is run on
   the tables regenerated from /repo (Gen/C14Tables.v), the SPEC on the tables
   pinned below (written from the documented option lists); the theorems hold
   for every table record that passes the boolean check [tables_ok].

   Objects.  A client with number c owns the Properties object [NC c] (its
   options).  Transport objects are named [NT a i]: the i-th transport object
   made for client a (by the test, by Client.__init__, or by clone()).  The
   name says who the object was made for, not who uses it: a transport object
   that a client has released can be given to another client.  A value is a
   pair (class tag, identity); a value whose class is a Transport denotes the
   transport object [tnode v] = NT (identity / TW) (identity mod TW).
   Giving a client a transport object that ANOTHER client currently holds
   makes Link.validate raise Exception('Duplicate domains') after the value
   was stored: the model follows the code there too, the specification does
   not cover such histories ([noshare]). *)
From SV Require Import Lib.Base.
From SV Require Gen.C14Tables.
Local Open Scope N_scope.

(* ------------------------------------------------------------------ *)
(* values, definitions, tables                                         *)
(* ------------------------------------------------------------------ *)

Definition val := (N * N)%type.
Definition val_eqb (a b : val) : bool := N.eqb (fst a) (fst b) && N.eqb (snd a) (snd b).
Definition vnone : val := (0, 0).
Definition is_none (v : val) : bool := N.eqb (fst v) 0.

(* name, accepted classes, default, linker is TpLinker *)
Definition defn := (N * list N * (N * N) * bool)%type.
Definition d_name (d : defn) : N := let '(n, _, _, _) := d in n.
Definition d_classes (d : defn) : list N := let '(_, c, _, _) := d in c.
Definition d_default (d : defn) : val := let '(_, _, v, _) := d in v.
Definition d_linker (d : defn) : bool := let '(_, _, _, l) := d in l.

Record tables := mkT {
  cdefs : list defn;            (* suds.options.Options definitions *)
  tdefs : list defn;            (* suds.transport.options.Options definitions *)
  isa : list (N * list N);      (* value tag -> definition classes it is an instance of *)
  clsT : N;                     (* suds.transport.Transport *)
  ddist : bool;                 (* the two domain names differ *)
  hdrs : list (N * list (N * N)) (* dict value identity -> its (header name, value) entries, in order *)
}.

Definition gen_tables : tables :=
  mkT C14Tables.client_defs C14Tables.transport_defs C14Tables.isa_tbl
      C14Tables.cls_transport C14Tables.domains_distinct C14Tables.header_pool.

(* the option lists as documented (names and classes by the pinned numbering
   of tools/tables_c14.py):  1 cache:Cache  2 documentStore:DocumentStore
   3 extraArgumentErrors 4 allowUnknownMessageParts 5 faults : bool
   6 transport:Transport  7 service 8 port : int|str  9 location:str
   10 soapheaders:any  11 wsse:Security 12 doctor:Doctor  13 xstq 14 prefixes
   15 retxml 16 prettyxml 17 autoblend : bool  18 cachingpolicy:int
   19 plugins:list|tuple  20 nosend 21 unwrap 22 sortNamespaces : bool
   31 proxy:dict  32 timeout:int|float (90)  33 headers:dict
   34 username 35 password : str.
   Value tags: 0 None 1 bool 2 int 3 float 4 str 5 bytes 6 dict 7 list 8 tuple
   9 object 10 NoCache 11 Cache subclass 12 DocumentStore 13 Security
   14 ImportDoctor 15 http.HttpTransport 16 https.HttpAuthenticated
   17 a class derived directly from suds.transport.Transport
   18 http.HttpAuthenticated. *)
Definition pinned_tables : tables :=
  mkT
   [(1, [1], (10, 0), false); (2, [2], (12, 0), false); (3, [3], (1, 1), false);
    (4, [3], (1, 0), false); (5, [3], (1, 1), false); (6, [4], (0, 0), true);
    (7, [5; 6], (0, 0), false); (8, [5; 6], (0, 0), false); (9, [6], (0, 0), false);
    (10, [], (8, 0), false); (11, [7], (0, 0), false); (12, [8], (0, 0), false);
    (13, [3], (1, 1), false); (14, [3], (1, 1), false); (15, [3], (1, 0), false);
    (16, [3], (1, 0), false); (17, [3], (1, 0), false); (18, [5], (2, 0), false);
    (19, [9; 10], (7, 0), false); (20, [3], (1, 0), false); (21, [3], (1, 1), false);
    (22, [3], (1, 1), false)]
   [(31, [11], (6, 0), false); (32, [5; 12], (2, 90), false); (33, [11], (6, 0), false);
    (34, [6], (0, 0), false); (35, [6], (0, 0), false)]
   [(1, [3; 5]); (2, [5]); (3, [12]); (4, [6]); (5, []); (6, [11]); (7, [9]); (8, [10]);
    (9, []); (10, [1]); (11, [1]); (12, [2]); (13, [7]); (14, [8]); (15, [4]); (16, [4]);
    (17, [4]); (18, [4])]
   4 true
   (* the dict values of the harness as header maps; header names (lower case): 1 content-type
      2 soapaction (the two suds sets itself) 3 http 4 https 5 x-a 6 x-b; value 0 = suds' own *)
   [(0, []); (1, [(3, 11)]); (2, [(5, 4)]); (3, [(5, 5); (6, 6)]); (4, [(4, 9); (3, 10)]);
    (5, [(1, 8)]); (6, [(1, 7); (2, 2)]); (7, [(2, 3); (5, 4)]); (8, [(1, 12); (2, 1)])].

Definition name_transport : N := 6.
Definition name_proxy : N := 31.
Definition name_timeout : N := 32.
Definition name_headers : N := 33.
Definition name_username : N := 34.
Definition name_password : N := 35.
Definition name_unknown : N := 90.

(* the transport class that sends no credentials: http.HttpTransport *)
Definition tag_plain_http : N := 15.

(* ------------------------------------------------------------------ *)
(* small list machinery                                                *)
(* ------------------------------------------------------------------ *)

Fixpoint memN (x : N) (l : list N) : bool :=
  match l with [] => false | y :: l' => N.eqb x y || memN x l' end.

Definition intersects (a b : list N) : bool := existsb (fun x => memN x b) a.

Fixpoint assocN {A} (k : N) (l : list (N * A)) : option A :=
  match l with
  | [] => None
  | (k', v) :: l' => if N.eqb k k' then Some v else assocN k l'
  end.

Fixpoint updN {A} (k : N) (v : A) (l : list (N * A)) : list (N * A) :=
  match l with
  | [] => [(k, v)]
  | (k', v') :: l' => if N.eqb k k' then (k, v) :: l' else (k', v') :: updN k v l'
  end.

Fixpoint find_def (ds : list defn) (name : N) : option defn :=
  match ds with
  | [] => None
  | d :: ds' => if N.eqb name (d_name d) then Some d else find_def ds' name
  end.

Inductive node := NC (c : N) | NT (a i : N).

Definition node_eqb (a b : node) : bool :=
  match a, b with
  | NC c, NC c' => N.eqb c c'
  | NT c i, NT c' i' => N.eqb c c' && N.eqb i i'
  | _, _ => false
  end.

(* the client an object was made for *)
Definition owner (n : node) : N := match n with NC c => c | NT c _ => c end.
Definition tidx (n : node) : N := match n with NC _ => 0 | NT _ i => i end.

(* transport objects per client in the identity of a transport value *)
Definition TW : N := 8.
Definition tid (a i : N) : N := a * TW + i.
Definition tnode (v : val) : node := NT (snd v / TW) (snd v mod TW).

Fixpoint mem (x : node) (l : list node) : bool :=
  match l with [] => false | y :: l' => node_eqb x y || mem x l' end.

(* list.remove: the first equal element *)
Fixpoint remove_first (x : node) (l : list node) : list node :=
  match l with
  | [] => []
  | y :: l' => if node_eqb x y then l' else y :: remove_first x l'
  end.

Fixpoint assoc {A} (k : node) (l : list (node * A)) : option A :=
  match l with
  | [] => None
  | (k', v) :: l' => if node_eqb k k' then Some v else assoc k l'
  end.

Fixpoint upd {A} (k : node) (v : A) (l : list (node * A)) : list (node * A) :=
  match l with
  | [] => [(k, v)]
  | (k', v') :: l' => if node_eqb k k' then (k, v) :: l' else (k', v') :: upd k v l'
  end.

Definition node_opt_is (o : option node) (t : node) : bool :=
  match o with Some x => node_eqb x t | None => false end.

(* the first client number below n that satisfies f *)
Fixpoint find_holder (f : N -> bool) (n : nat) : option N :=
  match n with
  | O => None
  | S n' => match find_holder f n' with
            | Some c => Some c
            | None => if f (N.of_nat n') then Some (N.of_nat n') else None
            end
  end.

(* ------------------------------------------------------------------ *)
(* operations and results                                              *)
(* ------------------------------------------------------------------ *)

Inductive op :=
| St (n : node) (name : N) (v : val)   (* <n>.options.name = v / set_options(name=v) / constructor kwarg *)
| Gt (n : node) (name : N)             (* <n>.options.name *)
| Sw (n : node) (names : list N)      (* read each of the given option names through <n> *)
| Us (c : N)                           (* what client c's transport hands to urllib when a message is sent *)
| Uo (n : node) (tag : N)              (* what transport object n (of class tag) hands to urllib on open() *)
| Cl (c : N).                          (* client c .clone() *)

Inductive out :=
| OOk | OVal (v : val) | OAttrErr | OExc | ORecursion | ONoClient | OW (l : list N).

Definition code_out (o : out) : N :=
  match o with
  | OVal (t, i) => 10 + t * 1000 + i
  | OAttrErr => 1 | OExc => 2 | ORecursion => 3 | ONoClient => 4 | OOk => 5 | OW _ => 6
  end.

Definition out_eqb (a b : out) : bool :=
  match a, b with
  | OOk, OOk | OAttrErr, OAttrErr | OExc, OExc | ORecursion, ORecursion
  | ONoClient, ONoClient => true
  | OVal v, OVal w => val_eqb v w
  | OW l, OW m => list_eqb N.eqb l m
  | _, _ => false
  end.

(* credentials(): both must be set, and the class must send credentials at all *)
Definition creds_of (tag : N) (u p : out) : list N :=
  match u, p with
  | OVal uv, OVal pv =>
      if negb (N.eqb tag tag_plain_http) && negb (is_none uv) && negb (is_none pv)
      then [code_out u; code_out p]
      else [code_out (OVal vnone); code_out (OVal vnone)]
  | _, _ => [code_out (OVal vnone); code_out (OVal vnone)]
  end.

(* _SoapClient.__headers: result = {Content-Type: ..., SOAPAction: ...};
   result.update(options.headers).  Header names are compared without case
   (urllib capitalises them; of several spellings the last one is sent), a
   header map is kept sorted by name. *)
Fixpoint put_hdr (k v : N) (l : list (N * N)) : list (N * N) :=
  match l with
  | [] => [(k, v)]
  | (k', v') :: r =>
      if k <? k' then (k, v) :: l
      else if N.eqb k k' then (k, v) :: r
      else (k', v') :: put_hdr k v r
  end.
Definition hdr_content_type : N := 1.
Definition hdr_soapaction : N := 2.
Definition hdr_defaults : list (N * N) := [(hdr_content_type, 0); (hdr_soapaction, 0)].
Definition soap_headers (opt : list (N * N)) : list (N * N) :=
  fold_left (fun acc kv => put_hdr (fst kv) (snd kv) acc) opt hdr_defaults.
Definition hdr_codes (l : list (N * N)) : list N := flat_map (fun kv => [fst kv; snd kv]) l.

Section WithTables.
Variable T : tables.

(* the entries of the dict an option read returned *)
Definition hdr_entries (o : out) : list (N * N) :=
  match o with
  | OVal v => match assocN (snd v) (hdrs T) with Some l => l | None => [] end
  | _ => []
  end.

Definition defs_of (n : node) : list defn :=
  match n with NC _ => cdefs T | NT _ _ => tdefs T end.

Definition domain_of (n : node) : N :=
  match n with NC _ => 0 | NT _ _ => if ddist T then 1 else 0 end.

Definition has_def (n : node) (name : N) : bool :=
  match find_def (defs_of n) name with Some _ => true | None => false end.

Definition all_names : list N :=
  map d_name (cdefs T) ++ map d_name (tdefs T) ++ [name_unknown].

(* isinstance(value, classes) *)
Definition classes_of (v : val) : list N :=
  match assocN (fst v) (isa T) with Some l => l | None => [] end.
Definition isinstance (v : val) (cls : list N) : bool := intersects cls (classes_of v).
Definition is_transport (v : val) : bool := isinstance v [clsT T].

(* Definition.validate: None passes; an empty class list accepts anything *)
Definition validate (d : defn) (v : val) : bool :=
  is_none v ||
  match d_classes d with
  | [] => true
  | cs => isinstance v cs
  end.

(* Definition.nvl *)
Definition nvl (d : defn) (v : val) : val := if is_none v then d_default d else v.

(* ------------------------------------------------------------------ *)
(* MODEL: the object graph                                              *)
(* ------------------------------------------------------------------ *)

Record props := mkP { p_def : list (N * val); p_links : list node }.
Record state := mkS { nodes : list (node * props); nextc : N }.

(* Properties.__init__: prime() stores every default; no links *)
Definition fresh (n : node) : props :=
  mkP (map (fun d => (d_name d, d_default d)) (defs_of n)) [].

Definition getp (st : state) (n : node) : props :=
  match assoc n (nodes st) with Some p => p | None => fresh n end.
Definition setp (st : state) (n : node) (p : props) : state :=
  mkS (upd n p (nodes st)) (nextc st).

Definition links (st : state) (n : node) : list node := p_links (getp st n).
Definition set_links (st : state) (n : node) (l : list node) : state :=
  setp st n (mkP (p_def (getp st n)) l).
Definition defined (st : state) (n : node) (name : N) : val :=
  match assocN name (p_def (getp st n)) with Some v => v | None => vnone end.
Definition set_defined (st : state) (n : node) (name : N) (v : val) : state :=
  setp st n (mkP (updN name v (p_def (getp st n))) (p_links (getp st n))).

Definition exists_node (st : state) (n : node) : bool := owner n <? nextc st.
(* a transport value names a transport object of an existing client *)
Definition vexists (st : state) (v : val) : bool :=
  negb (is_transport v) || exists_node st (tnode v).

(* Properties.provider(name, history): depth-first search with a shared
   history list; [None] = the nested call returned None. *)
Fixpoint loop_prov (rec : node -> list node -> option node * list node)
         (xs : list node) (h : list node) : option node * list node :=
  match xs with
  | [] => (None, h)
  | x :: xs' =>
      if mem x h then loop_prov rec xs' h
      else match rec x h with
           | (Some p, h') => (Some p, h')
           | (None, h') => loop_prov rec xs' h'
           end
  end.

Fixpoint prov (fuel : nat) (st : state) (name : N) (n : node) (hist : list node)
  : option node * list node :=
  match fuel with
  | O => (None, hist)
  | S f =>
      let h1 := hist ++ [n] in
      if has_def n name then (Some n, h1)
      else match loop_prov (prov f st name) (links st n) h1 with
           | (Some p, h) => (Some p, h)
           | (None, h) => (None, remove_first n h)
           end
  end.

Definition FUEL : nat := 8.

(* top level: "return self" when nothing was found *)
Definition provider (st : state) (name : N) (n : node) : node :=
  match prov FUEL st name n [] with
  | (Some p, _) => p
  | (None, _) => n
  end.

(* Properties.keys / domains: the same traversal, collecting *)
Fixpoint loop_reach (rec : node -> list node -> list node * list node)
         (xs : list node) (h : list node) (acc : list node) : list node * list node :=
  match xs with
  | [] => (acc, h)
  | x :: xs' =>
      if mem x h then loop_reach rec xs' h acc
      else let '(a, h') := rec x h in loop_reach rec xs' h' (acc ++ a)
  end.

Fixpoint reach (fuel : nat) (st : state) (n : node) (hist : list node)
  : list node * list node :=
  match fuel with
  | O => ([], hist)
  | S f =>
      let '(acc, h) := loop_reach (reach f st) (links st n) (hist ++ [n]) [n] in
      (acc, remove_first n h)
  end.

Definition domains (st : state) (n : node) : list N :=
  map domain_of (fst (reach FUEL st n [])).
Definition keys (st : state) (n : node) : list N :=
  flat_map (fun m => map d_name (defs_of m)) (fst (reach FUEL st n [])).

(* Link(a, b): validate, then append to both link lists *)
Definition link (st : state) (a b : node) : state * bool :=
  if mem a (links st b) || mem b (links st a) then (st, false)
  else if intersects (domains st a) (domains st b) then (st, false)
  else if intersects (keys st a) (keys st b) then (st, false)
  else let st1 := set_links st a (links st a ++ [b]) in
       (set_links st1 b (links st1 b ++ [a]), true).

(* Link.teardown for a link created as Link(a, b) *)
Definition teardown (st : state) (a b : node) : state :=
  let st1 := if mem a (links st b) then set_links st b (remove_first a (links st b)) else st in
  if mem b (links st1 a) then set_links st1 a (remove_first b (links st1 a)) else st1.

(* Properties.unlink(b): every endpoint of a's (copied) link list equal to b *)
Definition unlink (st : state) (a b : node) : state :=
  fold_left (fun s p => if node_eqb p b then teardown s a b else s) (links st a) st.

(* Properties.__set on the provider p: definition -> validate -> nvl ->
   store -> linker.updated *)
Definition pset (st : state) (p : node) (name : N) (v : val) : state * out :=
  match find_def (defs_of p) name with
  | None => (st, OAttrErr)
  | Some d =>
      if negb (validate d v) then (st, OAttrErr)
      else
        let v' := nvl d v in
        let prev := defined st p name in
        let st1 := set_defined st p name v' in
        if d_linker d then
          let st2 := if is_transport prev then unlink st1 p (tnode prev) else st1 in
          if is_transport v' then
            let '(st3, ok) := link st2 p (tnode v') in
            (st3, if ok then OOk else OExc)
          else (st2, OOk)
        else (st1, OOk)
  end.

(* Properties.__get on the provider *)
Definition pget (st : state) (p : node) (name : N) : out :=
  match find_def (defs_of p) name with
  | None => OAttrErr
  | Some _ => OVal (defined st p name)
  end.

Definition get (st : state) (n : node) (name : N) : out :=
  pget st (provider st name n) name.

(* Client.clone(): a new Options(), then update() from a deep copy of the
   original's values; the transport value is copied by Transport.__deepcopy__
   (HttpTransport.__deepcopy__ for the HTTP transports): a new transport object
   of the same class whose own, unlinked options are updated from the original
   transport's values.  The new object is [NT k i] for the clone k. *)
Definition clone (st : state) (c : N) : state :=
  let k := nextc st in
  let tv := defined st (NC c) name_transport in
  let st2 :=
    if is_transport tv then
      let t := tnode tv in
      let t' := NT k (tidx t) in
      let st1 := setp st (NC k)
                   (mkP (updN name_transport (fst tv, tid k (tidx t)) (p_def (getp st (NC c)))) [t']) in
      setp st1 t' (mkP (p_def (getp st t)) [NC k])
    else setp st (NC k) (mkP (p_def (getp st (NC c))) []) in
  mkS (nodes st2) (k + 1).

(* what a transport object hands to urllib (HttpTransport.open/send, u2open,
   u2opener, u2handlers; HttpAuthenticated.addcredentials): its own
   options.timeout, a ProxyHandler for its own options.proxy, and the
   credentials its own options give *)
Definition tuse (st : state) (t : node) (tag : N) : list N :=
  [code_out (get st t name_timeout); code_out (get st t name_proxy)]
  ++ creds_of tag (get st t name_username) (get st t name_password).

(* a send through client c: the transport object stored in the client's
   options; the client hands it its own Content-Type and SOAPAction updated
   with self.options.headers *)
Definition use (st : state) (c : N) : out :=
  match get st (NC c) name_transport with
  | OVal tv =>
      if is_transport tv then
        OW (tuse st (tnode tv) (fst tv)
            ++ hdr_codes (soap_headers (hdr_entries (get st (NC c) name_headers))))
      else OAttrErr
  | o => o
  end.

Definition step (st : state) (o : op) : state * out :=
  match o with
  | St n name v =>
      if exists_node st n && vexists st v then pset st (provider st name n) name v
      else (st, ONoClient)
  | Gt n name =>
      (st, if exists_node st n then get st n name else ONoClient)
  | Sw n names =>
      (st, if exists_node st n then OW (map (fun nm => code_out (get st n nm)) names)
           else ONoClient)
  | Us c =>
      (st, if c <? nextc st then use st c else ONoClient)
  | Uo n tag =>
      (st, if exists_node st n then OW (tuse st n tag) else ONoClient)
  | Cl c =>
      if c <? nextc st then (clone st c, OOk) else (st, ONoClient)
  end.

Fixpoint run (st : state) (ops : list op) : state * list out :=
  match ops with
  | [] => (st, [])
  | o :: ops' =>
      let '(st1, r) := step st o in
      let '(st2, rs) := run st1 ops' in (st2, r :: rs)
  end.

(* Client.__init__: options = Options(); options.transport = HttpAuthenticated() *)
Definition virgin : state := mkS [] 1.
Definition init : state := fst (step virgin (St (NC 0) name_transport (16, 0))).

(* ------------------------------------------------------------------ *)
(* SPEC: one map per client and per transport object                    *)
(* ------------------------------------------------------------------ *)

Record sstate := mkSS {
  s_vals : list (node * list (N * val));   (* the maps; absent = default *)
  s_next : N;                              (* number of clients *)
  s_carry : list (N * list (N * val))      (* per client: transport options assigned through the client *)
}.

Definition default_of (n : node) (name : N) : val :=
  match find_def (defs_of n) name with Some d => d_default d | None => vnone end.

Definition smap (ss : sstate) (n : node) : list (N * val) :=
  match assoc n (s_vals ss) with Some m => m | None => [] end.
Definition sval (ss : sstate) (n : node) (name : N) : val :=
  match assocN name (smap ss n) with Some v => v | None => default_of n name end.
Definition sput (ss : sstate) (n : node) (name : N) (v : val) : sstate :=
  mkSS (upd n (updN name v (smap ss n)) (s_vals ss)) (s_next ss) (s_carry ss).

Definition carry_of (ss : sstate) (c : N) : list (N * val) :=
  match assocN c (s_carry ss) with Some l => l | None => [] end.
Definition set_carry (ss : sstate) (c : N) (l : list (N * val)) : sstate :=
  mkSS (s_vals ss) (s_next ss) (updN c l (s_carry ss)).
Fixpoint del_name (name : N) (l : list (N * val)) : list (N * val) :=
  match l with
  | [] => []
  | (k, v) :: l' => if N.eqb name k then del_name name l' else (k, v) :: del_name name l'
  end.

(* the transport object a client currently has *)
Definition s_cur (ss : sstate) (c : N) : option node :=
  let v := sval ss (NC c) name_transport in
  if is_transport v then Some (tnode v) else None.

(* the client that currently has transport object t *)
Definition s_holder (ss : sstate) (t : node) : option N :=
  find_holder (fun c => node_opt_is (s_cur ss c) t) (N.to_nat (s_next ss)).

(* which map an option name read or written through <n> belongs to *)
Definition resolve (ss : sstate) (n : node) (name : N) : option node :=
  if has_def n name then Some n
  else match n with
       | NC c => match s_cur ss c with
                 | Some t => if has_def t name then Some t else None
                 | None => None
                 end
       | NT _ _ => match s_holder ss n with
                   | Some c => if has_def (NC c) name then Some (NC c) else None
                   | None => None
                   end
       end.

Definition sget (ss : sstate) (n : node) (name : N) : out :=
  match resolve ss n name with
  | Some m => OVal (sval ss m name)
  | None => OAttrErr
  end.

(* [follow]: transport options assigned through the client are re-applied to
   the new transport when the client's transport is replaced (the last clause
   of the first sentence of C14).  With follow = false the new transport
   simply keeps its own values. *)
Definition sset (follow : bool) (ss : sstate) (n : node) (name : N) (v : val) : sstate * out :=
  match resolve ss n name with
  | None => (ss, OAttrErr)
  | Some m =>
      match find_def (defs_of m) name with
      | None => (ss, OAttrErr)
      | Some d =>
          if negb (validate d v) then (ss, OAttrErr)
          else
            let v' := nvl d v in
            let ss1 := sput ss m name v' in
            let ss2 :=
              if negb follow then ss1 else
              match m, n with
              | NT _ _, NC c => set_carry ss1 c (updN name v' (carry_of ss1 c))
              | NT _ _, NT _ _ =>
                  match s_holder ss m with
                  | Some c => set_carry ss1 c (del_name name (carry_of ss1 c))
                  | None => ss1
                  end
              | NC c, _ =>
                  if N.eqb name name_transport && is_transport v'
                     && negb (node_opt_is (s_cur ss c) (tnode v'))
                  then fold_left (fun s kv => sput s (tnode v') (fst kv) (snd kv))
                                 (carry_of ss1 c) ss1
                  else ss1
              end in
            (ss2, OOk)
      end
  end.

Definition sclone (ss : sstate) (c : N) : sstate :=
  let k := s_next ss in
  let ss1 := fold_left (fun s d => sput s (NC k) (d_name d) (sval ss (NC c) (d_name d)))
                       (cdefs T) ss in
  let ss2 := match s_cur ss c with
             | Some t =>
                 sput (fold_left (fun s d => sput s (NT k (tidx t)) (d_name d) (sval ss t (d_name d)))
                                 (tdefs T) ss1)
                      (NC k) name_transport
                      (fst (sval ss (NC c) name_transport), tid k (tidx t))
             | None => ss1
             end in
  mkSS (s_vals ss2) (k + 1) (updN k (carry_of ss c) (s_carry ss2)).

Definition stuse (ss : sstate) (t : node) (tag : N) : list N :=
  [code_out (sget ss t name_timeout); code_out (sget ss t name_proxy)]
  ++ creds_of tag (sget ss t name_username) (sget ss t name_password).

Definition suse (ss : sstate) (c : N) : out :=
  let tv := sval ss (NC c) name_transport in
  if is_transport tv then
    OW (stuse ss (tnode tv) (fst tv)
        ++ hdr_codes (soap_headers (hdr_entries (sget ss (NC c) name_headers))))
  else OAttrErr.

Definition svexists (ss : sstate) (v : val) : bool :=
  negb (is_transport v) || (owner (tnode v) <? s_next ss).

Definition sstep (follow : bool) (ss : sstate) (o : op) : sstate * out :=
  match o with
  | St n name v =>
      if (owner n <? s_next ss) && svexists ss v then sset follow ss n name v else (ss, ONoClient)
  | Gt n name =>
      (ss, if owner n <? s_next ss then sget ss n name else ONoClient)
  | Sw n names =>
      (ss, if owner n <? s_next ss then OW (map (fun nm => code_out (sget ss n nm)) names)
           else ONoClient)
  | Us c =>
      (ss, if c <? s_next ss then suse ss c else ONoClient)
  | Uo n tag =>
      (ss, if owner n <? s_next ss then OW (stuse ss n tag) else ONoClient)
  | Cl c =>
      if c <? s_next ss then (sclone ss c, OOk) else (ss, ONoClient)
  end.

Fixpoint srun (follow : bool) (ss : sstate) (ops : list op) : sstate * list out :=
  match ops with
  | [] => (ss, [])
  | o :: ops' =>
      let '(ss1, r) := sstep follow ss o in
      let '(ss2, rs) := srun follow ss1 ops' in (ss2, r :: rs)
  end.

Definition svirgin : sstate := mkSS [] 1 [].
Definition sinit : sstate := fst (sstep false svirgin (St (NC 0) name_transport (16, 0))).

(* the operation gives a client a transport object that ANOTHER client
   currently has (outside the property: one transport object, one client) *)
Definition shares (ss : sstate) (o : op) : bool :=
  match o with
  | St n name v =>
      N.eqb name name_transport && is_transport v &&
      match resolve ss n name with
      | Some (NC c) => match s_holder ss (tnode v) with
                       | Some c' => negb (N.eqb c c')
                       | None => false
                       end
      | _ => false
      end
  | _ => false
  end.

Fixpoint noshare_from (ss : sstate) (ops : list op) : bool :=
  match ops with
  | [] => true
  | o :: ops' => negb (shares ss o) && noshare_from (fst (sstep false ss o)) ops'
  end.
Definition noshare (ops : list op) : bool := noshare_from sinit ops.

(* histories in which no client replaces its transport after a transport
   option was assigned through it (the guard of follow_partial); an
   assignment of the transport option through a transport object's own
   options counts for every client *)
Fixpoint follow_guard_from (dirty : list N) (next : N) (ops : list op) : bool :=
  match ops with
  | [] => true
  | St n name v :: ops' =>
      if N.eqb name name_transport &&
         match n with
         | NC c => memN c dirty
         | NT _ _ => match dirty with [] => false | _ => true end
         end
      then false
      else follow_guard_from
             (match n with
              | NC c => if has_def (NT c 0) name then c :: dirty else dirty
              | NT _ _ => dirty
              end) next ops'
  | Cl c :: ops' =>
      if c <? next
      then follow_guard_from (if memN c dirty then next :: dirty else dirty) (next + 1) ops'
      else follow_guard_from dirty next ops'
  | _ :: ops' => follow_guard_from dirty next ops'
  end.
Definition follow_guard (ops : list op) : bool := follow_guard_from [] 1 ops.

End WithTables.

(* ------------------------------------------------------------------ *)
(* the predicates the harness evaluates on (operation, observed result) *)
(* ------------------------------------------------------------------ *)

Definition hcase := list (op * out).

Definition outs_eqb (a b : list out) : bool := list_eqb out_eqb a b.

(* no operation of the history hands a client a transport object another
   client holds *)
Definition c14_inscope (h : hcase) : bool := noshare pinned_tables (map fst h).

(* the model, on the tables regenerated from /repo, predicts every result *)
Definition c14_agrees (h : hcase) : bool :=
  outs_eqb (snd (run gen_tables (init gen_tables) (map fst h))) (map snd h).

(* the full property text (transport options follow the client) *)
Definition c14_spec_ok (h : hcase) : bool :=
  negb (c14_inscope h) ||
  outs_eqb (snd (srun pinned_tables true (sinit pinned_tables) (map fst h))) (map snd h).

(* the property text without the "follow" clause *)
Definition c14_spec_nofollow_ok (h : hcase) : bool :=
  negb (c14_inscope h) ||
  outs_eqb (snd (srun pinned_tables false (sinit pinned_tables) (map fst h))) (map snd h).

Definition c14_guard (h : hcase) : bool := follow_guard pinned_tables (map fst h).

(* position of the first observed result that differs (for the report) *)
Fixpoint first_diff (a b : list out) (i : nat) : nat :=
  match a, b with
  | x :: a', y :: b' => if out_eqb x y then first_diff a' b' (S i) else i
  | _, _ => i
  end.
Definition c14_diff_nofollow (h : hcase) : nat * out :=
  let e := snd (srun pinned_tables false (sinit pinned_tables) (map fst h)) in
  let i := first_diff e (map snd h) 0 in (i, nth i e OOk).
Definition c14_diff_model (h : hcase) : nat * out :=
  let e := snd (run gen_tables (init gen_tables) (map fst h)) in
  let i := first_diff e (map snd h) 0 in (i, nth i e OOk).

(* what the proofs need of a table record *)
Definition names_of (ds : list defn) : list N := map d_name ds.
Fixpoint nodupN (l : list N) : bool :=
  match l with [] => true | x :: l' => negb (memN x l') && nodupN l' end.

Definition tables_ok (T : tables) : bool :=
  negb (intersects (names_of (cdefs T)) (names_of (tdefs T)))
  && ddist T
  && forallb (fun d => negb (d_linker d)) (tdefs T)
  && forallb (fun d => Bool.eqb (d_linker d) (N.eqb (d_name d) name_transport)) (cdefs T)
  && memN name_transport (names_of (cdefs T))
  && negb (memN name_unknown (names_of (cdefs T) ++ names_of (tdefs T)))
  && forallb (fun d => validate T d (d_default d)) (cdefs T ++ tdefs T)
  && forallb (fun d => negb (d_linker d && is_transport T (d_default d))) (cdefs T).
