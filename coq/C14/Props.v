(* C14 -- Options hold what was set, reject invalid values, and stay private
   to a client.  Theorems only; the lemmas are in RefineProofs.v and
   FollowProofs.v.  [T] ranges over table records (the two option definition
   lists, the isinstance table); every theorem about the code's behaviour holds
   for every T that passes the boolean check [tables_ok], and
   [repo_tables_are_the_documented_ones] shows that the tables regenerated
   from /repo pass it and equal the documented (pinned) ones. *)
From SV Require Import Lib.Base C14.Model C14.RefineProofs C14.FollowProofs.
Local Open Scope N_scope.

(* the definition lists regenerated from /repo are the documented ones *)
Theorem repo_tables_are_the_documented_ones :
  gen_tables = pinned_tables /\ tables_ok gen_tables = true.
Proof. split; vm_compute; reflexivity. Qed.
Print Assumptions repo_tables_are_the_documented_ones.

(* REFINEMENT, histories of any length: the model of suds/properties.py
   (Properties graph, Link/Endpoint bookkeeping, provider search with history,
   validate -> nvl -> store -> TpLinker.updated, Client.clone) answers every
   operation of every history exactly like the specification that keeps one
   map per client and per transport object. *)
Theorem options_refine_map :
  forall T, tables_ok T = true ->
  forall ops, snd (run T (init T) ops) = snd (srun T false (sinit T) ops).
Proof. exact options_refine_map_l. Qed.
Print Assumptions options_refine_map.

(* the same, for the code's own tables against the documented ones *)
Theorem repo_options_refine_documented_spec :
  forall ops, snd (run gen_tables (init gen_tables) ops)
              = snd (srun pinned_tables false (sinit pinned_tables) ops).
Proof.
  intro ops. destruct repo_tables_are_the_documented_ones as [E H].
  rewrite <- E. apply options_refine_map_l. exact H.
Qed.
Print Assumptions repo_options_refine_documented_spec.

(* reading an option returns the last value assigned to it, its default
   after None (client side; any reachable state) *)
Theorem set_then_get :
  forall T, tables_ok T = true ->
  forall ops c name v st',
    let st := fst (run T (init T) ops) in
    c < nextc st ->
    step T st (St (NC c) name v) = (st', OOk) ->
    exists d, (find_def (cdefs T) name = Some d \/ find_def (tdefs T) name = Some d)
              /\ get T st' (NC c) name = OVal (nvl d v).
Proof. exact set_then_get_l. Qed.
Print Assumptions set_then_get.

(* a value of the wrong type or an unknown option name, through any object,
   in any state: AttributeError and the state is unchanged *)
Theorem invalid_has_no_effect :
  forall T st n name v,
    exists_node st n = true ->
    (forall d, find_def (cdefs T) name = Some d \/ find_def (tdefs T) name = Some d ->
               validate T d v = false) ->
    step T st (St n name v) = (st, OAttrErr).
Proof. exact invalid_raises_l. Qed.
Print Assumptions invalid_has_no_effect.

(* whatever raised AttributeError changed nothing *)
Theorem attr_error_no_effect :
  forall T st o st', step T st o = (st', OAttrErr) -> st' = st.
Proof. exact attr_error_no_effect_l. Qed.
Print Assumptions attr_error_no_effect.

(* after any history every client is linked to exactly the options of the
   transport stored in its `transport` option, and every transport's options
   only to that client: a replaced transport no longer sees the client *)
Theorem link_invariant :
  forall T (H : tables_ok T = true) ops, INV T (fst (run T (init T) ops)).
Proof. exact link_invariant_l. Qed.
Print Assumptions link_invariant.

(* clone: starts with the values of the original; does not disturb existing
   clients *)
Theorem clone_copies :
  forall T, tables_ok T = true ->
  forall ops c name,
    let st := fst (run T (init T) ops) in
    c < nextc st ->
    let st' := fst (step T st (Cl c)) in
    get T st' (NC (nextc st)) name = get T st (NC c) name
    /\ (forall m, owner m < nextc st -> get T st' m name = get T st m name).
Proof. exact clone_copies_l. Qed.
Print Assumptions clone_copies.

(* independence in both directions: any sequence of assignments addressed to
   client k (original or clone; through its options or its transports'
   options; valid or not) leaves every read through any other client or its
   transports unchanged *)
Theorem clone_independent_both_ways :
  forall T, tables_ok T = true ->
  forall ops1 ops2 k m name,
    Forall (only_client k) ops2 -> owner m <> k ->
    let st := fst (run T (init T) ops1) in
    get T (fst (run T st ops2)) m name = get T st m name.
Proof. exact independent_l. Qed.
Print Assumptions clone_independent_both_ways.

(* "transport options set on the client follow the client when the transport
   is replaced" is FALSE of the faithful model:
     forall ops, snd (run T (init T) ops) = snd (srun T true (sinit T) ops)
   fails on  client.set_options(timeout=5); client.set_options(transport=HttpTransport());
   client.options.timeout  -- the model (and the code) answer 90, the property says 5. *)
Theorem follow_refuted :
  exists ops, snd (run gen_tables (init gen_tables) ops)
              <> snd (srun pinned_tables true (sinit pinned_tables) ops).
Proof. exists follow_witness. exact follow_refuted_l. Qed.
Print Assumptions follow_refuted.

(* ... and holds on every history in which no client replaces its transport
   after a transport option was assigned through it *)
Theorem follow_partial :
  forall T, tables_ok T = true ->
  forall ops, follow_guard T ops = true ->
              snd (run T (init T) ops) = snd (srun T true (sinit T) ops).
Proof. exact follow_partial_l. Qed.
Print Assumptions follow_partial.

(* ------------------------------------------------------------------ *)
(* non-vacuity                                                         *)
(* ------------------------------------------------------------------ *)

(* the guard of follow_partial admits histories that replace the transport
   and then assign transport options through the client *)
Example follow_guard_nonvacuous :
  follow_guard pinned_tables
    [St (NC 0) name_transport (15, 1); St (NC 0) name_timeout (2, 5); Cl 0;
     St (NC 1) name_timeout (2, 7); Gt (NC 0) name_timeout] = true
  /\ follow_guard pinned_tables follow_witness = false.
Proof. vm_compute. split; reflexivity. Qed.

(* the refuting history: what the model and the property say *)
Example follow_witness_nonvacuous :
  snd (run gen_tables (init gen_tables) follow_witness) = [OOk; OOk; OVal (2, 90)]
  /\ snd (srun pinned_tables true (sinit pinned_tables) follow_witness) = [OOk; OOk; OVal (2, 5)].
Proof. exact follow_witness_values. Qed.

(* invalid_has_no_effect has instances of both kinds (wrong type, unknown name),
   and set_then_get of an accepted assignment and of None *)
Example invalid_nonvacuous :
  step gen_tables (init gen_tables) (St (NC 0) name_timeout (4, 0)) = (init gen_tables, OAttrErr)
  /\ step gen_tables (init gen_tables) (St (NC 0) name_unknown (2, 1)) = (init gen_tables, OAttrErr)
  /\ snd (run gen_tables (init gen_tables)
            [St (NC 0) name_timeout (2, 5); Gt (NC 0) name_timeout;
             St (NC 0) name_timeout (0, 0); Gt (NC 0) name_timeout])
     = [OOk; OVal (2, 5); OOk; OVal (2, 90)].
Proof. vm_compute. repeat split; reflexivity. Qed.

(* independence is about histories that really assign on both sides *)
Example independence_nonvacuous :
  snd (run gen_tables (init gen_tables)
         [St (NC 0) name_timeout (2, 5); Cl 0; Gt (NC 1) name_timeout;
          St (NC 1) name_timeout (2, 7); Gt (NC 0) name_timeout;
          St (NC 0) name_timeout (2, 1); Gt (NC 1) name_timeout])
  = [OOk; OOk; OVal (2, 5); OOk; OVal (2, 5); OOk; OVal (2, 7)]
  /\ Forall (only_client 1) [St (NC 1) name_timeout (2, 7); St (NT 1 0) name_timeout (2, 1)].
Proof. split; [vm_compute; reflexivity|repeat constructor]. Qed.
