(* C14 -- Options hold what was set, reject invalid values, and stay private
   to a client.  Theorems only; the lemmas are in RefineProofs.v and
   FollowProofs.v.  [T] ranges over table records (the two option definition
   lists, the isinstance table); every theorem about the code's behaviour holds
   for every T that passes the boolean check [tables_ok], and
   [repo_tables_are_the_documented_ones] shows that the tables regenerated
   from /repo pass it and equal the documented (pinned) ones.

   [noshare T ops]: no operation of the history gives a client a transport
   object that ANOTHER client currently holds (the code raises
   Exception('Duplicate domains') there; one transport object serves one
   client at a time).  Giving a client a transport object that was released,
   by itself or by another client, is covered. *)
From SV Require Import Lib.Base C14.Model C14.RefineProofs C14.FollowProofs.
Local Open Scope N_scope.

(* the definition lists regenerated from /repo are the documented ones *)
Theorem repo_tables_are_the_documented_ones :
  gen_tables = pinned_tables /\ tables_ok gen_tables = true.
Proof. split; vm_compute; reflexivity. Qed.
Print Assumptions repo_tables_are_the_documented_ones.

(* REFINEMENT, histories of any length: the model of suds/properties.py
   (Properties graph, Link/Endpoint bookkeeping incl. teardown and re-linking
   of released transport objects, provider search with history, validate ->
   nvl -> store -> TpLinker.updated), of Client.clone with
   Transport.__deepcopy__, and of what a transport hands to urllib on a send
   answers every operation of every history exactly like the specification
   that keeps one map per client and per transport object. *)
Theorem options_refine_map :
  forall T, tables_ok T = true ->
  forall ops, noshare T ops = true ->
              snd (run T (init T) ops) = snd (srun T false (sinit T) ops).
Proof. exact options_refine_map_l. Qed.
Print Assumptions options_refine_map.

(* the same, for the code's own tables against the documented ones *)
Theorem repo_options_refine_documented_spec :
  forall ops, noshare pinned_tables ops = true ->
              snd (run gen_tables (init gen_tables) ops)
              = snd (srun pinned_tables false (sinit pinned_tables) ops).
Proof.
  intros ops HG. destruct repo_tables_are_the_documented_ones as [E H].
  rewrite <- E in *. apply options_refine_map_l; assumption.
Qed.
Print Assumptions repo_options_refine_documented_spec.

(* reading an option returns the last value assigned to it, its default
   after None (client side; any reachable state) *)
Theorem set_then_get :
  forall T, tables_ok T = true ->
  forall ops c name v st',
    noshare T (ops ++ [St (NC c) name v]) = true ->
    let st := fst (run T (init T) ops) in
    step T st (St (NC c) name v) = (st', OOk) ->
    exists d, (find_def (cdefs T) name = Some d \/ find_def (tdefs T) name = Some d)
              /\ get T st' (NC c) name = OVal (nvl d v).
Proof. exact set_then_get_l. Qed.
Print Assumptions set_then_get.

(* "transport options set on the client are the ones its transport uses":
   after an accepted assignment of a transport option through the client, the
   client's transport object reads that value from its OWN options -- which
   is what [tuse] hands to urllib on every send (timeout, ProxyHandler,
   credentials) -- in any reachable state, whichever transport object the
   client holds at that moment *)
Theorem send_uses_what_was_set :
  forall T, tables_ok T = true ->
  forall ops c name v d st',
    noshare T (ops ++ [St (NC c) name v]) = true ->
    let st := fst (run T (init T) ops) in
    find_def (tdefs T) name = Some d ->
    step T st (St (NC c) name v) = (st', OOk) ->
    exists tv, get T st' (NC c) name_transport = OVal tv /\ is_transport T tv = true
               /\ get T st' (tnode tv) name = OVal (nvl d v).
Proof. exact send_uses_what_was_set_l. Qed.
Print Assumptions send_uses_what_was_set.

(* the HTTP headers of a SOAP request (_SoapClient.__headers): suds' own
   Content-Type and SOAPAction updated with the `headers` option -- for every
   header name the caller's value wins (whatever the spelling of the name),
   suds' value stays only for a name the caller's map does not contain *)
Theorem caller_headers_win :
  forall opt k,
    hlookup k (soap_headers opt) =
    match caller_value k opt with Some v => Some v | None => hlookup k hdr_defaults end.
Proof. exact caller_headers_win_l. Qed.
Print Assumptions caller_headers_win.

(* a value of the wrong type or an unknown option name, through any object,
   in any state: AttributeError and the state is unchanged *)
Theorem invalid_has_no_effect :
  forall T st n name v,
    exists_node st n = true -> vexists T st v = true ->
    (forall d, find_def (cdefs T) name = Some d \/ find_def (tdefs T) name = Some d ->
               validate T d v = false) ->
    step T st (St n name v) = (st, OAttrErr).
Proof. exact invalid_raises_l. Qed.
Print Assumptions invalid_has_no_effect.

(* whatever raised AttributeError changed nothing *)
Theorem attr_error_no_effect :
  forall T st o st', step T st o = (st', OAttrErr) -> st' = st.
Proof. exact attr_error_no_effect_l. Qed.
Print Assumptions attr_error_no_effect.

(* after any history every client is linked to exactly the options of the
   transport object stored in its `transport` option, that transport's options
   only to that client, and the options of a transport object no client holds
   to nothing *)
Theorem link_invariant :
  forall T (H : tables_ok T = true) ops,
    noshare T ops = true -> INV T (fst (run T (init T) ops)).
Proof. exact link_invariant_l. Qed.
Print Assumptions link_invariant.

(* Link.teardown: replacing a client's transport releases the old transport
   object -- no client holds it, its options are linked to nothing, they read
   their own values and no client option any more *)
Theorem released_transport_is_detached :
  forall T, tables_ok T = true ->
  forall ops c v st' a i,
    noshare T (ops ++ [St (NC c) name_transport v]) = true ->
    let st := fst (run T (init T) ops) in
    step T st (St (NC c) name_transport v) = (st', OOk) ->
    cur T st c = Some (NT a i) -> cur T st' c <> Some (NT a i) ->
    (forall c1, cur T st' c1 <> Some (NT a i))
    /\ links T st' (NT a i) = []
    /\ forall name, get T st' (NT a i) name =
                    if has_def T (NT a i) name then OVal (defined T st' (NT a i) name) else OAttrErr.
Proof.
  intros T H ops c v st' a i HG st E Hc Hne.
  assert (Hno : forall c1, cur T st' c1 <> Some (NT a i))
    by (eapply replace_releases_l; eauto).
  split; [exact Hno|].
  assert (Hst : st' = fst (run T (init T) (ops ++ [St (NC c) name_transport v]))).
  { rewrite run_app. fold st. cbn [run]. rewrite E. reflexivity. }
  rewrite Hst in *. apply unheld_transport_l; assumption.
Qed.
Print Assumptions released_transport_is_detached.

(* ... and a transport object nobody holds (never used, or released by ANY
   client) can be given to any client: accepted, linked, and the client reads
   the transport's own values from then on *)
Theorem released_transport_can_be_handed_over :
  forall T, tables_ok T = true ->
  forall ops c v d,
    noshare T ops = true ->
    let st := fst (run T (init T) ops) in
    c < nextc st -> owner (tnode v) < nextc st ->
    find_def (cdefs T) name_transport = Some d -> validate T d v = true ->
    is_transport T v = true -> is_none v = false ->
    (forall c1, cur T st c1 <> Some (tnode v)) ->
    exists st', step T st (St (NC c) name_transport v) = (st', OOk)
      /\ INV T st' /\ cur T st' c = Some (tnode v)
      /\ forall name, has_def T (tnode v) name = true ->
                      get T st' (NC c) name = OVal (defined T st (tnode v) name).
Proof. exact handover_l. Qed.
Print Assumptions released_transport_can_be_handed_over.

(* clone: starts with the values of the original (its transport is a NEW
   transport object of the same class); does not disturb existing clients and
   transports *)
Theorem clone_copies :
  forall T, tables_ok T = true ->
  forall ops c,
    noshare T ops = true ->
    let st := fst (run T (init T) ops) in
    c < nextc st ->
    let st' := fst (step T st (Cl c)) in
    let k := nextc st in
    (forall name, name <> name_transport -> get T st' (NC k) name = get T st (NC c) name)
    /\ (forall tv, get T st (NC c) name_transport = OVal tv ->
          if is_transport T tv
          then get T st' (NC k) name_transport = OVal (fst tv, tid k (tidx (tnode tv)))
               /\ cur T st' k = Some (NT k (tidx (tnode tv)))
          else get T st' (NC k) name_transport = OVal tv)
    /\ (forall m name, owner m < nextc st -> get T st' m name = get T st m name).
Proof. exact clone_copies_l. Qed.
Print Assumptions clone_copies.

(* independence in both directions: any sequence of assignments on client
   k's side (original or clone; through its options, through the options of
   the transport it holds at that moment or of a transport nobody holds;
   valid or not; replacing its transport) leaves every read through any other
   client m and through m's transport, and what m's transport uses on a send,
   unchanged *)
Theorem clone_independent_both_ways :
  forall T, tables_ok T = true ->
  forall ops1 ops2 k m,
    noshare T (ops1 ++ ops2) = true -> m <> k ->
    let st := fst (run T (init T) ops1) in
    on_side T k st ops2 = true ->
    let st' := fst (run T st ops2) in
    (forall x nm, x = NC m \/ cur T st m = Some x -> get T st' x nm = get T st x nm)
    /\ use T st' m = use T st m.
Proof. exact independent_l. Qed.
Print Assumptions clone_independent_both_ways.

(* "transport options set on the client follow the client when the transport
   is replaced" is FALSE of the faithful model:
     forall ops, snd (run T (init T) ops) = snd (srun T true (sinit T) ops)
   fails on  client.set_options(timeout=5); client.set_options(transport=HttpTransport());
   client.options.timeout  -- the model (and the code) answer 90, the property says 5. *)
Theorem follow_refuted :
  exists ops, noshare pinned_tables ops = true /\
              snd (run gen_tables (init gen_tables) ops)
              <> snd (srun pinned_tables true (sinit pinned_tables) ops).
Proof. exists follow_witness. split; [vm_compute; reflexivity|exact follow_refuted_l]. Qed.
Print Assumptions follow_refuted.

(* ... and holds on every history in which no client replaces its transport
   after a transport option was assigned through it *)
Theorem follow_partial :
  forall T, tables_ok T = true ->
  forall ops, noshare T ops = true -> follow_guard T ops = true ->
              snd (run T (init T) ops) = snd (srun T true (sinit T) ops).
Proof. exact follow_partial_l. Qed.
Print Assumptions follow_partial.

(* ------------------------------------------------------------------ *)
(* non-vacuity                                                         *)
(* ------------------------------------------------------------------ *)

(* [noshare] admits histories that re-use released transport objects: A, then
   B, then A again; and a transport released by client 0 given to its clone;
   it rejects giving the clone the transport client 0 still holds *)
Example noshare_nonvacuous :
  noshare pinned_tables
    [St (NC 0) name_transport (15, 1); St (NC 0) name_transport (16, 0);
     St (NC 0) name_transport (15, 1); Cl 0; St (NC 1) name_transport (16, 0);
     St (NC 1) name_timeout (2, 7); Gt (NT 0 0) name_timeout; Us 1] = true
  /\ noshare pinned_tables [Cl 0; St (NC 1) name_transport (16, 0)] = false.
Proof. vm_compute. split; reflexivity. Qed.

(* the handed-over transport object: the clone reads and uses what is set on
   it, client 0 (which released it) does not; client-domain names are not
   readable through a released transport *)
Example handover_nonvacuous :
  snd (run gen_tables (init gen_tables)
         [St (NC 0) name_timeout (2, 5); St (NC 0) name_transport (15, 1);
          Gt (NT 0 0) 5; Cl 0; St (NC 1) name_transport (16, 0);
          Gt (NC 1) name_timeout; St (NT 0 0) name_timeout (2, 7);
          Gt (NC 1) name_timeout; Gt (NC 0) name_timeout; Gt (NT 0 0) 5])
  = [OOk; OOk; OAttrErr; OOk; OOk; OVal (2, 5); OOk; OVal (2, 7); OVal (2, 90); OVal (1, 1)].
Proof. vm_compute. reflexivity. Qed.

(* the guard of follow_partial admits histories that replace the transport
   and then assign transport options through the client *)
Example follow_guard_nonvacuous :
  follow_guard pinned_tables
    [St (NC 0) name_transport (15, 1); St (NC 0) name_timeout (2, 5); Cl 0;
     St (NC 1) name_timeout (2, 7); Gt (NC 0) name_timeout] = true
  /\ follow_guard pinned_tables follow_witness = false.
Proof. vm_compute. split; reflexivity. Qed.

(* the refuting history: what the model and the property say *)
Example follow_witness_nonvacuous :
  snd (run gen_tables (init gen_tables) follow_witness) = [OOk; OOk; OVal (2, 90)]
  /\ snd (srun pinned_tables true (sinit pinned_tables) follow_witness) = [OOk; OOk; OVal (2, 5)].
Proof. exact follow_witness_values. Qed.

(* invalid_has_no_effect has instances of both kinds (wrong type, unknown name),
   and set_then_get of an accepted assignment and of None *)
Example invalid_nonvacuous :
  step gen_tables (init gen_tables) (St (NC 0) name_timeout (4, 0)) = (init gen_tables, OAttrErr)
  /\ step gen_tables (init gen_tables) (St (NC 0) name_unknown (2, 1)) = (init gen_tables, OAttrErr)
  /\ snd (run gen_tables (init gen_tables)
            [St (NC 0) name_timeout (2, 5); Gt (NC 0) name_timeout;
             St (NC 0) name_timeout (0, 0); Gt (NC 0) name_timeout])
     = [OOk; OVal (2, 5); OOk; OVal (2, 90)].
Proof. vm_compute. repeat split; reflexivity. Qed.

(* what a send uses follows every change: proxy set, send, proxy changed,
   send, proxy reset, send, credentials; an HttpTransport sends none *)
Example send_nonvacuous :
  snd (run gen_tables (init gen_tables)
         [St (NC 0) name_proxy (6, 1); Us 0; St (NT 0 0) name_proxy (6, 2); Us 0;
          St (NC 0) name_proxy (0, 0); St (NC 0) name_username (4, 0); Us 0;
          St (NC 0) name_password (4, 1); Us 0; Uo (NT 0 0) 16; Uo (NT 0 0) 15])
  = [OOk; OW [2100; 6011; 10; 10; 1; 0; 2; 0]; OOk; OW [2100; 6012; 10; 10; 1; 0; 2; 0];
     OOk; OOk; OW [2100; 6010; 10; 10; 1; 0; 2; 0];
     OOk; OW [2100; 6010; 4010; 4011; 1; 0; 2; 0]; OW [2100; 6010; 4010; 4011]; OW [2100; 6010; 10; 10]].
Proof. vm_compute. reflexivity. Qed.

(* header maps that collide with suds' own headers, on an original and its
   clone: Content-Type / SOAPAction of the option replace suds' values (0) *)
Example headers_nonvacuous :
  snd (run gen_tables (init gen_tables)
         [Us 0; St (NC 0) name_headers (6, 5); Us 0; Cl 0; St (NT 1 0) name_headers (6, 7); Us 1; Us 0;
          St (NC 0) name_headers (6, 8); Us 0; St (NC 0) name_headers (0, 0); Us 0])
  = [OW [2100; 6010; 10; 10; 1; 0; 2; 0]; OOk; OW [2100; 6010; 10; 10; 1; 8; 2; 0]; OOk; OOk;
     OW [2100; 6010; 10; 10; 1; 0; 2; 3; 5; 4]; OW [2100; 6010; 10; 10; 1; 8; 2; 0]; OOk;
     OW [2100; 6010; 10; 10; 1; 12; 2; 1]; OOk; OW [2100; 6010; 10; 10; 1; 0; 2; 0]]
  /\ hlookup hdr_content_type (soap_headers [(1, 8)]) = Some 8
  /\ hlookup hdr_soapaction (soap_headers [(1, 8)]) = Some 0.
Proof. vm_compute. repeat split; reflexivity. Qed.

(* independence is about histories that really assign on both sides, with a
   transport derived directly from suds.transport.Transport (tag 17) *)
Example independence_nonvacuous :
  snd (run gen_tables (init gen_tables)
         [St (NC 0) name_transport (17, 2); St (NC 0) name_timeout (2, 5); Cl 0;
          Gt (NC 1) name_timeout; Gt (NC 1) name_transport;
          St (NC 1) name_timeout (2, 7); Gt (NC 0) name_timeout;
          St (NT 0 2) name_timeout (2, 1); Gt (NC 1) name_timeout; Gt (NC 0) name_timeout])
  = [OOk; OOk; OOk; OVal (2, 5); OVal (17, 10); OOk; OVal (2, 5); OOk; OVal (2, 7); OVal (2, 1)]
  /\ on_side gen_tables 1 (fst (run gen_tables (init gen_tables)
                                  [St (NC 0) name_transport (17, 2); Cl 0]))
       [St (NC 1) name_timeout (2, 7); St (NT 1 2) name_timeout (2, 1);
        St (NC 1) name_transport (15, 9); St (NT 1 2) name_timeout (2, 0)] = true
  /\ on_side gen_tables 1 (fst (run gen_tables (init gen_tables)
                                  [St (NC 0) name_transport (17, 2); Cl 0]))
       [St (NT 0 2) name_timeout (2, 7)] = false.
Proof. vm_compute. repeat split; reflexivity. Qed.
