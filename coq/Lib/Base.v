(* Shared basics: characters are Unicode scalar values in N, strings are lists. *)
From Coq Require Export List Bool Arith NArith ZArith Lia.
Export ListNotations.

Definition char := N.
Definition str := list N.

Fixpoint str_eqb (a b : str) : bool :=
  match a, b with
  | [], [] => true
  | x :: a', y :: b' => N.eqb x y && str_eqb a' b'
  | _, _ => false
  end.

Lemma str_eqb_eq a b : str_eqb a b = true <-> a = b.
Proof.
  revert b; induction a as [|x a IH]; intros [|y b]; cbn; split; intro H;
    try congruence; try discriminate.
  - apply andb_true_iff in H as [H1 H2]. apply N.eqb_eq in H1. apply IH in H2. congruence.
  - inversion H; subst. rewrite N.eqb_refl. cbn. apply IH. reflexivity.
Qed.

Lemma str_eqb_refl a : str_eqb a a = true.
Proof. apply str_eqb_eq. reflexivity. Qed.

Fixpoint list_eqb {A} (eqb : A -> A -> bool) (a b : list A) : bool :=
  match a, b with
  | [], [] => true
  | x :: a', y :: b' => eqb x y && list_eqb eqb a' b'
  | _, _ => false
  end.

Definition opt_eqb {A} (eqb : A -> A -> bool) (a b : option A) : bool :=
  match a, b with
  | None, None => true
  | Some x, Some y => eqb x y
  | _, _ => false
  end.

(* ASCII helpers *)
Definition is_digit (c : N) : bool := (48 <=? c)%N && (c <=? 57)%N.
Definition digit_val (c : N) : Z := Z.of_N c - 48.
Definition digit_chr (d : Z) : N := Z.to_N (d + 48).

Definition ch_minus : N := 45.
Definition ch_plus : N := 43.
Definition ch_dot : N := 46.
Definition ch_colon : N := 58.
Definition ch_0 : N := 48.
