(* C11 -- concurrent users of one cache directory, at system-call granularity.

   Any number of processes put / get / purge / clear the same ids.  Whatever the processes and
   the scheduler do, what happens to the directory is SOME sequence of the system calls below,
   so the theorem quantifies over all such sequences (it thereby covers every interleaving of
   every number of processes, including calls no suds process would issue in that order):

     ATrunc n      open(n, "wb"): create or truncate in place
     AWrite n o    the single write() of a whole serialised entry at offset 0 of n
                   (lands on whatever the file holds by then: the tail of a longer older
                   entry survives when another writer truncated and wrote in between)
     ARead n       open + read + deser of n: the value a lookup returns
     AUnlink n     os.remove(n): purge, expiry, the purge after a failed load, clear()
     AClear        every entry at once

   A write to an unlinked file is over-approximated as hitting the current file of that name.
   Safety rests entirely on the format rejecting mixtures -- hypothesis H3. *)
From SV Require Import Lib.Base C11.Model C11.NameProofs.

Section Interleave.
  Variable ser1 : N -> bytes.
  Variable deser1 : bytes -> option N.

  Inductive act := ATrunc (n : str) | AWrite (n : str) (o : N) | ARead (n : str) | AUnlink (n : str) | AClear.

  Definition overlay (d b : bytes) : bytes := d ++ skipn (length d) b.

  Definition iexec (f : fsys) (a : act) : fsys * option (str * option N) :=
    match a with
    | ATrunc n => (fs_set f n (mkfile [] 0), None)
    | AWrite n o =>
        (match f n with
         | Some x => fs_set f n (mkfile (overlay (ser1 o) (f_data x)) 0)
         | None => f
         end, None)
    | ARead n => (f, Some (n, match f n with Some x => deser1 (f_data x) | None => None end))
    | AUnlink n => (fs_del f n, None)
    | AClear => (fs_clear f, None)
    end.

  (* the reads of a schedule, each with the writes issued before it *)
  Fixpoint irun (f : fsys) (log : list (str * N)) (s : list act) : list (str * option N * list (str * N)) :=
    match s with
    | [] => []
    | a :: s' =>
        let (f', r) := iexec f a in
        let log' := match a with AWrite n o => (n, o) :: log | _ => log end in
        match r with
        | Some (n, v) => (n, v, log) :: irun f' log' s'
        | None => irun f' log' s'
        end
    end.

  (* what a file can hold: nothing, or entries written whole over one another *)
  Inductive Mix (os : list N) : bytes -> Prop :=
  | mix_nil : Mix os []
  | mix_over : forall o b, In o os -> Mix os b -> Mix os (overlay (ser1 o) b).

  Definition format_rejects_mixtures : Prop :=
    forall os b o, Mix os b -> deser1 b = Some o -> In o os.

  Definition objs_of (n : str) (log : list (str * N)) : list N :=
    map snd (filter (fun p => str_eqb (fst p) n) log).

  Lemma mix_mono os os' b : (forall o, In o os -> In o os') -> Mix os b -> Mix os' b.
  Proof. intros S M. induction M; [constructor|constructor; auto]. Qed.

  Definition IInv (f : fsys) (log : list (str * N)) : Prop :=
    forall n x, f n = Some x -> Mix (objs_of n log) (f_data x).

  Lemma iexec_inv f log a :
    IInv f log ->
    IInv (fst (iexec f a)) (match a with AWrite n o => (n, o) :: log | _ => log end).
  Proof.
    intros I. destruct a as [n|n o|n|n|]; cbn; intros m x F.
    - unfold fs_set in F. destruct (str_eqb m n); [inversion F; constructor|apply I, F].
    - unfold objs_of. cbn.
      destruct (f n) as [y|] eqn:Fn.
      + unfold fs_set in F. destruct (str_eqb m n) eqn:Q.
        * apply str_eqb_eq in Q. subst m. inversion F; subst x. cbn.
          rewrite str_eqb_refl. cbn. constructor; [left; reflexivity|].
          eapply mix_mono; [|apply (I n y Fn)]. intros o' Ho. right. exact Ho.
        * assert (Q' : str_eqb n m = false).
          { apply str_eqb_neq. intro E. subst. rewrite str_eqb_refl in Q. discriminate. }
          rewrite Q'. apply I, F.
      + destruct (str_eqb n m) eqn:Q.
        * apply str_eqb_eq in Q. subst m. rewrite F in Fn. discriminate.
        * apply I, F.
    - apply I, F.
    - unfold fs_del in F. destruct (str_eqb m n); [discriminate|apply I, F].
    - unfold fs_clear in F. destruct (starts_with s_suds m); [discriminate|apply I, F].
  Qed.

  Lemma interleaved_gets_safe_from f log s :
    format_rejects_mixtures -> IInv f log ->
    Forall (fun r => match r with
                     | (n, None, _) => True
                     | (n, Some o, lg) => In (n, o) lg
                     end) (irun f log s).
  Proof.
    intros H3. revert f log. induction s as [|a s IH]; intros f log I; [constructor|].
    cbn [irun]. pose proof (iexec_inv f log a I) as I'.
    destruct (iexec f a) as [f' r] eqn:E. cbn in I'.
    destruct r as [[n v]|]; [|apply IH, I'].
    constructor; [|apply IH, I'].
    destruct a; cbn in E; inversion E; subst.
    destruct (f' n) as [x|] eqn:F; [|exact Logic.I].
    destruct (deser1 (f_data x)) as [o|] eqn:D; [|exact Logic.I].
    pose proof (H3 _ _ _ (I n x F) D) as Ho. unfold objs_of in Ho.
    apply in_map_iff in Ho. destruct Ho as [[m o'] [Eo Hin]]. cbn in Eo. subst o'.
    apply filter_In in Hin. destruct Hin as [Hin Q]. cbn in Q. apply str_eqb_eq in Q. subst m. exact Hin.
  Qed.

  Lemma interleaved_gets_safe_l s :
    format_rejects_mixtures ->
    Forall (fun r => match r with
                     | (n, None, _) => True
                     | (n, Some o, lg) => In (n, o) lg
                     end) (irun fs_empty [] s).
  Proof. intro H3. apply interleaved_gets_safe_from; [exact H3|]. intros n x F. discriminate F. Qed.
End Interleave.
