(* C11 -- the preemptible programs of Preempt.v are the programs of Model.v when nobody interferes. *)
From SV Require Import Lib.Base C11.Model C11.NameProofs C11.CacheProofs C11.Preempt.
Arguments fname : simpl never.
Lemma icache_get_unpreempted_l deser flt c t id f :
  icache_get deser flt c t id ([], f) =
  (fst (cache_get deser flt c t id f), ([], snd (cache_get deser flt c t id f))).
Proof.
  rewrite cache_get_closed. destruct c as [k d].
  unfold get_closed, icache_get, icache_get_with, iload, igetf, iremove_if_expired, ipurge, itry, ibind, iret, iraise,
    isys_getctime, isys_remove, isys_open_r, isys_read, env_step, expired; cbn [i_kind i_dur fst snd].
  destruct k; cbn [kind_eqb]; set (nm := fname _ id); clearbody nm;
    destruct (d =? 0)%Z eqn:D; cbn [negb andb];
    destruct (f nm) as [x|] eqn:E; cbn; rewrite ?E; cbn;
    try (destruct flt; cbn; rewrite ?E; reflexivity);
    try (destruct (f_ctime x + d <? t)%Z eqn:X; cbn; rewrite ?fs_del_same, ?E; cbn;
         destruct flt; cbn; rewrite ?fs_del_same, ?E; cbn; try reflexivity;
         destruct (deser _ (f_data x)); cbn; rewrite ?E; reflexivity);
    try (destruct flt; cbn; rewrite ?E; cbn; try reflexivity;
         destruct (deser _ (f_data x)); cbn; rewrite ?E; reflexivity).
Qed.
