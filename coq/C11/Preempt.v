(* C11 -- lookups and purges while OTHER instances / processes work in the same folder.

   The programs of Model.v (FileCache.__remove_if_expired, _getf, purge, get of the three
   classes) once more, statement by statement, over system calls that can be preempted: before
   every system call of ours the environment may act (the schedule, one action per call):
     INop        nothing happens
     IRemove n   another instance removes file n (its purge, its expiry removal, the purge after
                 its own failed load; "the file vanished")
     IClear      another instance's clear()
     IDeny       if our next call is os.remove it fails (EPERM / ENOENT) without removing
   An open file keeps its content when the name is removed, so the handle carries the data. *)
From SV Require Import Lib.Base C11.Model C11.NameProofs C11.CacheProofs.

Inductive iact := INop | IRemove (n : str) | IClear | IDeny.
Definition istate := (list iact * fsys)%type.
Definition MI (A : Type) := istate -> exc A * istate.

Definition iret {A} (a : A) : MI A := fun s => (Ret a, s).
Definition iraise {A} : MI A := fun s => (Exc, s).
Definition ibind {A B} (m : MI A) (k : A -> MI B) : MI B :=
  fun s => match m s with (Ret a, s') => k a s' | (Exc, s') => (Exc, s') end.
Definition itry {A} (m : MI A) (h : MI A) : MI A :=
  fun s => match m s with (Ret a, s') => (Ret a, s') | (Exc, s') => h s' end.

(* the environment's move before one of our system calls: (our os.remove is denied, state) *)
Definition env_step (s : istate) : bool * istate :=
  match fst s with
  | [] => (false, s)
  | INop :: r => (false, (r, snd s))
  | IRemove n :: r => (false, (r, fs_del (snd s) n))
  | IClear :: r => (false, (r, fs_clear (snd s)))
  | IDeny :: r => (true, (r, snd s))
  end.

Definition isys_getctime (n : str) : MI Z :=
  fun s => let s1 := snd (env_step s) in
           match snd s1 n with Some x => (Ret (f_ctime x), s1) | None => (Exc, s1) end.
Definition isys_exists (n : str) : MI bool :=
  fun s => let s1 := snd (env_step s) in
           (Ret (match snd s1 n with Some _ => true | None => false end), s1).
Definition isys_remove (n : str) : MI unit :=
  fun s => let (deny, s1) := env_step s in
           if deny then (Exc, s1)
           else match snd s1 n with
                | Some _ => (Ret tt, (fst s1, fs_del (snd s1) n))
                | None => (Exc, s1)
                end.
Definition isys_open_r (flt : fault) (n : str) : MI bytes :=
  fun s => let s1 := snd (env_step s) in
           match flt with
           | FOpen => (Exc, s1)
           | _ => match snd s1 n with Some x => (Ret (f_data x), s1) | None => (Exc, s1) end
           end.
Definition isys_read (flt : fault) (data : bytes) : MI bytes :=
  fun s => let s1 := snd (env_step s) in
           match flt with FRead => (Exc, s1) | _ => (Ret data, s1) end.

Section Preempt.
  Variable deser : kind -> bytes -> option N.

  Definition iremove_if_expired (c : inst) (t : Z) (n : str) : MI unit :=
    if (i_dur c =? 0)%Z then iret tt
    else ibind (isys_getctime n) (fun created =>
         if (created + i_dur c <? t)%Z then isys_remove n else iret tt).

  Definition igetf (flt : fault) (c : inst) (t : Z) (id : str) : MI (option bytes) :=
    itry (ibind (iremove_if_expired c t (fname (i_kind c) id)) (fun _ =>
          ibind (isys_open_r flt (fname (i_kind c) id)) (fun h => iret (Some h))))
         (iret None).

  (* FileCache.purge: try: os.remove(filename)  except Exception: pass *)
  Definition ipurge (c : inst) (id : str) : MI unit :=
    itry (isys_remove (fname (i_kind c) id)) (iret tt).

  (* the check-then-act variant: if os.path.exists(filename): os.remove(filename) *)
  Definition ipurge_checked (c : inst) (id : str) : MI unit :=
    ibind (isys_exists (fname (i_kind c) id)) (fun b =>
    if b then isys_remove (fname (i_kind c) id) else iret tt).

  (* what get does with the opened file: read it all, deserialise *)
  Definition iload (k : kind) (flt : fault) (fp : option bytes) (on_none : MI (option N)) : MI (option N) :=
    match fp with
    | None => on_none
    | Some h => ibind (isys_read flt h) (fun b =>
                match deser k b with Some o => iret (Some o) | None => iraise end)
    end.

  Definition icache_get_with (purge_impl : inst -> str -> MI unit)
             (flt : fault) (c : inst) (t : Z) (id : str) : MI (option N) :=
    match i_kind c with
    | KGcf =>
        (* f = self._getf(id); return f.read()  -- f None: AttributeError, swallowed *)
        itry (ibind (igetf flt c t id) (fun fp => iload KGcf flt fp iraise)) (iret None)
    | k =>
        itry (ibind (igetf flt c t id) (fun fp => iload k flt fp (iret None)))
             (ibind (purge_impl c id) (fun _ => iret None))
    end.

  Definition icache_get := icache_get_with ipurge.

  (* ---------------------------------------------------------------- *)
  (* never raises, whatever the others do                              *)
  (* ---------------------------------------------------------------- *)
  Definition total {A} (m : MI A) : Prop := forall s, exists r, fst (m s) = Ret r.

  Lemma itry_total {A} (m h : MI A) : total h -> total (itry m h).
  Proof.
    intros H s. unfold itry. destruct (m s) as [[a|] s']; [exists a; reflexivity|apply H].
  Qed.

  Lemma ipurge_total c id : total (ipurge c id).
  Proof. apply itry_total. intro s. exists tt. reflexivity. Qed.

  Lemma purge_never_raises_preempted_l c id sched f :
    exists r, fst (ipurge c id (sched, f)) = Ret r.
  Proof. apply ipurge_total. Qed.

  Lemma get_never_raises_preempted_l flt c t id sched f :
    exists r, fst (icache_get flt c t id (sched, f)) = Ret r.
  Proof.
    unfold icache_get, icache_get_with.
    destruct (i_kind c); apply itry_total; intro s;
      try (exists None; reflexivity);
      unfold ibind; destruct (ipurge_total c id s) as [r Hr];
      destruct (ipurge c id s) as [r0 s0]; cbn in Hr; subst r0; exists None; reflexivity.
  Qed.

  (* ---------------------------------------------------------------- *)
  (* what a preempted lookup can return                                *)
  (* ---------------------------------------------------------------- *)
  (* files only disappear *)
  Definition sub (f' f : fsys) : Prop := forall n x, f' n = Some x -> f n = Some x.

  Definition hoare {A} (P : istate -> Prop) (m : MI A) (Q : A -> istate -> Prop) : Prop :=
    forall s, P s -> match m s with (Ret a, s') => Q a s' | (Exc, s') => P s' end.

  Lemma hoare_bind {A B} P (m : MI A) (k : A -> MI B) Q R :
    hoare P m Q -> (forall a, forall s, Q a s -> match k a s with (Ret b, s') => R b s' | (Exc, s') => P s' end) ->
    hoare P (ibind m k) R.
  Proof.
    intros Hm Hk s Ps. unfold ibind. specialize (Hm s Ps). destruct (m s) as [[a|] s']; [|exact Hm].
    apply Hk, Hm.
  Qed.

  Section Safety.
    Variable f0 : fsys.
    Definition SubP (s : istate) : Prop := sub (snd s) f0.

    Lemma sub_del f n : sub f f0 -> sub (fs_del f n) f0.
    Proof. intros S m x H. unfold fs_del in H. destruct (str_eqb m n); [discriminate|apply S, H]. Qed.

    Lemma sub_clear f : sub f f0 -> sub (fs_clear f) f0.
    Proof. intros S m x H. unfold fs_clear in H. destruct (starts_with s_suds m); [discriminate|apply S, H]. Qed.

    Lemma env_step_sub s : SubP s -> SubP (snd (env_step s)).
    Proof.
      unfold SubP, env_step. destruct s as [[|[|n| |] r] f]; cbn; intro S; auto using sub_del, sub_clear.
    Qed.

    Lemma hoare_getctime n : hoare SubP (isys_getctime n) (fun _ s => SubP s).
    Proof.
      intros s Ps. unfold isys_getctime. pose proof (env_step_sub s Ps) as S1.
      destruct (snd (snd (env_step s)) n); exact S1.
    Qed.

    Lemma hoare_remove n : hoare SubP (isys_remove n) (fun _ s => SubP s).
    Proof.
      intros s Ps. unfold isys_remove. pose proof (env_step_sub s Ps) as S1.
      destruct (env_step s) as [deny s1]. cbn in S1. destruct deny; [exact S1|].
      destruct (snd s1 n); [|exact S1]. unfold SubP. cbn. apply sub_del, S1.
    Qed.

    Lemma hoare_open flt n :
      hoare SubP (isys_open_r flt n) (fun d s => SubP s /\ exists x, f0 n = Some x /\ f_data x = d).
    Proof.
      intros s Ps. unfold isys_open_r. pose proof (env_step_sub s Ps) as S1.
      destruct flt; try exact S1;
        destruct (snd (snd (env_step s)) n) as [x|] eqn:E; try exact S1;
        (split; [exact S1|exists x; split; [apply S1, E|reflexivity]]).
    Qed.

    Lemma hoare_expired c t n : hoare SubP (iremove_if_expired c t n) (fun _ s => SubP s).
    Proof.
      unfold iremove_if_expired. destruct (i_dur c =? 0)%Z; [intros s Ps; exact Ps|].
      eapply hoare_bind; [apply hoare_getctime|]. intros created s Qs. cbn in Qs.
      destruct (created + i_dur c <? t)%Z; [apply (hoare_remove n s Qs)|exact Qs].
    Qed.

    Lemma igetf_from_f0 flt c t id s :
      SubP s ->
      match igetf flt c t id s with
      | (Ret (Some d), s') => SubP s' /\ exists x, f0 (fname (i_kind c) id) = Some x /\ f_data x = d
      | (_, s') => SubP s'
      end.
    Proof.
      intro Ps. unfold igetf, itry.
      assert (H : hoare SubP
                   (ibind (iremove_if_expired c t (fname (i_kind c) id)) (fun _ =>
                    ibind (isys_open_r flt (fname (i_kind c) id)) (fun h => iret (Some h))))
                   (fun r s' => SubP s' /\ match r with
                                           | Some d => exists x, f0 (fname (i_kind c) id) = Some x /\ f_data x = d
                                           | None => True
                                           end)).
      { eapply hoare_bind; [apply hoare_expired|]. intros a s1 Q1. cbn in Q1.
        pose proof (hoare_open flt (fname (i_kind c) id) s1 Q1) as HO. unfold ibind.
        destruct (isys_open_r flt (fname (i_kind c) id) s1) as [[d|] s2]; [|exact HO]. cbn. exact HO. }
      specialize (H s Ps).
      destruct (ibind _ _ s) as [[[d|]|] s']; cbn; try exact H; try apply H.
    Qed.

    Lemma iload_some k flt fp on_none s o s' :
      (forall s0, fst (on_none s0) <> Ret (Some o)) ->
      iload k flt fp on_none s = (Ret (Some o), s') ->
      exists d, fp = Some d /\ deser k d = Some o.
    Proof.
      intros N H. destruct fp as [d|]; cbn in H.
      - exists d. split; [reflexivity|]. unfold ibind, isys_read in H.
        destruct flt; cbn in H; try discriminate H;
          destruct (deser k d) as [o'|]; cbn in H; inversion H; reflexivity.
      - exfalso. apply (N s). rewrite H. reflexivity.
    Qed.

    Lemma get_body_some k flt c t id on_none h sched o :
      (forall s0, fst (on_none s0) <> Ret (Some o)) ->
      (forall s0, fst (h s0) <> Ret (Some o)) ->
      fst (itry (ibind (igetf flt c t id) (fun fp => iload k flt fp on_none)) h (sched, f0)) = Ret (Some o) ->
      exists x, f0 (fname (i_kind c) id) = Some x /\ deser k (f_data x) = Some o.
    Proof.
      intros N1 N2 H.
      assert (P0 : SubP (sched, f0)) by (intros n x Hx; exact Hx).
      pose proof (igetf_from_f0 flt c t id (sched, f0) P0) as G.
      unfold itry, ibind in H.
      destruct (igetf flt c t id (sched, f0)) as [[fp|] s1].
      - destruct (iload k flt fp on_none s1) as [[r|] s2] eqn:L.
        + cbn in H. inversion H; subst r.
          destruct (iload_some k flt fp on_none s1 o s2 N1 L) as [d [-> D]].
          destruct G as [_ [x [F E]]]. exists x. split; [exact F|]. rewrite E. exact D.
        + exfalso. apply (N2 s2). exact H.
      - exfalso. apply (N2 s1). exact H.
    Qed.

    (* a lookup preempted anywhere, any number of times, by removals / clears of other
       instances and by failing removals returns nothing -- or what deser makes of the content the
       entry file had when the lookup started *)
    Lemma get_preempted_returns_stored_l flt c t id sched o :
      fst (icache_get flt c t id (sched, f0)) = Ret (Some o) ->
      exists x, f0 (fname (i_kind c) id) = Some x /\ deser (i_kind c) (f_data x) = Some o.
    Proof.
      unfold icache_get, icache_get_with.
      assert (HN : forall s0, fst (ibind (ipurge c id) (fun _ => iret (@None N)) s0) <> Ret (Some o)).
      { intro s0. unfold ibind. destruct (ipurge c id s0) as [[|] ?]; cbn; discriminate. }
      destruct (i_kind c) eqn:K; intro H.
      - eapply get_body_some in H; [rewrite K in H; exact H| |]; intro s0; cbn; discriminate.
      - eapply get_body_some in H; [rewrite K in H; exact H| |exact HN]; intro s0; cbn; discriminate.
      - eapply get_body_some in H; [rewrite K in H; exact H| |exact HN]; intro s0; cbn; discriminate.
    Qed.
  End Safety.
End Preempt.

(* ---- correspondence: one operation of instance A with one action of the environment placed
   before A's (j+1)-th system call ---- *)
Inductive pop := PGet (flt : fault) | PPurge.
Record pcase := mkpcase {
  p_kind : kind; p_dur : Z; p_now : Z;
  p_entry : option (bytes * Z);        (* content (toy frame) and ctime of A's entry file, if any *)
  p_stored : option N;                 (* the object that was stored under the id, if the file is intact *)
  p_op : pop; p_j : nat; p_act : iact;
  p_res : result; p_exists_after : bool }.

Definition p_id : str := [97]%N.

Definition p_run (c : pcase) : result * bool :=
  let i := mkinst (p_kind c) (p_dur c) in
  let nm := fname (p_kind c) p_id in
  let f := match p_entry c with Some (b, t) => fs_set fs_empty nm (mkfile b t) | None => fs_empty end in
  let sched := repeat INop (p_j c) ++ [p_act c] in
  match p_op c with
  | PGet flt =>
      let (r, s) := icache_get toy_deser flt i (p_now c) p_id (sched, f) in
      (match r with Ret None => RNone | Ret (Some o) => RObj o | Exc => RRaise end,
       match snd s nm with Some _ => true | None => false end)
  | PPurge =>
      let (r, s) := ipurge i p_id (sched, f) in
      (match r with Ret _ => RUnit | Exc => RRaise end, match snd s nm with Some _ => true | None => false end)
  end.

Definition c11_preempt_agrees (c : pcase) : bool :=
  let (r, e) := p_run c in result_eqb r (p_res c) && Bool.eqb e (p_exists_after c).

(* property text: never an exception; a lookup returns nothing or the stored object, and only
   while it is fresh *)
Definition c11_preempt_spec_ok (c : pcase) : bool :=
  match p_op c, p_res c with
  | _, RRaise => false
  | PGet _, RNone => true
  | PGet _, RObj o =>
      match p_stored c, p_entry c with
      | Some o', Some (_, t) => N.eqb o o' && fresh (p_dur c) t (p_now c)
      | _, _ => false
      end
  | PGet _, _ => false
  | PPurge, RUnit => true
  | PPurge, _ => false
  end.
