(* C11 -- the readers over a cache that hands back LIVE objects: a user-defined
   suds.cache.Cache subclass keeping a dict (get returns the stored object itself, nothing
   expires, nothing is serialised).  Several clients share one cache instance.

   MODEL of suds/reader.py DocumentReader.open / DefinitionsReader.open (policy switch, fetch and
   put on a miss, options re-attachment + set_wrapped on a hit) over such a cache.  Because the
   cached Definitions object is shared, a heap records, per WSDL object, whose options are
   attached to it and its wrapped/bare flag: re-attachment is what makes a warm client follow its
   OWN options although the object was built (and is still held) by an earlier client.

   SPEC (from the property text): a client over the warm cache has its own options attached,
   wraps as an uncached client with the same options, fetches nothing. *)
From SV Require Import Lib.Base C11.Model C11.Reader.

Definition memmap := list (str * N).

Fixpoint mem_get (m : memmap) (id : str) : option N :=
  match m with
  | [] => None
  | (k, v) :: m' => if str_eqb k id then Some v else mem_get m' id
  end.
Definition mem_put (m : memmap) (id : str) (o : N) : memmap := (id, o) :: m.

(* WSDL object -> (index of the client whose options are attached, wrapped flag) *)
Definition heap := list (N * (N * bool)).
Fixpoint heap_get (h : heap) (o : N) : option (N * bool) :=
  match h with
  | [] => None
  | (k, v) :: h' => if N.eqb k o then Some v else heap_get h' o
  end.

Record mstate := mkm { m_mem : memmap; m_heap : heap }.

Section MemReader.
  Variable md5 : N -> str.

  (* DocumentReader.open: policy 0 uses the cache; parsed() runs on every open.  The cached
     document is the live object, so parsed() is handed a document earlier opens already
     patched: with such a cache only idempotent parsed() edits leave a warm client like an
     uncached one (the harness uses idempotent edits here). *)
  Definition mdoc_open (pol : N) (m : memmap) (u : N) : list ev * memmap :=
    if N.eqb pol 0
    then match mem_get m (mangle (md5 u) s_document) with
         | Some _ => ([EvParsed u], m)
         | None => ([EvFetch u; EvParsed u], mem_put m (mangle (md5 u) s_document) u)
         end
    else ([EvFetch u; EvParsed u], m).

  Fixpoint mload (pol : N) (m : memmap) (us : list N) : list ev * memmap :=
    match us with
    | [] => ([], m)
    | u :: us' => let (a, m1) := mdoc_open pol m u in
                  let (b, m2) := mload pol m1 us' in (a ++ b, m2)
    end.

  (* DefinitionsReader.open for client number i (its options object is "tag i");
     result: urls fetched, the WSDL object the client holds, the outcome it observes *)
  Definition mdefs_open (w : world) (i : N) (pol : N) (unwrap : bool) (s : mstate)
    : (list ev * N * outcome) * mstate :=
    let wr := w_docstyle w && unwrap in
    let id := mangle (md5 (w_main w)) s_wsdl in
    match (if N.eqb pol 1 then mem_get (m_mem s) id else None) with
    | None =>
        (* wsdl = self.fn(url, self.options); cache.put(id, wsdl) *)
        let (f, m1) := mload pol (m_mem s) (w_docs w) in
        let o := (2000 + i)%N in
        (f, o, COk true wr,
         mkm (if N.eqb pol 1 then mem_put m1 id o else m1) ((o, (i, wr)) :: m_heap s))
    | Some o =>
        (* wsdl.options = self.options; imports likewise; wsdl.set_wrapped() *)
        ([], o, COk true wr, mkm (m_mem s) ((o, (i, wr)) :: m_heap s))
    end.

  (* clients 0, 1, 2 ... over one cache instance *)
  Fixpoint mrun (w : world) (i : N) (s : mstate) (cs : list (N * bool))
    : list (list ev * N * outcome) * mstate :=
    match cs with
    | [] => ([], s)
    | (pol, unwrap) :: cs' =>
        let (r, s1) := mdefs_open w i pol unwrap s in
        let (rs, s2) := mrun w (i + 1) s1 cs' in (r :: rs, s2)
    end.

  (* after all the clients were built: does client j (holding object o) still find its own
     options on its WSDL object?  Not when a later client re-attached to the shared object:
     sharing one live Definitions makes that impossible by design. *)
  Fixpoint still_own (h : heap) (j : N) (rs : list (list ev * N * outcome)) : list bool :=
    match rs with
    | [] => []
    | (_, o, _) :: rs' =>
        (match heap_get h o with Some (t, _) => N.eqb t j | None => false end) :: still_own h (j + 1) rs'
    end.
End MemReader.

(* ---- specification and correspondence ---- *)
Record mobs := mkmobs {
  mo_fetched : list N; mo_parsed : list N; mo_transport : bool; mo_out : outcome;
  mo_wrapped_ref : bool; mo_fp_same : bool }.

(* a client is warm when an earlier client of the same policy (0 or 1) used this cache *)
Fixpoint mspec_run (seen : list N) (cs : list (N * bool)) (obs : list mobs) : bool :=
  match cs, obs with
  | [], [] => true
  | (pol, unwrap) :: cs', c :: obs' =>
      match mo_out c with
      | COk cur wrapped => cur && Bool.eqb wrapped (mo_wrapped_ref c)
      | CRaise => false
      end
      && mo_fp_same c && negb (mo_transport c)
      && (if existsb (N.eqb pol) seen && (N.eqb pol 0 || N.eqb pol 1)
          then match mo_fetched c with [] => true | _ => false end else true)
      && mspec_run (pol :: seen) cs' obs'
  | _, _ => false
  end.

Record mcase := mkmcase {
  mc_md5 : list (N * str);
  mc_world : world;
  mc_clients : list (N * bool);
  mc_obs : list mobs;
  mc_still_own : list bool }.       (* observed after all clients were built *)

Fixpoint mobs_eqb (rs : list (list ev * N * outcome)) (obs : list mobs) : bool :=
  match rs, obs with
  | [], [] => true
  | (f, _, out) :: rs', c :: obs' =>
      list_eqb N.eqb (fetched_of f) (mo_fetched c) && list_eqb N.eqb (parsed_of f) (mo_parsed c)
      && outcome_eqb out (mo_out c) && mobs_eqb rs' obs'
  | _, _ => false
  end.

Definition c11_mem_agrees (c : mcase) : bool :=
  let (rs, s) := mrun (assoc_md5 (mc_md5 c)) (mc_world c) 0 (mkm [] []) (mc_clients c) in
  mobs_eqb rs (mc_obs c) && list_eqb Bool.eqb (still_own (m_heap s) 0 rs) (mc_still_own c).

Definition c11_mem_spec_ok (c : mcase) : bool := mspec_run [] (mc_clients c) (mc_obs c).
