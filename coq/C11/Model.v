(* C11 -- The cache never changes what a client does.

   MODEL of suds/cache.py at system-call granularity: an abstract file system
   (file name -> content bytes + ctime), a clock, cache instances (class, duration)
   sharing one directory, and FileCache/DocumentCache/ObjectCache
   put / get / purge / clear / __check_version / __remove_if_expired / _getf as programs in
   an exception monad, with suds' try/except structure (get purges on any load failure,
   put swallows I/O errors, _getf swallows everything).  Crash / write fault = the put
   program stops after the truncating open with any prefix of the data on disk, optionally
   with a zero-filled tail.

   ser/deser (str(document)+parse, pickle.dumps+pickle.load) are parameters.

   SPEC (second half): written from the property text -- a map id -> (object, stored_at)
   updated by completed puts; a lookup returns nothing or the most recent object stored
   under that id, provided it is still fresh; nothing raises. *)
From SV Require Import Lib.Base.

Definition bytes := list N.
Definition bytes_eqb := str_eqb.

Inductive kind := KGcf | KXml | KPx.     (* FileCache / DocumentCache / ObjectCache *)
Definition kind_eqb (a b : kind) : bool :=
  match a, b with KGcf, KGcf | KXml, KXml | KPx, KPx => true | _, _ => false end.

(* fnsuffix(): "gcf" / "xml" / "px" *)
Definition suffix (k : kind) : str :=
  match k with
  | KGcf => [103; 99; 102]%N
  | KXml => [120; 109; 108]%N
  | KPx => [112; 120]%N
  end.
Definition s_suds : str := [115; 117; 100; 115]%N.                       (* fnprefix "suds" *)
Definition s_version : str := [118; 101; 114; 115; 105; 111; 110]%N.     (* "version" *)
Definition ch_dash : N := 45.
Definition ch_point : N := 46.

(* FileCache.__filename: "%s-%s.%s" % (fnprefix, id, suffix), inside the location *)
Definition fname (k : kind) (id : str) : str := s_suds ++ ch_dash :: id ++ ch_point :: suffix k.

Fixpoint starts_with (p s : str) : bool :=
  match p, s with
  | [], _ => true
  | x :: p', y :: s' => N.eqb x y && starts_with p' s'
  | _ :: _, [] => false
  end.

(* ------------------------------------------------------------------ *)
(* the directory                                                       *)
(* ------------------------------------------------------------------ *)
Record file := mkfile { f_data : bytes; f_ctime : Z }.
Definition fsys := str -> option file.
Definition fs_empty : fsys := fun _ => None.
Definition fs_set (f : fsys) (n : str) (x : file) : fsys := fun m => if str_eqb m n then Some x else f m.
Definition fs_del (f : fsys) (n : str) : fsys := fun m => if str_eqb m n then None else f m.
(* FileCache.clear: every regular file whose name starts with the prefix *)
Definition fs_clear (f : fsys) : fsys := fun m => if starts_with s_suds m then None else f m.

(* ------------------------------------------------------------------ *)
(* exceptions                                                          *)
(* ------------------------------------------------------------------ *)
Inductive exc (A : Type) := Ret (a : A) | Exc.
Arguments Ret {A} a.
Arguments Exc {A}.
Definition M (A : Type) := fsys -> exc A * fsys.
Definition ret {A} (a : A) : M A := fun f => (Ret a, f).
Definition raise {A} : M A := fun f => (Exc, f).
Definition bind {A B} (m : M A) (k : A -> M B) : M B :=
  fun f => match m f with (Ret a, f') => k a f' | (Exc, f') => (Exc, f') end.
(* try: m  except Exception: h *)
Definition try_catch {A} (m : M A) (h : M A) : M A :=
  fun f => match m f with (Ret a, f') => (Ret a, f') | (Exc, f') => h f' end.
Notation "x <- m ;; k" := (bind m (fun x => k)) (at level 61, m at next level, right associativity).

(* injected faults of one operation: an error at open, at read, during write after n bytes
   reached the disk (zf: the rest of the final length is zero-filled), or reported by close
   after all the data reached the disk *)
Inductive fault := NoFault | FOpen | FRead | FWrite (n : nat) (zf : bool) | FClose.

Definition torn (data : bytes) (n : nat) (zf : bool) : bytes :=
  firstn n data ++ (if zf then repeat 0%N (length data - n) else []).

(* system calls *)
Definition sys_getctime (n : str) : M Z :=
  fun f => match f n with Some x => (Ret (f_ctime x), f) | None => (Exc, f) end.
Definition sys_remove (n : str) : M unit :=
  fun f => match f n with Some _ => (Ret tt, fs_del f n) | None => (Exc, f) end.
Definition sys_open_r (flt : fault) (n : str) : M str :=
  fun f => match flt with
           | FOpen => (Exc, f)
           | _ => match f n with Some _ => (Ret n, f) | None => (Exc, f) end
           end.
Definition sys_read (flt : fault) (h : str) : M bytes :=
  fun f => match flt with
           | FRead => (Exc, f)
           | _ => match f h with Some x => (Ret (f_data x), f) | None => (Ret [], f) end
           end.
(* open(name, "wb"): creates or truncates in place *)
Definition sys_open_w (flt : fault) (t : Z) (n : str) : M str :=
  fun f => match flt with
           | FOpen => (Exc, f)
           | _ => (Ret n, fs_set f n (mkfile [] t))
           end.
(* f.write(data) [+ the flush at close] *)
Definition sys_write (flt : fault) (t : Z) (h : str) (data : bytes) : M unit :=
  fun f => match flt with
           | FWrite n zf => (Exc, fs_set f h (mkfile (torn data n zf) t))
           | FClose => (Exc, fs_set f h (mkfile data t))
           | _ => (Ret tt, fs_set f h (mkfile data t))
           end.

Record inst := mkinst { i_kind : kind; i_dur : Z }.     (* duration 0 = never expires *)

Section Cache.
  Variable ser : kind -> N -> bytes.
  Variable deser : kind -> bytes -> option N.
  Variable ver : bytes.                                   (* suds.__version__ *)

  (* FileCache.__remove_if_expired *)
  Definition remove_if_expired (c : inst) (t : Z) (n : str) : M unit :=
    if (i_dur c =? 0)%Z then ret tt
    else created <- sys_getctime n ;;
         if (created + i_dur c <? t)%Z then sys_remove n else ret tt.

  (* FileCache._getf: anything that goes wrong gives None *)
  Definition getf (flt : fault) (c : inst) (t : Z) (id : str) : M (option str) :=
    try_catch
      (_ <- remove_if_expired c t (fname (i_kind c) id) ;;
       h <- sys_open_r flt (fname (i_kind c) id) ;;
       ret (Some h))
      (ret None).

  (* FileCache.purge *)
  Definition purge (c : inst) (id : str) : M unit :=
    try_catch (sys_remove (fname (i_kind c) id)) (ret tt).

  (* FileCache.get / DocumentCache.get / ObjectCache.get *)
  Definition cache_get (flt : fault) (c : inst) (t : Z) (id : str) : M (option N) :=
    match i_kind c with
    | KGcf =>
        (* f = self._getf(id); return f.read()  -- f None: AttributeError, swallowed *)
        try_catch
          (fp <- getf flt c t id ;;
           match fp with
           | None => raise
           | Some h => b <- sys_read flt h ;;
                       match deser KGcf b with Some o => ret (Some o) | None => raise end
           end)
          (ret None)
    | k =>
        try_catch
          (fp <- getf flt c t id ;;
           match fp with
           | None => ret None
           | Some h => b <- sys_read flt h ;;
                       match deser k b with Some o => ret (Some o) | None => raise end
           end)
          (_ <- purge c id ;; ret None)
    end.

  (* FileCache.put (reached from DocumentCache.put / ObjectCache.put with the serialised object) *)
  Definition cache_put (flt : fault) (c : inst) (t : Z) (id : str) (o : N) : M unit :=
    try_catch
      (h <- sys_open_w flt t (fname (i_kind c) id) ;;
       sys_write flt t h (ser (i_kind c) o))
      (ret tt).

  (* DocumentCache.put: only Document / Element instances are stored; anything else is
     ignored.  Objects numbered from 100 on stand for such other values. *)
  Definition storable (k : kind) (o : N) : bool := negb (kind_eqb k KXml && (100 <=? o)%N).

  Definition cache_clear : M unit := fun f => (Ret tt, fs_clear f).

  (* FileCache.__check_version, run by __init__ *)
  Definition check_version (t : Z) : M unit :=
    try_catch
      (h <- sys_open_r NoFault s_version ;;
       v <- sys_read NoFault h ;;
       if bytes_eqb v ver then ret tt else raise)
      (_ <- cache_clear ;;
       h <- sys_open_w NoFault t s_version ;;
       sys_write NoFault t h ver).

  (* ---------------------------------------------------------------- *)
  (* histories                                                         *)
  (* ---------------------------------------------------------------- *)
  Record state := mkstate { fs : fsys; now : Z; insts : nat -> option inst }.

  Inductive op :=
  | OOpen (i : nat) (k : kind) (d : Z)          (* construct (or re-construct) instance i *)
  | OPut (flt : fault) (i : nat) (id : str) (o : N)
  | OGet (flt : fault) (i : nat) (id : str)
  | OPurge (i : nat) (id : str)
  | OClear (i : nat)
  | OAdvance (d : Z)
  (* another suds version / unknown writer used the directory: version file replaced or
     removed, arbitrary files written; the instances of this process are gone *)
  | OForeign (v : option bytes) (files : list (str * bytes)).

  Inductive result := RNone | RObj (o : N) | RUnit | RSkip | RRaise.

  Definition upd {A} (m : nat -> option A) (i : nat) (x : A) : nat -> option A :=
    fun j => if Nat.eqb j i then Some x else m j.

  Definition of_unit (r : exc unit) : result := match r with Ret _ => RUnit | Exc => RRaise end.

  Fixpoint write_files (f : fsys) (t : Z) (l : list (str * bytes)) : fsys :=
    match l with
    | [] => f
    | (n, b) :: l' => write_files (fs_set f n (mkfile b t)) t l'
    end.

  Definition step (s : state) (o : op) : state * result :=
    match o with
    | OOpen i k d =>
        let (r, f) := check_version (now s) (fs s) in
        (mkstate f (now s) (upd (insts s) i (mkinst k d)), of_unit r)
    | OPut flt i id x =>
        match insts s i with
        | None => (s, RSkip)
        | Some c => if storable (i_kind c) x
                    then let (r, f) := cache_put flt c (now s) id x (fs s) in
                         (mkstate f (now s) (insts s), of_unit r)
                    else (s, RUnit)
        end
    | OGet flt i id =>
        match insts s i with
        | None => (s, RSkip)
        | Some c => let (r, f) := cache_get flt c (now s) id (fs s) in
                    (mkstate f (now s) (insts s),
                     match r with Ret None => RNone | Ret (Some x) => RObj x | Exc => RRaise end)
        end
    | OPurge i id =>
        match insts s i with
        | None => (s, RSkip)
        | Some c => let (r, f) := purge c id (fs s) in (mkstate f (now s) (insts s), of_unit r)
        end
    | OClear i =>
        match insts s i with
        | None => (s, RSkip)
        | Some c => let (r, f) := cache_clear (fs s) in (mkstate f (now s) (insts s), of_unit r)
        end
    | OAdvance d => (mkstate (fs s) (now s + d) (insts s), RUnit)
    | OForeign v files =>
        let f1 := write_files (fs s) (now s) files in
        let f2 := match v with
                  | Some b => fs_set f1 s_version (mkfile b (now s))
                  | None => fs_del f1 s_version
                  end in
        (mkstate f2 (now s) (fun _ => None), RUnit)
    end.

  Fixpoint run (s : state) (h : list op) : list (state * result) :=
    match h with
    | [] => []
    | o :: h' => let sr := step s o in sr :: run (fst sr) h'
    end.

  Definition init_state : state := mkstate fs_empty 0 (fun _ => None).

  (* ================================================================ *)
  (* SPECIFICATION, from the property text                             *)
  (* ================================================================ *)
  (* what has been stored: id, cache class -> (object, when); plus the clock and the
     instances (class, duration) -- no files here *)
  Record sstate := mksstate { g : str -> kind -> option (N * Z); snow : Z; sinst : nat -> option inst }.

  Definition g_set (m : str -> kind -> option (N * Z)) (id : str) (k : kind) (x : option (N * Z)) :=
    fun id' k' => if str_eqb id' id && kind_eqb k' k then x else m id' k'.

  (* a put is complete when all of the data reached the file *)
  Definition complete (flt : fault) (k : kind) (o : N) : bool :=
    match flt with
    | NoFault | FRead | FClose => true
    | FOpen => false
    | FWrite n _ => Nat.leb (length (ser k o)) n
    end.

  Definition spec_step (s : sstate) (o : op) : sstate :=
    match o with
    | OOpen i k d => mksstate (g s) (snow s) (upd (sinst s) i (mkinst k d))
    | OPut flt i id x =>
        match sinst s i with
        | None => s
        | Some c => if complete flt (i_kind c) x && storable (i_kind c) x
                    then mksstate (g_set (g s) id (i_kind c) (Some (x, snow s))) (snow s) (sinst s)
                    else s
        end
    | OGet _ _ _ => s
    | OPurge i id =>
        match sinst s i with
        | None => s
        | Some c => mksstate (g_set (g s) id (i_kind c) None) (snow s) (sinst s)
        end
    | OClear i =>
        match sinst s i with
        | None => s
        | Some _ => mksstate (fun _ _ => None) (snow s) (sinst s)
        end
    | OAdvance d => mksstate (g s) (snow s + d) (sinst s)
    | OForeign _ _ => mksstate (fun _ _ => None) (snow s) (fun _ => None)
    end.

  (* still fresh: not past its duration; duration 0 = never dead *)
  Definition fresh (d t tnow : Z) : bool := (d =? 0)%Z || (tnow <=? t + d)%Z.

  (* the observable result r of operation o started in s is allowed *)
  Definition res_ok (s : sstate) (o : op) (r : result) : bool :=
    match o with
    | OGet _ i id =>
        match sinst s i with
        | None => match r with RSkip => true | _ => false end
        | Some c =>
            match r with
            | RNone => true
            | RObj x => match g s id (i_kind c) with
                        | Some (y, t) => N.eqb x y && fresh (i_dur c) t (snow s)
                        | None => false
                        end
            | _ => false
            end
        end
    | _ => match r with RRaise | RNone | RObj _ => false | _ => true end
    end.

  Fixpoint spec_run (s : sstate) (h : list op) (rs : list result) : bool :=
    match h, rs with
    | [], [] => true
    | o :: h', r :: rs' => res_ok s o r && spec_run (spec_step s o) h' rs'
    | _, _ => false
    end.

  Definition init_sstate : sstate := mksstate (fun _ _ => None) 0 (fun _ => None).

  (* well-formed histories: a torn write really is torn and only hits a cache class whose
     format is self-delimiting (the raw FileCache returns whatever bytes it finds); the foreign
     writer is not this suds version *)
  Definition op_ok (s : sstate) (o : op) : bool :=
    match o with
    | OPut (FWrite n _) i id x =>
        match sinst s i with
        | None => true
        | Some c => negb (kind_eqb (i_kind c) KGcf) && Nat.ltb n (length (ser (i_kind c) x))
        end
    | OForeign (Some v) _ => negb (bytes_eqb v ver)
    | _ => true
    end.

  Fixpoint hist_ok (s : sstate) (h : list op) : bool :=
    match h with
    | [] => true
    | o :: h' => op_ok s o && hist_ok (spec_step s o) h'
    end.
End Cache.


(* ------------------------------------------------------------------ *)
(* instantiation used by the correspondence check: objects are small   *)
(* numbers, their serialisation a 5-byte self-delimiting frame         *)
(* ------------------------------------------------------------------ *)
Definition ktag (k : kind) : N := match k with KGcf => 1 | KXml => 2 | KPx => 3 end.
Definition toy_ser (k : kind) (o : N) : bytes := [ktag k; o + 1; o + 1; o + 1; 255]%N.
Definition toy_deser (k : kind) (b : bytes) : option N :=
  match b with
  | [t; a; b1; c; e] =>
      if N.eqb t (ktag k) && N.eqb a b1 && N.eqb a c && N.eqb e 255 && negb (N.eqb a 0)
      then Some (N.pred a) else None
  | _ => None
  end.

Definition result_eqb (a b : result) : bool :=
  match a, b with
  | RNone, RNone | RUnit, RUnit | RSkip, RSkip | RRaise, RRaise => true
  | RObj x, RObj y => N.eqb x y
  | _, _ => false
  end.

(* one history case: the operations, the suds version string, the file names whose presence
   is observed, and per operation what the implementation returned + which of the names exist *)
Record hcase := mkhcase {
  h_ver : bytes;
  h_ops : list op;
  h_names : list str;
  h_obs : list (result * N) }.       (* directory listing as a bit mask over h_names *)

Fixpoint mask (f : fsys) (names : list str) : N :=
  match names with
  | [] => 0
  | n :: r => (match f n with Some _ => 1 | None => 0 end + 2 * mask f r)%N
  end.

Fixpoint trace_eqb (names : list str) (tr : list (state * result)) (obs : list (result * N)) : bool :=
  match tr, obs with
  | [], [] => true
  | m :: tr', o :: obs' =>
      result_eqb (snd m) (fst o) && N.eqb (mask (fs (fst m)) names) (snd o)
      && trace_eqb names tr' obs'
  | _, _ => false
  end.

Definition c11_hist_agrees (c : hcase) : bool :=
  trace_eqb (h_names c) (run toy_ser toy_deser (h_ver c) init_state (h_ops c)) (h_obs c).

Definition c11_hist_spec_ok (c : hcase) : bool :=
  spec_run toy_ser init_sstate (h_ops c) (map fst (h_obs c)).

Definition c11_hist_wf (c : hcase) : bool := hist_ok toy_ser (h_ver c) init_sstate (h_ops c).

(* ------------------------------------------------------------------ *)
(* torn-write sweep: one real cached entry of `len` bytes cut at offset  *)
(* n (optionally zero-filled to len); what get returned, whether the    *)
(* file is still there, what the next get returned                      *)
(* ------------------------------------------------------------------ *)
Inductive sweep_res := SNone | SSame | SOther | SRaised.
Record scase := mkscase {
  s_kind : kind; s_len : N; s_n : N; s_zf : bool;
  s_first : sweep_res; s_exists : bool; s_second : sweep_res }.

Definition sres_eqb (a b : sweep_res) : bool :=
  match a, b with SNone, SNone | SSame, SSame | SOther, SOther | SRaised, SRaised => true | _, _ => false end.

(* property text: a lookup yields nothing or the stored object, never something else, never an
   exception; an entry that yields nothing is removed so that the next load refetches; an entry
   that is cut short cannot yield the object *)
Definition c11_sweep_spec_ok (c : scase) : bool :=
  (sres_eqb (s_first c) SNone && negb (s_exists c) && sres_eqb (s_second c) SNone)
  || (negb (N.ltb (s_n c) (s_len c)) && sres_eqb (s_first c) SSame && sres_eqb (s_second c) SSame && s_exists c).

(* entries written whole over one another (two writers, in-place writes): the shorter new
   entry followed by the tail of the longer old one yields the new object or nothing *)
Definition c11_overlay_spec_ok (r : sweep_res) : bool :=
  match r with SNone | SSame => true | _ => false end.

(* the model on the same entry: object 0 stored through an instance of the class, then torn *)
Definition c11_sweep_agrees (c : scase) : bool :=
  let k := s_kind c in
  let c0 := mkinst k 0 in
  let flt := if N.ltb (s_n c) (s_len c)
             then FWrite (if N.ltb (s_n c) 4 then N.to_nat (s_n c) else 4%nat) (s_zf c) else NoFault in
  let f1 := snd (cache_put toy_ser flt c0 0 [97]%N 0%N fs_empty) in
  let (r1, f2) := cache_get toy_deser NoFault c0 0 [97]%N f1 in
  let (r2, f3) := cache_get toy_deser NoFault c0 0 [97]%N f2 in
  let cv := fun (r : exc (option N)) => match r with Ret None => SNone | Ret (Some 0%N) => SSame
                                                  | Ret (Some _) => SOther | Exc => SRaised end in
  sres_eqb (cv r1) (s_first c) && sres_eqb (cv r2) (s_second c)
  && Bool.eqb (match f2 (fname k [97]%N) with Some _ => true | None => false end) (s_exists c).
