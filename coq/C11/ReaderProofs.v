(* C11 -- the reader layer: a warm cache is not refetched, the policy switch, options
   re-attachment (with the two quirks of the unchanged code as refuted/guarded forms). *)
From SV Require Import Lib.Base C11.Model C11.Reader C11.NameProofs C11.CacheProofs.
From Coq Require Import ZifyBool Lia.

Arguments fname : simpl never.

Section ReaderProofs.
  Variable ser : kind -> N -> bytes.
  Variable deser : kind -> bytes -> option N.
  Variable ver : bytes.
  Variable md5 : N -> str.
  Hypothesis H1 : forall k o, deser k (ser k o) = Some o.

  Notation doc_name k u := (fname k (mangle (md5 u) s_document)).
  Notation wsdl_name k u := (fname k (mangle (md5 u) s_wsdl)).

  (* an entry written completely at time t *)
  Definition written (k : kind) (t : Z) (f : fsys) (n : str) : Prop :=
    exists o, f n = Some (mkfile (ser k o) t).

  Lemma get_miss flt c t id f :
    f (fname (i_kind c) id) = None -> cache_get deser flt c t id f = (Ret None, f).
  Proof. intro E. rewrite cache_get_closed. unfold get_closed. rewrite E. reflexivity. Qed.

  Lemma get_hit c t0 t id f o :
    f (fname (i_kind c) id) = Some (mkfile (ser (i_kind c) o) t0) -> fresh (i_dur c) t0 t = true ->
    cache_get deser NoFault c t id f = (Ret (Some o), f).
  Proof.
    intros E Fr. rewrite cache_get_closed. unfold get_closed. rewrite E.
    assert (X : expired c t (mkfile (ser (i_kind c) o) t0) = false).
    { unfold expired, fresh in *. cbn. lia. }
    rewrite X. cbn. rewrite H1. reflexivity.
  Qed.

  Lemma put_result c t id o f :
    exists f', cache_put ser NoFault c t id o f = (Ret tt, f') /\
               forall m, f' m = if str_eqb m (fname (i_kind c) id) then Some (mkfile (ser (i_kind c) o) t) else f m.
  Proof.
    destruct (cache_put ser NoFault c t id o f) as [r f'] eqn:E. exists f'.
    pose proof (cache_put_closed ser NoFault c t id o f) as [Cr Cf]. rewrite E in Cr, Cf. cbn in Cr, Cf.
    subst r. split; [reflexivity|]. intro m. rewrite Cf. reflexivity.
  Qed.

  (* ---- policy 0: every document entry the load leaves behind was written completely ---- *)
  Definition good (k : kind) (t : Z) (f : fsys) (n : str) : Prop := f n = None \/ written k t f n.

  Lemma doc_open_cold c t u f :
    (0 <= i_dur c)%Z -> good (i_kind c) t f (doc_name (i_kind c) u) ->
    exists fetched f',
      doc_open ser deser md5 c 0 t u f = (Ret fetched, f') /\
      written (i_kind c) t f' (doc_name (i_kind c) u) /\
      (forall n, good (i_kind c) t f n -> good (i_kind c) t f' n) /\
      (forall n, written (i_kind c) t f n -> written (i_kind c) t f' n).
  Proof.
    intros Dur [E|[o E]]; unfold doc_open, bind, r_get, r_put; cbn [N.eqb].
    - rewrite (get_miss _ _ _ _ _ E).
      assert (K : kind_eqb (i_kind c) KXml && negb true = false) by (destruct (i_kind c); reflexivity).
      rewrite K.
      destruct (put_result c t (mangle (md5 u) s_document) u f) as [f' [P L]]. rewrite P. cbn.
      exists [EvFetch u; EvParsed u], f'. split; [reflexivity|]. split; [|split].
      + exists u. rewrite L, str_eqb_refl. reflexivity.
      + intros n [G|[o G]]; unfold good, written; rewrite L;
          destruct (str_eqb n (doc_name (i_kind c) u)); eauto.
      + intros n [o G]. unfold written. rewrite L. destruct (str_eqb n (doc_name (i_kind c) u)); eauto.
    - rewrite (get_hit c t t _ f o E) by (unfold fresh; lia). cbn.
      exists [EvParsed u], f. split; [reflexivity|]. split; [exists o; exact E|]. auto.
  Qed.

  Lemma load_cold c t us f :
    (0 <= i_dur c)%Z ->
    (forall u, In u us -> good (i_kind c) t f (doc_name (i_kind c) u)) ->
    exists fetched f',
      load ser deser md5 c 0 t us f = (Ret fetched, f') /\
      (forall u, In u us -> written (i_kind c) t f' (doc_name (i_kind c) u)) /\
      (forall n, written (i_kind c) t f n -> written (i_kind c) t f' n).
  Proof.
    intro Dur. revert f. induction us as [|u us IH]; intros f G.
    - exists [], f. split; [reflexivity|]. split; [intros u []|auto].
    - destruct (doc_open_cold c t u f Dur (G u (or_introl eq_refl))) as [a [f1 [E [W [Gd Wr]]]]].
      destruct (IH f1) as [b [f2 [E2 [W2 Wr2]]]].
      { intros v Hv. apply Gd. apply G. right. exact Hv. }
      exists (a ++ b), f2. cbn [load]. unfold bind at 1. rewrite E. unfold bind at 1. rewrite E2. cbn.
      split; [reflexivity|]. split.
      + intros v [<-|Hv]; [apply Wr2; exact W|apply W2; exact Hv].
      + intros n Hn. apply Wr2, Wr, Hn.
  Qed.

  Lemma fetched_of_parsed us : fetched_of (map EvParsed us) = [].
  Proof. induction us; [reflexivity|exact IHus]. Qed.

  Lemma parsed_of_parsed us : parsed_of (map EvParsed us) = us.
  Proof. induction us; [reflexivity|cbn; f_equal; exact IHus]. Qed.

  Lemma parsed_of_app a b : parsed_of (a ++ b) = parsed_of a ++ parsed_of b.
  Proof. unfold parsed_of. apply flat_map_app. Qed.

  Lemma load_warm c t0 t us f :
    fresh (i_dur c) t0 t = true ->
    (forall u, In u us -> written (i_kind c) t0 f (doc_name (i_kind c) u)) ->
    load ser deser md5 c 0 t us f = (Ret (map EvParsed us), f).
  Proof.
    intros Fr. induction us as [|u us IH]; intro W; [reflexivity|].
    cbn [load]. unfold bind at 1. unfold doc_open, bind, r_get. cbn [N.eqb].
    destruct (W u (or_introl eq_refl)) as [o E].
    rewrite (get_hit c t0 t _ f o E Fr). cbn.
    unfold bind. rewrite IH by (intros v Hv; apply W; right; exact Hv). reflexivity.
  Qed.

  (* without a cache for this policy the readers do not touch the directory *)
  Lemma load_nocache c pol t us f :
    pol <> 0%N -> exists fetched, load ser deser md5 c pol t us f = (Ret fetched, f).
  Proof.
    intro P. apply N.eqb_neq in P. induction us as [|u us [b IH]]; [exists []; reflexivity|].
    exists ([EvFetch u; EvParsed u] ++ b). cbn [load]. unfold bind at 1. unfold doc_open, bind, r_get, r_put, ret. rewrite P.
    unfold bind. rewrite IH. reflexivity.
  Qed.

  Section Quirks.
    Variables q_none q_stale : bool.
    Notation defs_open := (defs_open ser deser md5 q_none q_stale).

    (* a client built right after another one with the same cache class and policy, while the
       entries are fresh, fetches nothing *)
    Lemma warm_fetches_nothing_l c c' pol t t' w unwrap unwrap' f0 fetched out f1 :
      (pol = 0%N \/ (pol = 1%N /\ i_kind c <> KXml)) ->
      i_kind c' = i_kind c -> (0 <= i_dur c)%Z -> fresh (i_dur c') t t' = true ->
      (forall u, In u (w_docs w) -> f0 (doc_name (i_kind c) u) = None) ->
      f0 (wsdl_name (i_kind c) (w_main w)) = None ->
      defs_open c pol t w unwrap f0 = (Ret (fetched, out), f1) ->
      exists evs out', fst (defs_open c' pol t' w unwrap' f1) = Ret (evs, out') /\ fetched_of evs = []
                       /\ (pol = 0%N -> parsed_of evs = w_docs w).
    Proof.
      intros [->|[-> K]] KK Dur Fr Cold ColdW E.
      - (* policy 0: documents *)
        unfold Reader.defs_open, bind, r_get, r_put, ret in E. cbn [N.eqb] in E.
        destruct (load_cold c t (w_docs w) f0 Dur) as [a [f' [L [W _]]]].
        { intros u Hu. left. apply Cold, Hu. }
        rewrite L in E. inversion E; subst.
        unfold Reader.defs_open, bind, r_get, r_put, ret. cbn [N.eqb].
        rewrite (load_warm c' t t' (w_docs w) f1 Fr).
        { eexists; eexists. split; [reflexivity|]. split; [apply fetched_of_parsed|].
          intros _. apply parsed_of_parsed. }
        intros u Hu. rewrite KK. apply W, Hu.
      - (* policy 1: the WSDL object *)
        unfold Reader.defs_open, bind, r_get, r_put, ret in E. cbn [N.eqb Pos.eqb] in E.
        rewrite (get_miss _ _ _ _ _ ColdW) in E.
        destruct (load_nocache c 1%N t (w_docs w) f0) as [b Lb]; [discriminate|]. rewrite Lb in E.
        assert (KE : kind_eqb (i_kind c) KXml && negb false = false).
        { destruct (i_kind c); try reflexivity. contradiction. }
        rewrite KE in E.
        destruct (put_result c t (mangle (md5 (w_main w)) s_wsdl) (wsdl_obj unwrap) f0) as [f' [P Lk]].
        rewrite P in E. inversion E; subst.
        unfold Reader.defs_open, bind, r_get. cbn [N.eqb Pos.eqb].
        rewrite (get_hit c' t t' _ f1 (wsdl_obj unwrap)); [|rewrite Lk, KK, str_eqb_refl; reflexivity|exact Fr].
        destruct (q_none && existsb negb (w_imps w)); eexists; eexists;
          (split; [reflexivity|split; [reflexivity|discriminate]]).
    Qed.

    (* neither reader uses the cache under any other policy value *)
    Lemma other_policy_no_cache_l c pol t w unwrap f :
      pol <> 0%N -> pol <> 1%N ->
      exists fetched, defs_open c pol t w unwrap f = (Ret (fetched, COk true (w_docstyle w && unwrap)), f).
    Proof.
      intros P0 P1. unfold Reader.defs_open, bind, r_get, r_put, ret.
      rewrite (proj2 (N.eqb_neq pol 1) P1).
      destruct (load_nocache c pol t (w_docs w) f P0) as [b Lb]. rewrite Lb. eexists; reflexivity.
    Qed.

    (* DefinitionsReader.open either finds a loadable WSDL object (policy 1) and re-attaches the
       options, or loads and stores; no cache failure gets out *)
    Lemma load_total c pol t us f :
      exists b f2, load ser deser md5 c pol t us f = (Ret b, f2) /\ parsed_of b = us.
    Proof.
      revert f. induction us as [|u us IH]; intro g; [exists [], g; split; reflexivity|].
      cbn [load]. unfold bind at 1.
      assert (D : exists a g1, doc_open ser deser md5 c pol t u g = (Ret a, g1) /\ parsed_of a = [u]).
      { unfold doc_open, bind, r_get, r_put, ret. destruct (pol =? 0)%N.
        - destruct (get_never_raises_l deser NoFault c t (mangle (md5 u) s_document) g) as [r Hr].
          destruct (cache_get deser NoFault c t (mangle (md5 u) s_document) g) as [r0 g0]. cbn in Hr. subst r0.
          destruct r as [x|]; [eexists; eexists; split; reflexivity|].
          destruct (kind_eqb (i_kind c) KXml && negb true); [eexists; eexists; split; reflexivity|].
          destruct (put_result c t (mangle (md5 u) s_document) u g0) as [g1 [P _]]. rewrite P.
          eexists; eexists; split; reflexivity.
        - eexists; eexists; split; reflexivity. }
      destruct D as [a [g1 [D Pa]]]. rewrite D. destruct (IH g1) as [b [g2 [L Pb]]].
      unfold bind. rewrite L. eexists; eexists. split; [reflexivity|].
      rewrite parsed_of_app, Pa, Pb. reflexivity.
    Qed.

    Lemma defs_open_cases c pol t w unwrap f :
      (exists x o, pol = 1%N /\ f (wsdl_name (i_kind c) (w_main w)) = Some x
                   /\ deser (i_kind c) (f_data x) = Some o
                   /\ defs_open c pol t w unwrap f =
                      (Ret ([], if q_none && existsb negb (w_imps w) then CRaise
                                else COk true (w_docstyle w && (if q_stale then obj_unwrap o else unwrap))), f))
      \/ (exists b f2, defs_open c pol t w unwrap f = (Ret (b, COk true (w_docstyle w && unwrap)), f2)).
    Proof.
      unfold Reader.defs_open, bind.
      destruct (r_get deser (if (pol =? 1)%N then Some c else None) t _ f) as [[[o|]|] f'] eqn:G.
      - left. unfold r_get, ret in G. destruct (pol =? 1)%N eqn:P; [|discriminate G].
        apply N.eqb_eq in P. rewrite cache_get_closed in G. unfold get_closed in G.
        destruct (f (wsdl_name (i_kind c) (w_main w))) as [x|] eqn:F; [|discriminate G].
        destruct (expired c t x); [discriminate G|]. cbn in G.
        destruct (deser (i_kind c) (f_data x)) as [o'|] eqn:D; inversion G; subst.
        exists x, o. split; [reflexivity|]. split; [reflexivity|]. split; [exact D|].
        destruct (q_none && existsb negb (w_imps w)); reflexivity.
      - right. destruct (load_total c pol t (w_docs w) f') as [b [f2 [L _]]]. rewrite L. unfold r_put, ret.
        destruct (pol =? 1)%N.
        + destruct (kind_eqb (i_kind c) KXml && negb false); [eexists; eexists; reflexivity|].
          destruct (put_result c t (mangle (md5 (w_main w)) s_wsdl) (wsdl_obj unwrap) f2) as [g1 [P _]].
          rewrite P. eexists; eexists; reflexivity.
        + eexists; eexists; reflexivity.
      - exfalso. unfold r_get, ret in G. destruct (pol =? 1)%N; [|discriminate G].
        destruct (get_never_raises_l deser NoFault c t (mangle (md5 (w_main w)) s_wsdl) f) as [r Hr].
        rewrite G in Hr. discriminate Hr.
    Qed.
  End Quirks.

  (* ---- whole client constructions: the readers only ever touch entry files ---- *)
  Definition only_entries (f f' : fsys) : Prop :=
    forall m, (forall k id, m <> fname k id) -> f' m = f m.

  Lemma only_entries_refl f : only_entries f f.
  Proof. intros m _. reflexivity. Qed.

  Lemma only_entries_trans f g h : only_entries f g -> only_entries g h -> only_entries f h.
  Proof. intros A B m Hm. rewrite (B m Hm). apply A, Hm. Qed.

  Lemma get_only_entries flt c t id f : only_entries f (snd (cache_get deser flt c t id f)).
  Proof.
    rewrite cache_get_closed. unfold get_closed. intros m Hm.
    assert (D : fs_del f (fname (i_kind c) id) m = f m).
    { unfold fs_del. rewrite str_eqb_neq by apply Hm. reflexivity. }
    destruct (f (fname (i_kind c) id)) as [x|]; [|reflexivity].
    destruct (expired c t x); [exact D|].
    destruct flt; cbn; try reflexivity;
      try (destruct (kind_eqb (i_kind c) KGcf); [reflexivity|exact D]);
      destruct (deser (i_kind c) (f_data x)); cbn; try reflexivity;
      destruct (kind_eqb (i_kind c) KGcf); first [reflexivity|exact D].
  Qed.

  Lemma put_only_entries c t id o f : only_entries f (snd (cache_put ser NoFault c t id o f)).
  Proof.
    intros m Hm. destruct (put_result c t id o f) as [f' [P L]]. rewrite P. cbn. rewrite L.
    rewrite str_eqb_neq by apply Hm. reflexivity.
  Qed.

  Lemma r_get_only_entries c t id f : only_entries f (snd (r_get deser c t id f)).
  Proof. destruct c as [c|]; [apply get_only_entries|apply only_entries_refl]. Qed.

  Lemma r_put_only_entries c t id o isdoc f : only_entries f (snd (r_put ser c t id o isdoc f)).
  Proof.
    destruct c as [c|]; [|apply only_entries_refl]. cbn.
    destruct (kind_eqb (i_kind c) KXml && negb isdoc); [apply only_entries_refl|apply put_only_entries].
  Qed.

  Lemma doc_open_only_entries c pol t u f : only_entries f (snd (doc_open ser deser md5 c pol t u f)).
  Proof.
    unfold doc_open, bind.
    pose proof (r_get_only_entries (if (pol =? 0)%N then Some c else None) t (mangle (md5 u) s_document) f) as G.
    destruct (r_get deser (if (pol =? 0)%N then Some c else None) t (mangle (md5 u) s_document) f) as [[[x|]|] f1];
      cbn in G |- *; try exact G.
    pose proof (r_put_only_entries (if (pol =? 0)%N then Some c else None) t (mangle (md5 u) s_document) u true f1) as P.
    destruct (r_put ser (if (pol =? 0)%N then Some c else None) t (mangle (md5 u) s_document) u true f1) as [[[]|] f2];
      cbn in P |- *; eapply only_entries_trans; eauto.
  Qed.

  Lemma load_only_entries c pol t us f : only_entries f (snd (load ser deser md5 c pol t us f)).
  Proof.
    revert f. induction us as [|u us IH]; intro f; [apply only_entries_refl|].
    cbn [load]. unfold bind at 1.
    pose proof (doc_open_only_entries c pol t u f) as D.
    destruct (doc_open ser deser md5 c pol t u f) as [[a|] f1]; cbn in D |- *; [|exact D].
    unfold bind. pose proof (IH f1) as L.
    destruct (load ser deser md5 c pol t us f1) as [[b|] f2]; cbn in L |- *; eapply only_entries_trans; eauto.
  Qed.

  Lemma defs_open_only_entries q_none q_stale c pol t w unwrap f :
    only_entries f (snd (defs_open ser deser md5 q_none q_stale c pol t w unwrap f)).
  Proof.
    unfold defs_open, bind.
    pose proof (r_get_only_entries (if (pol =? 1)%N then Some c else None) t (mangle (md5 (w_main w)) s_wsdl) f) as G.
    destruct (r_get deser (if (pol =? 1)%N then Some c else None) t (mangle (md5 (w_main w)) s_wsdl) f)
      as [[[o|]|] f1]; cbn in G |- *; try exact G.
    - destruct (q_none && existsb negb (w_imps w)); exact G.
    - pose proof (load_only_entries c pol t (w_docs w) f1) as L.
      destruct (load ser deser md5 c pol t (w_docs w) f1) as [[b|] f2]; cbn in L |- *;
        [|eapply only_entries_trans; eauto].
      pose proof (r_put_only_entries (if (pol =? 1)%N then Some c else None) t
                    (mangle (md5 (w_main w)) s_wsdl) (wsdl_obj unwrap) false f2) as P.
      destruct (r_put ser (if (pol =? 1)%N then Some c else None) t (mangle (md5 (w_main w)) s_wsdl)
                      (wsdl_obj unwrap) false f2) as [[[]|] f3]; cbn in P |- *;
        eapply only_entries_trans; eauto; eapply only_entries_trans; eauto.
  Qed.

  Lemma check_version_same t f : ver_ok ver f = true -> check_version ver t f = (Ret tt, f).
  Proof.
    unfold ver_ok, check_version, try_catch, bind, ret, raise, sys_open_r, sys_read.
    destruct (f s_version) as [x|] eqn:E; [|discriminate]. cbn. rewrite E. cbn. intros ->. reflexivity.
  Qed.

  (* Client(url, cache=K(dir, d), cachingpolicy=p) twice over any directory in which the entries
     of this WSDL are absent (or which carries another version's stamp, whatever it holds):
     the second construction, any time the entries are still fresh for it, fetches nothing *)
  Lemma second_client_fetches_nothing_l q_none q_stale w k d d' pol u1 u2 f0 t dt :
    (pol = 0%N \/ (pol = 1%N /\ k <> KXml)) -> (0 <= d)%Z -> fresh d' t (t + dt) = true ->
    (ver_ok ver f0 = true ->
       (forall u, In u (w_docs w) -> f0 (doc_name k u) = None) /\ f0 (wsdl_name k (w_main w)) = None) ->
    match crun ser deser ver md5 q_none q_stale w (f0, t)
               [CClient k d pol u1; CAdvance dt; CClient k d' pol u2] with
    | [(_, Some (_, _)); _; (_, Some (evs, _))] =>
        fetched_of evs = [] /\ (pol = 0%N -> parsed_of evs = w_docs w)
    | _ => False
    end.
  Proof.
    intros P D Fr Cold. cbn [crun cstep fst].
    pose proof (version_check_l ver t f0) as [VS VC].
    pose proof (check_version_closed ver t f0) as [_ CL].
    destruct (check_version ver t f0) as [r0 f1] eqn:CV. cbn in VS, VC, CL.
    assert (V1 : ver_ok ver f1 = true).
    { destruct (ver_ok ver f0) eqn:V0; [|apply VC; reflexivity].
      rewrite (check_version_same t f0 V0) in CV. inversion CV; subst. exact V0. }
    assert (Cold1 : (forall u, In u (w_docs w) -> f1 (doc_name k u) = None) /\ f1 (wsdl_name k (w_main w)) = None).
    { destruct (ver_ok ver f0) eqn:V0.
      - rewrite (check_version_same t f0 V0) in CV. inversion CV; subst. apply Cold. reflexivity.
      - destruct (VC eq_refl) as [Gone _]. split; intros; apply Gone. }
    destruct Cold1 as [ColdD ColdW].
    destruct (defs_open_cases q_none q_stale (mkinst k d) pol t w u1 f1) as [[x [o [_ [F _]]]]|[b [f2 E]]].
    { cbn in F. rewrite ColdW in F. discriminate F. }
    rewrite E. cbn [fst snd].
    assert (V2 : ver_ok ver f2 = true).
    { pose proof (defs_open_only_entries q_none q_stale (mkinst k d) pol t w u1 f1) as OE. rewrite E in OE. cbn in OE.
      unfold ver_ok in *. rewrite OE; [exact V1|]. intros k' id' Q. symmetry in Q. revert Q. apply fname_not_version. }
    cbn [cstep fst snd]. rewrite (check_version_same (t + dt) f2 V2).
    destruct (warm_fetches_nothing_l q_none q_stale (mkinst k d) (mkinst k d') pol t (t + dt)%Z w u1 u2 f1 b
                (COk true (w_docstyle w && u1)) f2)
      as [evs [out' [W [NoFetch Hooks]]]]; try assumption; try reflexivity.
    destruct (defs_open ser deser md5 q_none q_stale (mkinst k d') pol (t + dt) w u2 f2) as [[r|] f3];
      cbn in W; inversion W; subst. split; assumption.
  Qed.

  (* the options of the client being built are attached to the WSDL and to every imported
     WSDL: as the code should be (imp.imported None skipped), always ... *)
  Lemma options_reattached_l q_stale c pol t w unwrap f :
    exists fetched wr f', defs_open ser deser md5 false q_stale c pol t w unwrap f
                          = (Ret (fetched, COk true wr), f').
  Proof.
    destruct (defs_open_cases false q_stale c pol t w unwrap f) as [[x [o [_ [_ [_ E]]]]]|[b [f2 E]]];
      rewrite E; cbn; eauto.
  Qed.

  (* ... as the code is, only when no wsdl:import of the root WSDL targets a schema *)
  Lemma options_reattached_partial_l q_none q_stale c pol t w unwrap f :
    existsb negb (w_imps w) = false ->
    exists fetched wr f', defs_open ser deser md5 q_none q_stale c pol t w unwrap f
                          = (Ret (fetched, COk true wr), f').
  Proof.
    intro NoSchema.
    destruct (defs_open_cases q_none q_stale c pol t w unwrap f) as [[x [o [_ [_ [_ E]]]]]|[b [f2 E]]];
      rewrite E; rewrite ?NoSchema, ?andb_false_r; cbn; eauto.
  Qed.

  (* the wrapped/bare decision follows the options of the client being built: as the code
     should be (recomputed for a cached object), always ... *)
  Lemma wrapped_follows_options_l q_none c pol t w unwrap f fetched cur wr f' :
    defs_open ser deser md5 q_none false c pol t w unwrap f = (Ret (fetched, COk cur wr), f') ->
    wr = (w_docstyle w && unwrap).
  Proof.
    intro E.
    destruct (defs_open_cases q_none false c pol t w unwrap f) as [[x [o [_ [_ [_ E']]]]]|[b [f2 E']]];
      rewrite E' in E.
    - destruct (q_none && existsb negb (w_imps w)); inversion E; reflexivity.
    - inversion E; reflexivity.
  Qed.

  (* ... as the code is, only when the cached object was built with the same unwrap *)
  Lemma wrapped_follows_options_partial_l q_none q_stale c pol t w unwrap f fetched cur wr f' :
    (forall x o, f (wsdl_name (i_kind c) (w_main w)) = Some x -> deser (i_kind c) (f_data x) = Some o ->
                 obj_unwrap o = unwrap) ->
    defs_open ser deser md5 q_none q_stale c pol t w unwrap f = (Ret (fetched, COk cur wr), f') ->
    wr = (w_docstyle w && unwrap).
  Proof.
    intros Same E.
    destruct (defs_open_cases q_none q_stale c pol t w unwrap f) as [[x [o [_ [F [D E']]]]]|[b [f2 E']]];
      rewrite E' in E.
    - destruct (q_none && existsb negb (w_imps w)); inversion E.
      rewrite (Same x o F D). destruct q_stale; reflexivity.
    - inversion E; reflexivity.
  Qed.
End ReaderProofs.
