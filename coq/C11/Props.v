(* C11 -- The cache never changes what a client does.
   Property theorems only; proofs are in NameProofs.v, CacheProofs.v, ReaderProofs.v.
   ser/deser (str(document)+parse, pickle.dumps+pickle.load), the version string and md5 are
   universally quantified; what is assumed about them is stated as hypotheses H1/H2 of the
   theorems (validated for the generated family by the torn-write sweep of harness/c11.py). *)
From SV Require Import Lib.Base C11.Model C11.Reader C11.NameProofs C11.CacheProofs C11.ReaderProofs
  C11.Interleave C11.MemReader C11.MemProofs C11.Preempt C11.PreemptProofs.

Definition format_roundtrips (ser : kind -> N -> bytes) (deser : kind -> bytes -> option N) : Prop :=
  forall k o, deser k (ser k o) = Some o.
(* no proper prefix of a serialised document / pickled object, with or without a zero-filled
   tail, loads (the raw FileCache has no format and is excluded) *)
Definition format_self_delimiting (ser : kind -> N -> bytes) (deser : kind -> bytes -> option N) : Prop :=
  forall k o n zf, k <> KGcf -> (n < length (ser k o))%nat -> deser k (torn (ser k o) n zf) = None.

(* ------------------------------------------------------------------ *)
(* the cache                                                           *)
(* ------------------------------------------------------------------ *)

(* For EVERY history (any length) of construct / put / torn or failed put / get with open or
   read failures / purge / clear / clock advance / foreign-version directory over any ids and
   any number of instances of the three cache classes sharing the directory: every operation's
   result is allowed by the specification -- a lookup returns nothing or the object of the
   most recent completed store under that id that is still fresh, and nothing raises. *)
Theorem cache_refines_map : forall ser deser ver,
  format_roundtrips ser deser -> format_self_delimiting ser deser ->
  forall h, hist_ok ser ver init_sstate h = true ->
  spec_run ser init_sstate h (map snd (run ser deser ver init_state h)) = true.
Proof. exact cache_refines_map_l. Qed.
Print Assumptions cache_refines_map.

(* the same, read off for one lookup after any history *)
Theorem lookup_after_history : forall ser deser ver,
  format_roundtrips ser deser -> format_self_delimiting ser deser ->
  forall h flt i id, hist_ok ser ver init_sstate h = true ->
  let s := state_after ser deser ver init_state h in
  let a := spec_after ser init_sstate h in
  match snd (step ser deser ver s (OGet flt i id)) with
  | RNone => True
  | RObj o => exists c t, sinst a i = Some c /\ g a id (i_kind c) = Some (o, t)
                          /\ fresh (i_dur c) t (snow a) = true
  | RSkip => sinst a i = None
  | _ => False
  end.
Proof. exact lookup_after_history_l. Qed.
Print Assumptions lookup_after_history.

(* get never raises: whatever the directory holds, whatever fails (no hypothesis on the format) *)
Theorem get_never_raises : forall deser flt c t id f, exists r, fst (cache_get deser flt c t id f) = Ret r.
Proof. exact get_never_raises_l. Qed.
Print Assumptions get_never_raises.

(* damaged entries are removed so that the next load refetches *)
Theorem damaged_entry_removed : forall deser c t id f x,
  i_kind c <> KGcf ->
  f (fname (i_kind c) id) = Some x -> deser (i_kind c) (f_data x) = None ->
  forall flt, flt <> FOpen ->
  let (r, f') := cache_get deser flt c t id f in
  r = Ret None /\ f' (fname (i_kind c) id) = None /\
  (forall m, m <> fname (i_kind c) id -> f' m = f m) /\
  forall flt' t', fst (cache_get deser flt' c t' id f') = Ret None.
Proof. exact damaged_entry_removed_l. Qed.
Print Assumptions damaged_entry_removed.

(* entries past their duration are dead (and removed), whatever they hold *)
Theorem expired_entry_removed : forall deser flt c t id f x,
  f (fname (i_kind c) id) = Some x -> (i_dur c <> 0)%Z -> (f_ctime x + i_dur c < t)%Z ->
  let (r, f') := cache_get deser flt c t id f in
  r = Ret None /\ f' (fname (i_kind c) id) = None.
Proof. exact expired_entry_removed_l. Qed.
Print Assumptions expired_entry_removed.

(* entries written by another suds version: a new instance over a directory whose stamp is
   missing, torn or different removes every entry of every class (foreign files stay) and
   stamps it; a directory stamped by this version is left alone *)
Theorem foreign_version_cleared : forall ver t f,
  (ver_ok ver f = true -> forall m, snd (check_version ver t f) m = f m) /\
  (ver_ok ver f = false ->
     (forall k id, snd (check_version ver t f) (fname k id) = None) /\
     (forall m, starts_with s_suds m = false -> m <> s_version -> snd (check_version ver t f) m = f m) /\
     ver_ok ver (snd (check_version ver t f)) = true).
Proof. exact version_check_l. Qed.
Print Assumptions foreign_version_cleared.

(* put (whatever fails: open, write, close), purge, clear and construction raise nothing *)
Theorem cache_ops_never_raise : forall ser ver flt c t id o f,
  fst (cache_put ser flt c t id o f) = Ret tt /\ fst (purge c id f) = Ret tt /\
  fst (cache_clear f) = Ret tt /\ fst (check_version ver t f) = Ret tt.
Proof. exact cache_ops_never_raise_l. Qed.
Print Assumptions cache_ops_never_raise.

(* the cache does hold what was stored: a completed store is found through any instance of
   the same class on the directory while it is fresh *)
Theorem put_then_get : forall ser deser, format_roundtrips ser deser ->
  forall c c' t t' id o f,
  i_kind c' = i_kind c -> fresh (i_dur c') t t' = true ->
  fst (cache_get deser NoFault c' t' id (snd (cache_put ser NoFault c t id o f))) = Ret (Some o).
Proof. intros ser deser H1 c c' t t' id o f. exact (put_then_get_l ser deser H1 c c' t t' id o f). Qed.
Print Assumptions put_then_get.

(* ids never alias: entry file names are injective in (class, id), no entry is the version
   stamp, and a mangled id determines the digest of the URL and the kind of entry *)
Theorem file_names_injective : forall k k' id id', fname k id = fname k' id' -> k = k' /\ id = id'.
Proof. exact fname_inj_l. Qed.
Print Assumptions file_names_injective.

Theorem version_stamp_is_no_entry : forall k id,
  fname k id <> s_version /\ starts_with s_suds (fname k id) = true /\ starts_with s_suds s_version = false.
Proof. intros. split; [apply fname_not_version|split; [apply fname_starts_suds|apply version_not_suds]]. Qed.
Print Assumptions version_stamp_is_no_entry.

Theorem ids_do_not_alias : forall (md5 : N -> str) (len : nat),
  (forall u, length (md5 u) = len) ->
  forall u u' x x' k k',
    fname k (mangle (md5 u) x) = fname k' (mangle (md5 u') x') -> k = k' /\ md5 u = md5 u' /\ x = x'.
Proof. exact ids_do_not_alias_l. Qed.
Print Assumptions ids_do_not_alias.

(* ------------------------------------------------------------------ *)
(* concurrent users of one directory                                   *)
(* ------------------------------------------------------------------ *)

(* For EVERY sequence of truncating opens, whole-entry writes, lookups, removals and clears
   (hence every interleaving of any number of processes' system calls): a lookup returns nothing
   or an object some process wrote under that very name before -- provided the format rejects
   every mixture of entries written over one another (H3).  The in-place, non-atomic write is
   safe only because of the format. *)
Theorem interleaved_gets_safe : forall ser1 deser1, format_rejects_mixtures ser1 deser1 ->
  forall sched,
  Forall (fun r => match r with
                   | (n, None, _) => True
                   | (n, Some o, writes_before) => In (n, o) writes_before
                   end) (irun ser1 deser1 fs_empty [] sched).
Proof. intros ser1 deser1 H3 sched. exact (interleaved_gets_safe_l ser1 deser1 sched H3). Qed.
Print Assumptions interleaved_gets_safe.

(* the hypothesis is needed: with a format that accepts a mixture, two writers and a reader
   suffice for a lookup to return an object nobody stored, although every entry alone
   round-trips *)
Definition ser_bad (o : N) : bytes := match o with 0%N => [1; 1]%N | _ => [2]%N end.
Definition deser_bad (b : bytes) : option N :=
  match b with
  | [1; 1]%N => Some 0%N | [2]%N => Some 1%N | [2; 1]%N => Some 7%N | _ => None
  end.
Theorem interleaving_needs_format_refuted :
  deser_bad (ser_bad 0) = Some 0%N /\ deser_bad (ser_bad 1) = Some 1%N /\
  irun ser_bad deser_bad fs_empty []
       [ATrunc [110]%N; ATrunc [110]%N; AWrite [110]%N 0; AWrite [110]%N 1; ARead [110]%N]
  = [([110]%N, Some 7%N, [([110]%N, 1%N); ([110]%N, 0%N)])].
Proof. repeat split; vm_compute; reflexivity. Qed.
Print Assumptions interleaving_needs_format_refuted.

(* and satisfiable: one-byte frames *)
Theorem mixture_rejecting_format_exists :
  format_rejects_mixtures (fun o => [o + 1]%N)
                          (fun b => match b with [a] => if (a =? 0)%N then None else Some (N.pred a) | _ => None end).
Proof.
  intros os b o M.
  assert (S : b = [] \/ exists o', In o' os /\ b = [o' + 1]%N).
  { induction M as [|o' b' Hin M IH]; [left; reflexivity|]. right. exists o'. split; [exact Hin|].
    unfold overlay. cbn. destruct IH as [->|[o'' [_ ->]]]; reflexivity. }
  intro D. destruct S as [->|[o' [Hin ->]]]; [discriminate D|].
  replace (o' + 1 =? 0)%N with false in D by (symmetry; apply N.eqb_neq; lia).
  inversion D. replace (N.pred (o' + 1)) with o' by lia. exact Hin.
Qed.
Print Assumptions mixture_rejecting_format_exists.

(* lookups and purges preempted by other instances: before EVERY system call of a get / purge the
   environment may remove any file (another instance's purge, expiry removal, purge after its own
   failed load), clear the folder, or make our os.remove fail -- any schedule, any length.
   Neither get nor purge raises, and a lookup returns nothing or what the entry file held when
   the lookup started. *)
Theorem get_never_raises_preempted : forall deser flt c t id sched f,
  exists r, fst (icache_get deser flt c t id (sched, f)) = Ret r.
Proof. exact get_never_raises_preempted_l. Qed.
Print Assumptions get_never_raises_preempted.

Theorem purge_never_raises_preempted : forall c id sched f,
  exists r, fst (ipurge c id (sched, f)) = Ret r.
Proof. exact purge_never_raises_preempted_l. Qed.
Print Assumptions purge_never_raises_preempted.

Theorem get_preempted_returns_stored : forall deser f0 flt c t id sched o,
  fst (icache_get deser flt c t id (sched, f0)) = Ret (Some o) ->
  exists x, f0 (fname (i_kind c) id) = Some x /\ deser (i_kind c) (f_data x) = Some o.
Proof. exact get_preempted_returns_stored_l. Qed.
Print Assumptions get_preempted_returns_stored.

(* with nobody interfering these are the programs of Model.v *)
Theorem preempted_get_is_get : forall deser flt c t id f,
  icache_get deser flt c t id ([], f) =
  (fst (cache_get deser flt c t id f), ([], snd (cache_get deser flt c t id f))).
Proof. exact icache_get_unpreempted_l. Qed.
Print Assumptions preempted_get_is_get.

(* the blanket try/except in purge is needed: "if os.path.exists(f): os.remove(f)" raises when
   another instance removes the file between the check and the unlink -- and so does the lookup
   of a damaged entry, whose failure handler is purge *)
Theorem purge_check_then_act_refuted :
  let c := mkinst KPx 0 in
  let nm := fname KPx [97]%N in
  let f := fs_set fs_empty nm (mkfile [9; 9]%N 0) in
  fst (ipurge_checked c [97]%N ([INop; IRemove nm], f)) = Exc /\
  fst (icache_get_with toy_deser ipurge_checked NoFault c 0 [97]%N ([INop; INop; INop; IRemove nm], f)) = Exc /\
  fst (icache_get toy_deser NoFault c 0 [97]%N ([INop; INop; INop; IRemove nm], f)) = Ret None.
Proof. vm_compute. repeat split; reflexivity. Qed.
Print Assumptions purge_check_then_act_refuted.

(* ------------------------------------------------------------------ *)
(* the readers                                                         *)
(* ------------------------------------------------------------------ *)

(* a client built after another one with the same cache class and policy, while the entries
   are fresh, fetches nothing (whichever variant of the re-attachment code) *)
Theorem warm_fetches_nothing : forall ser deser md5, format_roundtrips ser deser ->
  forall q_none q_stale c c' pol t t' w unwrap unwrap' f0 fetched out f1,
  (pol = 0%N \/ (pol = 1%N /\ i_kind c <> KXml)) ->
  i_kind c' = i_kind c -> (0 <= i_dur c)%Z -> fresh (i_dur c') t t' = true ->
  (forall u, In u (w_docs w) -> f0 (fname (i_kind c) (mangle (md5 u) s_document)) = None) ->
  f0 (fname (i_kind c) (mangle (md5 (w_main w)) s_wsdl)) = None ->
  defs_open ser deser md5 q_none q_stale c pol t w unwrap f0 = (Ret (fetched, out), f1) ->
  exists evs out', fst (defs_open ser deser md5 q_none q_stale c' pol t' w unwrap' f1) = Ret (evs, out')
                   /\ fetched_of evs = [] /\ (pol = 0%N -> parsed_of evs = w_docs w).
Proof. exact warm_fetches_nothing_l. Qed.
Print Assumptions warm_fetches_nothing.

(* the same for whole constructions (FileCache.__init__ with its version check, then
   DefinitionsReader.open), over any directory that does not hold these entries yet or carries
   another version's stamp: Client(...); time passes; Client(...) -- the second fetches nothing *)
Theorem second_client_fetches_nothing : forall ser deser ver md5, format_roundtrips ser deser ->
  forall q_none q_stale w k d d' pol u1 u2 f0 t dt,
  (pol = 0%N \/ (pol = 1%N /\ k <> KXml)) -> (0 <= d)%Z -> fresh d' t (t + dt) = true ->
  (ver_ok ver f0 = true ->
     (forall u, In u (w_docs w) -> f0 (fname k (mangle (md5 u) s_document)) = None)
     /\ f0 (fname k (mangle (md5 (w_main w)) s_wsdl)) = None) ->
  match crun ser deser ver md5 q_none q_stale w (f0, t)
             [CClient k d pol u1; CAdvance dt; CClient k d' pol u2] with
  | [(_, Some (_, _)); _; (_, Some (evs, _))] =>
      fetched_of evs = [] /\ (pol = 0%N -> parsed_of evs = w_docs w)
  | _ => False
  end.
Proof. exact second_client_fetches_nothing_l. Qed.
Print Assumptions second_client_fetches_nothing.

Example second_client_nonvacuous :
  map snd (crun toy_ser toy_deser [49]%N (fun u => [u]%N) false false (mkworld 1 [1; 2; 3]%N [true] true)
                (fs_empty, 0%Z) [CClient KXml 10 0 true; CAdvance 10; CClient KXml 10 0 false; CAdvance 1;
                                 CClient KXml 10 0 true])
  = [Some ([EvFetch 1; EvParsed 1; EvFetch 2; EvParsed 2; EvFetch 3; EvParsed 3]%N, COk true true); None;
     Some ([EvParsed 1; EvParsed 2; EvParsed 3]%N, COk true false); None;
     Some ([EvFetch 1; EvParsed 1; EvFetch 2; EvParsed 2; EvFetch 3; EvParsed 3]%N, COk true true)].
Proof. vm_compute. reflexivity. Qed.

(* the document plugins' parsed() hook: EVERY open of a document -- whatever the cache holds,
   hit or miss, any policy, any cache class -- runs it, once per document, in load order; so a
   load over a warm cache applies exactly the hooks a cold (or uncached) load applies.  (What a
   policy-0 cache stores is the document before parsed(): the put precedes the hook.) *)
Theorem parsed_hook_on_every_open : forall ser deser md5 c pol t us f,
  exists evs f', load ser deser md5 c pol t us f = (Ret evs, f') /\ parsed_of evs = us.
Proof. exact load_total. Qed.
Print Assumptions parsed_hook_on_every_open.

Theorem warm_open_applies_same_hooks : forall ser deser md5 c c' pol pol' t t' us f f' evs evs' g g',
  load ser deser md5 c pol t us f = (Ret evs, g) ->
  load ser deser md5 c' pol' t' us f' = (Ret evs', g') ->
  parsed_of evs' = parsed_of evs.
Proof.
  intros ser deser md5 c c' pol pol' t t' us f f' evs evs' g g' E E'.
  destruct (load_total ser deser md5 c pol t us f) as [b [f2 [L P]]].
  destruct (load_total ser deser md5 c' pol' t' us f') as [b' [f2' [L' P']]].
  rewrite L in E. rewrite L' in E'. inversion E; inversion E'; subst. congruence.
Qed.
Print Assumptions warm_open_applies_same_hooks.

(* any other policy value: no reader uses the cache, the directory is not touched *)
Theorem other_policy_no_cache : forall ser deser md5 q_none q_stale c pol t w unwrap f,
  pol <> 0%N -> pol <> 1%N ->
  exists fetched, defs_open ser deser md5 q_none q_stale c pol t w unwrap f
                  = (Ret (fetched, COk true (w_docstyle w && unwrap)), f).
Proof. exact other_policy_no_cache_l. Qed.
Print Assumptions other_policy_no_cache.

(* options re-attachment: options_reattached is the claim about the code as it is now
   (q_none = false, repaired in 7f23215).  For the loop as it was (q_none = true) the statement
     forall w ..., building a client over a warm cache ends with the options attached
   is refuted by a WSDL with a wsdl:import of a schema and holds only under the guard "no
   wsdl:import targets a schema"; the harness reports a return of that behaviour as a violation. *)
Theorem options_reattached : forall ser deser md5 q_stale c pol t w unwrap f,
  exists fetched wr f', defs_open ser deser md5 false q_stale c pol t w unwrap f
                        = (Ret (fetched, COk true wr), f').
Proof. exact options_reattached_l. Qed.
Print Assumptions options_reattached.

Theorem options_reattached_partial : forall ser deser md5 q_none q_stale c pol t w unwrap f,
  existsb negb (w_imps w) = false ->
  exists fetched wr f', defs_open ser deser md5 q_none q_stale c pol t w unwrap f
                        = (Ret (fetched, COk true wr), f').
Proof. exact options_reattached_partial_l. Qed.
Print Assumptions options_reattached_partial.

Definition two_clients (q_none q_stale : bool) (w : world) (u1 u2 : bool) :=
  map snd (crun toy_ser toy_deser [49]%N (fun u => [u]%N) q_none q_stale w (fs_empty, 0%Z)
                [CClient KPx 0 1 u1; CClient KPx 0 1 u2]).

Theorem reattach_schema_import_refuted :
  two_clients true true (mkworld 1 [1; 2]%N [false] true) true true
  = [Some ([EvFetch 1; EvParsed 1; EvFetch 2; EvParsed 2]%N, COk true true); Some ([], CRaise)].
Proof. vm_compute. reflexivity. Qed.
Print Assumptions reattach_schema_import_refuted.

(* the wrapped/bare decision (options.unwrap): wrapped_follows_options is the claim about the
   code as it is now (q_stale = false, repaired in 247d4f1).  For the code as it was
   (q_stale = true) the statement
     a client built with unwrap=U over a warm cache wraps as an uncached client with unwrap=U
   is refuted by a cache filled with unwrap=True and a client asking for unwrap=False. *)
Theorem wrapped_follows_options : forall ser deser md5 q_none c pol t w unwrap f fetched cur wr f',
  defs_open ser deser md5 q_none false c pol t w unwrap f = (Ret (fetched, COk cur wr), f') ->
  wr = (w_docstyle w && unwrap).
Proof. exact wrapped_follows_options_l. Qed.
Print Assumptions wrapped_follows_options.

Theorem wrapped_follows_options_partial :
  forall ser deser md5 q_none q_stale c pol t w unwrap f fetched cur wr f',
  (forall x o, f (fname (i_kind c) (mangle (md5 (w_main w)) s_wsdl)) = Some x ->
               deser (i_kind c) (f_data x) = Some o -> obj_unwrap o = unwrap) ->
  defs_open ser deser md5 q_none q_stale c pol t w unwrap f = (Ret (fetched, COk cur wr), f') ->
  wr = (w_docstyle w && unwrap).
Proof. exact wrapped_follows_options_partial_l. Qed.
Print Assumptions wrapped_follows_options_partial.

Theorem wrapped_stale_refuted :
  two_clients false true (mkworld 1 [1]%N [] true) true false
  = [Some ([EvFetch 1; EvParsed 1]%N, COk true true); Some ([], COk true true)]   (* wrapped although unwrap=False *)
  /\ two_clients false false (mkworld 1 [1]%N [] true) true false
  = [Some ([EvFetch 1; EvParsed 1]%N, COk true true); Some ([], COk true false)].
Proof. split; vm_compute; reflexivity. Qed.
Print Assumptions wrapped_stale_refuted.

(* ------------------------------------------------------------------ *)
(* a cache handing back live objects (user-defined in-memory Cache)     *)
(* ------------------------------------------------------------------ *)

(* whatever the cache holds and whichever client built (and still holds) the cached WSDL
   object: the client being built ends with ITS options attached to the object it gets and with
   the wrapped/bare decision of ITS unwrap option -- never the first client's settings *)
Theorem mem_options_reattached : forall md5 w i pol unwrap s,
  let '(f, o, out, s') := mdefs_open md5 w i pol unwrap s in
  out = COk true (w_docstyle w && unwrap) /\
  heap_get (m_heap s') o = Some (i, w_docstyle w && unwrap).
Proof. exact mem_options_reattached_l. Qed.
Print Assumptions mem_options_reattached.

Theorem mem_warm_fetches_nothing : forall md5 w i j pol u1 u2 s,
  pol = 0%N \/ pol = 1%N ->
  let '(_, o1, _, s1) := mdefs_open md5 w i pol u1 s in
  let '(f2, o2, _, _) := mdefs_open md5 w j pol u2 s1 in
  fetched_of f2 = [] /\ (pol = 0%N -> parsed_of f2 = w_docs w) /\ (pol = 1%N -> o2 = o1).
Proof. exact mem_warm_fetches_nothing_l. Qed.
Print Assumptions mem_warm_fetches_nothing.

(* three clients, policy 1: the later ones fetch nothing, each follows its own unwrap; they
   share one object, so in the end only the last one still finds its own options on it *)
Example mem_clients_nonvacuous :
  let (rs, s) := mrun (fun u => [u]%N) (mkworld 1 [1; 2]%N [true] true) 0 (mkm [] [])
                      [(1, true); (1, false); (1, true)]%N in
  rs = [([EvFetch 1; EvParsed 1; EvFetch 2; EvParsed 2]%N, 2000%N, COk true true);
        ([], 2000%N, COk true false); ([], 2000%N, COk true true)]
  /\ still_own (m_heap s) 0 rs = [false; false; true].
Proof. vm_compute. split; reflexivity. Qed.

(* ------------------------------------------------------------------ *)
(* non-vacuity: the hypotheses are satisfiable -- by the very instance   *)
(* the correspondence check evaluates                                   *)
(* ------------------------------------------------------------------ *)
Theorem toy_format_ok : format_roundtrips toy_ser toy_deser /\ format_self_delimiting toy_ser toy_deser.
Proof.
  split.
  - intros k o. unfold toy_ser, toy_deser. rewrite !N.eqb_refl. cbn.
    replace (o + 1 =? 0)%N with false by (symmetry; apply N.eqb_neq; lia). cbn.
    f_equal. lia.
  - intros k o n zf K L. unfold toy_ser in *. cbn in L.
    destruct n as [|[|[|[|[|n]]]]]; [| | | | |lia]; destruct zf; unfold torn; cbn;
      rewrite ?andb_false_r; reflexivity.
Qed.
Print Assumptions toy_format_ok.

Example cache_refines_map_nonvacuous :
  let h := [OOpen 0 KXml 10; OPut NoFault 0 [97]%N 7; OGet NoFault 0 [97]%N; OAdvance 11;
            OGet NoFault 0 [97]%N; OPut (FWrite 2 true) 0 [97]%N 8; OGet NoFault 0 [97]%N] in
  hist_ok toy_ser [49]%N init_sstate h = true /\
  map snd (run toy_ser toy_deser [49]%N init_state h) = [RUnit; RUnit; RObj 7; RUnit; RNone; RUnit; RNone].
Proof. split; vm_compute; reflexivity. Qed.
