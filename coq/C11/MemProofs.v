(* C11 -- readers over a live-object cache: options always re-attached, nothing fetched when warm. *)
From SV Require Import Lib.Base C11.Model C11.Reader C11.MemReader C11.ReaderProofs.

Section MemProofs.
  Variable md5 : N -> str.

  Lemma heap_get_head h o v : heap_get ((o, v) :: h) o = Some v.
  Proof. cbn. rewrite N.eqb_refl. reflexivity. Qed.

  (* whatever the cache holds and whoever built the cached object: the client being built ends
     with ITS options attached to the WSDL object it holds and the wrapped/bare decision of ITS
     unwrap option *)
  Lemma mem_options_reattached_l w i pol unwrap s :
    let '(f, o, out, s') := mdefs_open md5 w i pol unwrap s in
    out = COk true (w_docstyle w && unwrap) /\
    heap_get (m_heap s') o = Some (i, w_docstyle w && unwrap).
  Proof.
    unfold mdefs_open.
    destruct (if (pol =? 1)%N then mem_get (m_mem s) (mangle (md5 (w_main w)) s_wsdl) else None) as [o|].
    - cbn. split; [reflexivity|apply heap_get_head].
    - destruct (mload md5 pol (m_mem s) (w_docs w)) as [f m1]. cbn. split; [reflexivity|apply heap_get_head].
  Qed.

  Definition has (m : memmap) (id : str) : Prop := exists o, mem_get m id = Some o.

  Lemma has_put m id o id' : has m id' -> has (mem_put m id o) id'.
  Proof. intros [x H]. unfold has, mem_put. cbn. destruct (str_eqb id id'); eauto. Qed.

  Lemma has_put_same m id o : has (mem_put m id o) id.
  Proof. unfold has, mem_put. cbn. rewrite str_eqb_refl. eauto. Qed.

  Lemma mdoc_open_has pol m u :
    (forall id, has m id -> has (snd (mdoc_open md5 pol m u)) id) /\
    (pol = 0%N -> has (snd (mdoc_open md5 pol m u)) (mangle (md5 u) s_document)).
  Proof.
    unfold mdoc_open. destruct (pol =? 0)%N eqn:P.
    - destruct (mem_get m (mangle (md5 u) s_document)) as [o|] eqn:G; cbn.
      + split; [auto|]. intros _. exists o. exact G.
      + split; [intros; apply has_put; assumption|intros _; apply has_put_same].
    - cbn. split; [auto|]. intro Q. subst. discriminate P.
  Qed.

  Lemma mload_has pol m us :
    (forall id, has m id -> has (snd (mload md5 pol m us)) id) /\
    (pol = 0%N -> forall u, In u us -> has (snd (mload md5 pol m us)) (mangle (md5 u) s_document)).
  Proof.
    revert m. induction us as [|u us IH]; intro m; [split; [auto|intros _ u []]|].
    cbn [mload]. pose proof (mdoc_open_has pol m u) as [K1 K2].
    destruct (mdoc_open md5 pol m u) as [a m1]. cbn in K1, K2.
    destruct (IH m1) as [L1 L2]. destruct (mload md5 pol m1 us) as [b m2]. cbn in L1, L2 |- *.
    split; [auto|]. intros P v [<-|Hv]; [apply L1, K2, P|apply L2; assumption].
  Qed.

  Lemma mload_warm m us :
    (forall u, In u us -> has m (mangle (md5 u) s_document)) -> mload md5 0 m us = (map EvParsed us, m).
  Proof.
    induction us as [|u us IH]; intro H; [reflexivity|].
    cbn [mload]. unfold mdoc_open. cbn [N.eqb].
    destruct (H u (or_introl eq_refl)) as [o G]. rewrite G.
    rewrite IH by (intros v Hv; apply H; right; exact Hv). reflexivity.
  Qed.

  (* a client after another one with the same policy (0 or 1) over the same cache instance
     fetches nothing; under policy 1 it holds the very same WSDL object *)
  Lemma mem_warm_fetches_nothing_l w i j pol u1 u2 s :
    pol = 0%N \/ pol = 1%N ->
    let '(_, o1, _, s1) := mdefs_open md5 w i pol u1 s in
    let '(f2, o2, _, _) := mdefs_open md5 w j pol u2 s1 in
    fetched_of f2 = [] /\ (pol = 0%N -> parsed_of f2 = w_docs w) /\ (pol = 1%N -> o2 = o1).
  Proof.
    intros [->| ->].
    - unfold mdefs_open. cbn [N.eqb Pos.eqb].
      pose proof (mload_has 0 (m_mem s) (w_docs w)) as [_ L].
      destruct (mload md5 0 (m_mem s) (w_docs w)) as [f m1]. cbn in L |- *.
      rewrite (mload_warm m1 (w_docs w)) by (apply L; reflexivity). cbn.
      split; [|split; [intros _|discriminate]].
      + apply fetched_of_parsed.
      + apply parsed_of_parsed.
    - unfold mdefs_open. cbn [N.eqb Pos.eqb].
      destruct (mem_get (m_mem s) (mangle (md5 (w_main w)) s_wsdl)) as [o|] eqn:G.
      + cbn. rewrite G. cbn. split; [reflexivity|split; [discriminate|auto]].
      + destruct (mload md5 1 (m_mem s) (w_docs w)) as [f m1]. cbn.
        unfold mem_put at 1. cbn. rewrite str_eqb_refl. cbn. split; [reflexivity|split; [discriminate|auto]].
  Qed.
End MemProofs.
