(* C11 -- file names and mangled ids never alias. *)
From SV Require Import Lib.Base C11.Model C11.Reader.

Lemma str_eqb_neq a b : a <> b -> str_eqb a b = false.
Proof.
  intro H. destruct (str_eqb a b) eqn:E; [|reflexivity].
  apply str_eqb_eq in E. contradiction.
Qed.

Lemma suffix_tail_inj k k' (a b : str) :
  a ++ ch_point :: suffix k = b ++ ch_point :: suffix k' -> k = k' /\ a = b.
Proof.
  intro H.
  assert (R : rev (a ++ ch_point :: suffix k) = rev (b ++ ch_point :: suffix k')) by (rewrite H; reflexivity).
  rewrite !rev_app_distr in R.
  destruct k, k'; cbn in R; try discriminate R; split; try reflexivity.
  - change (ch_point :: suffix KGcf) with ([ch_point; 103; 99; 102]%N) in H. eapply app_inv_tail; exact H.
  - change (ch_point :: suffix KXml) with ([ch_point; 120; 109; 108]%N) in H. eapply app_inv_tail; exact H.
  - change (ch_point :: suffix KPx) with ([ch_point; 112; 120]%N) in H. eapply app_inv_tail; exact H.
Qed.

(* FileCache.__filename is injective in (class suffix, id) *)
Lemma fname_inj_l k k' id id' : fname k id = fname k' id' -> k = k' /\ id = id'.
Proof.
  unfold fname. intro H. apply app_inv_head in H. inversion H as [H1].
  apply suffix_tail_inj in H1. exact H1.
Qed.

Lemma fname_starts_suds k id : starts_with s_suds (fname k id) = true.
Proof. reflexivity. Qed.

Lemma version_not_suds : starts_with s_suds s_version = false.
Proof. reflexivity. Qed.

Lemma fname_not_version k id : fname k id <> s_version.
Proof.
  intro H. pose proof (fname_starts_suds k id) as S. rewrite H in S. discriminate S.
Qed.

(* entries of different ids or classes are different files; the version stamp is no entry;
   clear() spares exactly the names not starting with the prefix *)
Lemma fname_eqb_false k k' id id' :
  (k <> k' \/ id <> id') -> str_eqb (fname k id) (fname k' id') = false.
Proof.
  intro H. apply str_eqb_neq. intro E. apply fname_inj_l in E. destruct E, H; contradiction.
Qed.

(* Reader.mangle: digests have a fixed length, so (digest, kind) is recovered from the id *)
Lemma app_same_length_inj {A} (a b c d : list A) :
  length a = length b -> a ++ c = b ++ d -> a = b /\ c = d.
Proof.
  revert b; induction a as [|x a IH]; intros [|y b] L H; cbn in *; try discriminate L.
  - split; [reflexivity|exact H].
  - inversion H; subst. injection L as L. destruct (IH b L H2) as [-> ->]. split; reflexivity.
Qed.

Lemma mangle_inj_l h h' x x' :
  length h = length h' -> mangle h x = mangle h' x' -> h = h' /\ x = x'.
Proof.
  unfold mangle. intros L H. apply app_same_length_inj in H; [|exact L].
  destruct H as [-> H]. inversion H. split; reflexivity.
Qed.

Lemma ids_do_not_alias_l (md5 : N -> str) (len : nat) :
  (forall u, length (md5 u) = len) ->
  forall u u' x x' k k',
    fname k (mangle (md5 u) x) = fname k' (mangle (md5 u') x') ->
    k = k' /\ md5 u = md5 u' /\ x = x'.
Proof.
  intros L u u' x x' k k' H. apply fname_inj_l in H. destruct H as [-> H].
  apply mangle_inj_l in H; [|rewrite !L; reflexivity]. destruct H. auto.
Qed.

(* the two kinds of id the readers use differ *)
Lemma document_wsdl_differ : s_document <> s_wsdl.
Proof. discriminate. Qed.
