(* C11 -- reader layer on top of the cache model: suds/reader.py Reader.mangle,
   DocumentReader.open / __cache, DefinitionsReader.open / __cache (policy switch, fall back to
   fetch and re-put on a miss, options re-attached to a cached WSDL and its imports), the
   cache construction of Client.__init__, and client scenarios over one cache directory.

   What a pickled Definitions object *is* stays abstract: object number 1000 + (1 if it was
   built with unwrap=True); the document at url u is object number u (u < 1000).  Which
   documents a load opens, and whether each wsdl:import of the root WSDL targets a WSDL or a
   schema, are inputs (w_docs, w_imps).

   Two defects found with this check and since repaired in suds (commits 7f23215, 247d4f1) are
   kept as switches, both false for the code as it is now; the harness probes the implementation
   and reports a switch that flips back as a violation under the defect's own key, it never
   silently follows it.  The claims are options_reattached / wrapped_follows_options (switches
   false); the _partial/_refuted theorems document why the repaired loop matters.
     q_none : the re-attachment loop dereferenced imp.imported, which is None for a
              wsdl:import whose target is a schema  -> AttributeError
     q_stale: body.wrapped, computed from options.unwrap when the WSDL object was built, was not
              recomputed for a cached object *)
From SV Require Import Lib.Base C11.Model.

Definition s_document : str := [100; 111; 99; 117; 109; 101; 110; 116]%N.   (* "document" *)
Definition s_wsdl : str := [119; 115; 100; 108]%N.                           (* "wsdl" *)

(* Reader.mangle: '%s-%s' % (md5(name).hexdigest(), x) *)
Definition mangle (h : str) (x : str) : str := h ++ ch_dash :: x.

Record world := mkworld {
  w_main : N;               (* url of the root WSDL *)
  w_docs : list N;          (* urls DocumentReader.open is called with during a load, in order *)
  w_imps : list bool;       (* per wsdl:import of the root: true = WSDL target, false = schema *)
  w_docstyle : bool }.      (* some operation has a single complex element part (wrappable) *)

Inductive outcome := COk (options_current : bool) (wrapped : bool) | CRaise.

Definition wsdl_obj (unwrap : bool) : N := if unwrap then 1001%N else 1000%N.
Definition obj_unwrap (o : N) : bool := N.odd o.

(* what a DocumentReader.open does besides the cache: EvFetch u -- the document is fetched from
   the store/transport, the document plugins' loaded() hooks run on its bytes and it is parsed;
   EvParsed u -- the document plugins' parsed() hooks run on the document's root.
   Position of the hooks (the point of this part of the model): loaded() runs inside __fetch,
   i.e. only on a miss and BEFORE cache.put, so what a policy-0 cache stores is the document after
   loaded() and before parsed(); parsed() runs on EVERY open, cached or not.  Under policy 1
   the WSDL object built from the documents AFTER both hooks is what is stored, and a hit opens
   no document at all. *)
Inductive ev := EvFetch (u : N) | EvParsed (u : N).
Definition fetched_of (l : list ev) : list N :=
  flat_map (fun e => match e with EvFetch u => [u] | EvParsed _ => [] end) l.
Definition parsed_of (l : list ev) : list N :=
  flat_map (fun e => match e with EvParsed u => [u] | EvFetch _ => [] end) l.

Section Reader.
  Variable ser : kind -> N -> bytes.
  Variable deser : kind -> bytes -> option N.
  Variable ver : bytes.
  Variable md5 : N -> str.
  Variables q_none q_stale : bool.

  (* options.cache or NoCache() *)
  Definition r_get (c : option inst) (t : Z) (id : str) : M (option N) :=
    match c with Some i => cache_get deser NoFault i t id | None => ret None end.
  (* DocumentCache.put stores Document / Element instances only *)
  Definition r_put (c : option inst) (t : Z) (id : str) (o : N) (isdoc : bool) : M unit :=
    match c with
    | Some i => if kind_eqb (i_kind i) KXml && negb isdoc then ret tt
                else cache_put ser NoFault i t id o
    | None => ret tt
    end.

  (* DocumentReader.open; the value is what happened besides the cache *)
  Definition doc_open (c : inst) (pol : N) (t : Z) (u : N) : M (list ev) :=
    let cache := if N.eqb pol 0 then Some c else None in
    x <- r_get cache t (mangle (md5 u) s_document) ;;
    match x with
    | Some _ => ret [EvParsed u]                          (* self.plugins.document.parsed(...) *)
    | None =>                                             (* xml = self.__fetch(url); cache.put(id, xml) *)
        _ <- r_put cache t (mangle (md5 u) s_document) u true ;; ret [EvFetch u; EvParsed u]
    end.

  Fixpoint load (c : inst) (pol : N) (t : Z) (us : list N) : M (list ev) :=
    match us with
    | [] => ret []
    | u :: us' => a <- doc_open c pol t u ;; b <- load c pol t us' ;; ret (a ++ b)
    end.

  (* DefinitionsReader.open *)
  Definition defs_open (c : inst) (pol : N) (t : Z) (w : world) (unwrap : bool)
    : M (list ev * outcome) :=
    let cache := if N.eqb pol 1 then Some c else None in
    x <- r_get cache t (mangle (md5 (w_main w)) s_wsdl) ;;
    match x with
    | None =>
        f <- load c pol t (w_docs w) ;;
        _ <- r_put cache t (mangle (md5 (w_main w)) s_wsdl) (wsdl_obj unwrap) false ;;
        ret (f, COk true (w_docstyle w && unwrap))
    | Some o =>
        (* wsdl.options = self.options; for imp in wsdl.imports: imp.imported.options = ... *)
        if q_none && existsb negb (w_imps w) then ret ([], CRaise)
        else ret ([], COk true (w_docstyle w && (if q_stale then obj_unwrap o else unwrap)))
    end.

  (* scenarios over one directory *)
  Inductive cop :=
  | CClient (k : kind) (d : Z) (pol : N) (unwrap : bool)   (* Client(url, cache=K(dir, d), cachingpolicy=pol, unwrap=..) *)
  | CPlant (name : str) (content : bytes)                   (* an entry file is overwritten (torn, foreign) *)
  | CRemove (name : str)
  | CAdvance (d : Z).

  Definition cstate := (fsys * Z)%type.

  Definition cstep (w : world) (s : cstate) (o : cop) : cstate * option (list ev * outcome) :=
    let (f, t) := s in
    match o with
    | CClient k d pol unwrap =>
        let (_, f1) := check_version ver t f in
        match defs_open (mkinst k d) pol t w unwrap f1 with
        | (Ret r, f2) => ((f2, t), Some r)
        | (Exc, f2) => ((f2, t), Some ([], CRaise))
        end
    | CPlant n b => ((fs_set f n (mkfile b t), t), None)
    | CRemove n => ((fs_del f n, t), None)
    | CAdvance d => ((f, (t + d)%Z), None)
    end.

  Fixpoint crun (w : world) (s : cstate) (h : list cop) : list (cstate * option (list ev * outcome)) :=
    match h with
    | [] => []
    | o :: h' => let sr := cstep w s o in sr :: crun w (fst sr) h'
    end.
End Reader.

(* ================================================================== *)
(* SPECIFICATION of a client scenario, from the property text          *)
(* ================================================================== *)
(* what the harness observed for one Client(...) *)
Record cobs := mkcobs {
  o_fetched : list N;        (* urls fetched from the document store *)
  o_parsed : list N;         (* urls the client's DocumentPlugin.parsed() hook was called with *)
  o_transport : bool;        (* the transport was asked for a document *)
  o_out : outcome;           (* constructed (options identity, body.wrapped of operation f) or raised *)
  o_wrapped_ref : bool;      (* body.wrapped of the same client built with no cache *)
  o_fp_same : bool;          (* operations, types, factory objects, requests, decoded replies equal the uncached client's *)
  o_reply_cached : bool }.   (* an invocation touched the cache or changed the directory *)

(* (class, policy, time): a client of that class and policy found nothing usable and stored
   everything it loaded at that time *)
Definition warm_at (k : kind) (p : N) (d t : Z) (l : list (kind * N * Z)) : bool :=
  existsb (fun x => kind_eqb (fst (fst x)) k && N.eqb (snd (fst x)) p && fresh d (snd x) t) l.

(* which (class, policy) combinations store anything: documents under policy 0, the WSDL object
   under policy 1 in an object cache *)
Definition warms (k : kind) (pol : N) : bool :=
  match k with
  | KPx => N.eqb pol 0 || N.eqb pol 1
  | KXml => N.eqb pol 0
  | KGcf => false
  end.

(* "A client built over a warm cache ... fetches nothing": when an earlier client of the same
   class and policy stored everything and that is still fresh for this client's duration *)
Definition cobs_ok (warm : list (kind * N * Z)) (t : Z) (o : cop) (b : option cobs) : bool :=
  match o, b with
  | CClient k d pol unwrap, Some c =>
      match o_out c with
      | COk cur wrapped => cur && Bool.eqb wrapped (o_wrapped_ref c)
      | CRaise => false
      end
      && o_fp_same c && negb (o_reply_cached c) && negb (o_transport c)
      && (if warm_at k pol d t warm then match o_fetched c with [] => true | _ => false end else true)
  | CClient _ _ _ _, None => false
  | _, _ => true
  end.

Fixpoint cspec_run (w : world) (warm : list (kind * N * Z)) (t : Z) (h : list cop) (obs : list (option cobs))
  : bool :=
  match h, obs with
  | [], [] => true
  | o :: h', b :: obs' =>
      cobs_ok warm t o b &&
      match o with
      | CClient k d pol _ =>
          let all := match b with
                     | Some c => list_eqb N.eqb (o_fetched c) (w_docs w)
                     | None => false
                     end in
          cspec_run w (if warms k pol && all then (k, pol, t) :: warm else warm) t h' obs'
      | CAdvance d => cspec_run w warm (t + d)%Z h' obs'
      | _ => cspec_run w [] t h' obs'          (* entries damaged / removed by hand *)
      end
  | _, _ => false
  end.

(* ------------------------------------------------------------------ *)
(* correspondence case                                                 *)
(* ------------------------------------------------------------------ *)
Record ccase := mkccase {
  c_ver : bytes;
  c_md5 : list (N * str);             (* url -> hexdigest as computed by hashlib *)
  c_world : world;
  c_quirks : bool * bool;             (* which variant the implementation was probed to be *)
  c_ops : list cop;
  c_names : list str;
  c_obs : list (option cobs * N) }.     (* directory listing as a bit mask over c_names *)

Fixpoint assoc_md5 (l : list (N * str)) (u : N) : str :=
  match l with
  | [] => []
  | (v, h) :: l' => if N.eqb u v then h else assoc_md5 l' u
  end.

Definition outcome_eqb (a b : outcome) : bool :=
  match a, b with
  | COk x y, COk x' y' => Bool.eqb x x' && Bool.eqb y y'
  | CRaise, CRaise => true
  | _, _ => false
  end.

Fixpoint ctrace_eqb (names : list str) (tr : list (cstate * option (list ev * outcome)))
         (obs : list (option cobs * N)) : bool :=
  match tr, obs with
  | [], [] => true
  | (s, r) :: tr', (b, pres) :: obs' =>
      match r, b with
      | None, None => true
      | Some (f, out), Some c => list_eqb N.eqb (fetched_of f) (o_fetched c)
                                 && list_eqb N.eqb (parsed_of f) (o_parsed c) && outcome_eqb out (o_out c)
      | _, _ => false
      end
      && N.eqb (mask (fst s) names) pres
      && ctrace_eqb names tr' obs'
  | _, _ => false
  end.

Definition c11_client_agrees (c : ccase) : bool :=
  ctrace_eqb (c_names c)
    (crun toy_ser toy_deser (c_ver c) (assoc_md5 (c_md5 c)) (fst (c_quirks c)) (snd (c_quirks c))
          (c_world c) (fs_empty, 0%Z) (c_ops c))
    (c_obs c).

Definition c11_client_spec_ok (c : ccase) : bool :=
  cspec_run (c_world c) [] 0%Z (c_ops c) (map fst (c_obs c)).
