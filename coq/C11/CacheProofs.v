(* C11 -- the cache model refines the map "id -> latest fresh completed store". *)
From SV Require Import Lib.Base C11.Model C11.NameProofs.
From Coq Require Import ZifyBool Lia.

Arguments fname : simpl never.

(* ------------------------------------------------------------------ *)
(* closed forms of the programs (no hypotheses about ser/deser)        *)
(* ------------------------------------------------------------------ *)
Definition expired (c : inst) (t : Z) (x : file) : bool :=
  negb (i_dur c =? 0)%Z && (f_ctime x + i_dur c <? t)%Z.

Section Closed.
  Variable ser : kind -> N -> bytes.
  Variable deser : kind -> bytes -> option N.
  Variable ver : bytes.

  Definition get_closed (flt : fault) (c : inst) (t : Z) (id : str) (f : fsys) : exc (option N) * fsys :=
    let n := fname (i_kind c) id in
    match f n with
    | None => (Ret None, f)
    | Some x =>
        if expired c t x then (Ret None, fs_del f n) else
        match flt with
        | FOpen => (Ret None, f)
        | FRead => (Ret None, if kind_eqb (i_kind c) KGcf then f else fs_del f n)
        | _ => match deser (i_kind c) (f_data x) with
               | Some o => (Ret (Some o), f)
               | None => (Ret None, if kind_eqb (i_kind c) KGcf then f else fs_del f n)
               end
        end
    end.

  Lemma fs_del_same f n : fs_del f n n = None.
  Proof. unfold fs_del. rewrite str_eqb_refl. reflexivity. Qed.

  Lemma cache_get_closed flt c t id f : cache_get deser flt c t id f = get_closed flt c t id f.
  Proof.
    destruct c as [k d].
    unfold cache_get, get_closed, getf, remove_if_expired, purge, expired, try_catch, bind, ret, raise,
      sys_getctime, sys_remove, sys_open_r, sys_read; cbn [i_kind i_dur].
    destruct k; cbn [kind_eqb]; set (nm := fname _ id); clearbody nm;
      destruct (d =? 0)%Z eqn:D; cbn [negb andb];
      destruct (f nm) as [x|] eqn:E; cbn;
      try (destruct flt; rewrite ?E; reflexivity);
      try (destruct (f_ctime x + d <? t)%Z eqn:X; cbn; rewrite ?fs_del_same, ?E; cbn;
           destruct flt; cbn; rewrite ?fs_del_same, ?E; cbn; try reflexivity;
           destruct (deser _ (f_data x)); cbn; rewrite ?E; reflexivity);
      try (destruct flt; cbn; rewrite ?E; cbn; try reflexivity;
           destruct (deser _ (f_data x)); cbn; rewrite ?E; reflexivity).
  Qed.

  (* get never lets an exception out, whatever the directory holds and whatever fails *)
  Lemma get_never_raises_l flt c t id f : exists r, fst (cache_get deser flt c t id f) = Ret r.
  Proof.
    rewrite cache_get_closed. unfold get_closed.
    destruct (f (fname (i_kind c) id)) as [x|]; [|eexists; reflexivity].
    destruct (expired c t x); [eexists; reflexivity|].
    destruct flt; try (eexists; reflexivity);
      destruct (deser (i_kind c) (f_data x)); eexists; reflexivity.
  Qed.

  (* content of the directory after put, name by name *)
  Definition put_lookup (flt : fault) (c : inst) (t : Z) (id : str) (o : N) (f : fsys) (m : str) : option file :=
    if str_eqb m (fname (i_kind c) id)
    then match flt with
         | FOpen => f m
         | FWrite n zf => Some (mkfile (torn (ser (i_kind c) o) n zf) t)
         | _ => Some (mkfile (ser (i_kind c) o) t)
         end
    else f m.

  Lemma cache_put_closed flt c t id o f :
    fst (cache_put ser flt c t id o f) = Ret tt /\
    forall m, snd (cache_put ser flt c t id o f) m = put_lookup flt c t id o f m.
  Proof.
    unfold cache_put, put_lookup, try_catch, bind, ret, sys_open_w, sys_write.
    set (nm := fname (i_kind c) id). clearbody nm.
    destruct flt; cbn; (split; [reflexivity|]); intro m; unfold fs_set;
      destruct (str_eqb m nm); reflexivity.
  Qed.

  Lemma purge_closed c id f :
    fst (purge c id f) = Ret tt /\ forall m, snd (purge c id f) m = fs_del f (fname (i_kind c) id) m.
  Proof.
    unfold purge, try_catch, sys_remove, ret.
    set (nm := fname (i_kind c) id). clearbody nm.
    destruct (f nm) eqn:E; cbn; (split; [reflexivity|]); intro m; [reflexivity|].
    unfold fs_del. destruct (str_eqb m nm) eqn:Q; [|reflexivity].
    apply str_eqb_eq in Q. subst m. exact E.
  Qed.

  Definition ver_ok (f : fsys) : bool :=
    match f s_version with Some x => bytes_eqb (f_data x) ver | None => false end.

  Definition version_lookup (t : Z) (f : fsys) (m : str) : option file :=
    if ver_ok f then f m
    else if str_eqb m s_version then Some (mkfile ver t)
    else if starts_with s_suds m then None else f m.

  Lemma check_version_closed t f :
    fst (check_version ver t f) = Ret tt /\
    forall m, snd (check_version ver t f) m = version_lookup t f m.
  Proof.
    unfold check_version, version_lookup, ver_ok, try_catch, bind, ret, raise, sys_open_r, sys_read,
      sys_open_w, sys_write, cache_clear.
    destruct (f s_version) as [x|] eqn:E; cbn; rewrite ?E; cbn.
    - destruct (bytes_eqb (f_data x) ver); cbn; (split; [reflexivity|]); intro m; [reflexivity|].
      unfold fs_set, fs_clear. destruct (str_eqb m s_version); reflexivity.
    - split; [reflexivity|]. intro m. unfold fs_set, fs_clear. destruct (str_eqb m s_version); reflexivity.
  Qed.
  (* put / purge / clear / construction let no I/O failure out *)
  Lemma cache_ops_never_raise_l flt c t id o f :
    fst (cache_put ser flt c t id o f) = Ret tt /\ fst (purge c id f) = Ret tt /\
    fst (cache_clear f) = Ret tt /\ fst (check_version ver t f) = Ret tt.
  Proof.
    split; [apply cache_put_closed|]. split; [apply purge_closed|]. split; [reflexivity|apply check_version_closed].
  Qed.

  (* an entry past its duration is dead: nothing is returned and the file is removed,
     whatever it holds; duration 0 never expires *)
  Lemma expired_entry_removed_l flt c t id f x :
    f (fname (i_kind c) id) = Some x -> (i_dur c <> 0)%Z -> (f_ctime x + i_dur c < t)%Z ->
    let (r, f') := cache_get deser flt c t id f in
    r = Ret None /\ f' (fname (i_kind c) id) = None.
  Proof.
    intros F D X. rewrite cache_get_closed. unfold get_closed. rewrite F.
    assert (E : expired c t x = true) by (unfold expired; lia).
    rewrite E. split; [reflexivity|apply fs_del_same].
  Qed.

  (* the version stamp: a directory stamped by this version is left alone by a new instance;
     any other stamp (missing, torn, another version) makes the new instance remove every
     entry of every class, keep foreign files, and stamp the directory *)
  Lemma version_check_l t f :
    (ver_ok f = true -> forall m, snd (check_version ver t f) m = f m) /\
    (ver_ok f = false ->
       (forall k id, snd (check_version ver t f) (fname k id) = None) /\
       (forall m, starts_with s_suds m = false -> m <> s_version -> snd (check_version ver t f) m = f m) /\
       ver_ok (snd (check_version ver t f)) = true).
  Proof.
    pose proof (check_version_closed t f) as [_ C]. split; intro V.
    - intro m. rewrite C. unfold version_lookup. rewrite V. reflexivity.
    - split; [|split].
      + intros k id. rewrite C. unfold version_lookup. rewrite V.
        rewrite (str_eqb_neq _ _ (fname_not_version k id)), fname_starts_suds. reflexivity.
      + intros m S NV. rewrite C. unfold version_lookup. rewrite V, S, (str_eqb_neq _ _ NV). reflexivity.
      + unfold ver_ok at 1. rewrite C. unfold version_lookup. rewrite V, str_eqb_refl. cbn. apply str_eqb_refl.
  Qed.
End Closed.

(* ------------------------------------------------------------------ *)
(* the refinement                                                      *)
(* ------------------------------------------------------------------ *)
Section Refine.
  Variable ser : kind -> N -> bytes.
  Variable deser : kind -> bytes -> option N.
  Variable ver : bytes.
  (* H1: what was written completely reads back as the same object *)
  Hypothesis H1 : forall k o, deser k (ser k o) = Some o.
  (* H2: the format of the document / object caches is self-delimiting: no proper prefix, with
     or without a zero-filled tail, reads back as anything *)
  Hypothesis H2 : forall k o n zf, k <> KGcf -> (n < length (ser k o))%nat ->
                                   deser k (torn (ser k o) n zf) = None.

  Notation step := (step ser deser ver).
  Notation run := (run ser deser ver).
  Notation spec_step := (spec_step ser).
  Notation spec_run := (spec_run ser).
  Notation op_ok := (op_ok ser ver).
  Notation hist_ok := (hist_ok ser ver).
  Notation vok := (ver_ok ver).

  Record Inv (s : state) (a : sstate) : Prop := mkInv {
    inv_now : now s = snow a;
    inv_inst : forall i, insts s i = sinst a i;
    inv_dead : vok (fs s) = false -> forall i, insts s i = None;
    inv_abs : vok (fs s) = true -> forall id k x o,
        fs s (fname k id) = Some x -> deser k (f_data x) = Some o -> g a id k = Some (o, f_ctime x) }.

  Lemma inv_init : Inv init_state init_sstate.
  Proof. constructor; cbn; try reflexivity; try discriminate. Qed.

  Lemma kind_eqb_eq a b : kind_eqb a b = true <-> a = b.
  Proof. destruct a, b; cbn; split; intro H; try reflexivity; try discriminate. Qed.

  Lemma g_set_same m id k x : g_set m id k x id k = x.
  Proof. unfold g_set. rewrite str_eqb_refl. destruct k; reflexivity. Qed.

  Lemma g_set_other m id k x id' k' : (k' <> k \/ id' <> id) -> g_set m id k x id' k' = m id' k'.
  Proof.
    intro H. unfold g_set. destruct (str_eqb id' id) eqn:E1; [|reflexivity].
    destruct (kind_eqb k' k) eqn:E2; [|reflexivity].
    apply str_eqb_eq in E1. apply kind_eqb_eq in E2. destruct H; contradiction.
  Qed.

  Lemma key_dec (k k' : kind) (id id' : str) : (k' = k /\ id' = id) \/ (k' <> k \/ id' <> id).
  Proof.
    destruct (str_eqb id' id) eqn:E.
    - apply str_eqb_eq in E. destruct k, k'; auto; right; left; discriminate.
    - right. right. intro Q. subst. rewrite str_eqb_refl in E. discriminate.
  Qed.

  Lemma ver_ok_ext f f' : f' s_version = f s_version -> vok f' = vok f.
  Proof. unfold ver_ok. intros ->. reflexivity. Qed.

  Lemma fresh_not_expired c t x : expired c t x = false -> fresh (i_dur c) (f_ctime x) t = true.
  Proof. unfold expired, fresh. lia. Qed.

  (* one operation: the invariant is kept and the observable result is allowed *)
  Lemma step_ok s a o :
    Inv s a -> op_ok a o = true ->
    Inv (fst (step s o)) (spec_step a o) /\ res_ok a o (snd (step s o)) = true.
  Proof.
    intros [Inow Iinst Idead Iabs] OK.
    destruct o as [i k d | flt i id x | flt i id | i id | i | d | v files].
    - (* OOpen *)
      cbn [Model.step]. destruct (check_version ver (now s) (fs s)) as [r f] eqn:CV.
      pose proof (check_version_closed ver (now s) (fs s)) as [Cr Cf]. rewrite CV in Cr, Cf. cbn in Cr, Cf.
      subst r. cbn. split; [|reflexivity].
      assert (V : vok f = true).
      { unfold ver_ok. rewrite Cf. unfold version_lookup.
        destruct (ver_ok ver (fs s)) eqn:V0; [exact V0|].
        rewrite str_eqb_refl. cbn. apply str_eqb_refl. }
      constructor; cbn.
      + exact Inow.
      + intro j. unfold upd. rewrite Iinst. reflexivity.
      + rewrite V. discriminate.
      + intros _ id k' x o F D. rewrite Cf in F. unfold version_lookup in F.
        destruct (ver_ok ver (fs s)) eqn:V0.
        * eapply Iabs; eauto.
        * rewrite (str_eqb_neq _ _ (fname_not_version k' id)) in F.
          rewrite fname_starts_suds in F. discriminate F.
    - (* OPut *)
      cbn [Model.step Model.spec_step]. rewrite <- Iinst.
      destruct (insts s i) as [c|] eqn:Ei; [|split; [constructor; assumption|reflexivity]].
      destruct (storable (i_kind c) x) eqn:ST;
        [rewrite andb_true_r|rewrite andb_false_r; split; [constructor; assumption|reflexivity]].
      destruct (cache_put ser flt c (now s) id x (fs s)) as [r f] eqn:CP.
      pose proof (cache_put_closed ser flt c (now s) id x (fs s)) as [Cr Cf]. rewrite CP in Cr, Cf. cbn in Cr, Cf.
      subst r. cbn. split; [|reflexivity].
      assert (Vf : vok f = vok (fs s)).
      { apply ver_ok_ext. rewrite Cf. unfold put_lookup.
        rewrite (str_eqb_neq s_version (fname (i_kind c) id)); [reflexivity|].
        intro Q. symmetry in Q. revert Q. apply fname_not_version. }
      assert (Live : vok (fs s) = true).
      { destruct (ver_ok ver (fs s)) eqn:V0; [reflexivity|]. rewrite (Idead eq_refl i) in Ei. discriminate. }
      cbn [Model.op_ok] in OK.
      destruct (complete ser flt (i_kind c) x) eqn:CO.
      + (* all the data reached the file *)
        assert (NT : forall m, f m = if str_eqb m (fname (i_kind c) id)
                                     then Some (mkfile (ser (i_kind c) x) (now s)) else fs s m).
        { intro m. rewrite Cf. unfold put_lookup. destruct (str_eqb m (fname (i_kind c) id)); [|reflexivity].
          destruct flt; try reflexivity; cbn in CO; try discriminate CO.
          rewrite <- Iinst, Ei in OK. apply andb_true_iff in OK as [_ OK].
          apply Nat.ltb_lt in OK. apply Nat.leb_le in CO. lia. }
        constructor; cbn.
        * exact Inow.
        * exact Iinst.
        * rewrite Vf. intros Q j. exact (Idead Q j).
        * intros _ id' k' y o F D. rewrite NT in F.
          destruct (key_dec (i_kind c) k' id id') as [[-> ->]|NE].
          -- rewrite str_eqb_refl in F. inversion F; subst y. cbn in D |- *. rewrite H1 in D.
             inversion D; subst o. rewrite g_set_same, Inow. reflexivity.
          -- rewrite fname_eqb_false in F by exact NE. rewrite g_set_other by exact NE.
             eapply Iabs; eauto.
      + (* nothing written (open failed) or a torn write *)
        constructor; cbn; try assumption.
        * rewrite Vf. exact Idead.
        * intros _ id' k' y o F D. rewrite Cf in F. unfold put_lookup in F.
          destruct (key_dec (i_kind c) k' id id') as [[-> ->]|NE].
          -- rewrite str_eqb_refl in F. destruct flt; cbn in CO; try discriminate CO.
             ++ eapply Iabs; eauto.
             ++ inversion F; subst y. cbn in D.
                rewrite <- Iinst, Ei in OK. apply andb_true_iff in OK as [G L].
                apply Nat.ltb_lt in L. rewrite H2 in D; [discriminate D| |exact L].
                intro Q. rewrite Q in G. discriminate G.
          -- rewrite fname_eqb_false in F by exact NE. eapply Iabs; eauto.
    - (* OGet *)
      cbn [Model.step Model.spec_step Model.res_ok]. rewrite <- Iinst.
      destruct (insts s i) as [c|] eqn:Ei; [|split; [constructor; assumption|reflexivity]].
      assert (Live : vok (fs s) = true).
      { destruct (ver_ok ver (fs s)) eqn:V0; [reflexivity|]. rewrite (Idead eq_refl i) in Ei. discriminate. }
      rewrite cache_get_closed. unfold get_closed.
      set (nm := fname (i_kind c) id).
      assert (DelInv : Inv (mkstate (fs_del (fs s) nm) (now s) (insts s)) a).
      { assert (Vd : vok (fs_del (fs s) nm) = vok (fs s)).
        { apply ver_ok_ext. unfold fs_del. rewrite (str_eqb_neq s_version nm); [reflexivity|].
          intro Q. symmetry in Q. revert Q. apply fname_not_version. }
        constructor; cbn; try assumption; try (rewrite Vd; exact Idead).
        intros _ id' k' y o F D. unfold fs_del in F.
        destruct (str_eqb (fname k' id') nm); [discriminate F|]. eapply Iabs; eauto. }
      assert (SameInv : Inv (mkstate (fs s) (now s) (insts s)) a) by (constructor; assumption).
      destruct (fs s nm) as [y|] eqn:F; [|split; [exact SameInv|reflexivity]].
      destruct (expired c (now s) y) eqn:X; [split; [exact DelInv|reflexivity]|].
      assert (Hit : forall o, deser (i_kind c) (f_data y) = Some o ->
                              match g a id (i_kind c) with
                              | Some (z, t) => (o =? z)%N && fresh (i_dur c) t (snow a)
                              | None => false
                              end = true).
      { intros o D. rewrite (Iabs Live id (i_kind c) y o F D). rewrite N.eqb_refl, <- Inow.
        rewrite (fresh_not_expired _ _ _ X). reflexivity. }
      destruct flt; cbn.
      + destruct (deser (i_kind c) (f_data y)) as [o|] eqn:D; cbn.
        * split; [exact SameInv|]. exact (Hit o eq_refl).
        * split; [|reflexivity]. destruct (kind_eqb (i_kind c) KGcf); assumption.
      + split; [exact SameInv|reflexivity].
      + split; [|reflexivity]. destruct (kind_eqb (i_kind c) KGcf); assumption.
      + destruct (deser (i_kind c) (f_data y)) as [o|] eqn:D; cbn.
        * split; [exact SameInv|]. exact (Hit o eq_refl).
        * split; [|reflexivity]. destruct (kind_eqb (i_kind c) KGcf); assumption.
      + destruct (deser (i_kind c) (f_data y)) as [o|] eqn:D; cbn.
        * split; [exact SameInv|]. exact (Hit o eq_refl).
        * split; [|reflexivity]. destruct (kind_eqb (i_kind c) KGcf); assumption.
    - (* OPurge *)
      cbn [Model.step Model.spec_step]. rewrite <- Iinst.
      destruct (insts s i) as [c|] eqn:Ei; [|split; [constructor; assumption|reflexivity]].
      destruct (purge c id (fs s)) as [r f] eqn:CP.
      pose proof (purge_closed c id (fs s)) as [Cr Cf]. rewrite CP in Cr, Cf. cbn in Cr, Cf.
      subst r. cbn. split; [|reflexivity].
      assert (Vf : vok f = vok (fs s)).
      { apply ver_ok_ext. rewrite Cf. unfold fs_del.
        rewrite (str_eqb_neq s_version (fname (i_kind c) id)); [reflexivity|].
        intro Q. symmetry in Q. revert Q. apply fname_not_version. }
      constructor; cbn; try assumption; try (rewrite Vf; exact Idead).
      rewrite Vf. intros Live id' k' y o F D. rewrite Cf in F. unfold fs_del in F.
      destruct (key_dec (i_kind c) k' id id') as [[-> ->]|NE].
      + rewrite str_eqb_refl in F. discriminate F.
      + rewrite fname_eqb_false in F by exact NE. rewrite g_set_other by exact NE. eapply Iabs; eauto.
    - (* OClear *)
      cbn [Model.step Model.spec_step]. rewrite <- Iinst.
      destruct (insts s i) as [c|] eqn:Ei; [|split; [constructor; assumption|reflexivity]].
      cbn. split; [|reflexivity].
      assert (Vf : vok (fs_clear (fs s)) = vok (fs s)).
      { apply ver_ok_ext. unfold fs_clear. rewrite version_not_suds. reflexivity. }
      constructor; cbn; try assumption; try (rewrite Vf; exact Idead).
      intros _ id' k' y o F D. unfold fs_clear in F. rewrite fname_starts_suds in F. discriminate F.
    - (* OAdvance *)
      cbn. split; [|reflexivity]. constructor; cbn; try assumption. rewrite Inow. reflexivity.
    - (* OForeign *)
      cbn [Model.step Model.spec_step]. cbn. split; [|reflexivity].
      assert (V : vok (match v with
                          | Some b => fs_set (write_files (fs s) (now s) files) s_version (mkfile b (now s))
                          | None => fs_del (write_files (fs s) (now s) files) s_version
                          end) = false).
      { unfold ver_ok. destruct v as [b|].
        - unfold fs_set. rewrite str_eqb_refl. cbn. cbn in OK. destruct (bytes_eqb b ver); [discriminate OK|reflexivity].
        - rewrite fs_del_same. reflexivity. }
      constructor; cbn; try assumption; try reflexivity.
      rewrite V. discriminate.
  Qed.

  (* every history: every operation's observable result is allowed by the specification *)
  Lemma cache_refines_map_from s a h :
    Inv s a -> hist_ok a h = true -> spec_run a h (map snd (run s h)) = true.
  Proof.
    revert s a. induction h as [|o h IH]; intros s a I OK; [reflexivity|].
    cbn in OK. apply andb_true_iff in OK as [O1 O2].
    destruct (step_ok s a o I O1) as [I' R].
    cbn. rewrite R. cbn. apply IH; assumption.
  Qed.

  Lemma cache_refines_map_l h :
    hist_ok init_sstate h = true -> spec_run init_sstate h (map snd (run init_state h)) = true.
  Proof. apply cache_refines_map_from. exact inv_init. Qed.

  (* read off the statement for a single lookup: after ANY history, a lookup through a live
     instance returns nothing, or the object of the most recent completed store under that id
     and class, and that store is not past the instance's duration *)
  Fixpoint spec_after (a : sstate) (h : list op) : sstate :=
    match h with [] => a | o :: h' => spec_after (spec_step a o) h' end.
  Fixpoint state_after (s : state) (h : list op) : state :=
    match h with [] => s | o :: h' => state_after (fst (step s o)) h' end.

  Lemma inv_after s a h : Inv s a -> hist_ok a h = true -> Inv (state_after s h) (spec_after a h).
  Proof.
    revert s a. induction h as [|o h IH]; intros s a I OK; [exact I|].
    cbn in OK. apply andb_true_iff in OK as [O1 O2].
    cbn. apply IH; [|exact O2]. exact (proj1 (step_ok s a o I O1)).
  Qed.

  Lemma lookup_after_history_l h flt i id :
    hist_ok init_sstate h = true ->
    let s := state_after init_state h in
    let a := spec_after init_sstate h in
    match snd (step s (OGet flt i id)) with
    | RNone => True
    | RObj o => exists c t, sinst a i = Some c /\ g a id (i_kind c) = Some (o, t)
                            /\ fresh (i_dur c) t (snow a) = true
    | RSkip => sinst a i = None
    | _ => False
    end.
  Proof.
    intros OK s a.
    pose proof (inv_after init_state init_sstate h inv_init OK) as I. fold s a in I.
    destruct (step_ok s a (OGet flt i id) I eq_refl) as [_ R].
    cbn [Model.res_ok] in R.
    destruct (snd (step s (OGet flt i id))) as [| o | | |]; destruct (sinst a i) as [c|]; try discriminate R; auto.
    destruct (g a id (i_kind c)) as [[z t]|] eqn:G; [|discriminate R].
    apply andb_true_iff in R as [E Fr]. apply N.eqb_eq in E. subst z.
    exists c, t. auto.
  Qed.

  (* damaged entries are removed: a lookup that finds an entry it cannot load (through a
     document/object cache, the file opening fine) returns nothing, the file is gone, and so
     the next lookup returns nothing as well *)
  Lemma damaged_entry_removed_l c t id f x :
    i_kind c <> KGcf ->
    f (fname (i_kind c) id) = Some x -> deser (i_kind c) (f_data x) = None ->
    forall flt, flt <> FOpen ->
    let (r, f') := cache_get deser flt c t id f in
    r = Ret None /\ f' (fname (i_kind c) id) = None /\
    (forall m, m <> fname (i_kind c) id -> f' m = f m) /\
    forall flt' t', fst (cache_get deser flt' c t' id f') = Ret None.
  Proof.
    intros K F D flt NF. rewrite cache_get_closed. unfold get_closed. rewrite F.
    assert (KE : kind_eqb (i_kind c) KGcf = false) by (destruct (i_kind c); try reflexivity; contradiction).
    assert (Del : forall flt' t', fst (cache_get deser flt' c t' id (fs_del f (fname (i_kind c) id))) = Ret None).
    { intros. rewrite cache_get_closed. unfold get_closed. rewrite fs_del_same. reflexivity. }
    assert (Oth : forall m, m <> fname (i_kind c) id -> fs_del f (fname (i_kind c) id) m = f m).
    { intros m Hm. unfold fs_del. rewrite str_eqb_neq by exact Hm. reflexivity. }
    destruct (expired c t x); [rewrite fs_del_same; auto|].
    destruct flt; try contradiction; rewrite ?D, ?KE, ?fs_del_same; auto.
  Qed.

  (* the cache is not trivially empty: a completed store is found by the next lookup through
     any instance of the same class sharing the directory, as long as it is fresh *)
  Lemma put_then_get_l c c' t t' id o f :
    i_kind c' = i_kind c -> fresh (i_dur c') t t' = true ->
    let f' := snd (cache_put ser NoFault c t id o f) in
    fst (cache_get deser NoFault c' t' id f') = Ret (Some o).
  Proof.
    intros K Fr f'. rewrite cache_get_closed. unfold get_closed.
    pose proof (cache_put_closed ser NoFault c t id o f) as [_ Cf]. fold f' in Cf.
    rewrite K, Cf. unfold put_lookup. rewrite str_eqb_refl. cbn.
    assert (X : expired c' t' (mkfile (ser (i_kind c) o) t) = false).
    { unfold expired, fresh in *. cbn. lia. }
    rewrite X, H1. reflexivity.
  Qed.
End Refine.
