(* C12 -- what a load collects.

   SPEC (from the property text): the documents reachable from a WSDL
   through wsdl:import, the schema roots of each such document's collection
   (its inline schemas and the schema documents it wsdl:imports), the schema
   documents reachable from those through xsd:import / xsd:include -- every
   reference resolved against the URL of the document containing it -- and
   the declarations found there.

   PROOFS: under explicit guards the tables of the constructed root
   Definitions hold exactly those declarations (so every partition of an
   interface yields the tables of the single-document WSDL), and every
   request of a schema loader is for a reachable document. *)
From SV Require Import Lib.Base C12.Url C12.Model C12.Proofs.
From Coq Require Import ZifyBool ZifyNat ZifyN.

(* ------------------------------------------------------------------ *)
(* specification                                                       *)
(* ------------------------------------------------------------------ *)
Section Spec.
  Variable W : world.

  (* reachable from [a] through wsdl:import *)
  Inductive wr (a : str) : str -> Prop :=
  | wr_refl : wr a a
  | wr_step : forall v imps types names l,
      wr a v -> src W v = Some (DWsdl imps types names) -> In l imps -> wr a (join v l).

  (* the schema roots of the collection of WSDL document [v], each with the
     URL its references are relative to *)
  Inductive member (v : str) : str -> xschema -> Prop :=
  | m_inline : forall imps types names ts x,
      src W v = Some (DWsdl imps types names) -> In ts types -> In x ts -> member v v x
  | m_wimp : forall imps types names l x,
      src W v = Some (DWsdl imps types names) -> In l imps ->
      src W (join v l) = Some (DXsd x) -> member v (join v l) x.

  (* schema documents reachable from the collection of [v] *)
  Inductive sr (v : str) : str -> Prop :=
  | sr_member : forall b x l, member v b x -> In l (refs_of_x x) -> sr v (join b l)
  | sr_step : forall a x l, sr v a -> src W a = Some (DXsd x) -> In l (refs_of_x x) -> sr v (join a l).

  (* the declarations of the collection of [v] *)
  Inductive sd (v : str) : qn -> Prop :=
  | sd_member : forall b x q, member v b x -> In q (own_decls x) -> sd v q
  | sd_doc : forall a x q, sr v a -> src W a = Some (DXsd x) -> In q (own_decls x) -> sd v q.

  Definition names_spec (r : str) (n : N) : Prop :=
    exists v imps types names, wr r v /\ src W v = Some (DWsdl imps types names) /\ In n names.
  Definition decls_spec (r : str) (q : qn) : Prop := exists v, wr r v /\ sd v q.

  Lemma wr_trans a b c : wr a b -> wr b c -> wr a c.
  Proof. intros H1 H2. induction H2; auto. eapply wr_step; eauto. Qed.

  (* everything above is reachable in the sense of Model.reach *)
  Lemma wr_reach a b : wr a b -> reach W a b.
  Proof.
    induction 1; [constructor|]. eapply reach_step; eauto. cbn. apply in_or_app. left; auto.
  Qed.

  Lemma in_flat_types (types : list (list xschema)) ts x l :
    In ts types -> In x ts -> In l (refs_of_x x) -> In l (flat_map (flat_map refs_of_x) types).
  Proof.
    intros H1 H2 H3. apply in_flat_map. exists ts. split; auto. apply in_flat_map. exists x. auto.
  Qed.

  Lemma member_reach r v b x : wr r v -> member v b x -> reach W r b.
  Proof.
    intros Hv Hm. destruct Hm.
    - apply wr_reach; auto.
    - eapply reach_step; [apply wr_reach; eauto|eauto|]. cbn. apply in_or_app. left; auto.
  Qed.

  Lemma sr_reach r v a : wr r v -> sr v a -> reach W r a.
  Proof.
    intros Hv Hs. induction Hs.
    - destruct H.
      + eapply reach_step; [apply wr_reach; eauto|eauto|]. cbn. apply in_or_app. right.
        eapply in_flat_types; eauto.
      + eapply reach_step; [|eauto|cbn; auto].
        eapply reach_step; [apply wr_reach; eauto|eauto|]. cbn. apply in_or_app. left; auto.
    - eapply reach_step; eauto.
  Qed.
End Spec.

(* ------------------------------------------------------------------ *)
(* small facts                                                         *)
(* ------------------------------------------------------------------ *)

Lemma sid_eqb_eq a b : sid_eqb a b = true <-> a = b.
Proof.
  destruct a, b; cbn; split; intro H; try discriminate; try congruence.
  - apply Nat.eqb_eq in H. congruence.
  - inversion H. apply Nat.eqb_refl.
  - apply str_eqb_eq in H. congruence.
  - inversion H. apply str_eqb_refl.
Qed.

Lemma sid_eqb_refl a : sid_eqb a a = true.
Proof. apply sid_eqb_eq. auto. Qed.

Lemma sid_eqb_neq a b : a <> b -> sid_eqb a b = false.
Proof. intro H. destruct (sid_eqb a b) eqn:E; auto. apply sid_eqb_eq in E. contradiction. Qed.

Lemma slot_eqb_eq a b : slot_eqb a b = true <-> a = b.
Proof.
  destruct a as [t i], b as [t' i']. unfold slot_eqb; cbn. rewrite andb_true_iff, sid_eqb_eq, Nat.eqb_eq.
  split; [intros [-> ->]; auto|intro H; inversion H; auto].
Qed.

Lemma mem_slot_In x l : mem_slot x l = true <-> In x l.
Proof.
  unfold mem_slot. rewrite existsb_exists. split.
  - intros [y [Hy E]]. apply slot_eqb_eq in E. subst. auto.
  - intro H. exists x. split; auto. apply slot_eqb_eq. auto.
Qed.

Lemma remove_slot_In x y l : In y (remove_slot x l) <-> In y l /\ y <> x.
Proof.
  unfold remove_slot. rewrite filter_In. split; intros [H1 H2]; split; auto.
  - intro E. subst. rewrite slot_eqb_refl in H2. discriminate.
  - destruct (slot_eqb x y) eqn:E; auto. apply slot_eqb_eq in E. subst. contradiction.
Qed.

Lemma in_slots_of t t' i n : In (t', i) (slots_of t n) <-> t' = t /\ i < n.
Proof.
  unfold slots_of. rewrite in_map_iff. split.
  - intros [j [E Hj]]. inversion E; subst. apply in_seq in Hj. split; auto. lia.
  - intros [-> H]. exists i. split; auto. apply in_seq. lia.
Qed.

Lemma in_cont_slots cont : forall k j c i,
  nth_error cont j = Some c -> i < length (x_refs c) -> In (SInl (k + j), i) (cont_slots k cont).
Proof.
  induction cont as [|y rest IH]; intros k j c i Hn Hi; [destruct j; discriminate|].
  cbn. apply in_or_app. destruct j; cbn in Hn.
  - inversion Hn; subst. left. apply in_slots_of. split; auto. all: try (f_equal; lia).
  - right. replace (k + S j) with (S k + j) by lia. eapply IH; eauto.
Qed.

Lemma lookup_str_eq {A} a b (l : list (str * A)) : str_eqb a b = true -> lookup a l = lookup b l.
Proof. intro E. apply str_eqb_eq in E. subst. auto. Qed.

Lemma has_true_lookup {A} a (l : list (str * A)) : has a l = true -> exists x, lookup a l = Some x.
Proof. unfold has. destruct (lookup a l); [eauto|discriminate]. Qed.

Lemma lookup_has {A} a (l : list (str * A)) x : lookup a l = Some x -> has a l = true.
Proof. unfold has. intros ->. auto. Qed.

Lemma in_refs_of_x_nth x l :
  In l (refs_of_x x) ->
  exists i r, nth_error (x_refs x) i = Some r /\
              (r = XInc l \/ exists ns, r = XImp ns (Some l)).
Proof.
  unfold refs_of_x. intro H. apply in_flat_map in H. destruct H as [r [Hr Hl]].
  apply In_nth_error in Hr. destruct Hr as [i Hi]. exists i, r. split; auto.
  destruct r as [ns [l'|]|l']; cbn in Hl.
  - destruct Hl as [<-|[]]. right. eauto.
  - destruct Hl.
  - destruct Hl as [<-|[]]. left; auto.
Qed.

Lemma nth_refs_of_x x i r l :
  nth_error (x_refs x) i = Some r -> (r = XInc l \/ exists ns, r = XImp ns (Some l)) ->
  In l (refs_of_x x).
Proof.
  intros Hn Hr. unfold refs_of_x. apply in_flat_map. exists r. split.
  - eapply nth_error_In; eauto.
  - destruct Hr as [->|[ns ->]]; cbn; auto.
Qed.

(* ------------------------------------------------------------------ *)
(* one schema collection (one build_schema)                            *)
(* ------------------------------------------------------------------ *)
Section SchemaCollect.
  Variable W : world.
  Variable IO : Type.
  Variable opn : dom -> str -> IO -> option doc * IO.
  Variable univ : list (str * doc).
  Variable reqs : IO -> list (dom * str).
  Variable Pio : IO -> Prop.
  Hypothesis Hreq : forall d u io, reqs (snd (opn d u io)) = (d, u) :: reqs io.
  Hypothesis Pio_opn : forall d u io, Pio io -> Pio (snd (opn d u io)).
  Hypothesis Hsrc : forall d u io x, Pio io -> fst (opn d u io) = Some x -> src W u = Some x.
  (* guard: no schema document without a target namespace *)
  Hypothesis NoCham : forall a x, src W a = Some (DXsd x) -> x_tns x <> None.

  Variable v : str.                      (* the WSDL document whose collection is built *)
  Variable RQd : str -> str -> Prop.     (* what is known of the schema requests so far *)
  Hypothesis RQd_v : forall a, sr W v a -> RQd v a.
  Variable cont : list xschema.          (* its consolidated schema roots *)
  Hypothesis ContSound : forall j c, nth_error cont j = Some c ->
      (forall n, In n (x_decls c) -> sd W v (x_tns c, n)) /\
      (forall l, In l (refs_of_x c) -> sr W v (join v l)).

  Definition inst (s : sst) (t : sid) : option xschema :=
    match t with SInl j => nth_error cont j | SUrl a => lookup a (s_memo s) end.
  Definition base_of (t : sid) : str := match t with SInl _ => v | SUrl a => a end.

  Lemma sid_info_inst t s :
    sid_info cont v t s = match inst s t with
                          | Some x => Some (x_tns x, x_refs x, base_of t)
                          | None => None
                          end.
  Proof. destruct t; cbn; auto. Qed.

  Definition memo_ok (s : sst) : Prop :=
    forall a x, lookup a (s_memo s) = Some x -> sr W v a /\ src W a = Some (DXsd x).
  Definition tab_sound (s : sst) : Prop := forall t q, In q (s_tab s t) -> sd W v q.
  Definition fresh_tab (s : sst) : Prop := forall a, lookup a (s_memo s) = None -> s_tab s (SUrl a) = [].
  Definition cov (S : list sid) (s : sst) : Prop :=
    forall t x q, inst s t = Some x -> In q (own_decls x) -> exists p, In p S /\ In q (s_tab s p).
  Definition opened (s : sst) (t : sid) (x : xschema) : Prop :=
    forall i, i < length (x_refs x) -> ~ In (t, i) (s_rem s).
  Definition allopen (S : list sid) (s : sst) : Prop :=
    forall t x, inst s t = Some x -> In t S \/ opened s t x.
  Definition resolved (s : sst) (base : str) (r : xref) : Prop :=
    match r with
    | XInc l => has (join base l) (s_memo s) = true
    | XImp _ (Some l) => has (join base l) (s_memo s) = true \/ s_shadow s = true
    | XImp _ None => True
    end.
  Definition closed (s : sst) : Prop :=
    forall t x i r, inst s t = Some x -> nth_error (x_refs x) i = Some r -> ~ In (t, i) (s_rem s) ->
                    resolved s (base_of t) r.
  Definition reqs_ok (io : IO) : Prop :=
    Pio io /\ forall o a, In (DomS o, a) (reqs io) -> RQd o a.
  Definition SV (S : list sid) (s : sst) (io : IO) : Prop :=
    memo_ok s /\ tab_sound s /\ fresh_tab s /\ cov S s /\ allopen S s /\ closed s /\ reqs_ok io.

  Definition mono (s s' : sst) : Prop :=
    (forall a x, lookup a (s_memo s) = Some x -> lookup a (s_memo s') = Some x) /\
    (forall t, incl (s_tab s t) (s_tab s' t)) /\
    (forall t x i, inst s t = Some x -> In (t, i) (s_rem s') -> In (t, i) (s_rem s)) /\
    (s_shadow s = true -> s_shadow s' = true).

  Lemma inst_mono s s' t x : mono s s' -> inst s t = Some x -> inst s' t = Some x.
  Proof. intros [M _] H. destruct t; cbn in *; auto. Qed.

  Lemma mono_refl s : mono s s.
  Proof. repeat split; auto. intros t; apply incl_refl. Qed.

  Lemma mono_trans s1 s2 s3 : mono s1 s2 -> mono s2 s3 -> mono s1 s3.
  Proof.
    intros H12 H23. pose proof (inst_mono s1 s2) as I12.
    destruct H12 as (A1 & B1 & C1 & D1), H23 as (A2 & B2 & C2 & D2).
    repeat split; auto.
    - intro t. eapply incl_tran; eauto.
    - intros t x i Hi Hin. apply (C1 t x i Hi). apply (C2 t x i); auto.
      apply I12; auto. repeat split; auto.
  Qed.

  Lemma opened_mono s s' t x : mono s s' -> inst s t = Some x -> opened s t x -> opened s' t x.
  Proof. intros (_ & _ & C & _) Hi Ho i Hlt Hin. apply (Ho i Hlt). eapply C; eauto. Qed.

  Lemma refs_sr s t x l :
    memo_ok s -> inst s t = Some x -> In l (refs_of_x x) -> sr W v (join (base_of t) l).
  Proof.
    intros Hm Hi Hl. destruct t as [j|a]; cbn in *.
    - destruct (ContSound j x Hi) as [_ H]. auto.
    - destruct (Hm a x Hi) as [Hs Hx]. eapply sr_step; eauto.
  Qed.

  Lemma SV_intro S s io :
    memo_ok s -> tab_sound s -> fresh_tab s -> cov S s -> allopen S s -> closed s -> reqs_ok io ->
    SV S s io.
  Proof. unfold SV. tauto. Qed.

  Lemma SV_weaken S S' s io : (forall p, In p S -> In p S') -> SV S s io -> SV S' s io.
  Proof.
    intros Hs (A & B & F & C & D & E & G). apply SV_intro; auto.
    - intros t x q Hi Hq. destruct (C t x q Hi Hq) as [p [Hp Hq']]. exists p. auto.
    - intros t x Hi. destruct (D t x Hi); auto.
  Qed.

  Lemma locate_from_nth ns : forall c k j, locate_from k c ns = Some j ->
    exists i y, j = k + i /\ nth_error c i = Some y.
  Proof.
    induction c as [|y rest IH]; intros k j H; cbn in H; [discriminate|].
    destruct (optN_eqb (x_tns y) ns).
    - inversion H; subst. exists 0, y. split; auto.
    - destruct (IH _ _ H) as [i [y' [E Hn]]]. exists (S i), y'. split; auto; lia.
  Qed.

  Lemma locate_nth ns j : locate cont ns = Some j -> exists y, nth_error cont j = Some y.
  Proof. intro H. destruct (locate_from_nth ns cont 0 j H) as [i [y [E Hn]]]. subst. eauto. Qed.

  (* opening slot (self, i): what [target] does to the invariant *)
  Lemma target_step S s io self xs i r :
    SV S s io -> In self S -> inst s self = Some xs -> nth_error (x_refs xs) i = Some r ->
    match target IO opn cont v self (x_tns xs) (base_of self) r
                 (set_rem s (remove_slot (self, i) (s_rem s))) io with
    | (Ok (tgt, s2), io2) =>
        SV (match tgt with Some t => t :: S | None => S end) s2 io2 /\ mono s s2 /\
        ~ In (self, i) (s_rem s2) /\
        match tgt with Some t => exists xt, inst s2 t = Some xt | None => True end
    | (_, io2) => reqs_ok io2
    end.
  Proof.
    intros (Mo & Ts & Fr & Cv & Ao & Cl & Rq) Hself Hxs Hr.
    set (s1 := set_rem s (remove_slot (self, i) (s_rem s))).
    assert (M1 : mono s s1).
    { repeat split; auto. intro t; apply incl_refl.
      intros t x j _ Hin. apply remove_slot_In in Hin. tauto. }
    assert (N1 : ~ In (self, i) (s_rem s1)).
    { unfold s1; cbn. intro Hin. apply remove_slot_In in Hin. tauto. }
    (* the invariant for a state that differs from s only by the opened
       slot and the shadow flag, once the slot is known to be resolved *)
    assert (Base : forall sh, (s_shadow s = true -> sh = true) ->
               resolved (mkS (s_memo s) (s_rem s1) (s_tab s) sh) (base_of self) r ->
               SV S (mkS (s_memo s) (s_rem s1) (s_tab s) sh) io /\
               mono s (mkS (s_memo s) (s_rem s1) (s_tab s) sh)).
    { intros sh Hsh Hres. split.
      - apply SV_intro; auto.
        + intros t x Hi. destruct (Ao t x Hi) as [H|H]; auto. right.
          intros j Hj Hin. cbn in Hin. apply remove_slot_In in Hin. apply (H j Hj). tauto.
        + intros t x j r' Hi Hn Hnin. cbn in Hnin.
          assert (Hi0 : inst s t = Some x) by exact Hi. clear Hi.
          destruct (slot_eqb (t, j) (self, i)) eqn:E.
          * apply slot_eqb_eq in E. inversion E; subst.
            rewrite Hxs in Hi0. inversion Hi0; subst. rewrite Hr in Hn. inversion Hn; subst.
            exact Hres.
          * assert (Hnin' : ~ In (t, j) (s_rem s)).
            { intro Hin. apply Hnin. apply remove_slot_In. split; auto.
              intro E'. rewrite E' in E. rewrite slot_eqb_refl in E. discriminate. }
            specialize (Cl t x j r' Hi0 Hn Hnin'). destruct r' as [ns [l|]|l]; cbn in *; auto.
            destruct Cl; auto.
      - repeat split; auto. intro t; apply incl_refl.
        intros t x j _ Hin. cbn in Hin. apply remove_slot_In in Hin. tauto. }
    (* a download *)
    assert (Down : forall incl l, (r = XInc l \/ exists ns, r = XImp ns (Some l)) ->
               lookup (join (base_of self) l) (s_memo s) = None ->
               match download IO opn v incl (x_tns xs) (join (base_of self) l) s1 io with
               | (Ok (tgt, s2), io2) =>
                   SV (match tgt with Some t => t :: S | None => S end) s2 io2 /\ mono s s2 /\
                   ~ In (self, i) (s_rem s2) /\
                   match tgt with Some t => exists xt, inst s2 t = Some xt | None => True end
               | (_, io2) => reqs_ok io2
               end).
    { intros incl l Hrl Hnone. set (u := join (base_of self) l).
      assert (Hsr : sr W v u).
      { eapply refs_sr; eauto. eapply nth_refs_of_x; eauto. }
      unfold download.
      pose proof (Hreq (DomS v) u io) as Hq.
      pose proof (Pio_opn (DomS v) u io (proj1 Rq)) as Hp.
      pose proof (Hsrc (DomS v) u io) as Hs.
      destruct (opn (DomS v) u io) as [o io1]; cbn in Hq, Hp, Hs.
      assert (Rq1 : reqs_ok io1).
      { split; auto. intros o0 a Hin. rewrite Hq in Hin. destruct Hin as [E|Hin].
        - inversion E; subst. apply RQd_v; auto.
        - apply Rq; auto. }
      destruct o as [d|]; [|exact Rq1].
      specialize (Hs d (proj1 Rq) eq_refl).
      destruct d as [| x |]; try exact Rq1.
      assert (Hx' : (if incl then match x_tns x with
                                  | Some t => if optN_eqb (x_tns xs) (Some t) then Some x else None
                                  | None => Some (mkX (x_tns xs) (x_refs x) (x_decls x))
                                  end
                     else Some x) = Some x \/
                    (if incl then match x_tns x with
                                  | Some t => if optN_eqb (x_tns xs) (Some t) then Some x else None
                                  | None => Some (mkX (x_tns xs) (x_refs x) (x_decls x))
                                  end
                     else Some x) = None).
      { destruct incl; auto. pose proof (NoCham u x Hs) as Hc.
        destruct (x_tns x); [|contradiction]. destruct (optN_eqb (x_tns xs) (Some n)); auto. }
      destruct Hx' as [Hx'|Hx']; rewrite Hx'; [|exact Rq1].
      set (s2 := add_inst u x s1).
      assert (Lk : forall a y, lookup a (s_memo s) = Some y -> lookup a (s_memo s2) = Some y).
      { intros a y Ha. cbn. destruct (str_eqb a u) eqn:E; auto.
        apply str_eqb_eq in E. subst a. fold u in Hnone. congruence. }
      assert (In2 : forall t y, inst s t = Some y -> inst s2 t = Some y).
      { intros t y Ht. destruct t as [j0|a0]; [exact Ht|]. apply Lk. exact Ht. }
      assert (Ne : forall t y, inst s t = Some y -> t <> SUrl u).
      { intros t y Ht E. subst t. cbn in Ht. fold u in Hnone. congruence. }
      assert (M2 : mono s s2).
      { repeat split; auto.
        - intros t q Hq'. cbn. unfold upd. destruct (sid_eqb t (SUrl u)) eqn:E; auto.
          apply sid_eqb_eq in E. subst t. rewrite (Fr u) in Hq'; [destruct Hq'|exact Hnone].
        - intros t y j Ht Hin. cbn in Hin. apply in_app_or in Hin. destruct Hin as [Hin|Hin].
          + apply in_slots_of in Hin. destruct Hin as [E _]. destruct (Ne t y Ht E).
          + apply remove_slot_In in Hin. tauto. }
      split; [|split; [exact M2|split]].
      - apply SV_intro; [| | | | | |exact Rq1].
        + (* memo_ok *) intros a y Ha. cbn in Ha. destruct (str_eqb a u) eqn:E.
          * apply str_eqb_eq in E. subst a. inversion Ha; subst. auto.
          * apply Mo; auto.
        + (* tab_sound *) intros t q Hq'. cbn in Hq'. unfold upd in Hq'.
          destruct (sid_eqb t (SUrl u)); [|eapply Ts; eauto]. eapply sd_doc; eauto.
        + (* fresh_tab *) intros a Ha. cbn in *. unfold upd. cbn.
          destruct (str_eqb a u) eqn:E; [discriminate|]. apply Fr; auto.
        + (* cov *) intros t y q Ht Hq'.
          destruct (sid_eqb t (SUrl u)) eqn:E.
          * apply sid_eqb_eq in E. subst t. cbn in Ht. rewrite str_eqb_refl in Ht. inversion Ht; subst.
            exists (SUrl u). split; [left; auto|]. cbn. unfold upd. rewrite sid_eqb_refl. auto.
          * assert (Ht0 : inst s t = Some y).
            { destruct t as [j|a]; cbn in *; auto. rewrite E in Ht. auto. }
            destruct (Cv t y q Ht0 Hq') as [p [Hp0 Hq'']]. exists p. split; [right; exact Hp0|].
            destruct M2 as (_ & B & _). apply B. auto.
        + (* allopen *) intros t y Ht.
          destruct (sid_eqb t (SUrl u)) eqn:E.
          * apply sid_eqb_eq in E. subst t. left. left. auto.
          * assert (Ht0 : inst s t = Some y).
            { destruct t as [j|a]; cbn in *; auto. rewrite E in Ht. auto. }
            destruct (Ao t y Ht0) as [H|H]; [left; right; auto|right].
            eapply opened_mono; eauto.
        + (* closed *) intros t y j r' Ht Hn Hnin.
          destruct (sid_eqb t (SUrl u)) eqn:E.
          * apply sid_eqb_eq in E. subst t. cbn in Ht. rewrite str_eqb_refl in Ht. inversion Ht; subst.
            exfalso. apply Hnin. cbn. apply in_or_app. left. apply in_slots_of. split; auto.
            apply nth_error_Some. congruence.
          * assert (Ht0 : inst s t = Some y).
            { destruct t as [j'|a]; cbn in *; auto. rewrite E in Ht. auto. }
            assert (Hnin1 : ~ In (t, j) (s_rem s1)).
            { intro Hin. apply Hnin. cbn. apply in_or_app. right. exact Hin. }
            destruct (slot_eqb (t, j) (self, i)) eqn:E2.
            -- apply slot_eqb_eq in E2. inversion E2; subst.
               rewrite Hxs in Ht0. inversion Ht0; subst. rewrite Hr in Hn. inversion Hn; subst.
               assert (Hh : has u (s_memo s2) = true) by (cbn; apply has_cons_same).
               destruct Hrl as [->|[ns ->]]; cbn; auto.
            -- assert (Hnin' : ~ In (t, j) (s_rem s)).
               { intro Hin. apply Hnin1. cbn. apply remove_slot_In. split; auto.
                 intro E'. rewrite E' in E2. rewrite slot_eqb_refl in E2. discriminate. }
               specialize (Cl t y j r' Ht0 Hn Hnin').
               destruct r' as [ns [l'|]|l']; cbn in *; auto.
               ++ destruct Cl as [Cl|Cl]; auto. left. apply has_cons_mono. auto.
               ++ apply has_cons_mono. auto.
      - cbn. intro Hin. apply in_app_or in Hin. destruct Hin as [Hin|Hin].
        + apply in_slots_of in Hin. destruct Hin as [E _]. destruct (Ne self xs Hxs E).
        + apply remove_slot_In in Hin. tauto.
      - exists x. cbn. rewrite str_eqb_refl. auto. }
    unfold target. fold s1. destruct r as [ns loc|l].
    - destruct (match self with SInl _ => if optN_eqb ns (x_tns xs) then None else locate cont ns
                            | SUrl _ => None end) as [j|] eqn:El.
      + (* answered by the collection *)
        assert (Hj : exists y, nth_error cont j = Some y).
        { destruct self; [|discriminate]. destruct (optN_eqb ns (x_tns xs)); [discriminate|].
          apply locate_nth in El. exact El. }
        destruct loc as [l|].
        * destruct (Base true (fun _ => eq_refl)) as [B1 B2]; [cbn; auto|].
          split; [eapply SV_weaken; [|exact B1]; intros p Hp; right; auto|].
          split; [exact B2|]. split; [exact N1|]. exact Hj.
        * destruct (Base (s_shadow s) (fun h => h)) as [B1 B2]; [cbn; auto|].
          split; [eapply SV_weaken; [|exact B1]; intros p Hp; right; auto|].
          split; [exact B2|]. split; [exact N1|]. exact Hj.
      + destruct loc as [l|].
        * cbn [s_memo s1 set_rem].
          destruct (lookup (join (base_of self) l) (s_memo s)) eqn:Elk.
          -- destruct (Base (s_shadow s) (fun h => h)) as [B1 B2].
             { cbn. left. eapply lookup_has; eauto. }
             split; [eapply SV_weaken; [|exact B1]; intros p Hp; right; auto|].
             split; [exact B2|]. split; [exact N1|]. exists x. cbn. exact Elk.
          -- apply (Down false l); auto. right. eauto.
        * destruct (Base (s_shadow s) (fun h => h)) as [B1 B2]; [cbn; auto|].
          split; [exact B1|]. split; [exact B2|]. split; [exact N1|exact I].
    - cbn [s_memo s1 set_rem].
      destruct (lookup (join (base_of self) l) (s_memo s)) eqn:Elk.
      + destruct (Base (s_shadow s) (fun h => h)) as [B1 B2].
        { cbn. eapply lookup_has; eauto. }
        split; [eapply SV_weaken; [|exact B1]; intros p Hp; right; auto|].
        split; [exact B2|]. split; [exact N1|]. exists x. cbn. exact Elk.
      + apply (Down true l); auto.
  Qed.

  (* self.merge(imported) once the imported schema is completely opened *)
  Lemma merge_step S s io self t xs xt :
    SV (t :: S) s io -> In self S -> inst s self = Some xs -> inst s t = Some xt -> opened s t xt ->
    SV S (merge_tab s self t) io /\ mono s (merge_tab s self t).
  Proof.
    intros (Mo & Ts & Fr & Cv & Ao & Cl & Rq) Hself Hxs Hxt Hop.
    assert (M : mono s (merge_tab s self t)).
    { split; [auto|split; [|split; auto]].
      intros p q Hq. cbn. unfold upd. destruct (sid_eqb p self) eqn:E; auto.
      apply sid_eqb_eq in E. subst p. apply in_or_app. left; auto. }
    split; [|exact M].
    apply SV_intro; auto.
    - intros p q Hq. cbn in Hq. unfold upd in Hq. destruct (sid_eqb p self); [|eapply Ts; eauto].
      apply in_app_or in Hq. destruct Hq; eapply Ts; eauto.
    - intros a Ha. cbn in *. unfold upd. destruct (sid_eqb (SUrl a) self) eqn:E; [|apply Fr; auto].
      apply sid_eqb_eq in E. subst self. cbn in Hxs. congruence.
    - intros t0 x q Hi Hq. destruct (Cv t0 x q Hi Hq) as [p [Hp Hq']].
      destruct Hp as [<-|Hp].
      + exists self. split; auto. cbn. unfold upd. rewrite sid_eqb_refl. apply in_or_app. right; auto.
      + exists p. split; auto. destruct M as (_ & B & _). apply B; auto.
    - intros t0 x Hi. destruct (Ao t0 x Hi) as [[<-|H]|H]; auto.
      right. assert (Hi0 : inst s t = Some x) by exact Hi.
      assert (E : x = xt) by congruence. subst. exact Hop.
  Qed.

  Definition fail_post (r : IO) : Prop := reqs_ok r.

  Definition rec_spec (rec : sid -> sst -> IO -> outcome sst * IO) : Prop :=
    forall t S s io xt, SV (t :: S) s io -> inst s t = Some xt ->
      match rec t s io with
      | (Ok s', io') => SV (t :: S) s' io' /\ mono s s' /\ opened s' t xt
      | (_, io') => reqs_ok io'
      end.

  Lemma skipn_nth {A} (l : list A) i r rest : skipn i l = r :: rest -> nth_error l i = Some r /\ skipn (S i) l = rest.
  Proof.
    revert i. induction l as [|a l IH]; intros i H.
    - destruct i; discriminate.
    - destruct i; cbn in *.
      + inversion H; auto.
      + apply IH; auto.
  Qed.

  Lemma skipn_nil_len {A} (l : list A) i : skipn i l = [] -> length l <= i.
  Proof.
    revert i. induction l as [|a l IH]; intros i H; cbn; [lia|].
    destruct i; cbn in H; [discriminate|]. apply IH in H. lia.
  Qed.

  Lemma open_refs_collect rec self xs Sx :
    rec_spec rec -> In self Sx ->
    forall refs i s io, SV Sx s io -> inst s self = Some xs -> refs = skipn i (x_refs xs) ->
      (forall j, j < i -> ~ In (self, j) (s_rem s)) ->
      match open_refs IO opn rec cont v self (x_tns xs) (base_of self) i refs s io with
      | (Ok s', io') => SV Sx s' io' /\ mono s s' /\ opened s' self xs
      | (_, io') => reqs_ok io'
      end.
  Proof.
    intros Hrec Hself. induction refs as [|r rest IH]; intros i s io H Hxs Hsk Hlow; cbn.
    - split; [exact H|split; [apply mono_refl|]].
      intros j Hj. apply Hlow. symmetry in Hsk. apply skipn_nil_len in Hsk. lia.
    - symmetry in Hsk. apply skipn_nth in Hsk. destruct Hsk as [Hr Hrest].
      destruct (mem_slot (self, i) (s_rem s)) eqn:Em; cbn.
      + (* the slot is still closed: open it *)
        pose proof (target_step Sx s io self xs i r H Hself Hxs Hr) as Ht.
        destruct (target IO opn cont v self (x_tns xs) (base_of self) r
                         (set_rem s (remove_slot (self, i) (s_rem s))) io) as [[[[t|] s2]|k|] io2].
        * destruct Ht as (H2 & M2 & N2 & [xt Hxt]).
          assert (Hxs2 : inst s2 self = Some xs) by (eapply inst_mono; eauto).
          pose proof (Hrec t Sx s2 io2 xt H2 Hxt) as Hr3.
          destruct (rec t s2 io2) as [[s3|k|] io3]; auto.
          destruct Hr3 as (H3 & M3 & O3).
          assert (Hxs3 : inst s3 self = Some xs).
          { eapply inst_mono; eauto. }
          assert (Hxt3 : inst s3 t = Some xt) by (eapply inst_mono; eauto).
          destruct (merge_step Sx s3 io3 self t xs xt H3 Hself Hxs3 Hxt3 O3) as [H4 M4].
          assert (M04 : mono s (merge_tab s3 self t)).
          { eapply mono_trans; [exact M2|]. eapply mono_trans; [exact M3|exact M4]. }
          assert (Hxs4 : inst (merge_tab s3 self t) self = Some xs) by (eapply inst_mono; eauto).
          specialize (IH (S i) (merge_tab s3 self t) io3 H4 Hxs4 (eq_sym Hrest)).
          assert (Hlow4 : forall j, j < S i -> ~ In (self, j) (s_rem (merge_tab s3 self t))).
          { intros j Hj Hin. destruct M04 as (_ & _ & C & _). specialize (C self xs j Hxs Hin).
            destruct (Nat.eq_dec j i) as [->|Hne].
            - destruct M2 as (_ & _ & C2 & _).
              destruct (mono_trans _ _ _ M3 M4) as (_ & _ & C34 & _).
              apply N2. apply (C34 self xs i); auto.
            - apply (Hlow j); auto. lia. }
          specialize (IH Hlow4).
          destruct (open_refs IO opn rec cont v self (x_tns xs) (base_of self) (S i) rest
                              (merge_tab s3 self t) io3) as [[s5|k|] io5]; auto.
          destruct IH as (H5 & M5 & O5). split; [exact H5|split; [|exact O5]].
          eapply mono_trans; eauto.
        * destruct Ht as (H2 & M2 & N2 & _).
          assert (Hxs2 : inst s2 self = Some xs) by (eapply inst_mono; eauto).
          specialize (IH (S i) s2 io2 H2 Hxs2 (eq_sym Hrest)).
          assert (Hlow2 : forall j, j < S i -> ~ In (self, j) (s_rem s2)).
          { intros j Hj Hin. destruct (Nat.eq_dec j i) as [->|Hne]; [auto|].
            destruct M2 as (_ & _ & C & _). apply (Hlow j); [lia|]. apply (C self xs j); auto. }
          specialize (IH Hlow2).
          destruct (open_refs IO opn rec cont v self (x_tns xs) (base_of self) (S i) rest s2 io2)
            as [[s5|k|] io5]; auto.
          destruct IH as (H5 & M5 & O5). split; [exact H5|split; [|exact O5]].
          eapply mono_trans; eauto.
        * exact Ht.
        * exact Ht.
      + (* already opened *)
        apply IH; auto.
        intros j Hj Hin. destruct (Nat.eq_dec j i) as [->|Hne].
        * apply mem_slot_In in Hin. congruence.
        * apply (Hlow j); auto. lia.
  Qed.

  Lemma open_imports_collect fuel : rec_spec (open_imports IO opn cont v fuel).
  Proof.
    induction fuel as [|f IH]; intros t Sx s io xt H Hxt; cbn.
    - apply H.
    - rewrite sid_info_inst, Hxt.
      apply (open_refs_collect (open_imports IO opn cont v f) t xt (t :: Sx) IH); auto.
      + left; auto.
      + intros j Hj. lia.
  Qed.

  Lemma SV_cons_in Sx s io t : In t Sx -> SV (t :: Sx) s io <-> SV Sx s io.
  Proof.
    intro Ht. split; apply SV_weaken.
    - intros p [<-|Hp]; auto.
    - intros p Hp; right; auto.
  Qed.

  Lemma open_all_collect Sx fuel :
    forall js s io, SV Sx s io -> (forall j, In j js -> In (SInl j) Sx /\ j < length cont) ->
      match open_all IO opn cont v fuel js s io with
      | (Ok s', io') => SV Sx s' io' /\ mono s s' /\
                        forall j c, In j js -> nth_error cont j = Some c -> opened s' (SInl j) c
      | (_, io') => reqs_ok io'
      end.
  Proof.
    induction js as [|j rest IH]; intros s io H Hjs; cbn.
    - split; [exact H|split; [apply mono_refl|intros j c []]].
    - destruct (Hjs j (or_introl eq_refl)) as [HjS Hjl].
      destruct (nth_error cont j) as [c|] eqn:Ec; [|apply nth_error_None in Ec; lia].
      pose proof (open_imports_collect fuel (SInl j) Sx s io c) as Ho.
      assert (H' : SV (SInl j :: Sx) s io) by (apply SV_cons_in; auto).
      specialize (Ho H' Ec).
      destruct (open_imports IO opn cont v fuel (SInl j) s io) as [[s1|k|] io1]; auto.
      destruct Ho as (H1 & M1 & O1). apply SV_cons_in in H1; auto.
      specialize (IH s1 io1 H1 (fun j' Hj' => Hjs j' (or_intror Hj'))).
      destruct (open_all IO opn cont v fuel rest s1 io1) as [[s2|k|] io2]; auto.
      destruct IH as (H2 & M2 & O2). split; [exact H2|split; [eapply mono_trans; eauto|]].
      intros j' c' [<-|Hj'] Hc'.
      + assert (c' = c) by congruence. subst. eapply opened_mono; eauto.
      + apply O2; auto.
  Qed.
End SchemaCollect.

(* ------------------------------------------------------------------ *)
(* SchemaCollection.add                                                *)
(* ------------------------------------------------------------------ *)

Lemma optN_eqb_eq a b : optN_eqb a b = true <-> a = b.
Proof.
  destruct a, b; cbn; split; intro H; try discriminate; try congruence.
  - apply N.eqb_eq in H. congruence.
  - inversion H. apply N.eqb_refl.
Qed.

Definition from_roots (roots : list xschema) (c : xschema) : Prop :=
  (forall n, In n (x_decls c) -> exists x, In x roots /\ x_tns x = x_tns c /\ In n (x_decls x)) /\
  (forall r, In r (x_refs c) -> exists x, In x roots /\ x_tns x = x_tns c /\ In r (x_refs x)).

Definition holds_root (cont : list xschema) (x : xschema) : Prop :=
  exists j c, nth_error cont j = Some c /\ x_tns c = x_tns x /\
              incl (x_refs x) (x_refs c) /\ incl (x_decls x) (x_decls c).

Lemma add_schema_from roots x cont :
  In x roots -> Forall (from_roots roots) cont -> Forall (from_roots roots) (add_schema x cont).
Proof.
  intros Hx. induction cont as [|y rest IH]; intro H; cbn.
  - constructor; auto. split; intros z Hz; exists x; auto.
  - inversion H as [|? ? Hy Hrest]; subst.
    destruct (optN_eqb (x_tns y) (x_tns x)) eqn:E.
    + apply optN_eqb_eq in E. constructor; auto. destruct Hy as [Hd Hr]. split; cbn; intros z Hz.
      * apply in_app_or in Hz. destruct Hz as [Hz|Hz]; auto. exists x. auto.
      * apply in_app_or in Hz. destruct Hz as [Hz|Hz]; auto. exists x. auto.
    + constructor; auto.
Qed.

Lemma add_schema_holds_old x cont z : holds_root cont z -> holds_root (add_schema x cont) z.
Proof.
  intros [j [c (Hn & Ht & Hr & Hd)]]. revert j Hn. induction cont as [|y rest IH]; intros j Hn.
  - destruct j; discriminate.
  - cbn. destruct (optN_eqb (x_tns y) (x_tns x)) eqn:E.
    + destruct j; cbn in Hn.
      * inversion Hn; subst. exists 0, (mkX (x_tns c) (x_refs c ++ x_refs x) (x_decls c ++ x_decls x)).
        cbn. repeat split; auto; intros w Hw; apply in_or_app; left; auto.
      * exists (S j), c. cbn. auto.
    + destruct j; cbn in Hn.
      * exists 0, c. cbn. inversion Hn; subst. auto.
      * destruct (IH j Hn) as [j' [c' H']]. exists (S j'), c'. cbn. exact H'.
Qed.

Lemma add_schema_holds_new x cont : holds_root (add_schema x cont) x.
Proof.
  induction cont as [|y rest IH]; cbn.
  - exists 0, x. cbn. repeat split; auto; apply incl_refl.
  - destruct (optN_eqb (x_tns y) (x_tns x)) eqn:E.
    + apply optN_eqb_eq in E.
      exists 0, (mkX (x_tns y) (x_refs y ++ x_refs x) (x_decls y ++ x_decls x)). cbn.
      repeat split; auto; intros w Hw; apply in_or_app; right; auto.
    + destruct IH as [j [c H]]. exists (S j), c. cbn. exact H.
Qed.

Lemma consolidate_facts roots :
  Forall (from_roots roots) (consolidate roots) /\ forall x, In x roots -> holds_root (consolidate roots) x.
Proof.
  unfold consolidate.
  assert (G : forall done acc,
             (forall x, In x done -> In x roots) ->
             Forall (from_roots roots) acc -> (forall x, In x done -> In x roots) ->
             forall todo, (forall x, In x todo -> In x roots) ->
             (forall x, In x done -> holds_root acc x) ->
             Forall (from_roots roots) (fold_left (fun c x => add_schema x c) todo acc) /\
             forall x, In x done \/ In x todo -> holds_root (fold_left (fun c x => add_schema x c) todo acc) x).
  { intros done acc Hd Hf _ todo. revert done acc Hd Hf.
    induction todo as [|y rest IH]; intros done acc Hd Hf Ht Hh; cbn.
    - split; auto. intros x [H|[]]; auto.
    - destruct (IH (y :: done) (add_schema y acc)) as [A B].
      + intros x [<-|H]; auto. apply Ht. left; auto.
      + apply add_schema_from; auto. apply Ht. left; auto.
      + intros x H. apply Ht. right; auto.
      + intros x [<-|H]; [apply add_schema_holds_new|apply add_schema_holds_old; auto].
      + split; auto. intros x [H|[<-|H]]; apply B; cbn; auto. }
  destruct (G [] [] (fun x (h : In x []) => match h with end) (Forall_nil _)
              (fun x (h : In x []) => match h with end) roots (fun x h => h)
              (fun x (h : In x []) => match h with end)) as [A B].
  split; auto.
Qed.

(* ------------------------------------------------------------------ *)
(* Definitions.build_schema of one WSDL document                       *)
(* ------------------------------------------------------------------ *)
Section BuildCollect.
  Variable W : world.
  Variable IO : Type.
  Variable opn : dom -> str -> IO -> option doc * IO.
  Variable univ : list (str * doc).
  Variable reqs : IO -> list (dom * str).
  Variable Pio : IO -> Prop.
  Hypothesis Hreq : forall d u io, reqs (snd (opn d u io)) = (d, u) :: reqs io.
  Hypothesis Pio_opn : forall d u io, Pio io -> Pio (snd (opn d u io)).
  Hypothesis Hsrc : forall d u io x, Pio io -> fst (opn d u io) = Some x -> src W u = Some x.
  Hypothesis NoCham : forall a x, src W a = Some (DXsd x) -> x_tns x <> None.

  Variable v : str.
  Variable RQd : str -> str -> Prop.
  Hypothesis RQd_v : forall a, sr W v a -> RQd v a.
  Variable roots : list xschema.
  (* what is built is the collection of v, each root read with the right base *)
  Hypothesis RootsSound : forall x, In x roots -> exists b, member W v b x.
  Hypothesis RootsComplete : forall b x, member W v b x -> In x roots.
  (* guard: the base build_schema uses (the URL of v) resolves the references
     of every root like the root's own URL does *)
  Hypothesis BaseOK : forall b x, member W v b x -> forall l, In l (refs_of_x x) -> join v l = join b l.

  Let cont := consolidate roots.

  Lemma ContSound_l : forall j c, nth_error cont j = Some c ->
      (forall n, In n (x_decls c) -> sd W v (x_tns c, n)) /\
      (forall l, In l (refs_of_x c) -> sr W v (join v l)).
  Proof.
    intros j c Hn. destruct (consolidate_facts roots) as [F _].
    apply nth_error_In in Hn. rewrite Forall_forall in F. destruct (F c Hn) as [Fd Fr]. split.
    - intros n Hin. destruct (Fd n Hin) as [x (Hx & Ht & Hd)].
      destruct (RootsSound x Hx) as [b Hm]. eapply sd_member; eauto.
      unfold own_decls. rewrite <- Ht. apply in_map_iff. eauto.
    - intros l Hl. apply in_refs_of_x_nth in Hl. destruct Hl as [i [r [Hi Hr]]].
      apply nth_error_In in Hi. destruct (Fr r Hi) as [x (Hx & Ht & Hrx)].
      destruct (RootsSound x Hx) as [b Hm].
      apply In_nth_error in Hrx. destruct Hrx as [i' Hi'].
      assert (Hl : In l (refs_of_x x)) by (eapply nth_refs_of_x; eauto).
      rewrite (BaseOK b x Hm l Hl). eapply sr_member; eauto.
  Qed.

  Definition children : list sid := map SInl (seq 0 (length cont)).

  Lemma in_children j : In (SInl j) children <-> j < length cont.
  Proof.
    unfold children. rewrite in_map_iff. split.
    - intros [k [E Hk]]. inversion E; subst. apply in_seq in Hk. lia.
    - intro H. exists j. split; auto. apply in_seq. lia.
  Qed.

  Lemma build_schema_collect io :
    reqs_ok IO reqs Pio RQd io ->
    match build_schema IO opn univ v roots io with
    | (Ok s3, io3) =>
        reqs_ok IO reqs Pio RQd io3 /\
        (s_shadow s3 = false -> forall q, In q (final_tab roots s3) <-> sd W v q)
    | (_, io3) => reqs_ok IO reqs Pio RQd io3
    end.
  Proof.
    intro Rq. unfold build_schema. fold cont.
    assert (H0 : SV W IO reqs Pio v RQd cont children (init_sst cont) io).
    { apply SV_intro; auto.
      - intros a x H. discriminate.
      - intros t q Hq. destruct t as [j|a]; cbn in Hq; [|destruct Hq].
        destruct (nth_error cont j) as [c|] eqn:Ec.
        + rewrite (nth_indep _ [] (own_decls c)) in Hq
            by (rewrite map_length; apply nth_error_Some; congruence).
          rewrite map_nth in Hq. erewrite nth_error_nth in Hq by eauto.
          unfold own_decls in Hq. apply in_map_iff in Hq. destruct Hq as [n [<- Hn]].
          destruct (ContSound_l j c Ec) as [Hd _]. auto.
        + rewrite nth_overflow in Hq; [destruct Hq|]. rewrite map_length.
          apply nth_error_None; auto.
      - intros a _. reflexivity.
      - intros t x q Hi Hq. destruct t as [j|a]; cbn in Hi; [|discriminate].
        exists (SInl j). split.
        + apply in_children. apply nth_error_Some. congruence.
        + cbn. rewrite (nth_indep _ [] (own_decls x))
            by (rewrite map_length; apply nth_error_Some; congruence).
          rewrite map_nth. erewrite nth_error_nth by eauto. exact Hq.
      - intros t x Hi. destruct t as [j|a]; cbn in Hi; [|discriminate].
        left. apply in_children. apply nth_error_Some. congruence.
      - intros t x i r Hi Hn Hnin. exfalso. destruct t as [j|a]; cbn in Hi; [|discriminate].
        apply Hnin. cbn. apply (in_cont_slots cont 0 j x i Hi). apply nth_error_Some. congruence. }
    pose proof (open_all_collect W IO opn reqs Pio Hreq Pio_opn Hsrc NoCham v RQd RQd_v cont ContSound_l
                  children (schema_fuel univ cont) (seq 0 (length cont)) (init_sst cont) io H0) as Ho.
    assert (Hjs : forall j, In j (seq 0 (length cont)) -> In (SInl j) children /\ j < length cont).
    { intros j Hj. apply in_seq in Hj. split; [apply in_children|]; lia. }
    specialize (Ho Hjs).
    destruct (open_all IO opn cont v (schema_fuel univ cont) (seq 0 (length cont)) (init_sst cont) io)
      as [[s3|k|] io3]; auto.
    destruct Ho as ((Mo & Ts & Fr & Cv & Ao & Cl & Rq3) & M3 & O3).
    split; [exact Rq3|]. intros Hsh q.
    (* every instance is completely opened *)
    assert (AllO : forall t x, inst cont s3 t = Some x -> opened s3 t x).
    { intros t x Hi. destruct (Ao t x Hi) as [Hin|H]; auto.
      destruct t as [j|a].
      - apply (O3 j x); auto. apply in_seq. apply in_children in Hin. lia.
      - unfold children in Hin. apply in_map_iff in Hin. destruct Hin as [k [E _]]. discriminate. }
    (* so every reference of every instance is resolved *)
    assert (Res : forall t x l, inst cont s3 t = Some x -> In l (refs_of_x x) ->
                                has (join (base_of v t) l) (s_memo s3) = true).
    { intros t x l Hi Hl. apply in_refs_of_x_nth in Hl. destruct Hl as [i [r [Hn Hr]]].
      assert (Hlt : i < length (x_refs x)) by (apply nth_error_Some; congruence).
      specialize (Cl t x i r Hi Hn (AllO t x Hi i Hlt)).
      destruct Hr as [->|[ns ->]]; cbn in Cl; auto. destruct Cl; [auto|congruence]. }
    (* every schema document of the collection has been loaded *)
    assert (Loaded : forall a, sr W v a -> has a (s_memo s3) = true).
    { intros a Hs. induction Hs as [b x l Hm Hl|a x l Hs IH Hx Hl].
      - pose proof (RootsComplete b x Hm) as Hin.
        destruct (consolidate_facts roots) as [_ Hh]. destruct (Hh x Hin) as [j [c (Hn & Ht & Hr & Hd)]].
        assert (Hlc : In l (refs_of_x c)).
        { apply in_refs_of_x_nth in Hl. destruct Hl as [i [r [Hi Hrr]]]. apply nth_error_In in Hi.
          apply Hr in Hi. apply In_nth_error in Hi. destruct Hi as [i' Hi']. eapply nth_refs_of_x; eauto. }
        pose proof (Res (SInl j) c l Hn Hlc) as R. cbn in R.
        assert (Eb : join v l = join b l) by (apply (BaseOK b x Hm l Hl)).
        rewrite <- Eb. exact R.
      - apply has_true_lookup in IH. destruct IH as [x' Hx'].
        destruct (Mo a x' Hx') as [_ Hsrc']. assert (x' = x) by congruence. subst x'.
        apply (Res (SUrl a) x l); auto. }
    split.
    - intro Hq. unfold final_tab in Hq. apply in_flat_map in Hq. destruct Hq as [j [_ Hq]].
      eapply Ts; eauto.
    - intro Hq.
      assert (Covd : forall t x, inst cont s3 t = Some x -> In q (own_decls x) -> In q (final_tab roots s3)).
      { intros t x Hi Hqx. destruct (Cv t x q Hi Hqx) as [p [Hp Hqp]].
        unfold children in Hp. apply in_map_iff in Hp. destruct Hp as [j [<- Hj]].
        unfold final_tab. apply in_flat_map. exists j. split; auto. }
      destruct Hq as [b x q Hm Hqx|a x q Hs Hx Hqx].
      + pose proof (RootsComplete b x Hm) as Hin.
        destruct (consolidate_facts roots) as [_ Hh]. destruct (Hh x Hin) as [j [c (Hn & Ht & Hr & Hd)]].
        apply (Covd (SInl j) c); auto.
        unfold own_decls in *. apply in_map_iff in Hqx. destruct Hqx as [n [<- Hn']].
        rewrite <- Ht. apply in_map_iff. exists n. split; auto.
      + pose proof (Loaded a Hs) as Hh. apply has_true_lookup in Hh. destruct Hh as [x' Hx'].
        destruct (Mo a x' Hx') as [_ Hsrc']. assert (x' = x) by congruence. subst x'.
        apply (Covd (SUrl a) x); auto.
  Qed.
End BuildCollect.

(* ------------------------------------------------------------------ *)
(* the WSDL loader                                                     *)
(* ------------------------------------------------------------------ *)

Lemma alloc_types_spec u : forall types heap,
  alloc_types u types heap = (seq (length heap) (length types), heap ++ map (mkT u) types).
Proof.
  induction types as [|r rest IH]; intro heap; cbn.
  - rewrite app_nil_r. auto.
  - rewrite IH. rewrite app_length. cbn. rewrite Nat.add_1_r. rewrite <- app_assoc. auto.
Qed.

Lemma nth_error_set_nth {A} (f : A -> A) : forall (l : list A) n m,
  nth_error (set_nth n f l) m = if Nat.eqb m n then option_map f (nth_error l m) else nth_error l m.
Proof.
  induction l as [|a l IH]; intros n m; cbn.
  - destruct (Nat.eqb m n); destruct m, n; auto.
  - destruct n, m; cbn; auto.
Qed.

Lemma lookup_set_memo_same u (d : dinfo) l : has u l = true -> lookup u (set_memo u d l) = Some d.
Proof.
  unfold has. induction l as [|[k x] l IH]; cbn; [discriminate|].
  destruct (str_eqb u k) eqn:E; cbn.
  - rewrite E. auto.
  - rewrite E. auto.
Qed.

Lemma lookup_set_memo_other u k (d : dinfo) l : str_eqb k u = false -> lookup k (set_memo u d l) = lookup k l.
Proof.
  intro Hne. induction l as [|[k' x] l IH]; cbn.
  - rewrite Hne. auto.
  - destruct (str_eqb u k') eqn:E; cbn.
    + apply str_eqb_eq in E. subst k'. rewrite Hne. auto.
    + destruct (str_eqb k k'); auto.
Qed.

Section WsdlCollect.
  Variable W : world.
  Variable IO : Type.
  Variable opn : dom -> str -> IO -> option doc * IO.
  Variable univ : list (str * doc).
  Variable reqs : IO -> list (dom * str).
  Variable Pio : IO -> Prop.
  Hypothesis Hreq : forall d u io, reqs (snd (opn d u io)) = (d, u) :: reqs io.
  Hypothesis Pio_opn : forall d u io, Pio io -> Pio (snd (opn d u io)).
  Hypothesis Hsrc : forall d u io x, Pio io -> fst (opn d u io) = Some x -> src W u = Some x.
  (* guards *)
  Hypothesis NoCham : forall a x, src W a = Some (DXsd x) -> x_tns x <> None.
  Hypothesis WimpAbs : forall v imps types names l x,
      src W v = Some (DWsdl imps types names) -> In l imps -> src W (join v l) = Some (DXsd x) ->
      forall l', In l' (refs_of_x x) -> has_scheme l' = true.
  Variable rank : str -> nat.          (* certificate: the wsdl:import graph has no cycle *)
  Hypothesis Ranked : forall v imps types names l,
      src W v = Some (DWsdl imps types names) -> In l imps -> rank (join v l) < rank v.
  Variable root : str.

  Lemma BaseOK_l v b x : member W v b x -> forall l, In l (refs_of_x x) -> join v l = join b l.
  Proof.
    intros Hm l Hl. destruct Hm as [imps types names ts x Hw Hts Hx|imps types names l0 x Hw Hl0 Hx]; auto.
    rewrite !join_absolute; auto; eapply WimpAbs; eauto.
  Qed.

  Lemma wr_rank a b : wr W a b -> b = a \/ rank b < rank a.
  Proof.
    induction 1 as [|v imps types names l Hv IH Hs Hl]; auto.
    right. pose proof (Ranked v imps types names l Hs Hl). destruct IH as [->|IH]; lia.
  Qed.

  Lemma wr_xsd a x b : src W a = Some (DXsd x) -> wr W a b -> b = a.
  Proof.
    intros Hx H. induction H as [|v imps types names l Hv IH Hs Hl]; auto.
    subst v. congruence.
  Qed.

  Definition heap_at (s : wst) (tid : nat) : option tyobj := nth_error (w_heap s) tid.
  Definition inprog (s : wst) (w : str) : Prop := has w (w_memo s) = true /\ is_built w s = false.

  Definition names_ok (u : str) (d : dinfo) : Prop := forall n, In n (d_names d) <-> names_spec W u n.
  Definition tys_sound (s : wst) (u : str) (d : dinfo) : Prop :=
    forall tid, In tid (d_types d) -> exists t, heap_at s tid = Some t /\ wr W u (t_owner t).
  Definition tys_cover (s : wst) (u : str) (d : dinfo) : Prop :=
    forall w tid t, wr W u w -> heap_at s tid = Some t -> t_owner t = w -> In tid (d_types d).
  Definition tab_ok (s : wst) (u : str) : Prop :=
    w_shadow s = false -> forall q, In q (schema_of u s) <-> decls_spec W u q.
  Definition all_built (s : wst) (u : str) : Prop := forall w, wr W u w -> is_built w s = true.
  Definition mem_complete (s : wst) (u : str) : Prop :=
    forall w b x, wr W u w -> member W w b x ->
      exists tid t, heap_at s tid = Some t /\ t_owner t = w /\ In x (t_roots t).
  Definition Fin (s : wst) (u : str) (d : dinfo) : Prop :=
    names_ok u d /\ tys_sound s u d /\ tys_cover s u d /\ tab_ok s u /\ all_built s u /\ mem_complete s u.

  Definition heap_ok (s : wst) : Prop :=
    forall tid t, heap_at s tid = Some t ->
      has (t_owner t) (w_memo s) = true /\
      (exists imps types names, src W (t_owner t) = Some (DWsdl imps types names)) /\
      forall x, In x (t_roots t) -> exists b, member W (t_owner t) b x.
  Definition memo_w (s : wst) : Prop :=
    forall u d, lookup u (w_memo s) = Some d ->
      wr W root u /\
      (d_wsdl d = true -> exists imps types names, src W u = Some (DWsdl imps types names)) /\
      (d_wsdl d = false -> exists x, src W u = Some (DXsd x) /\ d_xroot d = Some x /\
                                     d_types d = [] /\ d_names d = []).
  Definition built_ok (s : wst) : Prop :=
    forall u, is_built u s = true -> exists d, lookup u (w_memo s) = Some d /\ Fin s u d.
  Definition WV (s : wst) : Prop := memo_w s /\ heap_ok s /\ built_ok s.

  Definition ext (s s' : wst) : Prop :=
    (forall u d, lookup u (w_memo s) = Some d -> is_built u s = true -> lookup u (w_memo s') = Some d) /\
    (forall u, has u (w_memo s) = true -> has u (w_memo s') = true) /\
    (forall u t, lookup u (w_built s) = Some t -> lookup u (w_built s') = Some t) /\
    (forall tid t, heap_at s tid = Some t -> is_built (t_owner t) s = true -> heap_at s' tid = Some t) /\
    (forall tid t', heap_at s' tid = Some t' -> heap_at s tid = Some t' \/ is_built (t_owner t') s = false) /\
    (w_shadow s' = false -> w_shadow s = false).

  Lemma ext_built s s' u : ext s s' -> is_built u s = true -> is_built u s' = true.
  Proof.
    intros (_ & _ & B & _) H. unfold is_built in *. destruct (lookup u (w_built s)) eqn:E; [|discriminate].
    rewrite (B u l E). auto.
  Qed.

  Lemma ext_schema s s' u : ext s s' -> is_built u s = true -> schema_of u s' = schema_of u s.
  Proof.
    intros (_ & _ & B & _) H. unfold is_built, schema_of in *.
    destruct (lookup u (w_built s)) eqn:E; [|discriminate]. rewrite (B u l E). auto.
  Qed.

  Lemma ext_refl s : ext s s.
  Proof. unfold ext. tauto. Qed.

  Lemma ext_intro s s' :
    (forall u d, lookup u (w_memo s) = Some d -> is_built u s = true -> lookup u (w_memo s') = Some d) ->
    (forall u, has u (w_memo s) = true -> has u (w_memo s') = true) ->
    (forall u t, lookup u (w_built s) = Some t -> lookup u (w_built s') = Some t) ->
    (forall tid t, heap_at s tid = Some t -> is_built (t_owner t) s = true -> heap_at s' tid = Some t) ->
    (forall tid t', heap_at s' tid = Some t' -> heap_at s tid = Some t' \/ is_built (t_owner t') s = false) ->
    (w_shadow s' = false -> w_shadow s = false) -> ext s s'.
  Proof. unfold ext. tauto. Qed.

  Lemma ext_trans s1 s2 s3 : ext s1 s2 -> ext s2 s3 -> ext s1 s3.
  Proof.
    intros H12 H23. pose proof (ext_built s1 s2) as Bm.
    destruct H12 as (A1 & H1 & B1 & C1 & D1 & E1). destruct H23 as (A2 & H2 & B2 & C2 & D2 & E2).
    assert (H12 : ext s1 s2) by (apply ext_intro; auto).
    apply ext_intro.
    - intros u d Hl Hb. apply A2; auto.
    - auto.
    - auto.
    - intros tid t Ht Hb. apply C2; auto.
    - intros tid t' Ht. destruct (D2 tid t' Ht) as [H|H].
      + apply D1; auto.
      + right. destruct (is_built (t_owner t') s1) eqn:E; auto. apply (Bm _ H12) in E. congruence.
    - auto.
  Qed.

  Lemma Fin_ext s s' u d : ext s s' -> Fin s u d -> Fin s' u d.
  Proof.
    intros He (Fn & Fs & Fc & Ft & Fa & Fm).
    pose proof (ext_built s s') as Bm. pose proof (ext_schema s s' u He) as Sm.
    destruct He as (A & Hh & B & C & D & E).
    assert (He : ext s s') by (apply ext_intro; auto).
    unfold Fin. split; [exact Fn|split; [|split; [|split; [|split]]]].
    - intros tid Hin. destruct (Fs tid Hin) as [t [Ht Hw]]. exists t. split; auto.
    - intros w tid t Hw Ht Ho. destruct (D tid t Ht) as [H|H].
      + eapply Fc; eauto.
      + subst w. rewrite (Fa _ Hw) in H. discriminate.
    - intros Hsh q. rewrite Sm; [|apply Fa; constructor]. apply Ft. auto.
    - intros w Hw. eapply Bm; eauto.
    - intros w b x Hw Hm. destruct (Fm w b x Hw Hm) as [tid [t (Ht & Ho & Hx)]].
      exists tid, t. split; auto. apply C; auto. rewrite Ho. auto.
  Qed.

  (* ---- spec-level facts ---- *)
  Lemma wr_inv_first a c : wr W a c ->
    c = a \/ exists imps types names l, src W a = Some (DWsdl imps types names) /\ In l imps /\ wr W (join a l) c.
  Proof.
    induction 1 as [|v imps types names l Hv IH Hs Hl]; auto.
    right. destruct IH as [->|[imps0 [types0 [names0 [l0 (H1 & H2 & H3)]]]]].
    - exists imps, types, names, l. split; auto. split; auto. constructor.
    - exists imps0, types0, names0, l0. split; auto. split; auto. eapply wr_step; eauto.
  Qed.

  Lemma wr_first a imps types names l c :
    src W a = Some (DWsdl imps types names) -> In l imps -> wr W (join a l) c -> wr W a c.
  Proof. intros Hs Hl H. eapply wr_trans; [|exact H]. eapply wr_step; eauto. constructor. Qed.

  Lemma member_wsdl v b x : member W v b x -> exists imps types names, src W v = Some (DWsdl imps types names).
  Proof. destruct 1; eauto. Qed.

  Lemma sr_member_ex v a : sr W v a -> exists b x, member W v b x.
  Proof. induction 1; eauto. Qed.

  Lemma sd_member_ex v q : sd W v q -> exists b x, member W v b x.
  Proof. destruct 1; eauto. eapply sr_member_ex; eauto. Qed.

  (* ---- state updates ---- *)
  Lemma set_types_facts self ts s d :
    lookup self (w_memo s) = Some d ->
    lookup self (w_memo (set_types self ts s)) = Some (mkD (d_wsdl d) ts (d_xroot d) (d_names d)) /\
    (forall u, str_eqb u self = false -> lookup u (w_memo (set_types self ts s)) = lookup u (w_memo s)) /\
    w_heap (set_types self ts s) = w_heap s /\ w_built (set_types self ts s) = w_built s /\
    w_shadow (set_types self ts s) = w_shadow s.
  Proof.
    intro H. unfold set_types. rewrite H. cbn. repeat split; auto.
    - apply lookup_set_memo_same. eapply lookup_has; eauto.
    - intros u Hu. apply lookup_set_memo_other; auto.
  Qed.

  Lemma set_names_facts self ns s d :
    lookup self (w_memo s) = Some d ->
    lookup self (w_memo (set_names self ns s)) = Some (mkD (d_wsdl d) (d_types d) (d_xroot d) ns) /\
    (forall u, str_eqb u self = false -> lookup u (w_memo (set_names self ns s)) = lookup u (w_memo s)) /\
    w_heap (set_names self ns s) = w_heap s /\ w_built (set_names self ns s) = w_built s /\
    w_shadow (set_names self ns s) = w_shadow s.
  Proof.
    intro H. unfold set_names. rewrite H. cbn. repeat split; auto.
    - apply lookup_set_memo_same. eapply lookup_has; eauto.
    - intros u Hu. apply lookup_set_memo_other; auto.
  Qed.

  (* a state that differs from s in the entry of the in-progress document
     [self], in Types objects owned by [self], and by new Types objects of [self] *)
  Definition self_upd (self : str) (s s' : wst) : Prop :=
    (forall u, str_eqb u self = false -> lookup u (w_memo s') = lookup u (w_memo s)) /\
    (has self (w_memo s') = true) /\
    w_built s' = w_built s /\ w_shadow s' = w_shadow s /\
    (forall tid t, heap_at s tid = Some t -> t_owner t <> self -> heap_at s' tid = Some t) /\
    (forall tid t', heap_at s' tid = Some t' -> heap_at s tid = Some t' \/ t_owner t' = self).

  Lemma self_upd_ext self s s' :
    is_built self s = false -> has self (w_memo s) = true -> self_upd self s s' -> ext s s'.
  Proof.
    intros Hb Hh (A & Hs & B & Sh & C & D). apply ext_intro.
    - intros u d Hl Hbu. rewrite A; auto. destruct (str_eqb u self) eqn:E; auto.
      apply str_eqb_eq in E. subst. congruence.
    - intros u Hu. destruct (str_eqb u self) eqn:E.
      + apply str_eqb_eq in E. subst. auto.
      + unfold has in *. rewrite A; auto.
    - intros u t Ht. rewrite B. auto.
    - intros tid t Ht Hbt. apply C; auto. intro E. rewrite E in Hbt. congruence.
    - intros tid t' Ht. destruct (D tid t' Ht) as [H|H]; auto. right. rewrite H. auto.
    - rewrite Sh. auto.
  Qed.

  Lemma self_upd_inprog self s s' w :
    has self (w_memo s) = true -> self_upd self s s' -> (inprog s' w <-> inprog s w).
  Proof.
    intros Hh (A & Hs & B & _). unfold inprog, is_built. rewrite B.
    destruct (str_eqb w self) eqn:E.
    - apply str_eqb_eq in E. subst. rewrite Hs, Hh. tauto.
    - unfold has. rewrite A; auto. tauto.
  Qed.

  (* ---- frames: what a nested load leaves alone ---- *)
  Definition frame2 (s s' : wst) : Prop :=
    (forall u d, lookup u (w_memo s) = Some d -> lookup u (w_memo s') = Some d) /\
    (forall tid t, heap_at s tid = Some t -> heap_at s' tid = Some t) /\
    (forall tid t', heap_at s' tid = Some t' -> heap_at s tid = Some t' \/ has (t_owner t') (w_memo s) = false).

  Definition frame_self (self : str) (s s' : wst) : Prop :=
    (forall u d, str_eqb u self = false -> lookup u (w_memo s) = Some d -> lookup u (w_memo s') = Some d) /\
    (forall tid t, heap_at s tid = Some t -> t_owner t <> self -> heap_at s' tid = Some t) /\
    (forall tid t', heap_at s' tid = Some t' ->
        heap_at s tid = Some t' \/ t_owner t' = self \/ has (t_owner t') (w_memo s) = false) /\
    (forall u, has u (w_memo s) = true -> has u (w_memo s') = true).

  Lemma frame2_self self s s' : frame2 s s' -> frame_self self s s'.
  Proof.
    intros (A & B & C). split; [|split; [|split]]; auto.
    - intros tid t' Ht. destruct (C tid t' Ht); auto.
    - intros u Hu. apply has_true_lookup in Hu. destruct Hu as [d Hd]. eapply lookup_has; eauto.
  Qed.

  Lemma self_upd_frame self s s' : has self (w_memo s) = true -> self_upd self s s' -> frame_self self s s'.
  Proof.
    intros Hh (A & Hs & B & Sh & C & D). split; [|split; [|split]]; auto.
    - intros u d Hu Hl. rewrite A; auto.
    - intros tid t' Ht. destruct (D tid t' Ht); auto.
    - intros u Hu. destruct (str_eqb u self) eqn:E.
      + apply str_eqb_eq in E. subst; auto.
      + unfold has in *. rewrite A; auto.
  Qed.

  Lemma frame_self_refl self s : frame_self self s s.
  Proof. split; [|split; [|split]]; auto. Qed.

  Lemma frame_self_trans self s1 s2 s3 : frame_self self s1 s2 -> frame_self self s2 s3 -> frame_self self s1 s3.
  Proof.
    intros (A1 & B1 & C1 & D1) (A2 & B2 & C2 & D2). split; [|split; [|split]]; auto.
    - intros tid t' Ht. destruct (C2 tid t' Ht) as [H|[H|H]]; auto.
      right. right. destruct (has (t_owner t') (w_memo s1)) eqn:E; auto. apply D1 in E. congruence.
  Qed.

  (* ---- the document being constructed, after the imports [done] ---- *)
  Definition LIrec (self : str) (own : list N) (types : list (list xschema)) (done : list str)
             (s : wst) (d : dinfo) : Prop :=
    d_wsdl d = true /\
    (forall n, In n (d_names d) <-> In n own \/ exists l, In l done /\ names_spec W (join self l) n) /\
    (forall tid, In tid (d_types d) -> exists t, heap_at s tid = Some t /\
         (t_owner t = self \/ exists l, In l done /\ wr W (join self l) (t_owner t))) /\
    (forall tid t, heap_at s tid = Some t -> t_owner t = self -> In tid (d_types d)) /\
    (forall l w tid t, In l done -> wr W (join self l) w -> heap_at s tid = Some t -> t_owner t = w ->
         In tid (d_types d)) /\
    (forall l, In l done -> is_built (join self l) s = true) /\
    (forall l x, In l done -> src W (join self l) = Some (DXsd x) ->
         exists tid t, heap_at s tid = Some t /\ t_owner t = self /\ In x (t_roots t)) /\
    (forall ts x, In ts types -> In x ts ->
         exists tid t, heap_at s tid = Some t /\ t_owner t = self /\ In x (t_roots t)).
  Definition LI self own types done s : Prop :=
    exists d, lookup self (w_memo s) = Some d /\ is_built self s = false /\ LIrec self own types done s d.

  Lemma last_in (l : list nat) : l <> [] -> In (last l 0) l.
  Proof.
    induction l as [|a l IH]; [congruence|]. intros _. destruct l as [|b l]; [left; auto|].
    right. apply IH. discriminate.
  Qed.

  (* WV after a change that only concerns the in-progress document *)
  Lemma WV_self_upd self s s' d' :
    WV s -> is_built self s = false -> has self (w_memo s) = true -> self_upd self s s' ->
    lookup self (w_memo s') = Some d' -> wr W root self -> d_wsdl d' = true ->
    (exists imps types names, src W self = Some (DWsdl imps types names)) ->
    (forall tid t', heap_at s' tid = Some t' -> t_owner t' = self ->
                    forall x, In x (t_roots t') -> exists b, member W self b x) ->
    WV s'.
  Proof.
    intros (Mw & Ho & Bo) Hb Hh Hu Hl Hr Hd Hswsdl Hroots.
    pose proof (self_upd_ext self s s' Hb Hh Hu) as He.
    destruct Hu as (A & Hs & B & Sh & C & D).
    split; [|split].
    - intros u d Hld. destruct (str_eqb u self) eqn:E.
      + apply str_eqb_eq in E. subst u. assert (d = d') by congruence. subst d.
        split; auto. split; auto. intro H. congruence.
      + rewrite A in Hld; auto.
    - intros tid t' Ht. destruct (D tid t' Ht) as [H|H].
      + destruct (Ho tid t' H) as (H1 & H2 & H3). split; [|split; auto].
        destruct He as (_ & Hm & _). auto.
      + split; [rewrite H; auto|split; [rewrite H; auto|]]. rewrite H. apply (Hroots tid t' Ht H).
    - intros u Hbu. assert (Hbu0 : is_built u s = true) by (unfold is_built in *; rewrite B in Hbu; auto).
      destruct (Bo u Hbu0) as [d [Hld Hf]]. exists d. split.
      + destruct He as (A1 & _). apply A1; auto.
      + eapply Fin_ext; eauto.
  Qed.

  Lemma names_spec_xsd t x n : src W t = Some (DXsd x) -> ~ names_spec W t n.
  Proof.
    intros Hx (v & imps & types & names & Hw & Hs & _). apply (wr_xsd t x v Hx) in Hw. subst. congruence.
  Qed.

  (* the effect of one wsdl:import on the importer, its target being completely built *)
  Lemma import_step self own allimps types done loc s dt :
    WV s -> LI self own types done s -> wr W root self ->
    src W self = Some (DWsdl allimps types own) -> In loc allimps ->
    is_built (join self loc) s = true -> lookup (join self loc) (w_memo s) = Some dt ->
    let s' := if d_wsdl dt then import_definitions self dt s else import_schema self dt s in
    WV s' /\ LI self own types (loc :: done) s' /\ ext s s' /\ (forall w, inprog s' w <-> inprog s w) /\
    frame_self self s s'.
  Proof.
    intros Hwv (d & Hld & Hnb & Hd & Nm & Ts & Oc & Lc & Bl & Xc & Ic) Hroot Hsself Hloc Hbt Hldt s'.
    set (t := join self loc) in *.
    destruct Hwv as (Mw & Ho & Bo).
    assert (Hwv : WV s) by (split; [|split]; auto).
    destruct (Bo t Hbt) as [dt' [Hldt' Hfin]]. assert (dt' = dt) by congruence. subst dt'.
    destruct Hfin as (Fn & Fs & Fc & Ft & Fa & Fm).
    destruct (Mw t dt Hldt) as (Hrt & Hwt & Hxt).
    assert (Hh : has self (w_memo s) = true) by (eapply lookup_has; eauto).
    assert (Hne : str_eqb t self = false).
    { destruct (str_eqb t self) eqn:E; auto. apply str_eqb_eq in E. rewrite E in Hbt. congruence. }
    assert (Hself_types : self_types self s = d_types d) by (unfold self_types; rewrite Hld; auto).
    assert (Hsrc_ex : exists imps types names, src W self = Some (DWsdl imps types names)) by eauto.
    destruct (d_wsdl dt) eqn:Ew.
    - (* a WSDL: types and tables are taken over *)
      destruct (Hwt eq_refl) as [timps [ttypes [tnames Htsrc]]].
      unfold s', import_definitions. rewrite Hself_types.
      destruct (set_types_facts self (d_types d ++ d_types dt) s d Hld) as (T1 & T2 & T3 & T4 & T5).
      set (s1 := set_types self (d_types d ++ d_types dt) s) in *.
      assert (Hsn : self_names self s = d_names d) by (unfold self_names; rewrite Hld; auto).
      rewrite Hsn.
      destruct (set_names_facts self (d_names d ++ d_names dt) s1 _ T1) as (U1 & U2 & U3 & U4 & U5).
      set (s2 := set_names self (d_names d ++ d_names dt) s1) in *. cbn in U1.
      assert (Hup : self_upd self s s2).
      { split; [|split; [|split; [|split; [|split]]]].
        - intros u Hu. rewrite U2, T2; auto.
        - eapply lookup_has; eauto.
        - rewrite U4, T4. auto.
        - rewrite U5, T5. auto.
        - intros tid t0 Ht _. unfold heap_at in *. rewrite U3, T3. auto.
        - intros tid t0 Ht. left. unfold heap_at in *. rewrite U3, T3 in Ht. auto. }
      assert (Hheap : forall tid, heap_at s2 tid = heap_at s tid) by (intro; unfold heap_at; rewrite U3, T3; auto).
      assert (Hbuilt : forall u, is_built u s2 = is_built u s) by (intro; unfold is_built; rewrite U4, T4; auto).
      split; [|split; [|split]].
      + eapply WV_self_upd; eauto.
        intros tid t0 Ht Hown x Hx. rewrite Hheap in Ht. destruct (Ho tid t0 Ht) as (_ & _ & H3).
        rewrite <- Hown. auto.
      + exists (mkD (d_wsdl d) (d_types d ++ d_types dt) (d_xroot d) (d_names d ++ d_names dt)).
        split; [exact U1|]. split; [rewrite Hbuilt; auto|].
        split; [exact Hd|]. cbn [d_names d_types].
        split; [|split; [|split; [|split; [|split; [|split]]]]].
        * intro n. rewrite in_app_iff, Nm. split.
          -- intros [[H|[l [Hl Hn]]]|H]; auto.
             ++ right. exists l. split; [right; auto|auto].
             ++ right. exists loc. split; [left; auto|]. apply Fn; auto.
          -- intros [H|[l [[<-|Hl] Hn]]]; auto.
             ++ right. apply Fn; auto.
             ++ left. right. eauto.
        * intros tid Hin. rewrite Hheap. apply in_app_or in Hin. destruct Hin as [Hin|Hin].
          -- destruct (Ts tid Hin) as [t0 [Ht [H|[l [Hl Hw]]]]]; exists t0; split; auto.
             right. exists l. split; [right; auto|auto].
          -- destruct (Fs tid Hin) as [t0 [Ht Hw]]. exists t0. split; auto.
             right. exists loc. split; [left; auto|auto].
        * intros tid t0 Ht Hown. rewrite Hheap in Ht. apply in_or_app. left. eapply Oc; eauto.
        * intros l w tid t0 [<-|Hl] Hw Ht Hown; rewrite Hheap in Ht; apply in_or_app.
          -- right. eapply Fc; eauto.
          -- left. eapply Lc; eauto.
        * intros l [<-|Hl]; rewrite Hbuilt; auto.
        * intros l x [<-|Hl] Hx.
          -- fold t in Hx. congruence.
          -- destruct (Xc l x Hl Hx) as [tid [t0 H]]. exists tid, t0. rewrite Hheap. auto.
        * intros ts x Hts Hx. destruct (Ic ts x Hts Hx) as [tid [t0 H]]. exists tid, t0. rewrite Hheap. auto.
      + apply (self_upd_ext self); auto.
      + split; [intro w; apply (self_upd_inprog self); auto|apply self_upd_frame; auto].
    - (* a schema document: its root goes into a Types object of the importer *)
      destruct (Hxt eq_refl) as [x (Htsrc & Hxr & Htys & Htn)].
      assert (Hmem : member W self t x) by (eapply m_wimp; eauto).
      unfold s', import_schema. rewrite Hxr.
      assert (Hown_in : forall tid, In tid (own_types self s) ->
                 In tid (d_types d) /\ exists t0, heap_at s tid = Some t0 /\ t_owner t0 = self).
      { intros tid Hin. unfold own_types in Hin. rewrite Hself_types in Hin. apply filter_In in Hin.
        destruct Hin as [H1 H2]. split; auto. unfold heap_at.
        destruct (nth_error (w_heap s) tid) as [t0|]; [|discriminate]. exists t0. split; auto.
        apply str_eqb_eq; auto. }
      (* the common conclusion, from a description of the new heap and types *)
      assert (Concl : forall s2 d2,
                self_upd self s s2 -> lookup self (w_memo s2) = Some d2 ->
                d_wsdl d2 = true -> d_names d2 = d_names d ->
                (forall tid, In tid (d_types d) -> In tid (d_types d2)) ->
                (forall tid, In tid (d_types d2) -> In tid (d_types d) \/
                             exists t0, heap_at s2 tid = Some t0 /\ t_owner t0 = self) ->
                (forall tid t0, heap_at s tid = Some t0 ->
                     exists t1, heap_at s2 tid = Some t1 /\ t_owner t1 = t_owner t0 /\
                                (forall y, In y (t_roots t0) -> In y (t_roots t1)) /\
                                (forall y, In y (t_roots t1) -> In y (t_roots t0) \/ (y = x /\ t_owner t0 = self))) ->
                (forall tid t1, heap_at s2 tid = Some t1 -> heap_at s tid = None ->
                     t_owner t1 = self /\ t_roots t1 = [x] /\ In tid (d_types d2)) ->
                (exists tid t1, heap_at s2 tid = Some t1 /\ t_owner t1 = self /\ In x (t_roots t1)) ->
                WV s2 /\ LI self own types (loc :: done) s2 /\ ext s s2 /\ (forall w, inprog s2 w <-> inprog s w) /\
                frame_self self s s2).
      { intros s2 d2 Hup Hl2 Hd2 Hn2 Hsub Hsup Hold Hnew Hhas.
        assert (Hbuilt : forall u, is_built u s2 = is_built u s).
        { intro u. destruct Hup as (_ & _ & B & _). unfold is_built. rewrite B. auto. }
        split; [|split; [|split]].
        - eapply WV_self_upd; eauto.
          intros tid t1 Ht Hown y Hy. destruct (heap_at s tid) as [t0|] eqn:E0.
          + destruct (Hold tid t0 E0) as [t1' (H1 & H2 & H3 & H4)]. assert (t1' = t1) by congruence. subst t1'.
            destruct (H4 y Hy) as [H|[-> _]]; [|eauto].
            destruct (Ho tid t0 E0) as (_ & _ & Hr). rewrite <- Hown, H2. auto.
          + destruct (Hnew tid t1 Ht E0) as (_ & Hr & _). rewrite Hr in Hy. destruct Hy as [<-|[]]. eauto.
        - exists d2. split; [exact Hl2|]. split; [rewrite Hbuilt; auto|]. split; [exact Hd2|].
          split; [|split; [|split; [|split; [|split; [|split]]]]].
          + intro n. rewrite Hn2, Nm. split.
            * intros [H|[l [Hl Hn]]]; auto. right. exists l. split; [right; auto|auto].
            * intros [H|[l [[<-|Hl] Hn]]]; auto.
              -- exfalso. eapply names_spec_xsd; eauto.
              -- right. eauto.
          + intros tid Hin. destruct (Hsup tid Hin) as [H|[t0 [Ht Hown]]].
            * destruct (Ts tid H) as [t0 [Ht Hw]]. destruct (Hold tid t0 Ht) as [t1 (H1 & H2 & _)].
              exists t1. split; auto. rewrite H2. destruct Hw as [Hw|[l [Hl Hw]]]; auto.
              right. exists l. split; [right; auto|auto].
            * exists t0. auto.
          + intros tid t1 Ht Hown. destruct (heap_at s tid) as [t0|] eqn:E0.
            * destruct (Hold tid t0 E0) as [t1' (H1 & H2 & _)]. assert (t1' = t1) by congruence. subst t1'.
              apply Hsub. eapply Oc; eauto. congruence.
            * destruct (Hnew tid t1 Ht E0) as (_ & _ & H). exact H.
          + intros l w tid t1 Hl Hw Ht Hown. destruct (heap_at s tid) as [t0|] eqn:E0.
            * destruct (Hold tid t0 E0) as [t1' (H1 & H2 & _)]. assert (t1' = t1) by congruence. subst t1'.
              destruct Hl as [<-|Hl].
              -- fold t in Hw. apply (wr_xsd t x w Htsrc) in Hw. subst w.
                 destruct (Ho tid t0 E0) as (_ & [i1 [i2 [i3 Hs0]]] & _). rewrite <- H2, Hown in Hs0. congruence.
              -- apply Hsub. eapply Lc; eauto. congruence.
            * destruct (Hnew tid t1 Ht E0) as (_ & _ & H). exact H.
          + intros l [<-|Hl]; rewrite Hbuilt; auto.
          + intros l y [<-|Hl] Hy.
            * fold t in Hy. assert (y = x) by congruence. subst y. exact Hhas.
            * destruct (Xc l y Hl Hy) as [tid [t0 (Ht & Hown & Hin)]].
              destruct (Hold tid t0 Ht) as [t1 (H1 & H2 & H3 & _)]. exists tid, t1. split; auto. split; [congruence|auto].
          + intros ts y Hts Hy. destruct (Ic ts y Hts Hy) as [tid [t0 (Ht & Hown & Hin)]].
            destruct (Hold tid t0 Ht) as [t1 (H1 & H2 & H3 & _)]. exists tid, t1. split; auto. split; [congruence|auto].
        - apply (self_upd_ext self); auto.
        - split; [intro w; apply (self_upd_inprog self); auto|apply self_upd_frame; auto]. }
      destruct (own_types self s) as [|tid0 rest] eqn:Eown.
      + (* a new Types object of the importer *)
        rewrite Hself_types.
        set (tid := length (w_heap s)).
        set (sh := set_heap (w_heap s ++ [mkT self [x]]) s).
        assert (Hldh : lookup self (w_memo sh) = Some d) by exact Hld.
        destruct (set_types_facts self (d_types d ++ [tid]) sh d Hldh) as (T1 & T2 & T3 & T4 & T5).
        set (s2 := set_types self (d_types d ++ [tid]) sh) in *.
        assert (Hheap2 : forall k, heap_at s2 k = nth_error (w_heap s ++ [mkT self [x]]) k).
        { intro k. unfold heap_at. rewrite T3. reflexivity. }
        apply (Concl s2 (mkD (d_wsdl d) (d_types d ++ [tid]) (d_xroot d) (d_names d))); auto.
        * split; [|split; [|split; [|split; [|split]]]].
          -- intros u Hu. rewrite T2; auto.
          -- eapply lookup_has; eauto.
          -- rewrite T4. reflexivity.
          -- rewrite T5. reflexivity.
          -- intros k t0 Ht _. rewrite Hheap2. unfold heap_at in Ht. rewrite nth_error_app1; auto.
             apply nth_error_Some. congruence.
          -- intros k t1 Ht. rewrite Hheap2 in Ht.
             destruct (Nat.lt_ge_cases k (length (w_heap s))) as [Hlt|Hge].
             ++ rewrite nth_error_app1 in Ht; auto.
             ++ rewrite nth_error_app2 in Ht; auto. destruct (k - length (w_heap s)); cbn in Ht.
                ** inversion Ht; subst. right. auto.
                ** destruct n; discriminate.
        * intros k Hk. apply in_or_app. left; auto.
        * intros k Hk. cbn in Hk. apply in_app_or in Hk. destruct Hk as [Hk|[<-|[]]]; auto.
          right. exists (mkT self [x]). split; auto. rewrite Hheap2. unfold tid.
          rewrite nth_error_app2; auto. rewrite Nat.sub_diag. reflexivity.
        * intros k t0 Ht. exists t0. rewrite Hheap2. unfold heap_at in Ht.
          rewrite nth_error_app1 by (apply nth_error_Some; congruence). split; auto.
        * intros k t1 Ht Hn. rewrite Hheap2 in Ht. unfold heap_at in Hn. apply nth_error_None in Hn.
          rewrite nth_error_app2 in Ht; auto. destruct (k - length (w_heap s)) eqn:Ek; cbn in Ht.
          -- inversion Ht; subst. cbn. repeat split; auto. apply in_or_app. right. left. unfold tid. lia.
          -- destruct n; discriminate.
        * exists tid, (mkT self [x]). rewrite Hheap2. unfold tid.
          rewrite nth_error_app2; auto. rewrite Nat.sub_diag. cbn. auto.
      + (* the last Types object the importer owns *)
        set (tid := last (tid0 :: rest) 0).
        assert (Htid : In tid (tid0 :: rest)) by (apply last_in; discriminate).
        destruct (Hown_in tid Htid) as [Htd [t0 [Ht0 Hown0]]].
        set (s2 := set_heap (set_nth tid (fun t => mkT (t_owner t) (t_roots t ++ [x])) (w_heap s)) s).
        assert (Hheap2 : forall k, heap_at s2 k =
                  if Nat.eqb k tid then option_map (fun t => mkT (t_owner t) (t_roots t ++ [x])) (heap_at s k)
                  else heap_at s k).
        { intro k. unfold heap_at, s2. cbn. apply nth_error_set_nth. }
        apply (Concl s2 d); auto.
        * split; [|split; [|split; [|split; [|split]]]]; auto.
          -- intros k t1 Ht Hne1. rewrite Hheap2. destruct (Nat.eqb k tid) eqn:E; auto.
             apply Nat.eqb_eq in E. subst k. congruence.
          -- intros k t1 Ht. rewrite Hheap2 in Ht. destruct (Nat.eqb k tid) eqn:E; auto.
             apply Nat.eqb_eq in E. subst k. rewrite Ht0 in Ht. cbn in Ht. inversion Ht; subst. right. auto.
        * intros k t1 Ht. rewrite Hheap2. destruct (Nat.eqb k tid) eqn:E.
          -- apply Nat.eqb_eq in E. subst k. rewrite Ht. cbn.
             exists (mkT (t_owner t1) (t_roots t1 ++ [x])). cbn. repeat split; auto.
             ++ intros y Hy. apply in_or_app. left; auto.
             ++ intros y Hy. apply in_app_or in Hy. destruct Hy as [Hy|[<-|[]]]; auto.
                right. split; auto. congruence.
          -- exists t1. repeat split; auto.
        * intros k t1 Ht Hn. rewrite Hheap2 in Ht. rewrite Hn in Ht. destruct (Nat.eqb k tid); discriminate.
        * exists tid, (mkT (t_owner t0) (t_roots t0 ++ [x])). rewrite Hheap2, Nat.eqb_refl, Ht0. cbn.
          repeat split; auto. apply in_or_app. right. left. auto.
  Qed.

  Definition RQd (o a : str) : Prop := wr W root o /\ sr W o a.
  Definition RQ (io : IO) : Prop := reqs_ok IO reqs Pio RQd io.

  Definition ld_spec (rec : str -> wst -> IO -> outcome wst * IO) : Prop :=
    forall u s io, WV s -> RQ io -> lookup u (w_memo s) = None -> wr W root u ->
      (forall w, inprog s w -> rank u < rank w) ->
      match rec u s io with
      | (Ok s', io') => WV s' /\ RQ io' /\ ext s s' /\ frame2 s s' /\ is_built u s' = true /\
                        (forall w, inprog s' w <-> inprog s w)
      | (_, io') => RQ io'
      end.

  Lemma built_has s u : WV s -> is_built u s = true -> has u (w_memo s) = true.
  Proof. intros (_ & _ & Bo) H. destruct (Bo u H) as [d [Hd _]]. eapply lookup_has; eauto. Qed.

  Lemma LI_frame self own types done s s' :
    WV s -> LI self own types done s -> ext s s' -> frame2 s s' -> (forall w, inprog s' w <-> inprog s w) ->
    LI self own types done s'.
  Proof.
    intros Hwv (d & Hld & Hnb & Hd & Nm & Ts & Oc & Lc & Bl & Xc & Ic) He (A & B & C) Hip.
    assert (Hh : has self (w_memo s) = true) by (eapply lookup_has; eauto).
    exists d. split; [apply A; auto|]. split.
    { assert (Hi : inprog s' self) by (apply Hip; split; auto). apply Hi. }
    split; [exact Hd|]. split; [exact Nm|].
    assert (Old : forall tid t, heap_at s' tid = Some t -> has (t_owner t) (w_memo s) = true -> heap_at s tid = Some t).
    { intros tid t Ht Hm. destruct (C tid t Ht); auto. congruence. }
    split; [|split; [|split; [|split; [|split]]]].
    - intros tid Hin. destruct (Ts tid Hin) as [t [Ht Hw]]. exists t. split; auto.
    - intros tid t Ht Hown. eapply Oc; eauto. apply Old; auto. rewrite Hown; auto.
    - intros l w tid t Hl Hw Ht Hown. eapply Lc; eauto. apply Old; auto.
      destruct Hwv as (Mw & Ho & Bo). destruct (Bo (join self l) (Bl l Hl)) as [dl [_ Hf]].
      destruct Hf as (_ & _ & _ & _ & Fa & _). rewrite Hown.
      apply (built_has s w); [split; [|split]; auto|]. apply Fa; auto.
    - intros l Hl. eapply ext_built; eauto.
    - intros l x Hl Hx. destruct (Xc l x Hl Hx) as [tid [t (Ht & H1 & H2)]]. exists tid, t. auto.
    - intros ts x Hts Hx. destruct (Ic ts x Hts Hx) as [tid [t (Ht & H1 & H2)]]. exists tid, t. auto.
  Qed.

  Lemma loop_imports_collect rec self own allimps types :
    ld_spec rec -> wr W root self -> src W self = Some (DWsdl allimps types own) ->
    forall imps done s io, (forall l, In l imps -> In l allimps) ->
      WV s -> RQ io -> LI self own types done s -> (forall w, inprog s w -> rank self <= rank w) ->
      match loop_imports IO rec self imps s io with
      | (Ok s', io') => WV s' /\ RQ io' /\ LI self own types (rev imps ++ done) s' /\ ext s s' /\
                        frame_self self s s' /\ (forall w, inprog s' w <-> inprog s w)
      | (_, io') => RQ io'
      end.
  Proof.
    intros Hrec Hroot Hsself. induction imps as [|loc rest IH]; intros done s io Hin Hwv Hrq Hli Hrk; cbn.
    - split; auto. split; auto. split; auto. split; [apply ext_refl|]. split; [apply frame_self_refl|tauto].
    - set (t := join self loc).
      assert (Hloc : In loc allimps) by (apply Hin; left; auto).
      pose proof (Ranked self allimps types own loc Hsself Hloc) as Hlt. fold t in Hlt.
      assert (Hself_ip : inprog s self).
      { destruct Hli as (d & Hld & Hnb & _). split; auto. eapply lookup_has; eauto. }
      assert (Step : forall s1 io1, WV s1 -> RQ io1 -> LI self own types done s1 ->
                (forall w, inprog s1 w <-> inprog s w) -> ext s s1 -> frame_self self s s1 ->
                is_built t s1 = true ->
                match (match lookup t (w_memo s1) with
                       | Some d => loop_imports IO rec self rest
                                     (if d_wsdl d then import_definitions self d s1
                                      else import_schema self d s1) io1
                       | None => (Raised 9, io1)
                       end) with
                | (Ok s', io') => WV s' /\ RQ io' /\ LI self own types (rev (loc :: rest) ++ done) s' /\
                                  ext s s' /\ frame_self self s s' /\ (forall w, inprog s' w <-> inprog s w)
                | (_, io') => RQ io'
                end).
      { intros s1 io1 Hwv1 Hrq1 Hli1 Hip1 He1 Hf1 Hbt.
        pose proof (built_has s1 t Hwv1 Hbt) as Hht. apply has_true_lookup in Hht. destruct Hht as [dt Hdt].
        rewrite Hdt.
        destruct (import_step self own allimps types done loc s1 dt Hwv1 Hli1 Hroot Hsself Hloc Hbt Hdt)
          as (Hwv2 & Hli2 & He2 & Hip2 & Hf2).
        set (s2 := if d_wsdl dt then import_definitions self dt s1 else import_schema self dt s1) in *.
        specialize (IH (loc :: done) s2 io1 (fun l Hl => Hin l (or_intror Hl)) Hwv2 Hrq1 Hli2).
        assert (Hrk2 : forall w, inprog s2 w -> rank self <= rank w).
        { intros w Hw. apply Hrk. apply Hip1. apply Hip2. auto. }
        specialize (IH Hrk2).
        destruct (loop_imports IO rec self rest s2 io1) as [[s3|k|] io3]; auto.
        destruct IH as (Hwv3 & Hrq3 & Hli3 & He3 & Hf3 & Hip3).
        split; auto. split; auto. split.
        { cbn [rev]. rewrite <- app_assoc. exact Hli3. }
        split; [eapply ext_trans; [exact He1|eapply ext_trans; eauto]|].
        split; [eapply frame_self_trans; [exact Hf1|eapply frame_self_trans; eauto]|].
        intro w. rewrite Hip3, Hip2, Hip1. tauto. }
      destruct (lookup t (w_memo s)) as [d0|] eqn:El.
      + (* already constructed: it cannot be one of the documents in progress *)
        assert (Hbt : is_built t s = true).
        { destruct (is_built t s) eqn:E; auto. exfalso.
          assert (Hi : inprog s t) by (split; auto; eapply lookup_has; eauto).
          apply Hrk in Hi. lia. }
        rewrite Hbt. apply Step; auto; try tauto. apply ext_refl. apply frame_self_refl.
      + assert (Hrt : wr W root t) by (eapply wr_step; eauto).
        assert (Hpre : forall w, inprog s w -> rank t < rank w).
        { intros w Hw. apply Hrk in Hw. lia. }
        pose proof (Hrec t s io Hwv Hrq El Hrt Hpre) as Hr.
        destruct (rec t s io) as [[s1|k|] io1]; auto.
        destruct Hr as (Hwv1 & Hrq1 & He1 & Hf1 & Hb1 & Hip1).
        apply Step; auto.
        * apply (LI_frame self own types done s s1); auto.
        * apply frame2_self; auto.
  Qed.

  Lemma mark_built_facts u tab sh s2 :
    is_built u s2 = false ->
    let s' := mark_built u tab sh s2 in
    ext s2 s' /\ frame2 s2 s' /\ is_built u s' = true /\ schema_of u s' = tab /\
    (forall w, inprog s' w <-> inprog s2 w /\ w <> u) /\
    (forall w, str_eqb w u = false -> is_built w s' = is_built w s2 /\ schema_of w s' = schema_of w s2).
  Proof.
    intros Hb s'.
    assert (Lk : forall w, lookup w (w_built s') = if str_eqb w u then Some tab else lookup w (w_built s2)).
    { intro w. reflexivity. }
    split; [|split; [|split; [|split; [|split]]]].
    - apply ext_intro; auto.
      + intros w t Ht. rewrite Lk. destruct (str_eqb w u) eqn:E; auto.
        apply str_eqb_eq in E. subst. unfold is_built in Hb. rewrite Ht in Hb. discriminate.
      + cbn. intro H. apply orb_false_iff in H. tauto.
    - split; [|split]; auto.
    - unfold is_built. rewrite Lk, str_eqb_refl. auto.
    - unfold schema_of. rewrite Lk, str_eqb_refl. auto.
    - intro w. unfold inprog, is_built. rewrite Lk. cbn [w_memo s' mark_built].
      destruct (str_eqb w u) eqn:E.
      + apply str_eqb_eq in E. subst. split; [intros [_ H]; discriminate|intros [_ H]; contradiction].
      + split; [intros [H1 H2]; split; [split; auto|]|intros [[H1 H2] _]; split; auto].
        intro E'. subst. rewrite str_eqb_refl in E. discriminate.
    - intros w Hw. unfold is_built, schema_of. rewrite Lk, Hw. auto.
  Qed.

  Lemma RQ_domw u io : RQ io -> RQ (snd (opn DomW u io)).
  Proof.
    intros [P H]. split; [apply Pio_opn; auto|].
    intros o a Hin. rewrite Hreq in Hin. destruct Hin as [E|Hin]; [discriminate|auto].
  Qed.

  Lemma load_defs_collect fuel : ld_spec (load_defs IO opn univ fuel).
  Proof.
    induction fuel as [|f IH]; intros u s io Hwv Hrq Hn Hru Hrk; cbn; [exact Hrq|].
    pose proof (RQ_domw u io Hrq) as Hrq1.
    pose proof (Hsrc DomW u io) as Hs.
    destruct (opn DomW u io) as [o io1]; cbn in Hrq1, Hs.
    destruct o as [d|]; [|exact Hrq1].
    specialize (Hs d (proj1 Hrq) eq_refl).
    assert (Hnb : is_built u s = false).
    { destruct (is_built u s) eqn:E; auto. apply (built_has s u Hwv) in E. rewrite (has_none _ _ Hn) in E. discriminate. }
    assert (Hnh : has u (w_memo s) = false) by (apply has_none; auto).
    destruct Hwv as (Mw & Ho & Bo). assert (Hwv : WV s) by (split; [|split]; auto).
    destruct d as [imps types names|x|]; [| |exact Hrq1].
    - (* a WSDL document *)
      rewrite alloc_types_spec.
      set (heap1 := w_heap s ++ map (mkT u) types).
      set (tids := seq (length (w_heap s)) (length types)).
      set (s1 := reg_wsdl u tids names heap1 s).
      assert (Lk1 : forall w, lookup w (w_memo s1) = if str_eqb w u then Some (mkD true tids None names) else lookup w (w_memo s))
        by (intro; reflexivity).
      assert (Hp1 : forall k t, heap_at s k = Some t -> heap_at s1 k = Some t).
      { intros k t Ht. unfold heap_at in *. cbn. unfold heap1. rewrite nth_error_app1; auto.
        apply nth_error_Some. congruence. }
      assert (Hnew1 : forall k t, heap_at s1 k = Some t -> heap_at s k = None ->
                 exists ts, t = mkT u ts /\ nth_error types (k - length (w_heap s)) = Some ts /\ In k tids).
      { intros k t Ht Hnone. unfold heap_at in *. cbn in Ht. unfold heap1 in Ht.
        apply nth_error_None in Hnone. rewrite nth_error_app2 in Ht; auto.
        rewrite nth_error_map in Ht. destruct (nth_error types (k - length (w_heap s))) as [ts|] eqn:E; [|discriminate].
        inversion Ht; subst. exists ts. split; auto. split; auto. unfold tids. apply in_seq.
        assert (k - length (w_heap s) < length types) by (apply nth_error_Some; congruence). lia. }
      assert (Hold1 : forall k t, heap_at s1 k = Some t -> heap_at s k = Some t \/ (heap_at s k = None /\ t_owner t = u)).
      { intros k t Ht. destruct (heap_at s k) as [t0|] eqn:E.
        - left. rewrite (Hp1 k t0 E) in Ht. auto.
        - right. split; auto. destruct (Hnew1 k t Ht E) as [ts [-> _]]. auto. }
      assert (He1 : ext s s1).
      { apply ext_intro; auto.
        - intros w d Hl _. rewrite Lk1. destruct (str_eqb w u) eqn:E; auto.
          apply str_eqb_eq in E. subst. congruence.
        - intros w Hw. unfold has in *. rewrite Lk1. destruct (str_eqb w u); auto.
        - intros k t Ht. destruct (Hold1 k t Ht) as [H|[_ H]]; auto. right. rewrite H. auto. }
      assert (Hf1 : frame2 s s1).
      { split; [|split]; auto.
        - intros w d Hl. rewrite Lk1. destruct (str_eqb w u) eqn:E; auto.
          apply str_eqb_eq in E. subst. congruence.
        - intros k t Ht. destruct (Hold1 k t Ht) as [H|[_ H]]; auto. right. rewrite H. auto. }
      assert (Hip1 : forall w, inprog s1 w <-> inprog s w \/ w = u).
      { intro w. unfold inprog, has, is_built. rewrite Lk1. cbn [w_built s1 reg_wsdl].
        destruct (str_eqb w u) eqn:E.
        - apply str_eqb_eq in E. subst. unfold is_built in Hnb. rewrite Hnb. tauto.
        - split; [tauto|]. intros [H|H]; auto. subst. rewrite str_eqb_refl in E. discriminate. }
      assert (Hwv1 : WV s1).
      { split; [|split].
        - intros w d Hl. rewrite Lk1 in Hl. destruct (str_eqb w u) eqn:E.
          + apply str_eqb_eq in E. subst. inversion Hl; subst. cbn. split; auto. split; eauto. discriminate.
          + apply Mw; auto.
        - intros k t Ht. destruct (Hold1 k t Ht) as [H|[Hnone Hown]].
          + destruct (Ho k t H) as (H1 & H2 & H3). split; auto. destruct He1 as (_ & Hm & _). auto.
          + destruct (Hnew1 k t Ht Hnone) as [ts [-> [Hts _]]]. cbn. split; [|split; eauto].
            * unfold has. rewrite Lk1, str_eqb_refl. auto.
            * intros y Hy. exists u. eapply m_inline; eauto. eapply nth_error_In; eauto.
        - intros w Hb. assert (Hb0 : is_built w s = true) by exact Hb.
          destruct (Bo w Hb0) as [d [Hl Hf]]. exists d. split.
          + destruct He1 as (A & _). apply A; auto.
          + eapply Fin_ext; eauto. }
      assert (Hli1 : LI u names types [] s1).
      { exists (mkD true tids None names). split; [rewrite Lk1, str_eqb_refl; auto|]. split; [exact Hnb|].
        split; [reflexivity|]. cbn [d_names d_types].
        split; [|split; [|split; [|split; [|split; [|split]]]]].
        - intro n. split; auto. intros [H|[l [[] _]]]; auto.
        - intros k Hk. unfold tids in Hk. apply in_seq in Hk.
          destruct (nth_error types (k - length (w_heap s))) as [ts|] eqn:E.
          + exists (mkT u ts). split; auto. unfold heap_at. cbn. unfold heap1.
            rewrite nth_error_app2 by lia. rewrite nth_error_map, E. auto.
          + apply nth_error_None in E. lia.
        - intros k t Ht Hown. destruct (Hold1 k t Ht) as [H|[Hnone _]].
          + destruct (Ho k t H) as (H1 & _). rewrite Hown in H1. congruence.
          + destruct (Hnew1 k t Ht Hnone) as [ts [_ [_ H]]]. exact H.
        - intros l w k t [].
        - intros l [].
        - intros l x [].
        - intros ts x Hts Hx. apply In_nth_error in Hts. destruct Hts as [i Hi].
          exists (length (w_heap s) + i), (mkT u ts). split; [|split; auto].
          unfold heap_at. cbn. unfold heap1. rewrite nth_error_app2 by lia.
          replace (length (w_heap s) + i - length (w_heap s)) with i by lia.
          rewrite nth_error_map, Hi. auto. }
      assert (Hrk1 : forall w, inprog s1 w -> rank u <= rank w).
      { intros w Hw. apply Hip1 in Hw. destruct Hw as [Hw| ->]; auto. apply Hrk in Hw. lia. }
      pose proof (loop_imports_collect (load_defs IO opn univ f) u names imps types IH Hru Hs imps [] s1 io1
                    (fun l h => h) Hwv1 Hrq1 Hli1 Hrk1) as Hl.
      destruct (loop_imports IO (load_defs IO opn univ f) u imps s1 io1) as [[s2|k|] io2]; auto.
      destruct Hl as (Hwv2 & Hrq2 & Hli2 & He2 & Hf2 & Hip2).
      rewrite app_nil_r in Hli2.
      destruct Hli2 as (d2 & Hld2 & Hnb2 & Hd2 & Nm & Ts & Oc & Lc & Bl & Xc & Ic).
      assert (Hdone : forall l, In l imps -> In l (rev imps)) by (intros l Hl; apply in_rev in Hl; auto).
      assert (Hdone' : forall l, In l (rev imps) -> In l imps) by (intros l Hl; apply in_rev; auto).
      destruct Hwv2 as (Mw2 & Ho2 & Bo2). assert (Hwv2 : WV s2) by (split; [|split]; auto).
      assert (Hst2 : self_types u s2 = d_types d2) by (unfold self_types; rewrite Hld2; auto).
      (* the finished imports *)
      assert (FinI : forall l, In l imps -> exists dl, lookup (join u l) (w_memo s2) = Some dl /\ Fin s2 (join u l) dl).
      { intros l Hl. apply Bo2. apply Bl. auto. }
      (* the roots this document builds itself are exactly its collection *)
      assert (OwnerOf : forall tid t, In tid (d_types d2) -> heap_at s2 tid = Some t ->
                 t_owner t = u \/ (wr W u (t_owner t) /\ is_built (t_owner t) s2 = true)).
      { intros tid t Hin Ht. destruct (Ts tid Hin) as [t' [Ht' Hw]]. assert (t' = t) by congruence. subst t'.
        destruct Hw as [Hw|[l [Hl Hw]]]; auto. right.
        destruct (FinI l (Hdone' l Hl)) as [dl [_ (_ & _ & _ & _ & Fa & _)]].
        split; [eapply wr_first; eauto|apply Fa; auto]. }
      set (roots := local_roots u s2).
      assert (RootsSound : forall x, In x roots -> exists b, member W u b x).
      { intros x Hx. unfold roots, local_roots in Hx. rewrite Hst2 in Hx. apply in_flat_map in Hx.
        destruct Hx as [tid [Hin Hx]]. unfold heap_at in *.
        destruct (nth_error (w_heap s2) tid) as [t|] eqn:Et; [|destruct Hx].
        destruct (is_built (t_owner t) s2) eqn:Eb; [destruct Hx|].
        destruct (OwnerOf tid t Hin Et) as [Hown|[_ Hb]]; [|congruence].
        destruct (Ho2 tid t Et) as (_ & _ & Hr). rewrite <- Hown. auto. }
      assert (OwnRoots : forall tid t x, heap_at s2 tid = Some t -> t_owner t = u -> In x (t_roots t) -> In x roots).
      { intros tid t x Ht Hown Hx. unfold roots, local_roots. rewrite Hst2. apply in_flat_map.
        exists tid. split; [eapply Oc; eauto|]. unfold heap_at in Ht. rewrite Ht, Hown, Hnb2. auto. }
      assert (RootsComplete : forall b x, member W u b x -> In x roots).
      { intros b x Hm. destruct Hm as [imps0 types0 names0 ts x Hw Hts Hx|imps0 types0 names0 l x Hw Hl Hx].
        - assert (types0 = types) by congruence. subst types0.
          destruct (Ic ts x Hts Hx) as [tid [t (Ht & Hown & Hin)]]. eapply OwnRoots; eauto.
        - assert (imps0 = imps) by congruence. subst imps0.
          destruct (Xc l x (Hdone l Hl) Hx) as [tid [t (Ht & Hown & Hin)]]. eapply OwnRoots; eauto. }
      assert (RQd_u : forall a, sr W u a -> RQd u a) by (intros a Ha; split; auto).
      pose proof (build_schema_collect W IO opn univ reqs Pio Hreq Pio_opn Hsrc NoCham u RQd RQd_u roots
                    RootsSound RootsComplete (BaseOK_l u) io2 Hrq2) as Hb.
      fold roots.
      destruct (build_schema IO opn univ u roots io2) as [[s3|k|] io3]; auto.
      destruct Hb as [Hrq3 Htab].
      set (tab := final_tab roots s3 ++ imported_tabs u s2).
      destruct (mark_built_facts u tab (s_shadow s3) s2 Hnb2) as (He3 & Hf3 & Hb3 & Hsch3 & Hip3 & Hoth3).
      set (s' := mark_built u tab (s_shadow s3) s2) in *.
      assert (Hheap' : forall k, heap_at s' k = heap_at s2 k) by (intro; reflexivity).
      assert (Hmemo' : forall w, lookup w (w_memo s') = lookup w (w_memo s2)) by (intro; reflexivity).
      (* the new document is finished *)
      assert (Wr1 : forall l w, In l imps -> wr W (join u l) w -> wr W u w).
      { intros l w Hl Hw. eapply wr_first; eauto. }
      assert (FinU : Fin s' u d2).
      { split; [|split; [|split; [|split; [|split]]]].
        - intro n. rewrite Nm. split.
          + intros [H|[l [Hl (w & i1 & t1 & n1 & Hw & Hsw & Hn1)]]].
            * exists u, imps, types, names. split; [constructor|auto].
            * exists w, i1, t1, n1. split; auto. eapply Wr1; eauto.
          + intros (w & i1 & t1 & n1 & Hw & Hsw & Hn1).
            destruct (wr_inv_first u w Hw) as [->|(i0 & t0 & n0 & l & Hs0 & Hl & Hw')].
            * left. congruence.
            * right. assert (i0 = imps) by congruence. subst i0. exists l. split; auto.
              exists w, i1, t1, n1. auto.
        - intros tid Hin. destruct (Ts tid Hin) as [t [Ht Hw]]. exists t. rewrite Hheap'. split; auto.
          destruct Hw as [->|[l [Hl Hw]]]; [constructor|]. eapply Wr1; eauto.
        - intros w tid t Hw Ht Hown. rewrite Hheap' in Ht.
          destruct (wr_inv_first u w Hw) as [->|(i0 & t0 & n0 & l & Hs0 & Hl & Hw')].
          + eapply Oc; eauto.
          + assert (i0 = imps) by congruence. subst i0. eapply Lc; eauto.
        - intros Hsh q. rewrite Hsch3. cbn in Hsh. apply orb_false_iff in Hsh. destruct Hsh as [Hsh2 Hsh3].
          unfold tab. rewrite in_app_iff. split.
          + intros [Hq|Hq].
            * exists u. split; [constructor|]. apply Htab; auto.
            * unfold imported_tabs in Hq. rewrite Hst2 in Hq. apply in_flat_map in Hq.
              destruct Hq as [tid [Hin Hq]]. unfold heap_at in *.
              destruct (nth_error (w_heap s2) tid) as [t|] eqn:Et; [|destruct Hq].
              destruct (OwnerOf tid t Hin Et) as [Hown|[Hw Hbt]].
              -- rewrite Hown in Hq. unfold schema_of, is_built in *.
                 destruct (lookup u (w_built s2)); [discriminate|destruct Hq].
              -- destruct (Bo2 _ Hbt) as [dw [_ (_ & _ & _ & Ft & _)]].
                 apply (Ft Hsh2) in Hq. destruct Hq as [w' [Hw' Hsd]]. exists w'. split; auto.
                 eapply wr_trans; eauto.
          + intros [w [Hw Hsd]].
            destruct (wr_inv_first u w Hw) as [->|(i0 & t0 & n0 & l & Hs0 & Hl & Hw')].
            * left. apply Htab; auto.
            * right. assert (i0 = imps) by congruence. subst i0.
              destruct (FinI l Hl) as [dl [_ (_ & _ & _ & _ & Fa & Fm)]].
              destruct (sd_member_ex w q Hsd) as [b [x Hm]].
              destruct (Fm w b x Hw' Hm) as [tid [t (Ht & Hown & _)]].
              assert (Hin : In tid (d_types d2)) by (eapply Lc; eauto).
              unfold imported_tabs. rewrite Hst2. apply in_flat_map. exists tid. split; auto.
              unfold heap_at in Ht. rewrite Ht, Hown.
              destruct (Bo2 w (Fa w Hw')) as [dw [_ (_ & _ & _ & Ft & _)]].
              apply (Ft Hsh2). exists w. split; [constructor|auto].
        - intros w Hw. destruct (wr_inv_first u w Hw) as [->|(i0 & t0 & n0 & l & Hs0 & Hl & Hw')]; auto.
          assert (i0 = imps) by congruence. subst i0.
          destruct (FinI l Hl) as [dl [_ (_ & _ & _ & _ & Fa & _)]].
          eapply ext_built; eauto.
        - intros w b x Hw Hm.
          destruct (wr_inv_first u w Hw) as [->|(i0 & t0 & n0 & l & Hs0 & Hl & Hw')].
          + destruct Hm as [imps0 types0 names0 ts x Hw0 Hts Hx|imps0 types0 names0 l x Hw0 Hl Hx].
            * assert (types0 = types) by congruence. subst types0. apply (Ic ts x Hts Hx).
            * assert (imps0 = imps) by congruence. subst imps0. apply (Xc l x (Hdone l Hl) Hx).
          + assert (i0 = imps) by congruence. subst i0.
            destruct (FinI l Hl) as [dl [_ (_ & _ & _ & _ & _ & Fm)]]. apply (Fm w b x Hw' Hm). }
      assert (Hwv' : WV s').
      { split; [|split]; auto.
        intros w Hb. destruct (str_eqb w u) eqn:E.
        - apply str_eqb_eq in E. subst w. exists d2. split; auto.
        - destruct (Hoth3 w E) as [Hbw _]. rewrite Hbw in Hb.
          destruct (Bo2 w Hb) as [dw [Hl Hf]]. exists dw. split; auto. eapply Fin_ext; eauto. }
      split; [exact Hwv'|]. split; [exact Hrq3|].
      split; [eapply ext_trans; [exact He1|eapply ext_trans; [exact He2|exact He3]]|].
      split.
      { (* nothing that existed before is touched *)
        destruct Hf2 as (A2 & B2 & C2 & D2).
        split; [|split].
        - intros w d Hl. rewrite Hmemo'. apply A2.
          + destruct (str_eqb w u) eqn:E; auto. apply str_eqb_eq in E. subst. congruence.
          + destruct Hf1 as (A1 & _). auto.
        - intros k t Ht. rewrite Hheap'. apply B2; auto.
          destruct (Ho k t Ht) as (Hm & _). intro E. rewrite E in Hm. congruence.
        - intros k t Ht. rewrite Hheap' in Ht. destruct (C2 k t Ht) as [H|[H|H]].
          + destruct (Hold1 k t H) as [H0|[_ H0]]; auto. right. rewrite H0. auto.
          + right. rewrite H. auto.
          + right. destruct (has (t_owner t) (w_memo s)) eqn:E; auto.
            destruct He1 as (_ & Hm & _). apply Hm in E. congruence. }
      split; [exact Hb3|].
      intro w. rewrite Hip3, Hip2, Hip1. split.
      + intros [[H| ->] Hne]; auto. contradiction.
      + intro H. split; auto. intro E. subst. destruct H as [H _]. congruence.
    - (* a schema document under wsdl:import *)
      set (s1 := reg_xsd u x s).
      assert (Lk1 : forall w, lookup w (w_memo s1) = if str_eqb w u then Some (mkD false [] (Some x) []) else lookup w (w_memo s))
        by (intro; reflexivity).
      assert (Hnb1 : is_built u s1 = false) by exact Hnb.
      destruct (mark_built_facts u [] false s1 Hnb1) as (He3 & Hf3 & Hb3 & Hsch3 & Hip3 & Hoth3).
      set (s' := mark_built u [] false s1) in *.
      assert (He1 : ext s s1).
      { apply ext_intro; auto.
        - intros w d Hl _. rewrite Lk1. destruct (str_eqb w u) eqn:E; auto.
          apply str_eqb_eq in E. subst. congruence.
        - intros w Hw. unfold has in *. rewrite Lk1. destruct (str_eqb w u); auto. }
      assert (He : ext s s') by (eapply ext_trans; eauto).
      assert (Hxsd_no_member : forall b y, ~ member W u b y).
      { intros b y Hm. destruct (member_wsdl u b y Hm) as [i1 [t1 [n1 H1]]]. congruence. }
      split; [|split; [exact Hrq1|split; [exact He|split; [|split; [exact Hb3|]]]]].
      + split; [|split].
        * intros w d Hl. change (lookup w (w_memo s1) = Some d) in Hl. rewrite Lk1 in Hl.
          destruct (str_eqb w u) eqn:E.
          -- apply str_eqb_eq in E. subst. inversion Hl; subst. cbn. split; auto. split; [discriminate|eauto].
          -- apply Mw; auto.
        * intros k t Ht. destruct (Ho k t Ht) as (H1 & H2 & H3). split; auto.
          destruct He as (_ & Hm & _). auto.
        * intros w Hb. destruct (str_eqb w u) eqn:E.
          -- apply str_eqb_eq in E. subst w. exists (mkD false [] (Some x) []).
             split; [change (lookup u (w_memo s1) = Some (mkD false [] (Some x) [])); rewrite Lk1, str_eqb_refl; auto|].
             split; [|split; [|split; [|split; [|split]]]].
             ++ intro n. cbn. split; [intros []|]. intro H. exfalso. eapply names_spec_xsd; eauto.
             ++ intros tid [].
             ++ intros w tid t Hw Ht Hown. apply (wr_xsd u x w Hs) in Hw. subst w.
                destruct (Ho tid t Ht) as (_ & [i1 [t1 [n1 H1]]] & _). rewrite Hown in H1. congruence.
             ++ intros _ q. rewrite Hsch3. split; [intros []|]. intros [w [Hw Hsd]].
                apply (wr_xsd u x w Hs) in Hw. subst w. destruct (sd_member_ex u q Hsd) as [b [y Hm]].
                destruct (Hxsd_no_member b y Hm).
             ++ intros w Hw. apply (wr_xsd u x w Hs) in Hw. subst w. auto.
             ++ intros w b y Hw Hm. apply (wr_xsd u x w Hs) in Hw. subst w. destruct (Hxsd_no_member b y Hm).
          -- destruct (Hoth3 w E) as [Hbw _]. rewrite Hbw in Hb. assert (Hb0 : is_built w s = true) by exact Hb.
             destruct (Bo w Hb0) as [dw [Hl Hf]]. exists dw. split.
             ++ destruct He as (A & _). apply A; auto.
             ++ eapply Fin_ext; eauto.
      + split; [|split]; auto.
        intros w d Hl. change (lookup w (w_memo s1) = Some d). rewrite Lk1. destruct (str_eqb w u) eqn:E; auto.
        apply str_eqb_eq in E. subst. congruence.
      + intro w. rewrite Hip3. unfold inprog, has, is_built. rewrite Lk1. cbn [w_built s1 reg_xsd].
        destruct (str_eqb w u) eqn:E.
        * apply str_eqb_eq in E. subst. unfold is_built in Hnb. rewrite Hnb. unfold has in Hnh. 
          destruct (lookup u (w_memo s)); [discriminate|]. split; [intros [_ H]; contradiction|intros [H _]; discriminate].
        * split; [tauto|]. intro H. split; auto. intro E'. subst. rewrite str_eqb_refl in E. discriminate.
  Qed.
End WsdlCollect.

(* ------------------------------------------------------------------ *)
(* the concrete loader: guards as booleans, final statements           *)
(* ------------------------------------------------------------------ *)

Definition is_some {A} (o : option A) : bool := match o with Some _ => true | None => false end.

(* no schema document without a target namespace (chameleon includes are
   covered by the executed correspondence only) *)
Definition no_chameleon (W : world) : bool :=
  forallb (fun e => match snd (snd e) with DXsd x => is_some (x_tns x) | _ => true end) (w_docs W).

(* excludes C12:wsdl-import-xsd-relative-base: a schema document that is the
   target of a wsdl:import has absolute locations only *)
Definition wimp_abs (W : world) : bool :=
  forallb (fun e => match snd (snd e) with
                    | DWsdl imps _ _ =>
                        forallb (fun l => match src W (join (fst e) l) with
                                          | Some (DXsd x) => forallb has_scheme (refs_of_x x)
                                          | _ => true
                                          end) imps
                    | _ => true
                    end) (w_docs W).

(* excludes the two WSDL cycle findings: [rk] ranks the documents so that
   every wsdl:import goes to a lower rank *)
Definition rank_of (rk : list (str * nat)) (u : str) : nat :=
  match lookup u rk with Some n => n | None => 0 end.
Definition ranked (W : world) (rk : list (str * nat)) : bool :=
  forallb (fun e => match snd (snd e) with
                    | DWsdl imps _ _ => forallb (fun l => Nat.ltb (rank_of rk (join (fst e) l)) (rank_of rk (fst e))) imps
                    | _ => true
                    end) (w_docs W).

Definition guards (W : world) (rk : list (str * nat)) : bool :=
  no_chameleon W && wimp_abs W && ranked W rk.

Lemma src_in W u d : src W u = Some d -> exists b, In (u, (b, d)) (w_docs W).
Proof.
  unfold src. destruct (lookup u (w_docs W)) as [[b d']|] eqn:E; [|discriminate].
  intro H. inversion H; subst. exists b. apply lookup_in. auto.
Qed.

Lemma no_chameleon_l W : no_chameleon W = true -> forall a x, src W a = Some (DXsd x) -> x_tns x <> None.
Proof.
  intros G a x Hs. destruct (src_in W a _ Hs) as [b Hin]. unfold no_chameleon in G.
  rewrite forallb_forall in G. specialize (G _ Hin). cbn in G. destruct (x_tns x); [discriminate|discriminate].
Qed.

Lemma wimp_abs_l W : wimp_abs W = true -> forall v imps types names l x,
  src W v = Some (DWsdl imps types names) -> In l imps -> src W (join v l) = Some (DXsd x) ->
  forall l', In l' (refs_of_x x) -> has_scheme l' = true.
Proof.
  intros G v imps types names l x Hs Hl Hx l' Hl'. destruct (src_in W v _ Hs) as [b Hin].
  unfold wimp_abs in G. rewrite forallb_forall in G. specialize (G _ Hin). cbn in G.
  rewrite forallb_forall in G. specialize (G l Hl). rewrite Hx in G. rewrite forallb_forall in G. auto.
Qed.

Lemma ranked_l W rk : ranked W rk = true -> forall v imps types names l,
  src W v = Some (DWsdl imps types names) -> In l imps -> rank_of rk (join v l) < rank_of rk v.
Proof.
  intros G v imps types names l Hs Hl. destruct (src_in W v _ Hs) as [b Hin].
  unfold ranked in G. rewrite forallb_forall in G. specialize (G _ Hin). cbn in G.
  rewrite forallb_forall in G. specialize (G l Hl). apply Nat.ltb_lt in G. exact G.
Qed.

Transparent load_root.
Lemma load_collect_l W rk root i :
  guards W rk = true -> cache_sound W (i_dcache i) -> i_reqs i = [] ->
  match load_root io (opn_c W) (docs_of W) root i with
  | (Ok s, i') =>
      (forall o a, In (DomS o, a) (i_reqs i') -> wr W root o /\ sr W o a) /\
      (w_shadow s = false ->
       (forall n, In n (fst (collected root s)) <-> names_spec W root n) /\
       (forall q, In q (snd (collected root s)) <-> decls_spec W root q))
  | (_, i') => forall o a, In (DomS o, a) (i_reqs i') -> wr W root o /\ sr W o a
  end.
Proof.
  intros G Hs Er. unfold guards in G. apply andb_true_iff in G. destruct G as [G Gr].
  apply andb_true_iff in G. destruct G as [Gc Ga].
  pose proof (load_defs_collect W io (opn_c W) (docs_of W) i_reqs (fun x => cache_sound W (i_dcache x))
                (opn_c_reqs W) (fun d u x => opn_c_sound W d u x) (fun d u x y => opn_c_src W d u x y)
                (no_chameleon_l W Gc) (wimp_abs_l W Ga) (rank_of rk) (ranked_l W rk Gr) root
                (S (length (docs_of W))) root wst0 i) as L.
  unfold load_root.
  assert (Hwv0 : WV W root wst0).
  { split; [|split].
    - intros u d H. discriminate.
    - intros tid t H. unfold heap_at in H. destruct tid; discriminate.
    - intros u H. discriminate. }
  assert (Hrq0 : RQ W io i_reqs (fun x => cache_sound W (i_dcache x)) root i).
  { split; auto. rewrite Er. intros o a []. }
  specialize (L Hwv0 Hrq0 eq_refl (wr_refl W root)).
  assert (Hip0 : forall w, inprog wst0 w -> rank_of rk root < rank_of rk w).
  { intros w [H _]. discriminate. }
  specialize (L Hip0).
  destruct (load_defs io (opn_c W) (docs_of W) (S (length (docs_of W))) root wst0 i) as [[s|k|] i'].
  - destruct L as (Hwv & Hrq & _ & _ & Hb & _). split; [apply Hrq|].
    intro Hsh. destruct Hwv as (_ & _ & Bo). destruct (Bo root Hb) as [d [Hl (Fn & _ & _ & Ft & _)]].
    unfold collected, self_names. rewrite Hl. cbn. split; [exact Fn|apply Ft; auto].
  - apply L.
  - apply L.
Qed.
Opaque load_root.

(* every request of a schema loader is for a reachable document *)
Lemma schema_requests_reachable_l W rk root oc i :
  guards W rk = true -> cache_sound W (i_dcache i) -> i_reqs i = [] -> i_log i = [] ->
  forall o a, In (DomS o, a) (fetches (i_log (snd (fst (client_load W root oc i))))) -> reach W root a.
Proof.
  intros G Hs Er El o a Hin.
  destruct (client_io W root oc i) as [E|E]; rewrite E in Hin.
  - rewrite El in Hin. destruct Hin.
  - apply (incl_fetches_reqs W root i Er El) in Hin.
    pose proof (load_collect_l W rk root i G Hs Er) as L.
    destruct (load_root io (opn_c W) (docs_of W) root i) as [[s|k|] i']; cbn in Hin.
    + destruct L as [L _]. destruct (L o a Hin) as [Hw Hsr]. eapply sr_reach; eauto.
    + destruct (L o a Hin) as [Hw Hsr]. eapply sr_reach; eauto.
    + destruct (L o a Hin) as [Hw Hsr]. eapply sr_reach; eauto.
Qed.

(* ---- partitions of an interface ---- *)
Record iface := mkIface { if_names : list N; if_schemas : list xschema }.

(* the schemas of an interface refer to each other by namespace only, and
   every qualified name is declared once *)
Definition ns_only (x : xschema) : bool :=
  forallb (fun r => match r with XImp _ None => true | _ => false end) (x_refs x).
Definition iface_decls (I : iface) : list qn := flat_map own_decls (if_schemas I).
Definition wf_iface (I : iface) : Prop :=
  forallb ns_only (if_schemas I) = true /\ NoDup (if_names I) /\ NoDup (iface_decls I).

Definition single (r : str) (pol : N) (I : iface) : world :=
  mkWorld [(r, (false, DWsdl [] [if_schemas I] (if_names I)))] pol None.

(* a world is a partition of I when the documents reachable from its root
   declare what I declares *)
Definition is_partition (W : world) (root : str) (I : iface) : Prop :=
  (forall n, names_spec W root n <-> In n (if_names I)) /\
  (forall q, decls_spec W root q <-> In q (iface_decls I)).

Lemma ns_only_refs x : ns_only x = true -> refs_of_x x = [].
Proof.
  unfold ns_only, refs_of_x. induction (x_refs x) as [|r rest IH]; cbn; auto.
  intro H. apply andb_true_iff in H. destruct H as [H1 H2]. destruct r as [ns [l|]|l]; try discriminate.
  cbn. auto.
Qed.

Lemma single_is_partition r pol I : wf_iface I -> is_partition (single r pol I) r I.
Proof.
  intros (Hns & _ & _).
  assert (Hsrc : forall v d, src (single r pol I) v = Some d -> v = r /\ d = DWsdl [] [if_schemas I] (if_names I)).
  { intros v d. unfold src, single. cbn. destruct (str_eqb v r) eqn:E; [|discriminate].
    apply str_eqb_eq in E. intro H. inversion H. auto. }
  assert (Hr : src (single r pol I) r = Some (DWsdl [] [if_schemas I] (if_names I))).
  { unfold src, single. cbn. rewrite str_eqb_refl. auto. }
  assert (Hwr : forall v, wr (single r pol I) r v -> v = r).
  { intros v H. induction H as [|v imps types names l Hv IH Hs Hl]; auto.
    destruct (Hsrc _ _ Hs) as [_ E]. inversion E; subst. destruct Hl. }
  assert (Hmem : forall b x, member (single r pol I) r b x -> In x (if_schemas I)).
  { intros b x Hm. destruct Hm as [imps types names ts x Hw Hts Hx|imps types names l x Hw Hl Hx].
    - destruct (Hsrc _ _ Hw) as [_ E]. inversion E; subst. destruct Hts as [<-|[]]. auto.
    - destruct (Hsrc _ _ Hw) as [_ E]. inversion E; subst. destruct Hl. }
  assert (Hnosr : forall a, ~ sr (single r pol I) r a).
  { intros a Hs. destruct (sr_member_ex _ r a Hs) as [b [x Hm]].
    induction Hs as [b' x' l Hm' Hl|a' x' l Hs' IH Hx Hl].
    - apply Hmem in Hm'. rewrite forallb_forall in Hns. rewrite (ns_only_refs x' (Hns _ Hm')) in Hl. destruct Hl.
    - apply IH. }
  split.
  - intro n. split.
    + intros (v & imps & types & names & Hw & Hs & Hn). apply Hwr in Hw. subst.
      rewrite Hr in Hs. inversion Hs; subst. auto.
    + intro Hn. exists r, [], [if_schemas I], (if_names I). split; [constructor|auto].
  - intro q. unfold iface_decls. rewrite in_flat_map. split.
    + intros [v [Hw Hsd]]. apply Hwr in Hw. subst v. destruct Hsd as [b x q Hm Hq|a x q Hs _ _].
      * exists x. split; auto. eapply Hmem; eauto.
      * destruct (Hnosr a Hs).
    + intros [x [Hx Hq]]. exists r. split; [constructor|]. eapply sd_member; eauto.
      eapply m_inline; eauto. left; auto.
Qed.

Definition same_set {A} (a b : list A) : Prop := forall x, In x a <-> In x b.

Lemma partition_equivalent_l I W root rk r1 pol s i' s1 i1 :
  wf_iface I -> guards W rk = true -> is_partition W root I ->
  load_root io (opn_c W) (docs_of W) root io0 = (Ok s, i') -> w_shadow s = false ->
  load_root io (opn_c (single r1 pol I)) (docs_of (single r1 pol I)) r1 io0 = (Ok s1, i1) ->
  w_shadow s1 = false ->
  same_set (fst (collected root s)) (fst (collected r1 s1)) /\
  same_set (snd (collected root s)) (snd (collected r1 s1)).
Proof.
  intros Hwf G [Pn Pd] Hl Hsh Hl1 Hsh1.
  assert (S0 : forall W0, cache_sound W0 (i_dcache io0)) by (intros W0 u d []).
  pose proof (load_collect_l W rk root io0 G (S0 W) eq_refl) as L. rewrite Hl in L.
  destruct L as [_ L]. destruct (L Hsh) as [Ln Ld].
  assert (G1 : guards (single r1 pol I) [] = true) by reflexivity.
  pose proof (load_collect_l (single r1 pol I) [] r1 io0 G1 (S0 _) eq_refl) as L1. rewrite Hl1 in L1.
  destruct L1 as [_ L1]. destruct (L1 Hsh1) as [Ln1 Ld1].
  destruct (single_is_partition r1 pol I Hwf) as [Qn Qd].
  split; intro x.
  - rewrite Ln, Ln1, Pn, Qn. tauto.
  - rewrite Ld, Ld1, Pd, Qd. tauto.
Qed.
