(* C12 -- what a load collects.

   SPEC (from the property text): the documents reachable from a WSDL
   through wsdl:import, the schema roots of each such document's collection
   (its inline schemas and the schema documents it wsdl:imports), the schema
   documents reachable from those through xsd:import / xsd:include -- every
   reference resolved against the URL of the document containing it -- and
   the declarations found there.

   PROOFS: under explicit guards the tables of the constructed root
   Definitions hold exactly those declarations (so every partition of an
   interface yields the tables of the single-document WSDL), and every
   request of a schema loader is for a reachable document. *)
From SV Require Import Lib.Base C12.Url C12.Model C12.Proofs.
From Coq Require Import ZifyBool ZifyNat ZifyN.

(* ------------------------------------------------------------------ *)
(* specification                                                       *)
(* ------------------------------------------------------------------ *)
Section Spec.
  Variable W : world.

  (* reachable from [a] through wsdl:import *)
  Inductive wr (a : str) : str -> Prop :=
  | wr_refl : wr a a
  | wr_step : forall v imps types names l,
      wr a v -> src W v = Some (DWsdl imps types names) -> In l imps -> wr a (join v l).

  (* the schema roots of the collection of WSDL document [v], each with the
     URL its references are relative to *)
  Inductive member (v : str) : str -> xschema -> Prop :=
  | m_inline : forall imps types names ts x,
      src W v = Some (DWsdl imps types names) -> In ts types -> In x ts -> member v v x
  | m_wimp : forall imps types names l x,
      src W v = Some (DWsdl imps types names) -> In l imps ->
      src W (join v l) = Some (DXsd x) -> member v (join v l) x.

  (* schema documents reachable from the collection of [v] *)
  Inductive sr (v : str) : str -> Prop :=
  | sr_member : forall b x l, member v b x -> In l (refs_of_x x) -> sr v (join b l)
  | sr_step : forall a x l, sr v a -> src W a = Some (DXsd x) -> In l (refs_of_x x) -> sr v (join a l).

  (* the declarations of the collection of [v] *)
  Inductive sd (v : str) : qn -> Prop :=
  | sd_member : forall b x q, member v b x -> In q (own_decls x) -> sd v q
  | sd_doc : forall a x q, sr v a -> src W a = Some (DXsd x) -> In q (own_decls x) -> sd v q.

  Definition names_spec (r : str) (n : N) : Prop :=
    exists v imps types names, wr r v /\ src W v = Some (DWsdl imps types names) /\ In n names.
  Definition decls_spec (r : str) (q : qn) : Prop := exists v, wr r v /\ sd v q.

  Lemma wr_trans a b c : wr a b -> wr b c -> wr a c.
  Proof. intros H1 H2. induction H2; auto. eapply wr_step; eauto. Qed.

  (* everything above is reachable in the sense of Model.reach *)
  Lemma wr_reach a b : wr a b -> reach W a b.
  Proof.
    induction 1; [constructor|]. eapply reach_step; eauto. cbn. apply in_or_app. left; auto.
  Qed.

  Lemma in_flat_types (types : list (list xschema)) ts x l :
    In ts types -> In x ts -> In l (refs_of_x x) -> In l (flat_map (flat_map refs_of_x) types).
  Proof.
    intros H1 H2 H3. apply in_flat_map. exists ts. split; auto. apply in_flat_map. exists x. auto.
  Qed.

  Lemma member_reach r v b x : wr r v -> member v b x -> reach W r b.
  Proof.
    intros Hv Hm. destruct Hm.
    - apply wr_reach; auto.
    - eapply reach_step; [apply wr_reach; eauto|eauto|]. cbn. apply in_or_app. left; auto.
  Qed.

  Lemma sr_reach r v a : wr r v -> sr v a -> reach W r a.
  Proof.
    intros Hv Hs. induction Hs.
    - destruct H.
      + eapply reach_step; [apply wr_reach; eauto|eauto|]. cbn. apply in_or_app. right.
        eapply in_flat_types; eauto.
      + eapply reach_step; [|eauto|cbn; auto].
        eapply reach_step; [apply wr_reach; eauto|eauto|]. cbn. apply in_or_app. left; auto.
    - eapply reach_step; eauto.
  Qed.
End Spec.

(* ------------------------------------------------------------------ *)
(* small facts                                                         *)
(* ------------------------------------------------------------------ *)

Lemma sid_eqb_eq a b : sid_eqb a b = true <-> a = b.
Proof.
  destruct a, b; cbn; split; intro H; try discriminate; try congruence.
  - apply Nat.eqb_eq in H. congruence.
  - inversion H. apply Nat.eqb_refl.
  - apply str_eqb_eq in H. congruence.
  - inversion H. apply str_eqb_refl.
Qed.

Lemma sid_eqb_refl a : sid_eqb a a = true.
Proof. apply sid_eqb_eq. auto. Qed.

Lemma sid_eqb_neq a b : a <> b -> sid_eqb a b = false.
Proof. intro H. destruct (sid_eqb a b) eqn:E; auto. apply sid_eqb_eq in E. contradiction. Qed.

Lemma slot_eqb_eq a b : slot_eqb a b = true <-> a = b.
Proof.
  destruct a as [t i], b as [t' i']. unfold slot_eqb; cbn. rewrite andb_true_iff, sid_eqb_eq, Nat.eqb_eq.
  split; [intros [-> ->]; auto|intro H; inversion H; auto].
Qed.

Lemma mem_slot_In x l : mem_slot x l = true <-> In x l.
Proof.
  unfold mem_slot. rewrite existsb_exists. split.
  - intros [y [Hy E]]. apply slot_eqb_eq in E. subst. auto.
  - intro H. exists x. split; auto. apply slot_eqb_eq. auto.
Qed.

Lemma remove_slot_In x y l : In y (remove_slot x l) <-> In y l /\ y <> x.
Proof.
  unfold remove_slot. rewrite filter_In. split; intros [H1 H2]; split; auto.
  - intro E. subst. rewrite slot_eqb_refl in H2. discriminate.
  - destruct (slot_eqb x y) eqn:E; auto. apply slot_eqb_eq in E. subst. contradiction.
Qed.

Lemma in_slots_of t t' i n : In (t', i) (slots_of t n) <-> t' = t /\ i < n.
Proof.
  unfold slots_of. rewrite in_map_iff. split.
  - intros [j [E Hj]]. inversion E; subst. apply in_seq in Hj. split; auto. lia.
  - intros [-> H]. exists i. split; auto. apply in_seq. lia.
Qed.

Lemma in_cont_slots cont : forall k j c i,
  nth_error cont j = Some c -> i < length (x_refs c) -> In (SInl (k + j), i) (cont_slots k cont).
Proof.
  induction cont as [|y rest IH]; intros k j c i Hn Hi; [destruct j; discriminate|].
  cbn. apply in_or_app. destruct j; cbn in Hn.
  - inversion Hn; subst. left. apply in_slots_of. split; auto. all: try (f_equal; lia).
  - right. replace (k + S j) with (S k + j) by lia. eapply IH; eauto.
Qed.

Lemma lookup_str_eq {A} a b (l : list (str * A)) : str_eqb a b = true -> lookup a l = lookup b l.
Proof. intro E. apply str_eqb_eq in E. subst. auto. Qed.

Lemma has_true_lookup {A} a (l : list (str * A)) : has a l = true -> exists x, lookup a l = Some x.
Proof. unfold has. destruct (lookup a l); [eauto|discriminate]. Qed.

Lemma lookup_has {A} a (l : list (str * A)) x : lookup a l = Some x -> has a l = true.
Proof. unfold has. intros ->. auto. Qed.

Lemma in_refs_of_x_nth x l :
  In l (refs_of_x x) ->
  exists i r, nth_error (x_refs x) i = Some r /\
              (r = XInc l \/ exists ns, r = XImp ns (Some l)).
Proof.
  unfold refs_of_x. intro H. apply in_flat_map in H. destruct H as [r [Hr Hl]].
  apply In_nth_error in Hr. destruct Hr as [i Hi]. exists i, r. split; auto.
  destruct r as [ns [l'|]|l']; cbn in Hl.
  - destruct Hl as [<-|[]]. right. eauto.
  - destruct Hl.
  - destruct Hl as [<-|[]]. left; auto.
Qed.

Lemma nth_refs_of_x x i r l :
  nth_error (x_refs x) i = Some r -> (r = XInc l \/ exists ns, r = XImp ns (Some l)) ->
  In l (refs_of_x x).
Proof.
  intros Hn Hr. unfold refs_of_x. apply in_flat_map. exists r. split.
  - eapply nth_error_In; eauto.
  - destruct Hr as [->|[ns ->]]; cbn; auto.
Qed.

(* ------------------------------------------------------------------ *)
(* one schema collection (one build_schema)                            *)
(* ------------------------------------------------------------------ *)
Section SchemaCollect.
  Variable W : world.
  Variable IO : Type.
  Variable opn : dom -> str -> IO -> option doc * IO.
  Variable univ : list (str * doc).
  Variable reqs : IO -> list (dom * str).
  Variable Pio : IO -> Prop.
  Hypothesis Hreq : forall d u io, reqs (snd (opn d u io)) = (d, u) :: reqs io.
  Hypothesis Pio_opn : forall d u io, Pio io -> Pio (snd (opn d u io)).
  Hypothesis Hsrc : forall d u io x, Pio io -> fst (opn d u io) = Some x -> src W u = Some x.
  (* guard: no schema document without a target namespace *)
  Hypothesis NoCham : forall a x, src W a = Some (DXsd x) -> x_tns x <> None.

  Variable v : str.                      (* the WSDL document whose collection is built *)
  Variable cont : list xschema.          (* its consolidated schema roots *)
  Hypothesis ContSound : forall j c, nth_error cont j = Some c ->
      (forall n, In n (x_decls c) -> sd W v (x_tns c, n)) /\
      (forall l, In l (refs_of_x c) -> sr W v (join v l)).

  Definition inst (s : sst) (t : sid) : option xschema :=
    match t with SInl j => nth_error cont j | SUrl a => lookup a (s_memo s) end.
  Definition base_of (t : sid) : str := match t with SInl _ => v | SUrl a => a end.

  Lemma sid_info_inst t s :
    sid_info cont v t s = match inst s t with
                          | Some x => Some (x_tns x, x_refs x, base_of t)
                          | None => None
                          end.
  Proof. destruct t; cbn; auto. Qed.

  Definition memo_ok (s : sst) : Prop :=
    forall a x, lookup a (s_memo s) = Some x -> sr W v a /\ src W a = Some (DXsd x).
  Definition tab_sound (s : sst) : Prop := forall t q, In q (s_tab s t) -> sd W v q.
  Definition fresh_tab (s : sst) : Prop := forall a, lookup a (s_memo s) = None -> s_tab s (SUrl a) = [].
  Definition cov (S : list sid) (s : sst) : Prop :=
    forall t x q, inst s t = Some x -> In q (own_decls x) -> exists p, In p S /\ In q (s_tab s p).
  Definition opened (s : sst) (t : sid) (x : xschema) : Prop :=
    forall i, i < length (x_refs x) -> ~ In (t, i) (s_rem s).
  Definition allopen (S : list sid) (s : sst) : Prop :=
    forall t x, inst s t = Some x -> In t S \/ opened s t x.
  Definition resolved (s : sst) (base : str) (r : xref) : Prop :=
    match r with
    | XInc l => has (join base l) (s_memo s) = true
    | XImp _ (Some l) => has (join base l) (s_memo s) = true \/ s_shadow s = true
    | XImp _ None => True
    end.
  Definition closed (s : sst) : Prop :=
    forall t x i r, inst s t = Some x -> nth_error (x_refs x) i = Some r -> ~ In (t, i) (s_rem s) ->
                    resolved s (base_of t) r.
  Definition reqs_ok (io : IO) : Prop :=
    Pio io /\ forall a, In (DomS v, a) (reqs io) -> sr W v a.
  Definition SV (S : list sid) (s : sst) (io : IO) : Prop :=
    memo_ok s /\ tab_sound s /\ fresh_tab s /\ cov S s /\ allopen S s /\ closed s /\ reqs_ok io.

  Definition mono (s s' : sst) : Prop :=
    (forall a x, lookup a (s_memo s) = Some x -> lookup a (s_memo s') = Some x) /\
    (forall t, incl (s_tab s t) (s_tab s' t)) /\
    (forall t x i, inst s t = Some x -> In (t, i) (s_rem s') -> In (t, i) (s_rem s)) /\
    (s_shadow s = true -> s_shadow s' = true).

  Lemma inst_mono s s' t x : mono s s' -> inst s t = Some x -> inst s' t = Some x.
  Proof. intros [M _] H. destruct t; cbn in *; auto. Qed.

  Lemma mono_refl s : mono s s.
  Proof. repeat split; auto. intros t; apply incl_refl. Qed.

  Lemma mono_trans s1 s2 s3 : mono s1 s2 -> mono s2 s3 -> mono s1 s3.
  Proof.
    intros H12 H23. pose proof (inst_mono s1 s2) as I12.
    destruct H12 as (A1 & B1 & C1 & D1), H23 as (A2 & B2 & C2 & D2).
    repeat split; auto.
    - intro t. eapply incl_tran; eauto.
    - intros t x i Hi Hin. apply (C1 t x i Hi). apply (C2 t x i); auto.
      apply I12; auto. repeat split; auto.
  Qed.

  Lemma opened_mono s s' t x : mono s s' -> inst s t = Some x -> opened s t x -> opened s' t x.
  Proof. intros (_ & _ & C & _) Hi Ho i Hlt Hin. apply (Ho i Hlt). eapply C; eauto. Qed.

  Lemma refs_sr s t x l :
    memo_ok s -> inst s t = Some x -> In l (refs_of_x x) -> sr W v (join (base_of t) l).
  Proof.
    intros Hm Hi Hl. destruct t as [j|a]; cbn in *.
    - destruct (ContSound j x Hi) as [_ H]. auto.
    - destruct (Hm a x Hi) as [Hs Hx]. eapply sr_step; eauto.
  Qed.

  Lemma SV_intro S s io :
    memo_ok s -> tab_sound s -> fresh_tab s -> cov S s -> allopen S s -> closed s -> reqs_ok io ->
    SV S s io.
  Proof. unfold SV. tauto. Qed.

  Lemma SV_weaken S S' s io : (forall p, In p S -> In p S') -> SV S s io -> SV S' s io.
  Proof.
    intros Hs (A & B & F & C & D & E & G). apply SV_intro; auto.
    - intros t x q Hi Hq. destruct (C t x q Hi Hq) as [p [Hp Hq']]. exists p. auto.
    - intros t x Hi. destruct (D t x Hi); auto.
  Qed.

  Lemma locate_from_nth ns : forall c k j, locate_from k c ns = Some j ->
    exists i y, j = k + i /\ nth_error c i = Some y.
  Proof.
    induction c as [|y rest IH]; intros k j H; cbn in H; [discriminate|].
    destruct (optN_eqb (x_tns y) ns).
    - inversion H; subst. exists 0, y. split; auto.
    - destruct (IH _ _ H) as [i [y' [E Hn]]]. exists (S i), y'. split; auto; lia.
  Qed.

  Lemma locate_nth ns j : locate cont ns = Some j -> exists y, nth_error cont j = Some y.
  Proof. intro H. destruct (locate_from_nth ns cont 0 j H) as [i [y [E Hn]]]. subst. eauto. Qed.

  (* opening slot (self, i): what [target] does to the invariant *)
  Lemma target_step S s io self xs i r :
    SV S s io -> In self S -> inst s self = Some xs -> nth_error (x_refs xs) i = Some r ->
    match target IO opn cont v self (x_tns xs) (base_of self) r
                 (set_rem s (remove_slot (self, i) (s_rem s))) io with
    | (Ok (tgt, s2), io2) =>
        SV (match tgt with Some t => t :: S | None => S end) s2 io2 /\ mono s s2 /\
        ~ In (self, i) (s_rem s2) /\
        match tgt with Some t => exists xt, inst s2 t = Some xt | None => True end
    | (_, io2) => reqs_ok io2
    end.
  Proof.
    intros (Mo & Ts & Fr & Cv & Ao & Cl & Rq) Hself Hxs Hr.
    set (s1 := set_rem s (remove_slot (self, i) (s_rem s))).
    assert (M1 : mono s s1).
    { repeat split; auto. intro t; apply incl_refl.
      intros t x j _ Hin. apply remove_slot_In in Hin. tauto. }
    assert (N1 : ~ In (self, i) (s_rem s1)).
    { unfold s1; cbn. intro Hin. apply remove_slot_In in Hin. tauto. }
    (* the invariant for a state that differs from s only by the opened
       slot and the shadow flag, once the slot is known to be resolved *)
    assert (Base : forall sh, (s_shadow s = true -> sh = true) ->
               resolved (mkS (s_memo s) (s_rem s1) (s_tab s) sh) (base_of self) r ->
               SV S (mkS (s_memo s) (s_rem s1) (s_tab s) sh) io /\
               mono s (mkS (s_memo s) (s_rem s1) (s_tab s) sh)).
    { intros sh Hsh Hres. split.
      - apply SV_intro; auto.
        + intros t x Hi. destruct (Ao t x Hi) as [H|H]; auto. right.
          intros j Hj Hin. cbn in Hin. apply remove_slot_In in Hin. apply (H j Hj). tauto.
        + intros t x j r' Hi Hn Hnin. cbn in Hnin.
          assert (Hi0 : inst s t = Some x) by exact Hi. clear Hi.
          destruct (slot_eqb (t, j) (self, i)) eqn:E.
          * apply slot_eqb_eq in E. inversion E; subst.
            rewrite Hxs in Hi0. inversion Hi0; subst. rewrite Hr in Hn. inversion Hn; subst.
            exact Hres.
          * assert (Hnin' : ~ In (t, j) (s_rem s)).
            { intro Hin. apply Hnin. apply remove_slot_In. split; auto.
              intro E'. rewrite E' in E. rewrite slot_eqb_refl in E. discriminate. }
            specialize (Cl t x j r' Hi0 Hn Hnin'). destruct r' as [ns [l|]|l]; cbn in *; auto.
            destruct Cl; auto.
      - repeat split; auto. intro t; apply incl_refl.
        intros t x j _ Hin. cbn in Hin. apply remove_slot_In in Hin. tauto. }
    (* a download *)
    assert (Down : forall incl l, (r = XInc l \/ exists ns, r = XImp ns (Some l)) ->
               lookup (join (base_of self) l) (s_memo s) = None ->
               match download IO opn v incl (x_tns xs) (join (base_of self) l) s1 io with
               | (Ok (tgt, s2), io2) =>
                   SV (match tgt with Some t => t :: S | None => S end) s2 io2 /\ mono s s2 /\
                   ~ In (self, i) (s_rem s2) /\
                   match tgt with Some t => exists xt, inst s2 t = Some xt | None => True end
               | (_, io2) => reqs_ok io2
               end).
    { intros incl l Hrl Hnone. set (u := join (base_of self) l).
      assert (Hsr : sr W v u).
      { eapply refs_sr; eauto. eapply nth_refs_of_x; eauto. }
      unfold download.
      pose proof (Hreq (DomS v) u io) as Hq.
      pose proof (Pio_opn (DomS v) u io (proj1 Rq)) as Hp.
      pose proof (Hsrc (DomS v) u io) as Hs.
      destruct (opn (DomS v) u io) as [o io1]; cbn in Hq, Hp, Hs.
      assert (Rq1 : reqs_ok io1).
      { split; auto. intros a Hin. rewrite Hq in Hin. destruct Hin as [E|Hin].
        - inversion E; subst; auto.
        - apply Rq; auto. }
      destruct o as [d|]; [|exact Rq1].
      specialize (Hs d (proj1 Rq) eq_refl).
      destruct d as [| x |]; try exact Rq1.
      assert (Hx' : (if incl then match x_tns x with
                                  | Some t => if optN_eqb (x_tns xs) (Some t) then Some x else None
                                  | None => Some (mkX (x_tns xs) (x_refs x) (x_decls x))
                                  end
                     else Some x) = Some x \/
                    (if incl then match x_tns x with
                                  | Some t => if optN_eqb (x_tns xs) (Some t) then Some x else None
                                  | None => Some (mkX (x_tns xs) (x_refs x) (x_decls x))
                                  end
                     else Some x) = None).
      { destruct incl; auto. pose proof (NoCham u x Hs) as Hc.
        destruct (x_tns x); [|contradiction]. destruct (optN_eqb (x_tns xs) (Some n)); auto. }
      destruct Hx' as [Hx'|Hx']; rewrite Hx'; [|exact Rq1].
      set (s2 := add_inst u x s1).
      assert (Lk : forall a y, lookup a (s_memo s) = Some y -> lookup a (s_memo s2) = Some y).
      { intros a y Ha. cbn. destruct (str_eqb a u) eqn:E; auto.
        apply str_eqb_eq in E. subst a. fold u in Hnone. congruence. }
      assert (In2 : forall t y, inst s t = Some y -> inst s2 t = Some y).
      { intros t y Ht. destruct t as [j0|a0]; [exact Ht|]. apply Lk. exact Ht. }
      assert (Ne : forall t y, inst s t = Some y -> t <> SUrl u).
      { intros t y Ht E. subst t. cbn in Ht. fold u in Hnone. congruence. }
      assert (M2 : mono s s2).
      { repeat split; auto.
        - intros t q Hq'. cbn. unfold upd. destruct (sid_eqb t (SUrl u)) eqn:E; auto.
          apply sid_eqb_eq in E. subst t. rewrite (Fr u) in Hq'; [destruct Hq'|exact Hnone].
        - intros t y j Ht Hin. cbn in Hin. apply in_app_or in Hin. destruct Hin as [Hin|Hin].
          + apply in_slots_of in Hin. destruct Hin as [E _]. destruct (Ne t y Ht E).
          + apply remove_slot_In in Hin. tauto. }
      split; [|split; [exact M2|split]].
      - apply SV_intro; [| | | | | |exact Rq1].
        + (* memo_ok *) intros a y Ha. cbn in Ha. destruct (str_eqb a u) eqn:E.
          * apply str_eqb_eq in E. subst a. inversion Ha; subst. auto.
          * apply Mo; auto.
        + (* tab_sound *) intros t q Hq'. cbn in Hq'. unfold upd in Hq'.
          destruct (sid_eqb t (SUrl u)); [|eapply Ts; eauto]. eapply sd_doc; eauto.
        + (* fresh_tab *) intros a Ha. cbn in *. unfold upd. cbn.
          destruct (str_eqb a u) eqn:E; [discriminate|]. apply Fr; auto.
        + (* cov *) intros t y q Ht Hq'.
          destruct (sid_eqb t (SUrl u)) eqn:E.
          * apply sid_eqb_eq in E. subst t. cbn in Ht. rewrite str_eqb_refl in Ht. inversion Ht; subst.
            exists (SUrl u). split; [left; auto|]. cbn. unfold upd. rewrite sid_eqb_refl. auto.
          * assert (Ht0 : inst s t = Some y).
            { destruct t as [j|a]; cbn in *; auto. rewrite E in Ht. auto. }
            destruct (Cv t y q Ht0 Hq') as [p [Hp0 Hq'']]. exists p. split; [right; exact Hp0|].
            destruct M2 as (_ & B & _). apply B. auto.
        + (* allopen *) intros t y Ht.
          destruct (sid_eqb t (SUrl u)) eqn:E.
          * apply sid_eqb_eq in E. subst t. left. left. auto.
          * assert (Ht0 : inst s t = Some y).
            { destruct t as [j|a]; cbn in *; auto. rewrite E in Ht. auto. }
            destruct (Ao t y Ht0) as [H|H]; [left; right; auto|right].
            eapply opened_mono; eauto.
        + (* closed *) intros t y j r' Ht Hn Hnin.
          destruct (sid_eqb t (SUrl u)) eqn:E.
          * apply sid_eqb_eq in E. subst t. cbn in Ht. rewrite str_eqb_refl in Ht. inversion Ht; subst.
            exfalso. apply Hnin. cbn. apply in_or_app. left. apply in_slots_of. split; auto.
            apply nth_error_Some. congruence.
          * assert (Ht0 : inst s t = Some y).
            { destruct t as [j'|a]; cbn in *; auto. rewrite E in Ht. auto. }
            assert (Hnin1 : ~ In (t, j) (s_rem s1)).
            { intro Hin. apply Hnin. cbn. apply in_or_app. right. exact Hin. }
            destruct (slot_eqb (t, j) (self, i)) eqn:E2.
            -- apply slot_eqb_eq in E2. inversion E2; subst.
               rewrite Hxs in Ht0. inversion Ht0; subst. rewrite Hr in Hn. inversion Hn; subst.
               assert (Hh : has u (s_memo s2) = true) by (cbn; apply has_cons_same).
               destruct Hrl as [->|[ns ->]]; cbn; auto.
            -- assert (Hnin' : ~ In (t, j) (s_rem s)).
               { intro Hin. apply Hnin1. cbn. apply remove_slot_In. split; auto.
                 intro E'. rewrite E' in E2. rewrite slot_eqb_refl in E2. discriminate. }
               specialize (Cl t y j r' Ht0 Hn Hnin').
               destruct r' as [ns [l'|]|l']; cbn in *; auto.
               ++ destruct Cl as [Cl|Cl]; auto. left. apply has_cons_mono. auto.
               ++ apply has_cons_mono. auto.
      - cbn. intro Hin. apply in_app_or in Hin. destruct Hin as [Hin|Hin].
        + apply in_slots_of in Hin. destruct Hin as [E _]. destruct (Ne self xs Hxs E).
        + apply remove_slot_In in Hin. tauto.
      - exists x. cbn. rewrite str_eqb_refl. auto. }
    unfold target. fold s1. destruct r as [ns loc|l].
    - destruct (match self with SInl _ => if optN_eqb ns (x_tns xs) then None else locate cont ns
                            | SUrl _ => None end) as [j|] eqn:El.
      + (* answered by the collection *)
        assert (Hj : exists y, nth_error cont j = Some y).
        { destruct self; [|discriminate]. destruct (optN_eqb ns (x_tns xs)); [discriminate|].
          apply locate_nth in El. exact El. }
        destruct loc as [l|].
        * destruct (Base true (fun _ => eq_refl)) as [B1 B2]; [cbn; auto|].
          split; [eapply SV_weaken; [|exact B1]; intros p Hp; right; auto|].
          split; [exact B2|]. split; [exact N1|]. exact Hj.
        * destruct (Base (s_shadow s) (fun h => h)) as [B1 B2]; [cbn; auto|].
          split; [eapply SV_weaken; [|exact B1]; intros p Hp; right; auto|].
          split; [exact B2|]. split; [exact N1|]. exact Hj.
      + destruct loc as [l|].
        * cbn [s_memo s1 set_rem].
          destruct (lookup (join (base_of self) l) (s_memo s)) eqn:Elk.
          -- destruct (Base (s_shadow s) (fun h => h)) as [B1 B2].
             { cbn. left. eapply lookup_has; eauto. }
             split; [eapply SV_weaken; [|exact B1]; intros p Hp; right; auto|].
             split; [exact B2|]. split; [exact N1|]. exists x. cbn. exact Elk.
          -- apply (Down false l); auto. right. eauto.
        * destruct (Base (s_shadow s) (fun h => h)) as [B1 B2]; [cbn; auto|].
          split; [exact B1|]. split; [exact B2|]. split; [exact N1|exact I].
    - cbn [s_memo s1 set_rem].
      destruct (lookup (join (base_of self) l) (s_memo s)) eqn:Elk.
      + destruct (Base (s_shadow s) (fun h => h)) as [B1 B2].
        { cbn. eapply lookup_has; eauto. }
        split; [eapply SV_weaken; [|exact B1]; intros p Hp; right; auto|].
        split; [exact B2|]. split; [exact N1|]. exists x. cbn. exact Elk.
      + apply (Down true l); auto.
  Qed.

  (* self.merge(imported) once the imported schema is completely opened *)
  Lemma merge_step S s io self t xs xt :
    SV (t :: S) s io -> In self S -> inst s self = Some xs -> inst s t = Some xt -> opened s t xt ->
    SV S (merge_tab s self t) io /\ mono s (merge_tab s self t).
  Proof.
    intros (Mo & Ts & Fr & Cv & Ao & Cl & Rq) Hself Hxs Hxt Hop.
    assert (M : mono s (merge_tab s self t)).
    { split; [auto|split; [|split; auto]].
      intros p q Hq. cbn. unfold upd. destruct (sid_eqb p self) eqn:E; auto.
      apply sid_eqb_eq in E. subst p. apply in_or_app. left; auto. }
    split; [|exact M].
    apply SV_intro; auto.
    - intros p q Hq. cbn in Hq. unfold upd in Hq. destruct (sid_eqb p self); [|eapply Ts; eauto].
      apply in_app_or in Hq. destruct Hq; eapply Ts; eauto.
    - intros a Ha. cbn in *. unfold upd. destruct (sid_eqb (SUrl a) self) eqn:E; [|apply Fr; auto].
      apply sid_eqb_eq in E. subst self. cbn in Hxs. congruence.
    - intros t0 x q Hi Hq. destruct (Cv t0 x q Hi Hq) as [p [Hp Hq']].
      destruct Hp as [<-|Hp].
      + exists self. split; auto. cbn. unfold upd. rewrite sid_eqb_refl. apply in_or_app. right; auto.
      + exists p. split; auto. destruct M as (_ & B & _). apply B; auto.
    - intros t0 x Hi. destruct (Ao t0 x Hi) as [[<-|H]|H]; auto.
      right. assert (Hi0 : inst s t = Some x) by exact Hi.
      assert (E : x = xt) by congruence. subst. exact Hop.
  Qed.

  Definition fail_post (r : IO) : Prop := reqs_ok r.

  Definition rec_spec (rec : sid -> sst -> IO -> outcome sst * IO) : Prop :=
    forall t S s io xt, SV (t :: S) s io -> inst s t = Some xt ->
      match rec t s io with
      | (Ok s', io') => SV (t :: S) s' io' /\ mono s s' /\ opened s' t xt
      | (_, io') => reqs_ok io'
      end.

  Lemma skipn_nth {A} (l : list A) i r rest : skipn i l = r :: rest -> nth_error l i = Some r /\ skipn (S i) l = rest.
  Proof.
    revert i. induction l as [|a l IH]; intros i H.
    - destruct i; discriminate.
    - destruct i; cbn in *.
      + inversion H; auto.
      + apply IH; auto.
  Qed.

  Lemma skipn_nil_len {A} (l : list A) i : skipn i l = [] -> length l <= i.
  Proof.
    revert i. induction l as [|a l IH]; intros i H; cbn; [lia|].
    destruct i; cbn in H; [discriminate|]. apply IH in H. lia.
  Qed.

  Lemma open_refs_collect rec self xs Sx :
    rec_spec rec -> In self Sx ->
    forall refs i s io, SV Sx s io -> inst s self = Some xs -> refs = skipn i (x_refs xs) ->
      (forall j, j < i -> ~ In (self, j) (s_rem s)) ->
      match open_refs IO opn rec cont v self (x_tns xs) (base_of self) i refs s io with
      | (Ok s', io') => SV Sx s' io' /\ mono s s' /\ opened s' self xs
      | (_, io') => reqs_ok io'
      end.
  Proof.
    intros Hrec Hself. induction refs as [|r rest IH]; intros i s io H Hxs Hsk Hlow; cbn.
    - split; [exact H|split; [apply mono_refl|]].
      intros j Hj. apply Hlow. symmetry in Hsk. apply skipn_nil_len in Hsk. lia.
    - symmetry in Hsk. apply skipn_nth in Hsk. destruct Hsk as [Hr Hrest].
      destruct (mem_slot (self, i) (s_rem s)) eqn:Em; cbn.
      + (* the slot is still closed: open it *)
        pose proof (target_step Sx s io self xs i r H Hself Hxs Hr) as Ht.
        destruct (target IO opn cont v self (x_tns xs) (base_of self) r
                         (set_rem s (remove_slot (self, i) (s_rem s))) io) as [[[[t|] s2]|k|] io2].
        * destruct Ht as (H2 & M2 & N2 & [xt Hxt]).
          assert (Hxs2 : inst s2 self = Some xs) by (eapply inst_mono; eauto).
          pose proof (Hrec t Sx s2 io2 xt H2 Hxt) as Hr3.
          destruct (rec t s2 io2) as [[s3|k|] io3]; auto.
          destruct Hr3 as (H3 & M3 & O3).
          assert (Hxs3 : inst s3 self = Some xs).
          { eapply inst_mono; eauto. }
          assert (Hxt3 : inst s3 t = Some xt) by (eapply inst_mono; eauto).
          destruct (merge_step Sx s3 io3 self t xs xt H3 Hself Hxs3 Hxt3 O3) as [H4 M4].
          assert (M04 : mono s (merge_tab s3 self t)).
          { eapply mono_trans; [exact M2|]. eapply mono_trans; [exact M3|exact M4]. }
          assert (Hxs4 : inst (merge_tab s3 self t) self = Some xs) by (eapply inst_mono; eauto).
          specialize (IH (S i) (merge_tab s3 self t) io3 H4 Hxs4 (eq_sym Hrest)).
          assert (Hlow4 : forall j, j < S i -> ~ In (self, j) (s_rem (merge_tab s3 self t))).
          { intros j Hj Hin. destruct M04 as (_ & _ & C & _). specialize (C self xs j Hxs Hin).
            destruct (Nat.eq_dec j i) as [->|Hne].
            - destruct M2 as (_ & _ & C2 & _).
              destruct (mono_trans _ _ _ M3 M4) as (_ & _ & C34 & _).
              apply N2. apply (C34 self xs i); auto.
            - apply (Hlow j); auto. lia. }
          specialize (IH Hlow4).
          destruct (open_refs IO opn rec cont v self (x_tns xs) (base_of self) (S i) rest
                              (merge_tab s3 self t) io3) as [[s5|k|] io5]; auto.
          destruct IH as (H5 & M5 & O5). split; [exact H5|split; [|exact O5]].
          eapply mono_trans; eauto.
        * destruct Ht as (H2 & M2 & N2 & _).
          assert (Hxs2 : inst s2 self = Some xs) by (eapply inst_mono; eauto).
          specialize (IH (S i) s2 io2 H2 Hxs2 (eq_sym Hrest)).
          assert (Hlow2 : forall j, j < S i -> ~ In (self, j) (s_rem s2)).
          { intros j Hj Hin. destruct (Nat.eq_dec j i) as [->|Hne]; [auto|].
            destruct M2 as (_ & _ & C & _). apply (Hlow j); [lia|]. apply (C self xs j); auto. }
          specialize (IH Hlow2).
          destruct (open_refs IO opn rec cont v self (x_tns xs) (base_of self) (S i) rest s2 io2)
            as [[s5|k|] io5]; auto.
          destruct IH as (H5 & M5 & O5). split; [exact H5|split; [|exact O5]].
          eapply mono_trans; eauto.
        * exact Ht.
        * exact Ht.
      + (* already opened *)
        apply IH; auto.
        intros j Hj Hin. destruct (Nat.eq_dec j i) as [->|Hne].
        * apply mem_slot_In in Hin. congruence.
        * apply (Hlow j); auto. lia.
  Qed.

  Lemma open_imports_collect fuel : rec_spec (open_imports IO opn cont v fuel).
  Proof.
    induction fuel as [|f IH]; intros t Sx s io xt H Hxt; cbn.
    - apply H.
    - rewrite sid_info_inst, Hxt.
      apply (open_refs_collect (open_imports IO opn cont v f) t xt (t :: Sx) IH); auto.
      + left; auto.
      + intros j Hj. lia.
  Qed.

  Lemma SV_cons_in Sx s io t : In t Sx -> SV (t :: Sx) s io <-> SV Sx s io.
  Proof.
    intro Ht. split; apply SV_weaken.
    - intros p [<-|Hp]; auto.
    - intros p Hp; right; auto.
  Qed.

  Lemma open_all_collect Sx fuel :
    forall js s io, SV Sx s io -> (forall j, In j js -> In (SInl j) Sx /\ j < length cont) ->
      match open_all IO opn cont v fuel js s io with
      | (Ok s', io') => SV Sx s' io' /\ mono s s' /\
                        forall j c, In j js -> nth_error cont j = Some c -> opened s' (SInl j) c
      | (_, io') => reqs_ok io'
      end.
  Proof.
    induction js as [|j rest IH]; intros s io H Hjs; cbn.
    - split; [exact H|split; [apply mono_refl|intros j c []]].
    - destruct (Hjs j (or_introl eq_refl)) as [HjS Hjl].
      destruct (nth_error cont j) as [c|] eqn:Ec; [|apply nth_error_None in Ec; lia].
      pose proof (open_imports_collect fuel (SInl j) Sx s io c) as Ho.
      assert (H' : SV (SInl j :: Sx) s io) by (apply SV_cons_in; auto).
      specialize (Ho H' Ec).
      destruct (open_imports IO opn cont v fuel (SInl j) s io) as [[s1|k|] io1]; auto.
      destruct Ho as (H1 & M1 & O1). apply SV_cons_in in H1; auto.
      specialize (IH s1 io1 H1 (fun j' Hj' => Hjs j' (or_intror Hj'))).
      destruct (open_all IO opn cont v fuel rest s1 io1) as [[s2|k|] io2]; auto.
      destruct IH as (H2 & M2 & O2). split; [exact H2|split; [eapply mono_trans; eauto|]].
      intros j' c' [<-|Hj'] Hc'.
      + assert (c' = c) by congruence. subst. eapply opened_mono; eauto.
      + apply O2; auto.
  Qed.
End SchemaCollect.

(* ------------------------------------------------------------------ *)
(* SchemaCollection.add                                                *)
(* ------------------------------------------------------------------ *)

Lemma optN_eqb_eq a b : optN_eqb a b = true <-> a = b.
Proof.
  destruct a, b; cbn; split; intro H; try discriminate; try congruence.
  - apply N.eqb_eq in H. congruence.
  - inversion H. apply N.eqb_refl.
Qed.

Definition from_roots (roots : list xschema) (c : xschema) : Prop :=
  (forall n, In n (x_decls c) -> exists x, In x roots /\ x_tns x = x_tns c /\ In n (x_decls x)) /\
  (forall r, In r (x_refs c) -> exists x, In x roots /\ x_tns x = x_tns c /\ In r (x_refs x)).

Definition holds_root (cont : list xschema) (x : xschema) : Prop :=
  exists j c, nth_error cont j = Some c /\ x_tns c = x_tns x /\
              incl (x_refs x) (x_refs c) /\ incl (x_decls x) (x_decls c).

Lemma add_schema_from roots x cont :
  In x roots -> Forall (from_roots roots) cont -> Forall (from_roots roots) (add_schema x cont).
Proof.
  intros Hx. induction cont as [|y rest IH]; intro H; cbn.
  - constructor; auto. split; intros z Hz; exists x; auto.
  - inversion H as [|? ? Hy Hrest]; subst.
    destruct (optN_eqb (x_tns y) (x_tns x)) eqn:E.
    + apply optN_eqb_eq in E. constructor; auto. destruct Hy as [Hd Hr]. split; cbn; intros z Hz.
      * apply in_app_or in Hz. destruct Hz as [Hz|Hz]; auto. exists x. auto.
      * apply in_app_or in Hz. destruct Hz as [Hz|Hz]; auto. exists x. auto.
    + constructor; auto.
Qed.

Lemma add_schema_holds_old x cont z : holds_root cont z -> holds_root (add_schema x cont) z.
Proof.
  intros [j [c (Hn & Ht & Hr & Hd)]]. revert j Hn. induction cont as [|y rest IH]; intros j Hn.
  - destruct j; discriminate.
  - cbn. destruct (optN_eqb (x_tns y) (x_tns x)) eqn:E.
    + destruct j; cbn in Hn.
      * inversion Hn; subst. exists 0, (mkX (x_tns c) (x_refs c ++ x_refs x) (x_decls c ++ x_decls x)).
        cbn. repeat split; auto; intros w Hw; apply in_or_app; left; auto.
      * exists (S j), c. cbn. auto.
    + destruct j; cbn in Hn.
      * exists 0, c. cbn. inversion Hn; subst. auto.
      * destruct (IH j Hn) as [j' [c' H']]. exists (S j'), c'. cbn. exact H'.
Qed.

Lemma add_schema_holds_new x cont : holds_root (add_schema x cont) x.
Proof.
  induction cont as [|y rest IH]; cbn.
  - exists 0, x. cbn. repeat split; auto; apply incl_refl.
  - destruct (optN_eqb (x_tns y) (x_tns x)) eqn:E.
    + apply optN_eqb_eq in E.
      exists 0, (mkX (x_tns y) (x_refs y ++ x_refs x) (x_decls y ++ x_decls x)). cbn.
      repeat split; auto; intros w Hw; apply in_or_app; right; auto.
    + destruct IH as [j [c H]]. exists (S j), c. cbn. exact H.
Qed.

Lemma consolidate_facts roots :
  Forall (from_roots roots) (consolidate roots) /\ forall x, In x roots -> holds_root (consolidate roots) x.
Proof.
  unfold consolidate.
  assert (G : forall done acc,
             (forall x, In x done -> In x roots) ->
             Forall (from_roots roots) acc -> (forall x, In x done -> In x roots) ->
             forall todo, (forall x, In x todo -> In x roots) ->
             (forall x, In x done -> holds_root acc x) ->
             Forall (from_roots roots) (fold_left (fun c x => add_schema x c) todo acc) /\
             forall x, In x done \/ In x todo -> holds_root (fold_left (fun c x => add_schema x c) todo acc) x).
  { intros done acc Hd Hf _ todo. revert done acc Hd Hf.
    induction todo as [|y rest IH]; intros done acc Hd Hf Ht Hh; cbn.
    - split; auto. intros x [H|[]]; auto.
    - destruct (IH (y :: done) (add_schema y acc)) as [A B].
      + intros x [<-|H]; auto. apply Ht. left; auto.
      + apply add_schema_from; auto. apply Ht. left; auto.
      + intros x H. apply Ht. right; auto.
      + intros x [<-|H]; [apply add_schema_holds_new|apply add_schema_holds_old; auto].
      + split; auto. intros x [H|[<-|H]]; apply B; cbn; auto. }
  destruct (G [] [] (fun x (h : In x []) => match h with end) (Forall_nil _)
              (fun x (h : In x []) => match h with end) roots (fun x h => h)
              (fun x (h : In x []) => match h with end)) as [A B].
  split; auto.
Qed.

(* ------------------------------------------------------------------ *)
(* Definitions.build_schema of one WSDL document                       *)
(* ------------------------------------------------------------------ *)
Section BuildCollect.
  Variable W : world.
  Variable IO : Type.
  Variable opn : dom -> str -> IO -> option doc * IO.
  Variable univ : list (str * doc).
  Variable reqs : IO -> list (dom * str).
  Variable Pio : IO -> Prop.
  Hypothesis Hreq : forall d u io, reqs (snd (opn d u io)) = (d, u) :: reqs io.
  Hypothesis Pio_opn : forall d u io, Pio io -> Pio (snd (opn d u io)).
  Hypothesis Hsrc : forall d u io x, Pio io -> fst (opn d u io) = Some x -> src W u = Some x.
  Hypothesis NoCham : forall a x, src W a = Some (DXsd x) -> x_tns x <> None.

  Variable v : str.
  Variable roots : list xschema.
  (* what is built is the collection of v, each root read with the right base *)
  Hypothesis RootsSound : forall x, In x roots -> exists b, member W v b x.
  Hypothesis RootsComplete : forall b x, member W v b x -> In x roots.
  (* guard: the base build_schema uses (the URL of v) resolves the references
     of every root like the root's own URL does *)
  Hypothesis BaseOK : forall b x, member W v b x -> forall l, In l (refs_of_x x) -> join v l = join b l.

  Let cont := consolidate roots.

  Lemma ContSound_l : forall j c, nth_error cont j = Some c ->
      (forall n, In n (x_decls c) -> sd W v (x_tns c, n)) /\
      (forall l, In l (refs_of_x c) -> sr W v (join v l)).
  Proof.
    intros j c Hn. destruct (consolidate_facts roots) as [F _].
    apply nth_error_In in Hn. rewrite Forall_forall in F. destruct (F c Hn) as [Fd Fr]. split.
    - intros n Hin. destruct (Fd n Hin) as [x (Hx & Ht & Hd)].
      destruct (RootsSound x Hx) as [b Hm]. eapply sd_member; eauto.
      unfold own_decls. rewrite <- Ht. apply in_map_iff. eauto.
    - intros l Hl. apply in_refs_of_x_nth in Hl. destruct Hl as [i [r [Hi Hr]]].
      apply nth_error_In in Hi. destruct (Fr r Hi) as [x (Hx & Ht & Hrx)].
      destruct (RootsSound x Hx) as [b Hm].
      apply In_nth_error in Hrx. destruct Hrx as [i' Hi'].
      assert (Hl : In l (refs_of_x x)) by (eapply nth_refs_of_x; eauto).
      rewrite (BaseOK b x Hm l Hl). eapply sr_member; eauto.
  Qed.

  Definition children : list sid := map SInl (seq 0 (length cont)).

  Lemma in_children j : In (SInl j) children <-> j < length cont.
  Proof.
    unfold children. rewrite in_map_iff. split.
    - intros [k [E Hk]]. inversion E; subst. apply in_seq in Hk. lia.
    - intro H. exists j. split; auto. apply in_seq. lia.
  Qed.

  Lemma build_schema_collect io :
    reqs_ok W IO reqs Pio v io ->
    match build_schema IO opn univ v roots io with
    | (Ok s3, io3) =>
        reqs_ok W IO reqs Pio v io3 /\
        (s_shadow s3 = false -> forall q, In q (final_tab roots s3) <-> sd W v q)
    | (_, io3) => reqs_ok W IO reqs Pio v io3
    end.
  Proof.
    intro Rq. unfold build_schema. fold cont.
    assert (H0 : SV W IO reqs Pio v cont children (init_sst cont) io).
    { apply SV_intro; auto.
      - intros a x H. discriminate.
      - intros t q Hq. destruct t as [j|a]; cbn in Hq; [|destruct Hq].
        destruct (nth_error cont j) as [c|] eqn:Ec.
        + rewrite (nth_indep _ [] (own_decls c)) in Hq
            by (rewrite map_length; apply nth_error_Some; congruence).
          rewrite map_nth in Hq. erewrite nth_error_nth in Hq by eauto.
          unfold own_decls in Hq. apply in_map_iff in Hq. destruct Hq as [n [<- Hn]].
          destruct (ContSound_l j c Ec) as [Hd _]. auto.
        + rewrite nth_overflow in Hq; [destruct Hq|]. rewrite map_length.
          apply nth_error_None; auto.
      - intros a _. reflexivity.
      - intros t x q Hi Hq. destruct t as [j|a]; cbn in Hi; [|discriminate].
        exists (SInl j). split.
        + apply in_children. apply nth_error_Some. congruence.
        + cbn. rewrite (nth_indep _ [] (own_decls x))
            by (rewrite map_length; apply nth_error_Some; congruence).
          rewrite map_nth. erewrite nth_error_nth by eauto. exact Hq.
      - intros t x Hi. destruct t as [j|a]; cbn in Hi; [|discriminate].
        left. apply in_children. apply nth_error_Some. congruence.
      - intros t x i r Hi Hn Hnin. exfalso. destruct t as [j|a]; cbn in Hi; [|discriminate].
        apply Hnin. cbn. apply (in_cont_slots cont 0 j x i Hi). apply nth_error_Some. congruence. }
    pose proof (open_all_collect W IO opn reqs Pio Hreq Pio_opn Hsrc NoCham v cont ContSound_l
                  children (schema_fuel univ cont) (seq 0 (length cont)) (init_sst cont) io H0) as Ho.
    assert (Hjs : forall j, In j (seq 0 (length cont)) -> In (SInl j) children /\ j < length cont).
    { intros j Hj. apply in_seq in Hj. split; [apply in_children|]; lia. }
    specialize (Ho Hjs).
    destruct (open_all IO opn cont v (schema_fuel univ cont) (seq 0 (length cont)) (init_sst cont) io)
      as [[s3|k|] io3]; auto.
    destruct Ho as ((Mo & Ts & Fr & Cv & Ao & Cl & Rq3) & M3 & O3).
    split; [exact Rq3|]. intros Hsh q.
    (* every instance is completely opened *)
    assert (AllO : forall t x, inst cont s3 t = Some x -> opened s3 t x).
    { intros t x Hi. destruct (Ao t x Hi) as [Hin|H]; auto.
      destruct t as [j|a].
      - apply (O3 j x); auto. apply in_seq. apply in_children in Hin. lia.
      - unfold children in Hin. apply in_map_iff in Hin. destruct Hin as [k [E _]]. discriminate. }
    (* so every reference of every instance is resolved *)
    assert (Res : forall t x l, inst cont s3 t = Some x -> In l (refs_of_x x) ->
                                has (join (base_of v t) l) (s_memo s3) = true).
    { intros t x l Hi Hl. apply in_refs_of_x_nth in Hl. destruct Hl as [i [r [Hn Hr]]].
      assert (Hlt : i < length (x_refs x)) by (apply nth_error_Some; congruence).
      specialize (Cl t x i r Hi Hn (AllO t x Hi i Hlt)).
      destruct Hr as [->|[ns ->]]; cbn in Cl; auto. destruct Cl; [auto|congruence]. }
    (* every schema document of the collection has been loaded *)
    assert (Loaded : forall a, sr W v a -> has a (s_memo s3) = true).
    { intros a Hs. induction Hs as [b x l Hm Hl|a x l Hs IH Hx Hl].
      - pose proof (RootsComplete b x Hm) as Hin.
        destruct (consolidate_facts roots) as [_ Hh]. destruct (Hh x Hin) as [j [c (Hn & Ht & Hr & Hd)]].
        assert (Hlc : In l (refs_of_x c)).
        { apply in_refs_of_x_nth in Hl. destruct Hl as [i [r [Hi Hrr]]]. apply nth_error_In in Hi.
          apply Hr in Hi. apply In_nth_error in Hi. destruct Hi as [i' Hi']. eapply nth_refs_of_x; eauto. }
        pose proof (Res (SInl j) c l Hn Hlc) as R. cbn in R.
        assert (Eb : join v l = join b l) by (apply (BaseOK b x Hm l Hl)).
        rewrite <- Eb. exact R.
      - apply has_true_lookup in IH. destruct IH as [x' Hx'].
        destruct (Mo a x' Hx') as [_ Hsrc']. assert (x' = x) by congruence. subst x'.
        apply (Res (SUrl a) x l); auto. }
    split.
    - intro Hq. unfold final_tab in Hq. apply in_flat_map in Hq. destruct Hq as [j [_ Hq]].
      eapply Ts; eauto.
    - intro Hq.
      assert (Covd : forall t x, inst cont s3 t = Some x -> In q (own_decls x) -> In q (final_tab roots s3)).
      { intros t x Hi Hqx. destruct (Cv t x q Hi Hqx) as [p [Hp Hqp]].
        unfold children in Hp. apply in_map_iff in Hp. destruct Hp as [j [<- Hj]].
        unfold final_tab. apply in_flat_map. exists j. split; auto. }
      destruct Hq as [b x q Hm Hqx|a x q Hs Hx Hqx].
      + pose proof (RootsComplete b x Hm) as Hin.
        destruct (consolidate_facts roots) as [_ Hh]. destruct (Hh x Hin) as [j [c (Hn & Ht & Hr & Hd)]].
        apply (Covd (SInl j) c); auto.
        unfold own_decls in *. apply in_map_iff in Hqx. destruct Hqx as [n [<- Hn']].
        rewrite <- Ht. apply in_map_iff. exists n. split; auto.
      + pose proof (Loaded a Hs) as Hh. apply has_true_lookup in Hh. destruct Hh as [x' Hx'].
        destruct (Mo a x' Hx') as [_ Hsrc']. assert (x' = x) by congruence. subst x'.
        apply (Covd (SUrl a) x); auto.
  Qed.
End BuildCollect.

(* ------------------------------------------------------------------ *)
(* the WSDL loader                                                     *)
(* ------------------------------------------------------------------ *)

Lemma alloc_types_spec u : forall types heap,
  alloc_types u types heap = (seq (length heap) (length types), heap ++ map (mkT u) types).
Proof.
  induction types as [|r rest IH]; intro heap; cbn.
  - rewrite app_nil_r. auto.
  - rewrite IH. rewrite app_length. cbn. rewrite Nat.add_1_r. rewrite <- app_assoc. auto.
Qed.

Lemma nth_error_set_nth {A} (f : A -> A) : forall (l : list A) n m,
  nth_error (set_nth n f l) m = if Nat.eqb m n then option_map f (nth_error l m) else nth_error l m.
Proof.
  induction l as [|a l IH]; intros n m; cbn.
  - destruct (Nat.eqb m n); destruct m, n; auto.
  - destruct n, m; cbn; auto.
Qed.

Lemma lookup_set_memo_same u (d : dinfo) l : has u l = true -> lookup u (set_memo u d l) = Some d.
Proof.
  unfold has. induction l as [|[k x] l IH]; cbn; [discriminate|].
  destruct (str_eqb u k) eqn:E; cbn.
  - rewrite E. auto.
  - rewrite E. auto.
Qed.

Lemma lookup_set_memo_other u k (d : dinfo) l : str_eqb k u = false -> lookup k (set_memo u d l) = lookup k l.
Proof.
  intro Hne. induction l as [|[k' x] l IH]; cbn.
  - rewrite Hne. auto.
  - destruct (str_eqb u k') eqn:E; cbn.
    + apply str_eqb_eq in E. subst k'. rewrite Hne. auto.
    + destruct (str_eqb k k'); auto.
Qed.

Section WsdlCollect.
  Variable W : world.
  Variable IO : Type.
  Variable opn : dom -> str -> IO -> option doc * IO.
  Variable univ : list (str * doc).
  Variable reqs : IO -> list (dom * str).
  Variable Pio : IO -> Prop.
  Hypothesis Hreq : forall d u io, reqs (snd (opn d u io)) = (d, u) :: reqs io.
  Hypothesis Pio_opn : forall d u io, Pio io -> Pio (snd (opn d u io)).
  Hypothesis Hsrc : forall d u io x, Pio io -> fst (opn d u io) = Some x -> src W u = Some x.
  (* guards *)
  Hypothesis NoCham : forall a x, src W a = Some (DXsd x) -> x_tns x <> None.
  Hypothesis WimpAbs : forall v imps types names l x,
      src W v = Some (DWsdl imps types names) -> In l imps -> src W (join v l) = Some (DXsd x) ->
      forall l', In l' (refs_of_x x) -> has_scheme l' = true.
  Variable rank : str -> nat.          (* certificate: the wsdl:import graph has no cycle *)
  Hypothesis Ranked : forall v imps types names l,
      src W v = Some (DWsdl imps types names) -> In l imps -> rank (join v l) < rank v.
  Variable root : str.

  Lemma BaseOK_l v b x : member W v b x -> forall l, In l (refs_of_x x) -> join v l = join b l.
  Proof.
    intros Hm l Hl. destruct Hm as [imps types names ts x Hw Hts Hx|imps types names l0 x Hw Hl0 Hx]; auto.
    rewrite !join_absolute; auto; eapply WimpAbs; eauto.
  Qed.

  Lemma wr_rank a b : wr W a b -> b = a \/ rank b < rank a.
  Proof.
    induction 1 as [|v imps types names l Hv IH Hs Hl]; auto.
    right. pose proof (Ranked v imps types names l Hs Hl). destruct IH as [->|IH]; lia.
  Qed.

  Lemma wr_xsd a x b : src W a = Some (DXsd x) -> wr W a b -> b = a.
  Proof.
    intros Hx H. induction H as [|v imps types names l Hv IH Hs Hl]; auto.
    subst v. congruence.
  Qed.

  Definition heap_at (s : wst) (tid : nat) : option tyobj := nth_error (w_heap s) tid.
  Definition inprog (s : wst) (w : str) : Prop := has w (w_memo s) = true /\ is_built w s = false.

  Definition names_ok (u : str) (d : dinfo) : Prop := forall n, In n (d_names d) <-> names_spec W u n.
  Definition tys_sound (s : wst) (u : str) (d : dinfo) : Prop :=
    forall tid, In tid (d_types d) -> exists t, heap_at s tid = Some t /\ wr W u (t_owner t).
  Definition tys_cover (s : wst) (u : str) (d : dinfo) : Prop :=
    forall w tid t, wr W u w -> heap_at s tid = Some t -> t_owner t = w -> In tid (d_types d).
  Definition tab_ok (s : wst) (u : str) : Prop :=
    w_shadow s = false -> forall q, In q (schema_of u s) <-> decls_spec W u q.
  Definition all_built (s : wst) (u : str) : Prop := forall w, wr W u w -> is_built w s = true.
  Definition mem_complete (s : wst) (u : str) : Prop :=
    forall w b x, wr W u w -> member W w b x ->
      exists tid t, heap_at s tid = Some t /\ t_owner t = w /\ In x (t_roots t).
  Definition Fin (s : wst) (u : str) (d : dinfo) : Prop :=
    names_ok u d /\ tys_sound s u d /\ tys_cover s u d /\ tab_ok s u /\ all_built s u /\ mem_complete s u.

  Definition heap_ok (s : wst) : Prop :=
    forall tid t, heap_at s tid = Some t ->
      has (t_owner t) (w_memo s) = true /\
      (exists imps types names, src W (t_owner t) = Some (DWsdl imps types names)) /\
      forall x, In x (t_roots t) -> exists b, member W (t_owner t) b x.
  Definition memo_w (s : wst) : Prop :=
    forall u d, lookup u (w_memo s) = Some d ->
      wr W root u /\
      (d_wsdl d = true -> exists imps types names, src W u = Some (DWsdl imps types names)) /\
      (d_wsdl d = false -> exists x, src W u = Some (DXsd x) /\ d_xroot d = Some x /\
                                     d_types d = [] /\ d_names d = []).
  Definition built_ok (s : wst) : Prop :=
    forall u, is_built u s = true -> exists d, lookup u (w_memo s) = Some d /\ Fin s u d.
  Definition WV (s : wst) : Prop := memo_w s /\ heap_ok s /\ built_ok s.

  Definition ext (s s' : wst) : Prop :=
    (forall u d, lookup u (w_memo s) = Some d -> is_built u s = true -> lookup u (w_memo s') = Some d) /\
    (forall u, has u (w_memo s) = true -> has u (w_memo s') = true) /\
    (forall u t, lookup u (w_built s) = Some t -> lookup u (w_built s') = Some t) /\
    (forall tid t, heap_at s tid = Some t -> is_built (t_owner t) s = true -> heap_at s' tid = Some t) /\
    (forall tid t', heap_at s' tid = Some t' -> heap_at s tid = Some t' \/ is_built (t_owner t') s = false) /\
    (w_shadow s' = false -> w_shadow s = false).

  Lemma ext_built s s' u : ext s s' -> is_built u s = true -> is_built u s' = true.
  Proof.
    intros (_ & _ & B & _) H. unfold is_built in *. destruct (lookup u (w_built s)) eqn:E; [|discriminate].
    rewrite (B u l E). auto.
  Qed.

  Lemma ext_schema s s' u : ext s s' -> is_built u s = true -> schema_of u s' = schema_of u s.
  Proof.
    intros (_ & _ & B & _) H. unfold is_built, schema_of in *.
    destruct (lookup u (w_built s)) eqn:E; [|discriminate]. rewrite (B u l E). auto.
  Qed.

  Lemma ext_refl s : ext s s.
  Proof. unfold ext. repeat split; auto. Qed.

  Lemma ext_trans s1 s2 s3 : ext s1 s2 -> ext s2 s3 -> ext s1 s3.
  Proof.
    intros H12 H23. pose proof (ext_built s1 s2) as Bm.
    destruct H12 as (A1 & H1 & B1 & C1 & D1 & E1). destruct H23 as (A2 & H2 & B2 & C2 & D2 & E2).
    assert (H12 : ext s1 s2) by (unfold ext; repeat split; auto).
    unfold ext. split; [|split; [|split; [|split; [|split]]]]; auto.
    - intros u d Hl Hb. apply A2; auto. eapply Bm; eauto.
    - intros tid t Ht Hb. apply C2; auto. eapply Bm; eauto.
    - intros tid t' Ht. destruct (D2 tid t' Ht) as [H|H].
      + apply D1; auto.
      + right. destruct (is_built (t_owner t') s1) eqn:E; auto. apply (Bm _ H12) in E. congruence.
  Qed.

  Lemma Fin_ext s s' u d : ext s s' -> Fin s u d -> Fin s' u d.
  Proof.
    intros He (Fn & Fs & Fc & Ft & Fa & Fm).
    pose proof (ext_built s s') as Bm. pose proof (ext_schema s s' u He) as Sm.
    destruct He as (A & Hh & B & C & D & E).
    assert (He : ext s s') by (unfold ext; repeat split; auto).
    unfold Fin. split; [exact Fn|split; [|split; [|split; [|split]]]].
    - intros tid Hin. destruct (Fs tid Hin) as [t [Ht Hw]]. exists t. split; auto.
    - intros w tid t Hw Ht Ho. destruct (D tid t Ht) as [H|H].
      + eapply Fc; eauto.
      + subst w. rewrite (Fa _ Hw) in H. discriminate.
    - intros Hsh q. rewrite Sm; [|apply Fa; constructor]. apply Ft. auto.
    - intros w Hw. eapply Bm; eauto.
    - intros w b x Hw Hm. destruct (Fm w b x Hw Hm) as [tid [t (Ht & Ho & Hx)]].
      exists tid, t. split; auto. apply C; auto. rewrite Ho. auto.
  Qed.
End WsdlCollect.
