(* C12 -- Document graphs load completely, once, or not at all.
   Property theorems only; the lemmas are in Proofs.v.  Every theorem
   quantifies over ALL worlds: any finite set of documents (WSDL or schema
   documents with any references between them -- cycles, self references,
   diamonds, dangling and relative locations -- or ill-formed bytes), any
   split between document store and transport, any caching policy. *)
From SV Require Import Lib.Base C12.Url C12.Model C12.Proofs.

(* Loading terminates: the fuel the model gives itself (number of documents
   + 1 for the WSDL loader, number of import/include elements + 1 for each
   schema collection) is never exhausted, whatever the graph.  The cache may
   hold anything earlier loads can have put there. *)
Theorem load_terminates : forall W root ocache i,
  cache_sound W (i_dcache i) ->
  fst (fst (client_load W root ocache i)) <> OutOfFuel.
Proof. exact client_terminates_l. Qed.
Print Assumptions load_terminates.

(* The document store is consulted before the transport, for every request
   of every load: in the request log a transport request for u directly
   follows a store request for u, and only when the store does not hold u. *)
Theorem store_before_transport : forall W root ocache i,
  sbt W (i_log i) = true ->
  sbt W (i_log (snd (fst (client_load W root ocache i)))) = true.
Proof. exact client_sbt_l. Qed.
Print Assumptions store_before_transport.

(* Nothing incomplete is cached: whatever happens during a load (also when a
   fetch fails half way), every document in the cache afterwards is
   well-formed and is what the source serves under that URL. *)
Theorem cache_complete : forall W root ocache i,
  cache_sound W (i_dcache i) ->
  cache_sound W (i_dcache (snd (fst (client_load W root ocache i)))).
Proof. exact client_sound_l. Qed.
Print Assumptions cache_complete.

(* With a healthy source the content of a (sound) document cache does not
   change what a load constructs. *)
Theorem cache_transparent : forall W root a b,
  w_fault W = None -> cache_sound W (i_dcache a) -> cache_sound W (i_dcache b) ->
  fst (load_root io (opn_c W) (docs_of W) root a) = fst (load_root io (opn_c W) (docs_of W) root b).
Proof. exact load_transparent_l. Qed.
Print Assumptions cache_transparent.

(* Failure atomicity, for every graph, every k and both kinds of failure:
   when the k-th fetch of a load raises or returns ill-formed bytes, the
   construction raises, no WSDL object is cached, the document cache holds
   complete documents only, and a retry on that cache against the healthy
   source constructs exactly what a clean first load constructs. *)
Theorem failure_atomic : forall docs pol k fk root,
  let Wf := mkWorld docs pol (Some (k, fk)) in
  let Wh := mkWorld docs pol None in
  let r := client_load Wf root false io0 in
  i_fired (snd (fst r)) = true ->
  (forall x, fst (fst r) <> Ok x) /\ snd r = false /\
  cache_sound Wh (i_dcache (snd (fst r))) /\
  fst (load_root io (opn_c Wh) (docs_of Wh) root (mkIO [] [] (i_dcache (snd (fst r))) 0 false))
  = fst (load_root io (opn_c Wh) (docs_of Wh) root io0).
Proof. exact failure_atomic_l. Qed.
Print Assumptions failure_atomic.

(* Each document is fetched at most once per memo domain, in every graph:
   the store requests of a load, tagged with the memo that asked
   (imported_definitions, or the loaded_schemata of one build_schema), are
   pairwise different.  (The same URL may be fetched once on behalf of each
   of several WSDL documents' schema collections: those memos are separate
   dictionaries in the code.) *)
Theorem fetch_once : forall W root ocache i,
  i_reqs i = [] -> i_log i = [] ->
  NoDup (fetches (i_log (snd (fst (client_load W root ocache i))))).
Proof. exact client_once_l. Qed.
Print Assumptions fetch_once.

(* Only reachable documents are fetched.  As a statement about every fetch
   this is FALSE of the loader as it is written (see the witness below: a
   schema root brought in by wsdl:import is built with the importing WSDL's
   URL as base).  What holds for every graph: every fetch made on behalf of
   imported_definitions (the root and all wsdl:import targets, WSDL or
   schema documents) is of a document reachable from the root. *)
Theorem fetch_reachable_only_partial : forall W root ocache i,
  cache_sound W (i_dcache i) -> i_reqs i = [] -> i_log i = [] ->
  forall v, In (DomW, v) (fetches (i_log (snd (fst (client_load W root ocache i))))) ->
  reach W root v.
Proof. exact wsdl_fetches_reachable_l. Qed.
Print Assumptions fetch_reachable_only_partial.

(* the witness (KNOWN_FINDINGS: C12:wsdl-import-xsd-relative-base):
   http://h/a/r imports ../b/x which includes y -> http://h/a/y is requested *)
Definition rf_r : str := [104;116;116;112;58;47;47;104;47;97;47;114]%N.
Definition rf_x : str := [104;116;116;112;58;47;47;104;47;98;47;120]%N.
Definition rf_y : str := [104;116;116;112;58;47;47;104;47;98;47;121]%N.
Definition rf_bad : str := [104;116;116;112;58;47;47;104;47;97;47;121]%N.
Definition rf_docs : list (str * (bool * doc)) :=
  [(rf_r, (false, DWsdl [[46;46;47;98;47;120]%N] [] []));
   (rf_x, (false, DXsd (mkX (Some 1%N) [XInc [121]%N] [])));
   (rf_y, (false, DXsd (mkX (Some 1%N) [] [])))].
Theorem fetch_reachable_only_refuted : exists W root v,
  In v (map ev_url (i_log (snd (fst (client_load W root false io0))))) /\ ~ reach W root v.
Proof.
  exists (mkWorld rf_docs 0 None), rf_r, rf_bad. split.
  - vm_compute. auto.
  - intro H. apply reach_mentioned in H. vm_compute in H. discriminate.
Qed.
Print Assumptions fetch_reachable_only_refuted.

(* non-vacuity: a root WSDL importing a schema document that includes itself;
   the second fetch fails; policy 0.  The fault fires, the root document is
   cached, the load raises. *)
Definition ex_root : str := [104;116;116;112;58;47;47;104;47;114]%N.      (* http://h/r *)
Definition ex_x : str := [104;116;116;112;58;47;47;104;47;120]%N.         (* http://h/x *)
Definition ex_docs : list (str * (bool * doc)) :=
  [(ex_root, (true, DWsdl [ex_x] [] [])); (ex_x, (false, DXsd (mkX (Some 1%N) [XInc ex_x] [])))].
Example failure_atomic_nonvacuous :
  let r := client_load (mkWorld ex_docs 0 (Some (1, FGarbage))) ex_root false io0 in
  i_fired (snd (fst r)) = true /\ fst (fst r) = Raised 1 /\
  map fst (i_dcache (snd (fst r))) = [ex_root] /\
  fst (fst (client_load (mkWorld ex_docs 0 None) ex_root false io0)) = Ok tt.
Proof. vm_compute. repeat split. Qed.

(* non-vacuity of termination / fetch_once: two WSDLs importing each other,
   the root's inline schema includes a schema document that includes
   itself.  The load succeeds; the schema document is fetched twice, once
   for each WSDL's schema collection (the importee builds the importer's
   inline schema too: KNOWN_FINDINGS C12:wsdl-cycle-inline-schemas-built-by-importee). *)
Definition cy_r : str := [104;116;116;112;58;47;47;104;47;114]%N.
Definition cy_w : str := [104;116;116;112;58;47;47;104;47;119]%N.
Definition cy_x : str := [104;116;116;112;58;47;47;104;47;120]%N.
Definition cy_docs : list (str * (bool * doc)) :=
  [(cy_r, (true, DWsdl [cy_w] [[mkX (Some 1%N) [XInc cy_x] []]] []));
   (cy_w, (false, DWsdl [cy_r] [] []));
   (cy_x, (false, DXsd (mkX (Some 1%N) [XInc cy_x] [])))].
Example cycle_nonvacuous :
  let r := client_load (mkWorld cy_docs 1 None) cy_r false io0 in
  fst (fst r) = Ok tt /\ snd r = true /\
  fetches (rev (i_log (snd (fst r)))) = [(DomW, cy_r); (DomW, cy_w); (DomS cy_w, cy_x); (DomS cy_r, cy_x)].
Proof. vm_compute. repeat split. Qed.
