(* C12 -- property theorems (see Proofs.v for the lemmas). *)
From SV Require Import Lib.Base C12.Url C12.Model.
