(* C12 -- Document graphs load completely, once, or not at all.
   Property theorems only; the lemmas are in Proofs.v.  Every theorem
   quantifies over ALL worlds: any finite set of documents (WSDL or schema
   documents with any references between them -- cycles, self references,
   diamonds, dangling and relative locations -- or ill-formed bytes), any
   split between document store and transport, any caching policy. *)
From SV Require Import Lib.Base C12.Url C12.Model C12.Proofs C12.Collect.

(* Loading terminates: the fuel the model gives itself (number of documents
   + 1 for the WSDL loader, number of import/include elements + 1 for each
   schema collection) is never exhausted, whatever the graph.  The cache may
   hold anything earlier loads can have put there. *)
Theorem load_terminates : forall W root ocache i,
  cache_sound W (i_dcache i) ->
  fst (fst (client_load W root ocache i)) <> OutOfFuel.
Proof. exact client_terminates_l. Qed.
Print Assumptions load_terminates.

(* The document store is consulted before the transport, for every request
   of every load: in the request log a transport request for u directly
   follows a store request for u, and only when the store does not hold u. *)
Theorem store_before_transport : forall W root ocache i,
  sbt W (i_log i) = true ->
  sbt W (i_log (snd (fst (client_load W root ocache i)))) = true.
Proof. exact client_sbt_l. Qed.
Print Assumptions store_before_transport.

(* Nothing incomplete is cached: whatever happens during a load (also when a
   fetch fails half way), every document in the cache afterwards is
   well-formed and is what the source serves under that URL. *)
Theorem cache_complete : forall W root ocache i,
  cache_sound W (i_dcache i) ->
  cache_sound W (i_dcache (snd (fst (client_load W root ocache i)))).
Proof. exact client_sound_l. Qed.
Print Assumptions cache_complete.

(* With a healthy source the content of a (sound) document cache does not
   change what a load constructs. *)
Theorem cache_transparent : forall W root a b,
  w_fault W = None -> cache_sound W (i_dcache a) -> cache_sound W (i_dcache b) ->
  fst (load_root io (opn_c W) (docs_of W) root a) = fst (load_root io (opn_c W) (docs_of W) root b).
Proof. exact load_transparent_l. Qed.
Print Assumptions cache_transparent.

(* Failure atomicity, for every graph, every k and both kinds of failure:
   when the k-th fetch of a load raises or returns ill-formed bytes, the
   construction raises, no WSDL object is cached, the document cache holds
   complete documents only, and a retry on that cache against the healthy
   source constructs exactly what a clean first load constructs. *)
Theorem failure_atomic : forall docs pol k fk root,
  let Wf := mkWorld docs pol (Some (k, fk)) in
  let Wh := mkWorld docs pol None in
  let r := client_load Wf root false io0 in
  i_fired (snd (fst r)) = true ->
  (forall x, fst (fst r) <> Ok x) /\ snd r = false /\
  cache_sound Wh (i_dcache (snd (fst r))) /\
  fst (load_root io (opn_c Wh) (docs_of Wh) root (mkIO [] [] (i_dcache (snd (fst r))) 0 false))
  = fst (load_root io (opn_c Wh) (docs_of Wh) root io0).
Proof. exact failure_atomic_l. Qed.
Print Assumptions failure_atomic.

(* Each document is fetched at most once per memo domain, in every graph:
   the store requests of a load, tagged with the memo that asked
   (imported_definitions, or the loaded_schemata of one build_schema), are
   pairwise different.  (The same URL may be fetched once on behalf of each
   of several WSDL documents' schema collections: those memos are separate
   dictionaries in the code.) *)
Theorem fetch_once : forall W root ocache i,
  i_reqs i = [] -> i_log i = [] ->
  NoDup (fetches (i_log (snd (fst (client_load W root ocache i))))).
Proof. exact client_once_l. Qed.
Print Assumptions fetch_once.

(* Only reachable documents are fetched.  As a statement about every fetch
   this is FALSE of the loader as it is written (see the witness below: a
   schema root brought in by wsdl:import is built with the importing WSDL's
   URL as base).  What holds for every graph: every fetch made on behalf of
   imported_definitions (the root and all wsdl:import targets, WSDL or
   schema documents) is of a document reachable from the root. *)
Theorem fetch_reachable_only_partial : forall W root ocache i,
  cache_sound W (i_dcache i) -> i_reqs i = [] -> i_log i = [] ->
  forall v, In (DomW, v) (fetches (i_log (snd (fst (client_load W root ocache i))))) ->
  reach W root v.
Proof. exact wsdl_fetches_reachable_l. Qed.
Print Assumptions fetch_reachable_only_partial.

(* the witness (KNOWN_FINDINGS: C12:wsdl-import-xsd-relative-base):
   http://h/a/r imports ../b/x which includes y -> http://h/a/y is requested *)
Definition rf_r : str := [104;116;116;112;58;47;47;104;47;97;47;114]%N.
Definition rf_x : str := [104;116;116;112;58;47;47;104;47;98;47;120]%N.
Definition rf_y : str := [104;116;116;112;58;47;47;104;47;98;47;121]%N.
Definition rf_bad : str := [104;116;116;112;58;47;47;104;47;97;47;121]%N.
Definition rf_docs : list (str * (bool * doc)) :=
  [(rf_r, (false, DWsdl [[46;46;47;98;47;120]%N] [] []));
   (rf_x, (false, DXsd (mkX (Some 1%N) [XInc [121]%N] [])));
   (rf_y, (false, DXsd (mkX (Some 1%N) [] [])))].
Theorem fetch_reachable_only_refuted : exists W root v,
  In v (map ev_url (i_log (snd (fst (client_load W root false io0))))) /\ ~ reach W root v.
Proof.
  exists (mkWorld rf_docs 0 None), rf_r, rf_bad. split.
  - vm_compute. auto.
  - intro H. apply reach_mentioned in H. vm_compute in H. discriminate.
Qed.
Print Assumptions fetch_reachable_only_refuted.

(* non-vacuity: a root WSDL importing a schema document that includes itself;
   the second fetch fails; policy 0.  The fault fires, the root document is
   cached, the load raises. *)
Definition ex_root : str := [104;116;116;112;58;47;47;104;47;114]%N.      (* http://h/r *)
Definition ex_x : str := [104;116;116;112;58;47;47;104;47;120]%N.         (* http://h/x *)
Definition ex_docs : list (str * (bool * doc)) :=
  [(ex_root, (true, DWsdl [ex_x] [] [])); (ex_x, (false, DXsd (mkX (Some 1%N) [XInc ex_x] [])))].
Example failure_atomic_nonvacuous :
  let r := client_load (mkWorld ex_docs 0 (Some (1, FGarbage))) ex_root false io0 in
  i_fired (snd (fst r)) = true /\ fst (fst r) = Raised 1 /\
  map fst (i_dcache (snd (fst r))) = [ex_root] /\
  fst (fst (client_load (mkWorld ex_docs 0 None) ex_root false io0)) = Ok tt.
Proof. vm_compute. repeat split. Qed.

(* non-vacuity of termination / fetch_once: two WSDLs importing each other,
   the root's inline schema includes a schema document that includes
   itself.  The load succeeds; the schema document is fetched twice, once
   for each WSDL's schema collection (the importee builds the importer's
   inline schema too: KNOWN_FINDINGS C12:wsdl-cycle-inline-schemas-built-by-importee). *)
Definition cy_r : str := [104;116;116;112;58;47;47;104;47;114]%N.
Definition cy_w : str := [104;116;116;112;58;47;47;104;47;119]%N.
Definition cy_x : str := [104;116;116;112;58;47;47;104;47;120]%N.
Definition cy_docs : list (str * (bool * doc)) :=
  [(cy_r, (true, DWsdl [cy_w] [[mkX (Some 1%N) [XInc cy_x] []]] []));
   (cy_w, (false, DWsdl [cy_r] [] []));
   (cy_x, (false, DXsd (mkX (Some 1%N) [XInc cy_x] [])))].
Example cycle_nonvacuous :
  let r := client_load (mkWorld cy_docs 1 None) cy_r false io0 in
  fst (fst r) = Ok tt /\ snd r = true /\
  fetches (rev (i_log (snd (fst r)))) = [(DomW, cy_r); (DomW, cy_w); (DomS cy_w, cy_x); (DomS cy_r, cy_x)].
Proof. vm_compute. repeat split. Qed.

(* ------------------------------------------------------------------ *)
(* what a load collects (spec and lemmas: Collect.v)                   *)
(* ------------------------------------------------------------------ *)

(* GUARDS (explicit booleans; each excludes one behaviour the unrestricted
   statement is false for):
     no_chameleon W  no schema document without targetNamespace (an included
                     chameleon document is instantiated once per
                     loaded_schemata, whatever the includer: executed
                     correspondence only);
     wimp_abs W      a schema document that is the target of a wsdl:import has
                     absolute locations only (C12:wsdl-import-xsd-relative-base);
     ranked W rk     rk ranks the documents so that every wsdl:import goes to
                     a lower rank, i.e. the wsdl:import graph is acyclic
                     (C12:wsdl-cycle-inline-schemas-built-by-importee,
                      C12:wsdl-cycle-early-resolve);
     w_shadow s = false   no located xsd:import was answered by a schema of the
                     same WSDL collection (Import.__locate ignores the location).
   xsd:import / xsd:include cycles, self references, diamonds at both levels
   and relative locations everywhere else are NOT excluded. *)

(* The tables of the constructed root Definitions hold exactly the
   declarations of the documents reachable from the root (every reference
   resolved against the URL of the document containing it): the keys of
   messages / port types / bindings, and of the schema's elements / types. *)
Theorem load_collects_declarations : forall W rk root i,
  guards W rk = true -> cache_sound W (i_dcache i) -> i_reqs i = [] ->
  forall s i', load_root io (opn_c W) (docs_of W) root i = (Ok s, i') -> w_shadow s = false ->
  (forall n, In n (fst (collected root s)) <-> names_spec W root n) /\
  (forall q, In q (snd (collected root s)) <-> decls_spec W root q).
Proof.
  intros W rk root i G Hs Er s i' Hl Hsh.
  pose proof (load_collect_l W rk root i G Hs Er) as L. rewrite Hl in L. destruct L as [_ L]. auto.
Qed.
Print Assumptions load_collects_declarations.

(* PARTITION EQUIVALENCE: for a well-formed interface I (schemas that refer
   to each other by namespace only, every qualified name declared once),
   EVERY world that is a partition of I -- any number of documents linked by
   wsdl:import, xsd:import and xsd:include in any shape allowed by the
   guards, whose reachable documents declare what I declares -- constructs
   the tables of the single-document WSDL of I.  (Key sets; with unique
   qualified names a key has one declaration, so the maps are equal.) *)
Theorem partition_equivalent : forall I W root rk r1 pol s i' s1 i1,
  wf_iface I -> guards W rk = true -> is_partition W root I ->
  load_root io (opn_c W) (docs_of W) root io0 = (Ok s, i') -> w_shadow s = false ->
  load_root io (opn_c (single r1 pol I)) (docs_of (single r1 pol I)) r1 io0 = (Ok s1, i1) ->
  w_shadow s1 = false ->
  same_set (fst (collected root s)) (fst (collected r1 s1)) /\
  same_set (snd (collected root s)) (snd (collected r1 s1)).
Proof. exact partition_equivalent_l. Qed.
Print Assumptions partition_equivalent.

(* the single-document WSDL of an interface is a partition of it *)
Theorem single_document_is_partition : forall r pol I, wf_iface I -> is_partition (single r pol I) r I.
Proof. exact single_is_partition. Qed.
Print Assumptions single_document_is_partition.

(* Reachable only, schema level, guarded (the WSDL level is unconditional:
   fetch_reachable_only_partial): every fetch a schema loader makes -- in
   successful and in failing loads -- is of a document reachable from the root. *)
Theorem fetch_reachable_only_guarded : forall W rk root ocache i,
  guards W rk = true -> cache_sound W (i_dcache i) -> i_reqs i = [] -> i_log i = [] ->
  forall o a, In (DomS o, a) (fetches (i_log (snd (fst (client_load W root ocache i))))) ->
  reach W root a.
Proof. exact schema_requests_reachable_l. Qed.
Print Assumptions fetch_reachable_only_guarded.

(* non-vacuity: an interface (2 names, 2 schemas of 2 declarations) split
   into four documents in two directories -- root WSDL, a WSDL with an inline
   schema that includes a schema document by a relative location, which
   imports back (xsd cycle) and includes itself, and a schema document
   brought in by wsdl:import -- passes the guards, is a partition, and
   constructs the single document's tables. *)
Definition pe_r : str := [104;116;116;112;58;47;47;104;47;97;47;114;46;119;115;100;108]%N.
Definition pe_w : str := [104;116;116;112;58;47;47;104;47;98;47;119;46;119;115;100;108]%N.
Definition pe_y : str := [104;116;116;112;58;47;47;104;47;98;47;115;47;121;46;120;115;100]%N.
Definition pe_x : str := [104;116;116;112;58;47;47;104;47;97;47;120;46;120;115;100]%N.
Definition pe_docs : list (str * (bool * doc)) :=
  [(pe_r, (false, DWsdl [[120;46;120;115;100]%N; [46;46;47;98;47;119;46;119;115;100;108]%N] [] [7%N]));
   (pe_w, (true, DWsdl [] [[mkX (Some 1%N) [XInc [115;47;121;46;120;115;100]%N] [11%N]]] [8%N]));
   (pe_y, (false, DXsd (mkX (Some 1%N) [XInc [121;46;120;115;100]%N; XImp (Some 2%N) (Some [104;116;116;112;58;47;47;104;47;97;47;120;46;120;115;100]%N)] [12%N])));
   (pe_x, (false, DXsd (mkX (Some 2%N) [XImp (Some 1%N) (Some pe_y)] [21%N; 22%N])))].
Definition pe_rk : list (str * nat) := [(pe_r, 1)].
Definition pe_iface : iface :=
  mkIface [7%N; 8%N] [mkX (Some 1%N) [XImp (Some 2%N) None] [11%N; 12%N];
                        mkX (Some 2%N) [XImp (Some 1%N) None] [21%N; 22%N]].
Definition qeq (a b : qn) : bool :=
  match a, b with
  | (Some x, n), (Some y, m) => N.eqb x y && N.eqb n m
  | (None, n), (None, m) => N.eqb n m
  | _, _ => false
  end.
Definition sub (a b : list qn) : bool := forallb (fun x => existsb (qeq x) b) a.
Example partition_nonvacuous :
  guards (mkWorld pe_docs 0 None) pe_rk = true /\
  match load_root io (opn_c (mkWorld pe_docs 0 None)) (docs_of (mkWorld pe_docs 0 None)) pe_r io0,
        load_root io (opn_c (single pe_r 0 pe_iface)) (docs_of (single pe_r 0 pe_iface)) pe_r io0 with
  | (Ok s, _), (Ok s1, _) =>
      w_shadow s = false /\ w_shadow s1 = false /\
      fst (collected pe_r s) = [7%N; 8%N] /\ fst (collected pe_r s1) = [7%N; 8%N] /\
      sub (snd (collected pe_r s)) (snd (collected pe_r s1)) = true /\
      sub (snd (collected pe_r s1)) (snd (collected pe_r s)) = true /\
      sub (snd (collected pe_r s1)) [(Some 1%N, 11%N); (Some 1%N, 12%N); (Some 2%N, 21%N); (Some 2%N, 22%N)] = true
  | _, _ => False
  end.
Proof. vm_compute. repeat split. Qed.
