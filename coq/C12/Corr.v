(* C12 -- correspondence: what the harness evaluates on each generated
   scenario.  A scenario is one document graph (as re-read with expat), one
   caching policy, and a sequence of client constructions observed on suds:
   a clean load, then for chosen k a load whose k-th fetch fails followed by a
   healthy retry on the same cache.

     c12_agrees      the model run on the same sources produces the same
                     outcome class, the same store/transport request sequence,
                     the same set of cached documents and object-cache state
     c12_join_agrees [join] = urllib's urljoin behind the loaders' "://" test
     c12_*_ok        the property text evaluated on suds' own outputs *)
From SV Require Import Lib.Base C12.Url C12.Model.

Record obs := mkObs {
  o_fresh : bool;                 (* the caches are empty before this load *)
  o_fault : option (nat * fkind);
  o_class : N;                    (* 0 constructed; 1 raised, some fetch had failed; 2 raised otherwise *)
  o_events : list (bool * nat);   (* chronological, true = store request; URL = index in c_urls *)
  o_dcache : list nat;            (* documents in the cache after the load *)
  o_ocache : bool;                (* a WSDL object in the cache after the load *)
  o_complete : bool;              (* every cached document is well-formed and equals its source
                                     (judged with expat by the harness) *)
  o_fired : bool;                 (* the injected fault happened *)
  o_fp : N }.                     (* digest of the client's behavioural fingerprint, 0 = no client *)

Record case := mkCase {
  c_urls : list str;
  c_docs : list (nat * (bool * doc));
  c_policy : N;
  c_root : nat;
  c_single : N;                   (* fingerprint of the equivalent single-document client *)
  c_joins : list (nat * str * str);   (* base, location, urllib's answer *)
  c_names : list N;               (* keys of wsdl.messages / port_types / bindings of the clean load *)
  c_decls : list qn;              (* keys of wsdl.schema.elements / types of the clean load *)
  c_obs : list obs }.

Definition url_of (c : case) (k : nat) : str := nth k (c_urls c) [].
Definition docs_of_case (c : case) : list (str * (bool * doc)) :=
  map (fun e => (url_of c (fst e), snd e)) (c_docs c).
Definition world_of (c : case) (f : option (nat * fkind)) : world :=
  mkWorld (docs_of_case c) (c_policy c) f.

Fixpoint prefix_eqb {A} (eqb : A -> A -> bool) (p l : list A) : bool :=
  match p, l with
  | [], _ => true
  | x :: p', y :: l' => eqb x y && prefix_eqb eqb p' l'
  | _, [] => false
  end.

Definition ev_eqb (a b : bool * str) : bool := Bool.eqb (fst a) (fst b) && str_eqb (snd a) (snd b).

Definition subset_str (a b : list str) : bool := forallb (fun x => mem_str x b) a.

Definition model_events (i : io) : list (bool * str) :=
  map (fun e => (is_store e, ev_url e)) (rev (i_log i)).

(* one observed construction against the model's *)
Definition agree_step (c : case) (o : obs) (prev_oc : bool) (res : outcome unit * io * bool) : bool :=
  let '(out, i, oc) := res in
  let mev := model_events i in
  let iev := map (fun e => (fst e, url_of c (snd e))) (o_events o) in
  let mdc := map fst (i_dcache i) in
  let idc := map (url_of c) (o_dcache o) in
  let exact := list_eqb ev_eqb iev mev && subset_str mdc idc && subset_str idc mdc
               && Bool.eqb oc (o_ocache o) && Bool.eqb (i_fired i) (o_fired o) in
  match out, o_class o with
  | Ok _, 0%N => exact
  | Raised 1%N, 1%N => exact
  | Raised 1%N, _ => false
  | Raised _, 2%N => exact
  | Ok _, 2%N =>
      (* the load was aborted by a step the model does not have (resolve,
         set_wrapped, ...): everything suds did before is as the model says *)
      prefix_eqb ev_eqb iev mev && subset_str idc mdc && Bool.eqb prev_oc (o_ocache o)
  | _, _ => false
  end.

Fixpoint agree_steps (c : case) (dc : list (str * doc)) (oc : bool) (os : list obs) : bool :=
  match os with
  | [] => true
  | o :: rest =>
      let dc0 := if o_fresh o then [] else dc in
      let oc0 := if o_fresh o then false else oc in
      let res := client_load (world_of c (o_fault o)) (url_of c (c_root c)) oc0
                             (mkIO [] [] dc0 0 false) in
      agree_step c o oc0 res && agree_steps c (i_dcache (snd (fst res))) (snd res) rest
  end.

Definition c12_agrees (c : case) : bool := agree_steps c [] false (c_obs c).

Definition c12_join_agrees (c : case) : bool :=
  forallb (fun t => str_eqb (join (url_of c (fst (fst t))) (snd (fst t))) (snd t)) (c_joins c).

(* the model never runs out of fuel on the generated graphs (the theorem
   load_terminates says so for all graphs; this is its executed instance) *)
Fixpoint no_oof (c : case) (os : list obs) : bool :=
  match os with
  | [] => true
  | o :: rest =>
      match fst (fst (client_load (world_of c (o_fault o)) (url_of c (c_root c)) false io0)) with
      | OutOfFuel => false
      | _ => no_oof c rest
      end
  end.

(* ---------------- the property text on suds' outputs ---------------- *)

(* store before transport *)
Fixpoint sbt_obs (W : world) (prev : option str) (evs : list (bool * str)) : bool :=
  match evs with
  | [] => true
  | (true, u) :: rest => sbt_obs W (Some u) rest
  | (false, u) :: rest =>
      match prev with
      | Some v => str_eqb u v && negb (held W u) && sbt_obs W None rest
      | None => false
      end
  end.

Definition c12_sbt_ok (c : case) : bool :=
  forallb (fun o => sbt_obs (world_of c None) None
                            (map (fun e => (fst e, url_of c (snd e))) (o_events o))) (c_obs c).

(* only reachable documents are asked for *)
Definition c12_reach_ok (c : case) : bool :=
  let W := world_of c None in
  let r := reach_b W (S (length (c_docs c))) [url_of c (c_root c)] in
  forallb (fun o => forallb (fun e => mem_str (url_of c (snd e)) r) (o_events o)) (c_obs c).

(* a healthy load constructs the client of the single-document WSDL *)
Definition c12_same_client_ok (c : case) : bool :=
  forallb (fun o => match o_fault o with
                    | None => N.eqb (o_class o) 0 && N.eqb (o_fp o) (c_single c)
                    | Some _ => true
                    end) (c_obs c).

(* a load with a failing fetch raises, caches no WSDL object, and every load
   leaves only complete documents in the cache *)
Fixpoint atomic_steps (prev_oc : bool) (os : list obs) : bool :=
  match os with
  | [] => true
  | o :: rest =>
      let p := if o_fresh o then false else prev_oc in
      o_complete o
      && (if o_fired o then negb (N.eqb (o_class o) 0) && Bool.eqb (o_ocache o) p else true)
      && atomic_steps (o_ocache o) rest
  end.
Definition c12_atomic_ok (c : case) : bool := atomic_steps false (c_obs c).

(* the retry after a failure yields the client of the clean first load *)
Definition first_fp (c : case) : N := match c_obs c with o :: _ => o_fp o | [] => 0%N end.
Fixpoint retry_steps (clean : N) (after_fault : bool) (os : list obs) : bool :=
  match os with
  | [] => true
  | o :: rest =>
      (if after_fault && negb (o_fresh o) && match o_fault o with None => true | Some _ => false end
       then N.eqb (o_class o) 0 && N.eqb (o_fp o) clean else true)
      && retry_steps clean (o_fired o) rest
  end.
Definition c12_retry_ok (c : case) : bool := retry_steps (first_fp c) false (c_obs c).

Definition c12_terminates_ok (c : case) : bool := no_oof c (c_obs c).

(* the declarations the constructed client sees: the model's tables of the
   root Definitions have the same keys as suds' (clean load, when it succeeds) *)
Definition qn_eqb (a b : qn) : bool := optN_eqb (fst a) (fst b) && N.eqb (snd a) (snd b).
Definition subset_b {A} (eqb : A -> A -> bool) (a b : list A) : bool :=
  forallb (fun x => existsb (eqb x) b) a.

Definition c12_decls_agree (c : case) : bool :=
  match c_obs c with
  | o :: _ =>
      if N.eqb (o_class o) 0 then
        match fst (load_root io (opn_c (world_of c None)) (docs_of (world_of c None))
                             (url_of c (c_root c)) io0) with
        | Ok s => let '(ns, ds) := collected (url_of c (c_root c)) s in
                  subset_b N.eqb ns (c_names c) && subset_b N.eqb (c_names c) ns
                  && subset_b qn_eqb ds (c_decls c) && subset_b qn_eqb (c_decls c) ds
        | _ => false
        end
      else true
  | [] => true
  end.
