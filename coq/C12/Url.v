(* C12 -- URL resolution as the loaders use it.

   suds/wsdl.py:Import.load, suds/xsd/sxbasic.py:Import.open / Include.open:

       url = self.location
       if "://" not in url:
           url = urljoin(base, url)

   [urljoin] is modelled for the class of URLs the document graphs of the
   check use:  scheme "://" host "/" seg "/" ... "/" file  with no query,
   parameters; an optional "?query" and "#fragment" on both sides; relative
   references made of plain segments, ".", ".." and an optional leading "/",
   or only "?query" / "#fragment".  For a base whose scheme is not a
   hierarchical one known to urllib ("http", "https") urljoin returns the
   reference unchanged (this is what happens with the "suds" scheme).
   The harness compares [join] with urllib's urljoin on every (base,
   location) pair of every generated graph (join_agrees). *)
From SV Require Import Lib.Base.

Definition ch_slash : N := 47.

(* does [s] start with [p] *)
Fixpoint prefixb (p s : str) : bool :=
  match p, s with
  | [], _ => true
  | x :: p', y :: s' => N.eqb x y && prefixb p' s'
  | _, [] => false
  end.

Fixpoint containsb (p s : str) : bool :=
  prefixb p s || match s with [] => false | _ :: s' => containsb p s' end.

Definition sep : str := [58; 47; 47]%N.      (* "://" *)

Definition has_scheme (s : str) : bool := containsb sep s.

(* split at the first "://" : (scheme, rest) *)
Fixpoint split_scheme (s : str) : option (str * str) :=
  if prefixb sep s then Some ([], skipn 3 s)
  else match s with
       | [] => None
       | c :: s' => match split_scheme s' with
                    | Some (a, b) => Some (c :: a, b)
                    | None => None
                    end
       end.

(* split on "/" *)
Fixpoint split_slash_aux (cur : str) (s : str) : list str :=
  match s with
  | [] => [rev cur]
  | c :: s' => if N.eqb c ch_slash then rev cur :: split_slash_aux [] s'
               else split_slash_aux (c :: cur) s'
  end.
Definition split_slash (s : str) : list str := split_slash_aux [] s.

Fixpoint join_slash (l : list str) : str :=
  match l with
  | [] => []
  | [a] => a
  | a :: l' => a ++ ch_slash :: join_slash l'
  end.

Definition dot : str := [46]%N.
Definition dotdot : str := [46; 46]%N.

(* RFC 3986 5.2.4 as urllib does it: ".." pops (never below the root),
   "." and empty middle segments vanish *)
Fixpoint normalise (acc : list str) (segs : list str) : list str :=
  match segs with
  | [] => rev acc
  | g :: rest =>
      if str_eqb g dotdot then normalise (match acc with [] => [] | _ :: a => a end) rest
      else if str_eqb g dot then normalise acc rest
      else match g, rest with
           | [], _ :: _ => normalise acc rest
           | _, _ => normalise (g :: acc) rest
           end
  end.

Definition http : str := [104; 116; 116; 112]%N.
Definition https : str := [104; 116; 116; 112; 115]%N.
Definition suds_scheme : str := [115; 117; 100; 115]%N.

Definition hierarchical (scheme : str) : bool := str_eqb scheme http || str_eqb scheme https.

(* query string and fragment *)
Definition ch_quest : N := 63.
Definition ch_hash : N := 35.

Fixpoint split_char (c : N) (s : str) : str * option str :=      (* at the first c *)
  match s with
  | [] => ([], None)
  | x :: s' => if N.eqb x c then ([], Some s')
               else let '(a, b) := split_char c s' in (x :: a, b)
  end.

(* path, query, fragment of a reference (or of what follows "://") *)
Definition parse_ref (s : str) : str * option str * option str :=
  let '(s1, frag) := split_char ch_hash s in
  let '(p, q) := split_char ch_quest s1 in
  (p, q, frag).

Definition unparse_tail (q f : option str) : str :=
  (match q with Some (c :: q') => ch_quest :: c :: q' | _ => [] end) ++
  (match f with Some (c :: f') => ch_hash :: c :: f' | _ => [] end).

Definition nonempty (q : option str) : bool := match q with Some (_ :: _) => true | _ => false end.

Definition resolve (base loc : str) : str :=
  match split_scheme base with
  | None => loc
  | Some (scheme, rest) =>
      if negb (hierarchical scheme) then loc
      else match loc with
      | [] => base
      | _ =>
        let '(bpath, bq, bf) := parse_ref rest in
        let '(lpath, lq, lf) := parse_ref loc in
        match lpath with
        | [] =>
            (* a reference that is only "?query" and/or "#fragment": same path;
               the base's query unless the reference has its own *)
            scheme ++ sep ++ bpath ++ unparse_tail (if nonempty lq then lq else bq) lf
        | c :: lpath' =>
          match split_slash bpath with
          | [] => loc
          | host :: path =>
              let segs := if N.eqb c ch_slash then split_slash lpath'
                          else removelast path ++ split_slash lpath in
              scheme ++ sep ++ host ++ ch_slash :: join_slash (normalise [] segs) ++ unparse_tail lq lf
          end
        end
      end
  end.

(* the loaders' own test, then urljoin *)
Definition join (base loc : str) : str :=
  if has_scheme loc then loc else resolve base loc.

Definition is_suds (u : str) : bool :=
  match split_scheme u with Some (s, _) => str_eqb s suds_scheme | None => false end.

Lemma join_absolute base loc : has_scheme loc = true -> join base loc = loc.
Proof. unfold join. intros ->. reflexivity. Qed.

(* "http://h/a/r.wsdl" + "../b/x.xsd" = "http://h/b/x.xsd" *)
Example join_example :
  join [104;116;116;112;58;47;47;104;47;97;47;114;46;119;115;100;108]%N
       [46;46;47;98;47;120;46;120;115;100]%N
  = [104;116;116;112;58;47;47;104;47;98;47;120;46;120;115;100]%N.
Proof. reflexivity. Qed.
