(* C12 -- lemmas about the loaders of Model.v. *)
From SV Require Import Lib.Base C12.Url C12.Model.
From Coq Require Import ZifyBool ZifyNat ZifyN.

Ltac dm := match goal with |- context [match ?x with _ => _ end] => destruct x eqn:? end.
Ltac dmh H := match type of H with context [match ?x with _ => _ end] => destruct x eqn:? end.

(* ------------------------------------------------------------------ *)
(* L1: an IO invariant of the opener is an invariant of every load     *)
(* ------------------------------------------------------------------ *)
Section Inv.
  Variable IO : Type.
  Variable opn : dom -> str -> IO -> option doc * IO.
  Variable univ : list (str * doc).
  Variables P P' : IO -> Prop.      (* P along successful paths, P' where the load stopped *)
  Hypothesis P_weak : forall io, P io -> P' io.
  Hypothesis Hopn : forall d u io, P io ->
      match opn d u io with (Some _, io') => P io' | (None, io') => P' io' end.

  Definition post {A} (r : outcome A * IO) : Prop :=
    match r with (Ok _, io') => P io' | (_, io') => P' io' end.

  Lemma download_inv owner incl tns u s io : P io -> post (download IO opn owner incl tns u s io).
  Proof.
    intro H. unfold download. pose proof (Hopn (DomS owner) u io H) as Ho.
    destruct (opn (DomS owner) u io) as [[d|] io1]; cbn; auto.
    destruct d; cbn; auto.
    destruct incl; cbn; auto.
    destruct (x_tns x); cbn; auto. dm; cbn; auto.
  Qed.

  Lemma target_inv cont owner self tns base r s io :
    P io -> post (target IO opn cont owner self tns base r s io).
  Proof.
    intro H. unfold target. destruct r.
    - dm; cbn; auto. destruct loc; cbn; auto. dm; cbn; auto. apply download_inv; auto.
    - dm; cbn; auto. apply download_inv; auto.
  Qed.

  Lemma open_refs_inv rec cont owner self tns base :
    (forall t s io, P io -> post (rec t s io)) ->
    forall refs i s io, P io -> post (open_refs IO opn rec cont owner self tns base i refs s io).
  Proof.
    intro Hrec. induction refs as [|r rest IH]; intros i s io H; cbn; auto.
    dm; auto.
    pose proof (target_inv cont owner self tns base r
                 (mkS (s_memo s) (remove_slot (self, i) (s_rem s))) io H) as Ht.
    destruct (target IO opn cont owner self tns base r _ io) as [[[[t|] s2]|k|] io2]; cbn in *; auto.
    pose proof (Hrec t s2 io2 Ht) as Hr.
    destruct (rec t s2 io2) as [[s3|k|] io3]; cbn in *; auto.
  Qed.

  Lemma open_imports_inv cont owner fuel :
    forall t s io, P io -> post (open_imports IO opn cont owner fuel t s io).
  Proof.
    induction fuel as [|f IH]; intros t s io H; cbn; auto.
    dm; cbn; auto. destruct p as [[tns refs] base].
    apply open_refs_inv; auto.
  Qed.

  Lemma open_all_inv cont owner fuel :
    forall js s io, P io -> post (open_all IO opn cont owner fuel js s io).
  Proof.
    induction js as [|j rest IH]; intros s io H; cbn; auto.
    pose proof (open_imports_inv cont owner fuel (SInl j) s io H) as Ho.
    destruct (open_imports IO opn cont owner fuel (SInl j) s io) as [[s1|k|] io1]; cbn in *; auto.
  Qed.

  Lemma build_schema_inv owner roots io : P io -> post (build_schema IO opn univ owner roots io).
  Proof. intro H. unfold build_schema. apply open_all_inv; auto. Qed.

  Lemma loop_imports_inv rec self :
    (forall u s io, P io -> post (rec u s io)) ->
    forall imps s io, P io -> post (loop_imports IO rec self imps s io).
  Proof.
    intro Hrec. induction imps as [|loc rest IH]; intros s io H; cbn; auto.
    destruct (lookup (join self loc) (w_memo s)) eqn:El.
    - dm; cbn; auto.
    - pose proof (Hrec (join self loc) s io H) as Hr.
      destruct (rec (join self loc) s io) as [[s1|k|] io1]; cbn in *; auto.
      dm; cbn; auto.
  Qed.

  Lemma load_defs_inv fuel : forall u s io, P io -> post (load_defs IO opn univ fuel u s io).
  Proof.
    induction fuel as [|f IH]; intros u s io H; cbn; auto.
    pose proof (Hopn DomW u io H) as Ho.
    destruct (opn DomW u io) as [[d|] io1]; cbn; auto.
    destruct d as [imps types|x|]; cbn; auto.
    destruct (alloc_types u types (w_heap s)) as [tids heap].
    pose proof (loop_imports_inv (load_defs IO opn univ f) u IH imps
                 (mkW ((u, mkD true tids None) :: w_memo s) heap (w_built s)) io1 Ho) as Hl.
    destruct (loop_imports IO (load_defs IO opn univ f) u imps _ io1) as [[s2|k|] io2]; cbn in *; auto.
    pose proof (build_schema_inv u (local_roots u s2) io2 Hl) as Hb.
    destruct (build_schema IO opn univ u (local_roots u s2) io2) as [[s3|k|] io3]; cbn in *; auto.
  Qed.

  Lemma load_root_inv root io : P io -> post (load_root IO opn univ root io).
  Proof. apply load_defs_inv. Qed.
End Inv.

(* ------------------------------------------------------------------ *)
(* the concrete opener                                                 *)
(* ------------------------------------------------------------------ *)

Lemma str_eqb_sym a b : str_eqb a b = str_eqb b a.
Proof.
  destruct (str_eqb a b) eqn:E.
  - apply str_eqb_eq in E. subst. symmetry. apply str_eqb_refl.
  - destruct (str_eqb b a) eqn:E'; auto. apply str_eqb_eq in E'. subst.
    rewrite str_eqb_refl in E. discriminate.
Qed.

Lemma dom_eqb_refl d : dom_eqb d d = true.
Proof. destruct d; cbn; auto. apply str_eqb_refl. Qed.

Lemma lookup_in {A} k (l : list (str * A)) v : lookup k l = Some v -> In (k, v) l.
Proof.
  induction l as [|[k' v'] l IH]; cbn; intro H; try discriminate.
  destruct (str_eqb k k') eqn:E.
  - apply str_eqb_eq in E. inversion H; subst. auto.
  - right. auto.
Qed.

(* store before transport *)
Lemma fetch_sbt W dm u i : sbt W (i_log i) = true -> sbt W (i_log (snd (fetch W dm u i))) = true.
Proof.
  intro H. unfold fetch; cbn.
  destruct (lookup u (w_docs W)) as [[[|] d]|] eqn:E; cbn; auto.
  - destruct (is_suds u); cbn; auto.
    unfold held. rewrite dom_eqb_refl, str_eqb_refl, E. cbn. auto.
  - destruct (is_suds u); cbn; auto.
    unfold held. rewrite dom_eqb_refl, str_eqb_refl, E. cbn. auto.
Qed.

(* what a fetch returns *)
Lemma fetch_some W dm u i d :
  fst (fetch W dm u i) = Some d -> src W u = Some d /\ d <> DBad /\ i_fired (snd (fetch W dm u i)) = i_fired i.
Proof.
  unfold fetch, src; cbn.
  destruct (w_fault W) as [[k fk]|].
  - destruct (Nat.eqb k (i_n i)).
    + destruct fk; cbn; discriminate.
    + destruct (is_suds u && _); cbn; try discriminate.
      destruct (lookup u (w_docs W)) as [[b d']|]; cbn; try discriminate.
      destruct d'; cbn; intro H; inversion H; subst; repeat split; try discriminate;
        rewrite orb_false_r; auto.
  - destruct (is_suds u && _); cbn; try discriminate.
    destruct (lookup u (w_docs W)) as [[b d']|]; cbn; try discriminate.
    destruct d'; cbn; intro H; inversion H; subst; repeat split; try discriminate;
      rewrite orb_false_r; auto.
Qed.

Lemma fetch_dcache W dm u i : i_dcache (snd (fetch W dm u i)) = i_dcache i.
Proof. reflexivity. Qed.

Opaque fetch.

Lemma opn_c_sbt W dm u i : sbt W (i_log i) = true -> sbt W (i_log (snd (opn_c W dm u i))) = true.
Proof.
  intro H. unfold opn_c.
  set (i0 := mkIO (i_log i) ((dm, u) :: i_reqs i) (i_dcache i) (i_n i) (i_fired i)).
  assert (H0 : sbt W (i_log i0) = true) by exact H.
  destruct (N.eqb (w_policy W) 0).
  - destruct (lookup u (i_dcache i0)); cbn; auto.
    pose proof (fetch_sbt W dm u i0 H0) as Hf.
    destruct (fetch W dm u i0) as [[d|] i1]; cbn in *; auto.
  - apply fetch_sbt; auto.
Qed.

(* nothing incomplete is cached *)
Lemma opn_c_sound W dm u i :
  cache_sound W (i_dcache i) -> cache_sound W (i_dcache (snd (opn_c W dm u i))).
Proof.
  intro H. unfold opn_c.
  set (i0 := mkIO (i_log i) ((dm, u) :: i_reqs i) (i_dcache i) (i_n i) (i_fired i)).
  destruct (N.eqb (w_policy W) 0); [|exact H].
  destruct (lookup u (i_dcache i0)); [exact H|].
  pose proof (fetch_some W dm u i0) as Hf.
  destruct (fetch W dm u i0) as [[d|] i1] eqn:Ef; cbn in *.
  - destruct (Hf d eq_refl) as (Hs & Hb & _).
    assert (Hd : i_dcache i1 = i_dcache i) by (change i1 with (snd (Some d, i1)); rewrite <- Ef; reflexivity).
    intros u' d' [Heq|Hin].
    + inversion Heq; subst. auto.
    + rewrite Hd in Hin. apply H; auto.
  - assert (Hd : i_dcache i1 = i_dcache i) by (change i1 with (snd (@None doc, i1)); rewrite <- Ef; reflexivity).
    rewrite Hd. exact H.
Qed.

(* an opener that answers has not been hit by the injected fault *)
Lemma opn_c_fired W dm u i d :
  i_fired i = false -> fst (opn_c W dm u i) = Some d -> i_fired (snd (opn_c W dm u i)) = false.
Proof.
  intros H. unfold opn_c.
  set (i0 := mkIO (i_log i) ((dm, u) :: i_reqs i) (i_dcache i) (i_n i) (i_fired i)).
  destruct (N.eqb (w_policy W) 0).
  - destruct (lookup u (i_dcache i0)); cbn; auto.
    pose proof (fetch_some W dm u i0) as Hf.
    destruct (fetch W dm u i0) as [[d'|] i1] eqn:Ef; cbn in *; try discriminate.
    intros _. destruct (Hf d' eq_refl) as (_ & _ & Hfi). rewrite Hfi. exact H.
  - intro Hs. destruct (fetch_some W dm u i0 d Hs) as (_ & _ & Hfi). rewrite Hfi. exact H.
Qed.

(* ---------------- whole loads ---------------- *)

Lemma load_root_inv_all IO opn univ (P : IO -> Prop) :
  (forall d u io, P io -> P (snd (opn d u io))) ->
  forall root io, P io -> P (snd (load_root IO opn univ root io)).
Proof.
  intros Ho root io H.
  pose proof (load_root_inv IO opn univ P P (fun _ h => h)) as L.
  assert (Hop : forall d u x, P x -> match opn d u x with (Some _, io') => P io' | (None, io') => P io' end).
  { intros d u x Hx. specialize (Ho d u x Hx). destruct (opn d u x) as [[?|] ?]; auto. }
  specialize (L Hop root io H). unfold post in L.
  destruct (load_root IO opn univ root io) as [[?|?|] ?]; auto.
Qed.

Lemma load_sbt_l W root i :
  sbt W (i_log i) = true -> sbt W (i_log (snd (load_root io (opn_c W) (docs_of W) root i))) = true.
Proof.
  apply (load_root_inv_all io (opn_c W) (docs_of W) (fun x => sbt W (i_log x) = true)).
  intros d u x. apply opn_c_sbt.
Qed.

Lemma load_sound_l W root i :
  cache_sound W (i_dcache i) -> cache_sound W (i_dcache (snd (load_root io (opn_c W) (docs_of W) root i))).
Proof.
  apply (load_root_inv_all io (opn_c W) (docs_of W) (fun x => cache_sound W (i_dcache x))).
  intros d u x. apply opn_c_sound.
Qed.

(* a load during which the injected fault happens does not construct a client *)
Lemma load_fired_l W root i :
  i_fired i = false ->
  match load_root io (opn_c W) (docs_of W) root i with
  | (Ok _, i') => i_fired i' = false
  | _ => True
  end.
Proof.
  intro H.
  pose proof (load_root_inv io (opn_c W) (docs_of W) (fun x => i_fired x = false) (fun _ => True)
                (fun _ _ => I)) as L.
  assert (Hop : forall d u x, i_fired x = false ->
                match opn_c W d u x with (Some _, io') => i_fired io' = false | (None, io') => True end).
  { intros d u x Hx. pose proof (opn_c_fired W d u x) as Hf.
    destruct (opn_c W d u x) as [[d'|] x'] eqn:E; auto. apply (Hf d'); auto. }
  specialize (L Hop root i H). unfold post in L.
  destruct (load_root io (opn_c W) (docs_of W) root i) as [[?|?|] ?]; auto.
Qed.

(* ------------------------------------------------------------------ *)
(* termination: the fuel is never exhausted                            *)
(* ------------------------------------------------------------------ *)

Definition has {A} (u : str) (l : list (str * A)) : bool :=
  match lookup u l with Some _ => true | None => false end.

(* references of the schema documents not yet in loaded_schemata *)
Fixpoint unloaded (memo : list (str * xschema)) (univ : list (str * doc)) : nat :=
  match univ with
  | [] => 0
  | (u, d) :: rest => (if has u memo then 0 else xsd_refs_of d) + unloaded memo rest
  end.

Definition phi (univ : list (str * doc)) (s : sst) : nat := length (s_rem s) + unloaded (s_memo s) univ.

Lemma unloaded_nil univ : unloaded [] univ = total_refs univ.
Proof. induction univ as [|[u d] rest IH]; cbn; auto. Qed.

Lemma unloaded_cons_le u x memo univ : unloaded ((u, x) :: memo) univ <= unloaded memo univ.
Proof.
  induction univ as [|[u' d] rest IH]; cbn; auto.
  unfold has in *. cbn. destruct (str_eqb u' u); cbn; [|lia].
  destruct (lookup u' memo); lia.
Qed.

Lemma unloaded_download u x x' memo univ :
  lookup u memo = None -> In (u, DXsd x) univ ->
  unloaded ((u, x') :: memo) univ + length (x_refs x) <= unloaded memo univ.
Proof.
  intros Hn. induction univ as [|[u' d] rest IH]; cbn; [tauto|].
  intros [Heq|Hin].
  - inversion Heq; subst. unfold has. cbn. rewrite str_eqb_refl, Hn. cbn.
    pose proof (unloaded_cons_le u x' memo rest). lia.
  - specialize (IH Hin). unfold has in *. cbn. destruct (str_eqb u' u); cbn.
    + destruct (lookup u' memo); lia.
    + lia.
Qed.

Lemma remove_slot_length x l : length (remove_slot x l) <= length l.
Proof. unfold remove_slot. induction l; cbn; auto. destruct (negb _); cbn; lia. Qed.

Lemma slot_eqb_refl x : slot_eqb x x = true.
Proof.
  destruct x as [[j|u] i]; unfold slot_eqb; cbn.
  - rewrite !Nat.eqb_refl. auto.
  - rewrite str_eqb_refl, Nat.eqb_refl. auto.
Qed.

Lemma remove_slot_lt x l : mem_slot x l = true -> length (remove_slot x l) < length l.
Proof.
  unfold mem_slot, remove_slot. induction l as [|y l IH]; cbn; [discriminate|].
  destruct (slot_eqb x y) eqn:E; cbn.
  - intros _. pose proof (remove_slot_length x l). unfold remove_slot in H. lia.
  - intro H. specialize (IH H). lia.
Qed.

Lemma slots_of_length t n : length (slots_of t n) = n.
Proof. unfold slots_of. rewrite map_length, seq_length. auto. Qed.

Section Term.
  Variable IO : Type.
  Variable opn : dom -> str -> IO -> option doc * IO.
  Variable univ : list (str * doc).
  Variable Pio : IO -> Prop.
  Hypothesis Pio_opn : forall d u io, Pio io -> Pio (snd (opn d u io)).
  Hypothesis opn_univ : forall d u io x, Pio io -> fst (opn d u io) = Some x -> In (u, x) univ.

  Definition good {S} (m : S -> nat) (r : outcome S * IO) (s : S) : Prop :=
    fst r <> OutOfFuel /\ (forall s', fst r = Ok s' -> m s' <= m s) /\ Pio (snd r).

  Lemma download_term owner incl tns u s io :
    Pio io -> lookup u (s_memo s) = None ->
    match download IO opn owner incl tns u s io with
    | (Ok (_, s'), io') => phi univ s' <= phi univ s /\ Pio io'
    | (Raised _, io') => Pio io'
    | (OutOfFuel, _) => False
    end.
  Proof.
    intros H Hn. unfold download.
    pose proof (Pio_opn (DomS owner) u io H) as Hp.
    pose proof (opn_univ (DomS owner) u io) as Hu.
    destruct (opn (DomS owner) u io) as [[d|] io1]; cbn in *; auto.
    specialize (Hu d H eq_refl).
    destruct d as [| x |]; cbn; auto.
    assert (K : forall x', length (x_refs x') = length (x_refs x) ->
                phi univ (mkS ((u, x') :: s_memo s) (slots_of (SUrl u) (length (x_refs x')) ++ s_rem s))
                <= phi univ s).
    { intros x' Hl. unfold phi. cbn. rewrite app_length, slots_of_length, Hl.
      pose proof (unloaded_download u x x' (s_memo s) univ Hn Hu). lia. }
    destruct incl; cbn.
    - destruct (x_tns x); cbn.
      + destruct (optN_eqb tns (Some n)); cbn; auto. split; auto. apply (K x). reflexivity.
      + split; auto. apply (K (mkX tns (x_refs x))). reflexivity.
    - split; auto. apply (K x). reflexivity.
  Qed.

  Lemma target_term cont owner self tns base r s io :
    Pio io ->
    match target IO opn cont owner self tns base r s io with
    | (Ok (_, s'), io') => phi univ s' <= phi univ s /\ Pio io'
    | (Raised _, io') => Pio io'
    | (OutOfFuel, _) => False
    end.
  Proof.
    intro H. unfold target. destruct r.
    - destruct (match self with SInl _ => if optN_eqb ns tns then None else locate cont ns
                            | SUrl _ => None end); cbn; auto.
      destruct loc; cbn; auto.
      destruct (lookup (join base s0) (s_memo s)) eqn:E; cbn; auto. apply download_term; auto.
    - destruct (lookup (join base loc) (s_memo s)) eqn:E; cbn; auto. apply download_term; auto.
  Qed.

  Lemma open_refs_term rec cont owner self tns base f :
    (forall t s io, Pio io -> phi univ s < f -> good (phi univ) (rec t s io) s) ->
    forall refs i s io, Pio io -> phi univ s <= f ->
      good (phi univ) (open_refs IO opn rec cont owner self tns base i refs s io) s.
  Proof.
    intro Hrec. induction refs as [|r rest IH]; intros i s io H Hf; cbn.
    - repeat split; auto; try discriminate. intros s' E. inversion E; subst. lia.
    - destruct (mem_slot (self, i) (s_rem s)) eqn:Em; cbn; auto.
      set (s1 := mkS (s_memo s) (remove_slot (self, i) (s_rem s))).
      assert (H1 : phi univ s1 < phi univ s).
      { unfold phi, s1. cbn. pose proof (remove_slot_lt _ _ Em). lia. }
      pose proof (target_term cont owner self tns base r s1 io H) as Ht.
      destruct (target IO opn cont owner self tns base r s1 io) as [[[[t|] s2]|k|] io2]; cbn in *.
      + destruct Ht as [Ht Hp].
        assert (H2 : phi univ s2 < f) by lia.
        destruct (Hrec t s2 io2 Hp H2) as (Hn & Hm & Hp3).
        destruct (rec t s2 io2) as [[s3|k|] io3]; cbn in *.
        * specialize (Hm s3 eq_refl).
          destruct (IH (S i) s3 io3 Hp3 ltac:(lia)) as (A & B & C).
          repeat split; auto. intros s' E. specialize (B s' E). lia.
        * repeat split; auto; discriminate.
        * congruence.
      + destruct Ht as [Ht Hp].
        destruct (IH (S i) s2 io2 Hp ltac:(lia)) as (A & B & C).
        repeat split; auto. intros s' E. specialize (B s' E). lia.
      + repeat split; auto; discriminate.
      + tauto.
  Qed.

  Lemma open_imports_term cont owner fuel :
    forall t s io, Pio io -> phi univ s < fuel ->
      good (phi univ) (open_imports IO opn cont owner fuel t s io) s.
  Proof.
    induction fuel as [|f IH]; intros t s io H Hf; [lia|]. cbn.
    dm.
    - destruct p as [[tns refs] base]. apply open_refs_term with (f := f); auto. lia.
    - repeat split; auto; discriminate.
  Qed.

  Lemma open_all_term cont owner fuel :
    forall js s io, Pio io -> phi univ s < fuel ->
      good (phi univ) (open_all IO opn cont owner fuel js s io) s.
  Proof.
    induction js as [|j rest IH]; intros s io H Hf; cbn.
    - repeat split; auto; try discriminate. intros s' E. inversion E; subst. lia.
    - destruct (open_imports_term cont owner fuel (SInl j) s io H Hf) as (A & B & C).
      destruct (open_imports IO opn cont owner fuel (SInl j) s io) as [[s1|k|] io1]; cbn in *.
      + specialize (B s1 eq_refl).
        destruct (IH s1 io1 C ltac:(lia)) as (A' & B' & C').
        repeat split; auto. intros s' E. specialize (B' s' E). lia.
      + repeat split; auto; discriminate.
      + congruence.
  Qed.

  Lemma build_schema_term owner roots io :
    Pio io -> fst (build_schema IO opn univ owner roots io) <> OutOfFuel
              /\ Pio (snd (build_schema IO opn univ owner roots io)).
  Proof.
    intro H. unfold build_schema.
    set (cont := consolidate roots).
    destruct (open_all_term cont owner (schema_fuel univ cont) (seq 0 (length cont))
                (mkS [] (cont_slots 0 cont)) io H) as (A & B & C).
    - unfold phi, schema_fuel. cbn. rewrite unloaded_nil. lia.
    - auto.
  Qed.

  (* WSDL level: documents of the universe not yet in imported_definitions *)
  Fixpoint wunloaded (memo : list (str * dinfo)) (un : list (str * doc)) : nat :=
    match un with
    | [] => 0
    | (u, _) :: rest => (if has u memo then 0 else 1) + wunloaded memo rest
    end.
  Definition psi (s : wst) : nat := wunloaded (w_memo s) univ.

  Lemma wunloaded_ext m1 m2 un :
    (forall u, has u m1 = has u m2) -> wunloaded m1 un = wunloaded m2 un.
  Proof. intro E. induction un as [|[u d] rest IH]; cbn; auto. rewrite E, IH. auto. Qed.

  Lemma wunloaded_cons_le u x memo un : wunloaded ((u, x) :: memo) un <= wunloaded memo un.
  Proof.
    induction un as [|[u' d] rest IH]; cbn; auto.
    unfold has in *. cbn. destruct (str_eqb u' u); cbn; [|lia].
    destruct (lookup u' memo); lia.
  Qed.

  Lemma wunloaded_register u x d memo un :
    lookup u memo = None -> In (u, d) un -> wunloaded ((u, x) :: memo) un < wunloaded memo un.
  Proof.
    intros Hn. induction un as [|[u' d'] rest IH]; cbn; [tauto|].
    intros [Heq|Hin].
    - inversion Heq; subst. unfold has. cbn. rewrite str_eqb_refl, Hn.
      pose proof (wunloaded_cons_le u x memo rest). lia.
    - specialize (IH Hin). unfold has in *. cbn. destruct (str_eqb u' u); cbn.
      + destruct (lookup u' memo); lia.
      + lia.
  Qed.

  Lemma has_set_memo u d l k : has u l = true -> has k (set_memo u d l) = has k l.
  Proof.
    unfold has. induction l as [|[k' v] l IH]; cbn; [discriminate|].
    destruct (str_eqb u k') eqn:E; cbn.
    - intros _. apply str_eqb_eq in E. subst. destruct (str_eqb k k'); auto.
    - intro H. destruct (str_eqb k k'); auto.
  Qed.

  Lemma psi_set_types u ts s : psi (set_types u ts s) = psi s.
  Proof.
    unfold set_types, psi. destruct (lookup u (w_memo s)) eqn:E; auto. cbn.
    apply wunloaded_ext. intro k. apply has_set_memo. unfold has. rewrite E. auto.
  Qed.

  Lemma psi_import_definitions self d s : psi (import_definitions self d s) = psi s.
  Proof. unfold import_definitions. apply psi_set_types. Qed.

  Lemma psi_import_schema self d s : psi (import_schema self d s) = psi s.
  Proof.
    unfold import_schema. destruct (d_xroot d); auto.
    destruct (self_types self s); auto. rewrite psi_set_types. reflexivity.
  Qed.

  Lemma loop_imports_term rec self f :
    (forall u s io, Pio io -> lookup u (w_memo s) = None -> psi s < f -> good psi (rec u s io) s) ->
    forall imps s io, Pio io -> psi s < f -> good psi (loop_imports IO rec self imps s io) s.
  Proof.
    intro Hrec. induction imps as [|loc rest IH]; intros s io H Hf; cbn.
    - repeat split; auto; try discriminate. intros s' E. inversion E; subst. lia.
    - assert (K : forall s1 io1, Pio io1 -> psi s1 <= psi s ->
                  good psi (match lookup (join self loc) (w_memo s1) with
                            | Some d => loop_imports IO rec self rest
                                          (if d_wsdl d then import_definitions self d s1
                                           else import_schema self d s1) io1
                            | None => (Raised 9, io1)
                            end) s).
      { intros s1 io1 Hp Hle. destruct (lookup (join self loc) (w_memo s1)) as [d|].
        - set (s2 := if d_wsdl d then import_definitions self d s1 else import_schema self d s1).
          assert (E2 : psi s2 = psi s1).
          { unfold s2. destruct (d_wsdl d); [apply psi_import_definitions|apply psi_import_schema]. }
          destruct (IH s2 io1 Hp ltac:(lia)) as (A & B & C).
          repeat split; auto. intros s' E. specialize (B s' E). lia.
        - repeat split; auto; discriminate. }
      destruct (lookup (join self loc) (w_memo s)) eqn:El.
      + apply K; auto.
      + destruct (Hrec (join self loc) s io H El Hf) as (A & B & C).
        destruct (rec (join self loc) s io) as [[s1|k|] io1]; cbn in *.
        * apply K; auto.
        * repeat split; auto; discriminate.
        * congruence.
  Qed.

  Lemma load_defs_term fuel :
    forall u s io, Pio io -> lookup u (w_memo s) = None -> psi s < fuel ->
      good psi (load_defs IO opn univ fuel u s io) s.
  Proof.
    induction fuel as [|f IH]; intros u s io H Hn Hf; [lia|]. cbn.
    pose proof (Pio_opn DomW u io H) as Hp.
    pose proof (opn_univ DomW u io) as Hu.
    destruct (opn DomW u io) as [[d|] io1]; cbn in *.
    2:{ repeat split; auto; discriminate. }
    specialize (Hu d H eq_refl).
    destruct d as [imps types|x|]; cbn.
    - destruct (alloc_types u types (w_heap s)) as [tids heap].
      set (s1 := mkW ((u, mkD true tids None) :: w_memo s) heap (w_built s)).
      assert (H1 : psi s1 < psi s).
      { unfold psi, s1. cbn. eapply wunloaded_register; eauto. }
      destruct (loop_imports_term (load_defs IO opn univ f) u f IH imps s1 io1 Hp ltac:(lia)) as (A & B & C).
      destruct (loop_imports IO (load_defs IO opn univ f) u imps s1 io1) as [[s2|k|] io2]; cbn in *.
      + specialize (B s2 eq_refl).
        destruct (build_schema_term u (local_roots u s2) io2 C) as [A' C'].
        destruct (build_schema IO opn univ u (local_roots u s2) io2) as [[s3|k|] io3]; cbn in *.
        * repeat split; auto; try discriminate. intros s' E. inversion E; subst.
          unfold psi, mark_built in *. cbn. lia.
        * repeat split; auto; discriminate.
        * congruence.
      + repeat split; auto; discriminate.
      + congruence.
    - repeat split; auto; try discriminate. intros s' E. inversion E; subst.
      unfold psi, mark_built. cbn.
      pose proof (wunloaded_cons_le u (mkD false [] (Some x)) (w_memo s) univ). lia.
    - repeat split; auto; discriminate.
  Qed.

  Lemma wunloaded_nil un : wunloaded [] un = length un.
  Proof. induction un as [|[u d] rest IH]; cbn; auto. Qed.

  Lemma load_root_term root io :
    Pio io -> fst (load_root IO opn univ root io) <> OutOfFuel.
  Proof.
    intro H. unfold load_root.
    destruct (load_defs_term (S (length univ)) root (mkW [] [] []) io H eq_refl) as (A & _).
    - unfold psi. cbn. rewrite wunloaded_nil. lia.
    - exact A.
  Qed.
End Term.

(* ------------------------------------------------------------------ *)
(* L2: two openers that answer alike make every load answer alike      *)
(* ------------------------------------------------------------------ *)
Section Rel.
  Variables IO1 IO2 : Type.
  Variable opn1 : dom -> str -> IO1 -> option doc * IO1.
  Variable opn2 : dom -> str -> IO2 -> option doc * IO2.
  Variable univ : list (str * doc).
  Variable R : IO1 -> IO2 -> Prop.
  Hypothesis Hrel : forall d u a b, R a b ->
      fst (opn1 d u a) = fst (opn2 d u b) /\ R (snd (opn1 d u a)) (snd (opn2 d u b)).

  Definition rel {A} (r1 : outcome A * IO1) (r2 : outcome A * IO2) : Prop :=
    fst r1 = fst r2 /\ R (snd r1) (snd r2).

  Lemma download_rel owner incl tns u s a b :
    R a b -> rel (download IO1 opn1 owner incl tns u s a) (download IO2 opn2 owner incl tns u s b).
  Proof.
    intro H. unfold download. destruct (Hrel (DomS owner) u a b H) as [E Hr].
    destruct (opn1 (DomS owner) u a) as [o1 a1], (opn2 (DomS owner) u b) as [o2 b1]; cbn in *. subst o2.
    destruct o1 as [d|]; [|split; auto].
    destruct d; try (split; auto; fail).
    destruct incl; [|split; auto].
    destruct (x_tns x); [|split; auto].
    destruct (optN_eqb tns (Some n)); split; auto.
  Qed.

  Lemma target_rel cont owner self tns base r s a b :
    R a b -> rel (target IO1 opn1 cont owner self tns base r s a) (target IO2 opn2 cont owner self tns base r s b).
  Proof.
    intro H. unfold target. destruct r.
    - destruct (match self with SInl _ => if optN_eqb ns tns then None else locate cont ns
                            | SUrl _ => None end); [split; auto|].
      destruct loc; [|split; auto].
      destruct (lookup (join base s0) (s_memo s)); [split; auto|]. apply download_rel; auto.
    - destruct (lookup (join base loc) (s_memo s)); [split; auto|]. apply download_rel; auto.
  Qed.

  Lemma open_refs_rel rec1 rec2 cont owner self tns base :
    (forall t s a b, R a b -> rel (rec1 t s a) (rec2 t s b)) ->
    forall refs i s a b, R a b ->
      rel (open_refs IO1 opn1 rec1 cont owner self tns base i refs s a)
          (open_refs IO2 opn2 rec2 cont owner self tns base i refs s b).
  Proof.
    intro Hrec. induction refs as [|r rest IH]; intros i s a b H; cbn; [split; auto|].
    destruct (negb (mem_slot (self, i) (s_rem s))); auto.
    destruct (target_rel cont owner self tns base r
                (mkS (s_memo s) (remove_slot (self, i) (s_rem s))) a b H) as [E Hr].
    destruct (target IO1 opn1 cont owner self tns base r _ a) as [o1 a1],
             (target IO2 opn2 cont owner self tns base r _ b) as [o2 b1]; cbn in *. subst o2.
    destruct o1 as [[[t|] s2]|k|]; try (split; auto; fail); auto.
    destruct (Hrec t s2 a1 b1 Hr) as [E Hr2].
    destruct (rec1 t s2 a1) as [o1 a2], (rec2 t s2 b1) as [o2 b2]; cbn in *. subst o2.
    destruct o1 as [s3|k|]; try (split; auto; fail); auto.
  Qed.

  Lemma open_imports_rel cont owner fuel :
    forall t s a b, R a b ->
      rel (open_imports IO1 opn1 cont owner fuel t s a) (open_imports IO2 opn2 cont owner fuel t s b).
  Proof.
    induction fuel as [|f IH]; intros t s a b H; cbn; [split; auto|].
    destruct (sid_info cont owner t s) as [[[tns refs] base]|]; [|split; auto].
    apply open_refs_rel; auto.
  Qed.

  Lemma open_all_rel cont owner fuel :
    forall js s a b, R a b ->
      rel (open_all IO1 opn1 cont owner fuel js s a) (open_all IO2 opn2 cont owner fuel js s b).
  Proof.
    induction js as [|j rest IH]; intros s a b H; cbn; [split; auto|].
    destruct (open_imports_rel cont owner fuel (SInl j) s a b H) as [E Hr].
    destruct (open_imports IO1 opn1 cont owner fuel (SInl j) s a) as [o1 a1],
             (open_imports IO2 opn2 cont owner fuel (SInl j) s b) as [o2 b1]; cbn in *. subst o2.
    destruct o1 as [s1|k|]; try (split; auto; fail); auto.
  Qed.

  Lemma build_schema_rel owner roots a b :
    R a b -> rel (build_schema IO1 opn1 univ owner roots a) (build_schema IO2 opn2 univ owner roots b).
  Proof. intro H. unfold build_schema. apply open_all_rel; auto. Qed.

  Lemma loop_imports_rel rec1 rec2 self :
    (forall u s a b, R a b -> rel (rec1 u s a) (rec2 u s b)) ->
    forall imps s a b, R a b ->
      rel (loop_imports IO1 rec1 self imps s a) (loop_imports IO2 rec2 self imps s b).
  Proof.
    intro Hrec. induction imps as [|loc rest IH]; intros s a b H; cbn; [split; auto|].
    destruct (lookup (join self loc) (w_memo s)) eqn:El.
    - rewrite El. auto.
    - destruct (Hrec (join self loc) s a b H) as [E Hr].
      destruct (rec1 (join self loc) s a) as [o1 a1], (rec2 (join self loc) s b) as [o2 b1]; cbn in *.
      subst o2. destruct o1 as [s1|k|]; try (split; auto; fail).
      destruct (lookup (join self loc) (w_memo s1)); [|split; auto]. auto.
  Qed.

  Lemma load_defs_rel fuel :
    forall u s a b, R a b ->
      rel (load_defs IO1 opn1 univ fuel u s a) (load_defs IO2 opn2 univ fuel u s b).
  Proof.
    induction fuel as [|f IH]; intros u s a b H; cbn; [split; auto|].
    destruct (Hrel DomW u a b H) as [E Hr].
    destruct (opn1 DomW u a) as [o1 a1], (opn2 DomW u b) as [o2 b1]; cbn in *. subst o2.
    destruct o1 as [d|]; [|split; auto].
    destruct d as [imps types|x|]; try (split; auto; fail).
    destruct (alloc_types u types (w_heap s)) as [tids heap].
    destruct (loop_imports_rel (load_defs IO1 opn1 univ f) (load_defs IO2 opn2 univ f) u IH imps
                (mkW ((u, mkD true tids None) :: w_memo s) heap (w_built s)) a1 b1 Hr) as [E Hr2].
    destruct (loop_imports IO1 (load_defs IO1 opn1 univ f) u imps _ a1) as [o1 a2],
             (loop_imports IO2 (load_defs IO2 opn2 univ f) u imps _ b1) as [o2 b2]; cbn in *. subst o2.
    destruct o1 as [s2|k|]; try (split; auto; fail).
    destruct (build_schema_rel u (local_roots u s2) a2 b2 Hr2) as [E Hr3].
    destruct (build_schema IO1 opn1 univ u (local_roots u s2) a2) as [o1 a3],
             (build_schema IO2 opn2 univ u (local_roots u s2) b2) as [o2 b3]; cbn in *. subst o2.
    destruct o1 as [s3|k|]; split; auto.
  Qed.

  Lemma load_root_rel root a b :
    R a b -> rel (load_root IO1 opn1 univ root a) (load_root IO2 opn2 univ root b).
  Proof. apply load_defs_rel. Qed.
End Rel.
