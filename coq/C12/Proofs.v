(* C12 -- lemmas about the loaders of Model.v. *)
From SV Require Import Lib.Base C12.Url C12.Model.
From Coq Require Import ZifyBool ZifyNat ZifyN.

Ltac dm := match goal with |- context [match ?x with _ => _ end] => destruct x eqn:? end.
Ltac dmh H := match type of H with context [match ?x with _ => _ end] => destruct x eqn:? end.

(* ------------------------------------------------------------------ *)
(* L1: an IO invariant of the opener is an invariant of every load     *)
(* ------------------------------------------------------------------ *)
Section Inv.
  Variable IO : Type.
  Variable opn : dom -> str -> IO -> option doc * IO.
  Variable univ : list (str * doc).
  Variables P P' : IO -> Prop.      (* P along successful paths, P' where the load stopped *)
  Hypothesis P_weak : forall io, P io -> P' io.
  Hypothesis HopnS : forall owner u io, P io ->
      match opn (DomS owner) u io with (Some _, io') => P io' | (None, io') => P' io' end.

  Definition post {A} (r : outcome A * IO) : Prop :=
    match r with (Ok _, io') => P io' | (_, io') => P' io' end.

  Lemma download_inv owner incl tns u s io : P io -> post (download IO opn owner incl tns u s io).
  Proof.
    intro H. unfold download. pose proof (HopnS owner u io H) as Ho.
    destruct (opn (DomS owner) u io) as [[d|] io1]; cbn; auto.
    destruct d; cbn; auto.
    destruct incl; cbn; auto.
    destruct (x_tns x); cbn; auto. dm; cbn; auto.
  Qed.

  Lemma target_inv cont owner self tns base r s io :
    P io -> post (target IO opn cont owner self tns base r s io).
  Proof.
    intro H. unfold target. destruct r.
    - dm; cbn; auto. destruct loc as [l0|]; cbn; auto. dm; cbn; auto. apply download_inv; auto.
    - dm; cbn; auto. apply download_inv; auto.
  Qed.

  Lemma open_refs_inv rec cont owner self tns base :
    (forall t s io, P io -> post (rec t s io)) ->
    forall refs i s io, P io -> post (open_refs IO opn rec cont owner self tns base i refs s io).
  Proof.
    intro Hrec. induction refs as [|r rest IH]; intros i s io H; cbn; auto.
    dm; auto.
    pose proof (target_inv cont owner self tns base r
                 (set_rem s (remove_slot (self, i) (s_rem s))) io H) as Ht.
    destruct (target IO opn cont owner self tns base r _ io) as [[[[t|] s2]|k|] io2]; cbn in *; auto.
    pose proof (Hrec t s2 io2 Ht) as Hr.
    destruct (rec t s2 io2) as [[s3|k|] io3]; cbn in *; auto.
  Qed.

  Lemma open_imports_inv cont owner fuel :
    forall t s io, P io -> post (open_imports IO opn cont owner fuel t s io).
  Proof.
    induction fuel as [|f IH]; intros t s io H; cbn; auto.
    dm; cbn; auto. destruct p as [[tns refs] base].
    apply open_refs_inv; auto.
  Qed.

  Lemma open_all_inv cont owner fuel :
    forall js s io, P io -> post (open_all IO opn cont owner fuel js s io).
  Proof.
    induction js as [|j rest IH]; intros s io H; cbn; auto.
    pose proof (open_imports_inv cont owner fuel (SInl j) s io H) as Ho.
    destruct (open_imports IO opn cont owner fuel (SInl j) s io) as [[s1|k|] io1]; cbn in *; auto.
  Qed.

  Lemma build_schema_inv owner roots io : P io -> post (build_schema IO opn univ owner roots io).
  Proof. intro H. unfold build_schema. apply open_all_inv; auto. Qed.

  Hypothesis HopnW : forall u io, P io ->
      match opn DomW u io with (Some _, io') => P io' | (None, io') => P' io' end.

  Lemma loop_imports_inv rec self :
    (forall u s io, P io -> post (rec u s io)) ->
    forall imps s io, P io -> post (loop_imports IO rec self imps s io).
  Proof.
    intro Hrec. induction imps as [|loc rest IH]; intros s io H; cbn; auto.
    destruct (lookup (join self loc) (w_memo s)) eqn:El.
    - dm; cbn; auto.
    - pose proof (Hrec (join self loc) s io H) as Hr.
      destruct (rec (join self loc) s io) as [[s1|k|] io1]; cbn in *; auto.
      dm; cbn; auto.
  Qed.

  Lemma load_defs_inv fuel : forall u s io, P io -> post (load_defs IO opn univ fuel u s io).
  Proof.
    induction fuel as [|f IH]; intros u s io H; cbn; auto.
    pose proof (HopnW u io H) as Ho.
    destruct (opn DomW u io) as [[d|] io1]; cbn; auto.
    destruct d as [imps types names|x|]; cbn; auto.
    destruct (alloc_types u types (w_heap s)) as [tids heap].
    pose proof (loop_imports_inv (load_defs IO opn univ f) u IH imps
                 (reg_wsdl u tids names heap s) io1 Ho) as Hl.
    destruct (loop_imports IO (load_defs IO opn univ f) u imps _ io1) as [[s2|k|] io2]; cbn in *; auto.
    pose proof (build_schema_inv u (local_roots u s2) io2 Hl) as Hb.
    destruct (build_schema IO opn univ u (local_roots u s2) io2) as [[s3|k|] io3]; cbn in *; auto.
  Qed.

  Lemma load_root_inv root io : P io -> post (load_root IO opn univ root io).
  Proof. apply load_defs_inv. Qed.
End Inv.

(* ------------------------------------------------------------------ *)
(* the concrete opener                                                 *)
(* ------------------------------------------------------------------ *)

Lemma str_eqb_sym a b : str_eqb a b = str_eqb b a.
Proof.
  destruct (str_eqb a b) eqn:E.
  - apply str_eqb_eq in E. subst. symmetry. apply str_eqb_refl.
  - destruct (str_eqb b a) eqn:E'; auto. apply str_eqb_eq in E'. subst.
    rewrite str_eqb_refl in E. discriminate.
Qed.

Lemma dom_eqb_refl d : dom_eqb d d = true.
Proof. destruct d; cbn; auto. apply str_eqb_refl. Qed.

Lemma lookup_in {A} k (l : list (str * A)) v : lookup k l = Some v -> In (k, v) l.
Proof.
  induction l as [|[k' v'] l IH]; cbn; intro H; try discriminate.
  destruct (str_eqb k k') eqn:E.
  - apply str_eqb_eq in E. inversion H; subst. auto.
  - right. auto.
Qed.

(* store before transport *)
Lemma fetch_sbt W dm u i : sbt W (i_log i) = true -> sbt W (i_log (snd (fetch W dm u i))) = true.
Proof.
  intro H. unfold fetch; cbn.
  destruct (lookup u (w_docs W)) as [[[|] d]|] eqn:E; cbn; auto.
  - destruct (is_suds u); cbn; auto.
    unfold held. rewrite dom_eqb_refl, str_eqb_refl, E. cbn. auto.
  - destruct (is_suds u); cbn; auto.
    unfold held. rewrite dom_eqb_refl, str_eqb_refl, E. cbn. auto.
Qed.

(* what a fetch returns *)
Lemma fetch_some W dm u i d :
  fst (fetch W dm u i) = Some d -> served W u = Some d /\ i_fired (snd (fetch W dm u i)) = i_fired i.
Proof.
  unfold fetch, served, src, held; cbn.
  destruct (w_fault W) as [[k fk]|].
  - destruct (Nat.eqb k (i_n i)).
    + destruct fk; cbn; discriminate.
    + destruct (is_suds u && _); cbn; try discriminate.
      intro H. split; auto. rewrite orb_false_r; auto.
  - destruct (is_suds u && _); cbn; try discriminate.
    intro H. split; auto. rewrite orb_false_r; auto.
Qed.

Lemma fetch_nofault W dm u i : w_fault W = None -> fst (fetch W dm u i) = served W u.
Proof.
  intro H. unfold fetch, served, src, held; cbn. rewrite H.
  destruct (is_suds u && _); cbn; auto.
Qed.

Lemma fetch_dcache W dm u i : i_dcache (snd (fetch W dm u i)) = i_dcache i.
Proof. reflexivity. Qed.

Opaque fetch.

Lemma opn_c_sbt W dm u i : sbt W (i_log i) = true -> sbt W (i_log (snd (opn_c W dm u i))) = true.
Proof.
  intro H. unfold opn_c.
  set (i0 := mkIO (i_log i) ((dm, u) :: i_reqs i) (i_dcache i) (i_n i) (i_fired i)).
  assert (H0 : sbt W (i_log i0) = true) by exact H.
  destruct (N.eqb (w_policy W) 0).
  - destruct (lookup u (i_dcache i0)); cbn; auto.
    pose proof (fetch_sbt W dm u i0 H0) as Hf.
    destruct (fetch W dm u i0) as [[d|] i1]; cbn in *; auto.
  - apply fetch_sbt; auto.
Qed.

(* nothing incomplete is cached *)
Lemma opn_c_sound W dm u i :
  cache_sound W (i_dcache i) -> cache_sound W (i_dcache (snd (opn_c W dm u i))).
Proof.
  intro H. unfold opn_c.
  set (i0 := mkIO (i_log i) ((dm, u) :: i_reqs i) (i_dcache i) (i_n i) (i_fired i)).
  destruct (N.eqb (w_policy W) 0); [|exact H].
  destruct (lookup u (i_dcache i0)); [exact H|].
  pose proof (fetch_some W dm u i0) as Hf.
  destruct (fetch W dm u i0) as [[d|] i1] eqn:Ef; cbn in *.
  - destruct (Hf d eq_refl) as (Hs & _).
    assert (Hd : i_dcache i1 = i_dcache i) by (change i1 with (snd (Some d, i1)); rewrite <- Ef; reflexivity).
    intros u' d' [Heq|Hin].
    + inversion Heq; subst. auto.
    + rewrite Hd in Hin. apply H; auto.
  - assert (Hd : i_dcache i1 = i_dcache i) by (change i1 with (snd (@None doc, i1)); rewrite <- Ef; reflexivity).
    rewrite Hd. exact H.
Qed.

(* an opener that answers has not been hit by the injected fault *)
Lemma opn_c_fired W dm u i d :
  i_fired i = false -> fst (opn_c W dm u i) = Some d -> i_fired (snd (opn_c W dm u i)) = false.
Proof.
  intros H. unfold opn_c.
  set (i0 := mkIO (i_log i) ((dm, u) :: i_reqs i) (i_dcache i) (i_n i) (i_fired i)).
  destruct (N.eqb (w_policy W) 0).
  - destruct (lookup u (i_dcache i0)); cbn; auto.
    pose proof (fetch_some W dm u i0) as Hf.
    destruct (fetch W dm u i0) as [[d'|] i1] eqn:Ef; cbn in *; try discriminate.
    intros _. destruct (Hf d' eq_refl) as (_ & Hfi). rewrite Hfi. exact H.
  - intro Hs. destruct (fetch_some W dm u i0 d Hs) as (_ & Hfi). rewrite Hfi. exact H.
Qed.

(* ---------------- whole loads ---------------- *)

Lemma load_root_inv_all IO opn univ (P : IO -> Prop) :
  (forall d u io, P io -> P (snd (opn d u io))) ->
  forall root io, P io -> P (snd (load_root IO opn univ root io)).
Proof.
  intros Ho root io H.
  pose proof (load_root_inv IO opn univ P P (fun _ h => h)) as L.
  assert (Hop : forall d u x, P x -> match opn d u x with (Some _, io') => P io' | (None, io') => P io' end).
  { intros d u x Hx. specialize (Ho d u x Hx). destruct (opn d u x) as [[?|] ?]; auto. }
  specialize (L (fun o => Hop (DomS o)) (Hop DomW) root io H). unfold post in L.
  destruct (load_root IO opn univ root io) as [[?|?|] ?]; auto.
Qed.

Lemma load_sbt_l W root i :
  sbt W (i_log i) = true -> sbt W (i_log (snd (load_root io (opn_c W) (docs_of W) root i))) = true.
Proof.
  apply (load_root_inv_all io (opn_c W) (docs_of W) (fun x => sbt W (i_log x) = true)).
  intros d u x. apply opn_c_sbt.
Qed.

Lemma load_sound_l W root i :
  cache_sound W (i_dcache i) -> cache_sound W (i_dcache (snd (load_root io (opn_c W) (docs_of W) root i))).
Proof.
  apply (load_root_inv_all io (opn_c W) (docs_of W) (fun x => cache_sound W (i_dcache x))).
  intros d u x. apply opn_c_sound.
Qed.

(* a load during which the injected fault happens does not construct a client *)
Lemma load_fired_l W root i :
  i_fired i = false ->
  match load_root io (opn_c W) (docs_of W) root i with
  | (Ok _, i') => i_fired i' = false
  | _ => True
  end.
Proof.
  intro H.
  pose proof (load_root_inv io (opn_c W) (docs_of W) (fun x => i_fired x = false) (fun _ => True)
                (fun _ _ => I)) as L.
  assert (Hop : forall d u x, i_fired x = false ->
                match opn_c W d u x with (Some _, io') => i_fired io' = false | (None, io') => True end).
  { intros d u x Hx. pose proof (opn_c_fired W d u x) as Hf.
    destruct (opn_c W d u x) as [[d'|] x'] eqn:E; auto. apply (Hf d'); auto. }
  specialize (L (fun o => Hop (DomS o)) (Hop DomW) root i H). unfold post in L.
  destruct (load_root io (opn_c W) (docs_of W) root i) as [[?|?|] ?]; auto.
Qed.

(* ------------------------------------------------------------------ *)
(* termination: the fuel is never exhausted                            *)
(* ------------------------------------------------------------------ *)

Definition has {A} (u : str) (l : list (str * A)) : bool :=
  match lookup u l with Some _ => true | None => false end.

(* references of the schema documents not yet in loaded_schemata *)
Fixpoint unloaded (memo : list (str * xschema)) (univ : list (str * doc)) : nat :=
  match univ with
  | [] => 0
  | (u, d) :: rest => (if has u memo then 0 else xsd_refs_of d) + unloaded memo rest
  end.

Definition phi (univ : list (str * doc)) (s : sst) : nat := length (s_rem s) + unloaded (s_memo s) univ.

Lemma unloaded_nil univ : unloaded [] univ = total_refs univ.
Proof. induction univ as [|[u d] rest IH]; cbn; auto. Qed.

Lemma unloaded_cons_le u x memo univ : unloaded ((u, x) :: memo) univ <= unloaded memo univ.
Proof.
  induction univ as [|[u' d] rest IH]; cbn; auto.
  unfold has in *. cbn. destruct (str_eqb u' u); cbn; [|lia].
  destruct (lookup u' memo); lia.
Qed.

Lemma unloaded_download u x x' memo univ :
  lookup u memo = None -> In (u, DXsd x) univ ->
  unloaded ((u, x') :: memo) univ + length (x_refs x) <= unloaded memo univ.
Proof.
  intros Hn. induction univ as [|[u' d] rest IH]; cbn; [tauto|].
  intros [Heq|Hin].
  - inversion Heq; subst. unfold has. cbn. rewrite str_eqb_refl, Hn. cbn.
    pose proof (unloaded_cons_le u x' memo rest). lia.
  - specialize (IH Hin). unfold has in *. cbn. destruct (str_eqb u' u); cbn.
    + destruct (lookup u' memo); lia.
    + lia.
Qed.

Lemma remove_slot_length x l : length (remove_slot x l) <= length l.
Proof. unfold remove_slot. induction l; cbn; auto. destruct (negb _); cbn; lia. Qed.

Lemma slot_eqb_refl x : slot_eqb x x = true.
Proof.
  destruct x as [[j|u] i]; unfold slot_eqb; cbn.
  - rewrite !Nat.eqb_refl. auto.
  - rewrite str_eqb_refl, Nat.eqb_refl. auto.
Qed.

Lemma remove_slot_lt x l : mem_slot x l = true -> length (remove_slot x l) < length l.
Proof.
  unfold mem_slot, remove_slot. induction l as [|y l IH]; cbn; [discriminate|].
  destruct (slot_eqb x y) eqn:E; cbn.
  - intros _. pose proof (remove_slot_length x l). unfold remove_slot in H. lia.
  - intro H. specialize (IH H). lia.
Qed.

Lemma slots_of_length t n : length (slots_of t n) = n.
Proof. unfold slots_of. rewrite map_length, seq_length. auto. Qed.

Section Term.
  Variable IO : Type.
  Variable opn : dom -> str -> IO -> option doc * IO.
  Variable univ : list (str * doc).
  Variable Pio : IO -> Prop.
  Hypothesis Pio_opn : forall d u io, Pio io -> Pio (snd (opn d u io)).
  Hypothesis opn_univ : forall d u io x, Pio io -> fst (opn d u io) = Some x -> In (u, x) univ.

  Definition fine {S} (m : S -> nat) (r : outcome S * IO) (s : S) : Prop :=
    fst r <> OutOfFuel /\ (forall s', fst r = Ok s' -> m s' <= m s) /\ Pio (snd r).

  Lemma download_term owner incl tns u s io :
    Pio io -> lookup u (s_memo s) = None ->
    match download IO opn owner incl tns u s io with
    | (Ok (_, s'), io') => phi univ s' <= phi univ s /\ Pio io'
    | (Raised _, io') => Pio io'
    | (OutOfFuel, _) => False
    end.
  Proof.
    intros H Hn. unfold download.
    pose proof (Pio_opn (DomS owner) u io H) as Hp.
    pose proof (opn_univ (DomS owner) u io) as Hu.
    destruct (opn (DomS owner) u io) as [[d|] io1]; cbn in *; auto.
    specialize (Hu d H eq_refl).
    destruct d as [| x |]; cbn; auto.
    assert (K : forall x', length (x_refs x') = length (x_refs x) ->
                phi univ (add_inst u x' s) <= phi univ s).
    { intros x' Hl. unfold phi. cbn. rewrite app_length, slots_of_length, Hl.
      pose proof (unloaded_download u x x' (s_memo s) univ Hn Hu). lia. }
    destruct incl; cbn.
    - destruct (x_tns x); cbn.
      + destruct (optN_eqb tns (Some n)); cbn; auto. split; auto. apply (K x). reflexivity.
      + split; auto. apply (K (mkX tns (x_refs x) (x_decls x))). reflexivity.
    - split; auto. apply (K x). reflexivity.
  Qed.

  Lemma target_term cont owner self tns base r s io :
    Pio io ->
    match target IO opn cont owner self tns base r s io with
    | (Ok (_, s'), io') => phi univ s' <= phi univ s /\ Pio io'
    | (Raised _, io') => Pio io'
    | (OutOfFuel, _) => False
    end.
  Proof.
    intro H. unfold target. destruct r.
    - destruct (match self with SInl _ => if optN_eqb ns tns then None else locate cont ns
                            | SUrl _ => None end).
      { destruct loc; cbn; auto. }
      destruct loc as [l0|]; cbn; auto.
      destruct (lookup (join base l0) (s_memo s)) eqn:E; cbn; auto. apply download_term; auto.
    - destruct (lookup (join base loc) (s_memo s)) eqn:E; cbn; auto. apply download_term; auto.
  Qed.

  Lemma open_refs_term rec cont owner self tns base f :
    (forall t s io, Pio io -> phi univ s < f -> fine (phi univ) (rec t s io) s) ->
    forall refs i s io, Pio io -> phi univ s <= f ->
      fine (phi univ) (open_refs IO opn rec cont owner self tns base i refs s io) s.
  Proof.
    intro Hrec. induction refs as [|r rest IH]; intros i s io H Hf; cbn.
    - repeat split; auto; try discriminate. intros s' E. inversion E; subst. lia.
    - destruct (mem_slot (self, i) (s_rem s)) eqn:Em; cbn; auto.
      set (s1 := set_rem s (remove_slot (self, i) (s_rem s))).
      assert (H1 : phi univ s1 < phi univ s).
      { unfold phi, s1. cbn. pose proof (remove_slot_lt _ _ Em). lia. }
      pose proof (target_term cont owner self tns base r s1 io H) as Ht.
      destruct (target IO opn cont owner self tns base r s1 io) as [[[[t|] s2]|k|] io2]; cbn in *.
      + destruct Ht as [Ht Hp].
        assert (H2 : phi univ s2 < f) by lia.
        destruct (Hrec t s2 io2 Hp H2) as (Hn & Hm & Hp3).
        destruct (rec t s2 io2) as [[s3|k|] io3]; cbn in *.
        * specialize (Hm s3 eq_refl).
          assert (Em3 : phi univ (merge_tab s3 self t) = phi univ s3) by reflexivity.
          destruct (IH (S i) (merge_tab s3 self t) io3 Hp3 ltac:(lia)) as (A & B & C).
          repeat split; auto. intros s' E. specialize (B s' E). lia.
        * repeat split; auto; discriminate.
        * congruence.
      + destruct Ht as [Ht Hp].
        destruct (IH (S i) s2 io2 Hp ltac:(lia)) as (A & B & C).
        repeat split; auto. intros s' E. specialize (B s' E). lia.
      + repeat split; auto; discriminate.
      + tauto.
  Qed.

  Lemma open_imports_term cont owner fuel :
    forall t s io, Pio io -> phi univ s < fuel ->
      fine (phi univ) (open_imports IO opn cont owner fuel t s io) s.
  Proof.
    induction fuel as [|f IH]; intros t s io H Hf; [lia|]. cbn.
    dm.
    - destruct p as [[tns refs] base]. apply open_refs_term with (f := f); auto. lia.
    - repeat split; auto; discriminate.
  Qed.

  Lemma open_all_term cont owner fuel :
    forall js s io, Pio io -> phi univ s < fuel ->
      fine (phi univ) (open_all IO opn cont owner fuel js s io) s.
  Proof.
    induction js as [|j rest IH]; intros s io H Hf; cbn.
    - repeat split; auto; try discriminate. intros s' E. inversion E; subst. lia.
    - destruct (open_imports_term cont owner fuel (SInl j) s io H Hf) as (A & B & C).
      destruct (open_imports IO opn cont owner fuel (SInl j) s io) as [[s1|k|] io1]; cbn in *.
      + specialize (B s1 eq_refl).
        destruct (IH s1 io1 C ltac:(lia)) as (A' & B' & C').
        repeat split; auto. intros s' E. specialize (B' s' E). lia.
      + repeat split; auto; discriminate.
      + congruence.
  Qed.

  Lemma build_schema_term owner roots io :
    Pio io -> fst (build_schema IO opn univ owner roots io) <> OutOfFuel
              /\ Pio (snd (build_schema IO opn univ owner roots io)).
  Proof.
    intro H. unfold build_schema.
    set (cont := consolidate roots).
    destruct (open_all_term cont owner (schema_fuel univ cont) (seq 0 (length cont))
                (init_sst cont) io H) as (A & B & C).
    - unfold phi, schema_fuel. cbn. rewrite unloaded_nil. lia.
    - auto.
  Qed.

  (* WSDL level: documents of the universe not yet in imported_definitions *)
  Fixpoint wunloaded (memo : list (str * dinfo)) (un : list (str * doc)) : nat :=
    match un with
    | [] => 0
    | (u, _) :: rest => (if has u memo then 0 else 1) + wunloaded memo rest
    end.
  Definition psi (s : wst) : nat := wunloaded (w_memo s) univ.

  Lemma wunloaded_ext m1 m2 un :
    (forall u, has u m1 = has u m2) -> wunloaded m1 un = wunloaded m2 un.
  Proof. intro E. induction un as [|[u d] rest IH]; cbn; auto. rewrite E, IH. auto. Qed.

  Lemma wunloaded_cons_le u x memo un : wunloaded ((u, x) :: memo) un <= wunloaded memo un.
  Proof.
    induction un as [|[u' d] rest IH]; cbn; auto.
    unfold has in *. cbn. destruct (str_eqb u' u); cbn; [|lia].
    destruct (lookup u' memo); lia.
  Qed.

  Lemma wunloaded_register u x d memo un :
    lookup u memo = None -> In (u, d) un -> wunloaded ((u, x) :: memo) un < wunloaded memo un.
  Proof.
    intros Hn. induction un as [|[u' d'] rest IH]; cbn; [tauto|].
    intros [Heq|Hin].
    - inversion Heq; subst. unfold has. cbn. rewrite str_eqb_refl, Hn.
      pose proof (wunloaded_cons_le u x memo rest). lia.
    - specialize (IH Hin). unfold has in *. cbn. destruct (str_eqb u' u); cbn.
      + destruct (lookup u' memo); lia.
      + lia.
  Qed.

  Lemma has_set_memo u d l k : has u l = true -> has k (set_memo u d l) = has k l.
  Proof.
    unfold has. induction l as [|[k' v] l IH]; cbn; [discriminate|].
    destruct (str_eqb u k') eqn:E; cbn.
    - intros _. apply str_eqb_eq in E. subst. destruct (str_eqb k k'); auto.
    - intro H. destruct (str_eqb k k'); auto.
  Qed.

  Lemma psi_set_types u ts s : psi (set_types u ts s) = psi s.
  Proof.
    unfold set_types, psi. destruct (lookup u (w_memo s)) eqn:E; auto. cbn.
    apply wunloaded_ext. intro k. apply has_set_memo. unfold has. rewrite E. auto.
  Qed.

  Lemma psi_set_names u ns s : psi (set_names u ns s) = psi s.
  Proof.
    unfold set_names, psi. destruct (lookup u (w_memo s)) eqn:E; auto. cbn.
    apply wunloaded_ext. intro k. apply has_set_memo. unfold has. rewrite E. auto.
  Qed.

  Lemma psi_import_definitions self d s : psi (import_definitions self d s) = psi s.
  Proof. unfold import_definitions. rewrite psi_set_names. apply psi_set_types. Qed.

  Lemma psi_import_schema self d s : psi (import_schema self d s) = psi s.
  Proof.
    unfold import_schema. destruct (d_xroot d); auto.
    destruct (own_types self s); auto. rewrite psi_set_types. reflexivity.
  Qed.

  Lemma loop_imports_term rec self f :
    (forall u s io, Pio io -> lookup u (w_memo s) = None -> psi s < f -> fine psi (rec u s io) s) ->
    forall imps s io, Pio io -> psi s < f -> fine psi (loop_imports IO rec self imps s io) s.
  Proof.
    intro Hrec. induction imps as [|loc rest IH]; intros s io H Hf; cbn.
    - repeat split; auto; try discriminate. intros s' E. inversion E; subst. lia.
    - assert (K : forall s1 io1, Pio io1 -> psi s1 <= psi s ->
                  fine psi (match lookup (join self loc) (w_memo s1) with
                            | Some d => loop_imports IO rec self rest
                                          (if d_wsdl d then import_definitions self d s1
                                           else import_schema self d s1) io1
                            | None => (Raised 9, io1)
                            end) s).
      { intros s1 io1 Hp Hle. destruct (lookup (join self loc) (w_memo s1)) as [d|].
        - set (s2 := if d_wsdl d then import_definitions self d s1 else import_schema self d s1).
          assert (E2 : psi s2 = psi s1).
          { unfold s2. destruct (d_wsdl d); [apply psi_import_definitions|apply psi_import_schema]. }
          destruct (IH s2 io1 Hp ltac:(lia)) as (A & B & C).
          repeat split; auto. intros s' E. specialize (B s' E). lia.
        - repeat split; auto; discriminate. }
      destruct (lookup (join self loc) (w_memo s)) eqn:El.
      + apply K; auto. destruct (is_built (join self loc) s); unfold psi; cbn; lia.
      + destruct (Hrec (join self loc) s io H El Hf) as (A & B & C).
        destruct (rec (join self loc) s io) as [[s1|k|] io1]; cbn in *.
        * apply K; auto.
        * repeat split; auto; discriminate.
        * congruence.
  Qed.

  Lemma load_defs_term fuel :
    forall u s io, Pio io -> lookup u (w_memo s) = None -> psi s < fuel ->
      fine psi (load_defs IO opn univ fuel u s io) s.
  Proof.
    induction fuel as [|f IH]; intros u s io H Hn Hf; [lia|]. cbn.
    pose proof (Pio_opn DomW u io H) as Hp.
    pose proof (opn_univ DomW u io) as Hu.
    destruct (opn DomW u io) as [[d|] io1]; cbn in *.
    2:{ repeat split; auto; discriminate. }
    specialize (Hu d H eq_refl).
    destruct d as [imps types names|x|]; cbn.
    - destruct (alloc_types u types (w_heap s)) as [tids heap].
      set (s1 := reg_wsdl u tids names heap s).
      assert (H1 : psi s1 < psi s).
      { unfold psi, s1. cbn. eapply wunloaded_register; eauto. }
      destruct (loop_imports_term (load_defs IO opn univ f) u f IH imps s1 io1 Hp ltac:(lia)) as (A & B & C).
      destruct (loop_imports IO (load_defs IO opn univ f) u imps s1 io1) as [[s2|k|] io2]; cbn in *.
      + specialize (B s2 eq_refl).
        destruct (build_schema_term u (local_roots u s2) io2 C) as [A' C'].
        destruct (build_schema IO opn univ u (local_roots u s2) io2) as [[s3|k|] io3]; cbn in *.
        * repeat split; auto; try discriminate. intros s' E. inversion E; subst.
          unfold psi, mark_built in *. cbn. lia.
        * repeat split; auto; discriminate.
        * congruence.
      + repeat split; auto; discriminate.
      + congruence.
    - repeat split; auto; try discriminate. intros s' E. inversion E; subst.
      unfold psi, mark_built. cbn.
      pose proof (wunloaded_cons_le u (mkD false [] (Some x) []) (w_memo s) univ). lia.
    - repeat split; auto; discriminate.
  Qed.

  Lemma wunloaded_nil un : wunloaded [] un = length un.
  Proof. induction un as [|[u d] rest IH]; cbn; auto. Qed.

  Lemma load_root_term root io :
    Pio io -> fst (load_root IO opn univ root io) <> OutOfFuel.
  Proof.
    intro H. unfold load_root.
    destruct (load_defs_term (S (length univ)) root wst0 io H eq_refl) as (A & _).
    - unfold psi. cbn. rewrite wunloaded_nil. lia.
    - exact A.
  Qed.
End Term.

(* ------------------------------------------------------------------ *)
(* L2: two openers that answer alike make every load answer alike      *)
(* ------------------------------------------------------------------ *)
Section Rel.
  Variables IO1 IO2 : Type.
  Variable opn1 : dom -> str -> IO1 -> option doc * IO1.
  Variable opn2 : dom -> str -> IO2 -> option doc * IO2.
  Variable univ : list (str * doc).
  Variable R : IO1 -> IO2 -> Prop.
  Hypothesis Hrel : forall d u a b, R a b ->
      fst (opn1 d u a) = fst (opn2 d u b) /\ R (snd (opn1 d u a)) (snd (opn2 d u b)).

  Definition rel {A} (r1 : outcome A * IO1) (r2 : outcome A * IO2) : Prop :=
    fst r1 = fst r2 /\ R (snd r1) (snd r2).

  Lemma download_rel owner incl tns u s a b :
    R a b -> rel (download IO1 opn1 owner incl tns u s a) (download IO2 opn2 owner incl tns u s b).
  Proof.
    intro H. unfold download. destruct (Hrel (DomS owner) u a b H) as [E Hr].
    destruct (opn1 (DomS owner) u a) as [o1 a1], (opn2 (DomS owner) u b) as [o2 b1]; cbn in *. subst o2.
    destruct o1 as [d|]; [|split; auto].
    destruct d; try (split; auto; fail).
    destruct incl; [|split; auto].
    destruct (x_tns x); [|split; auto].
    destruct (optN_eqb tns (Some n)); split; auto.
  Qed.

  Lemma target_rel cont owner self tns base r s a b :
    R a b -> rel (target IO1 opn1 cont owner self tns base r s a) (target IO2 opn2 cont owner self tns base r s b).
  Proof.
    intro H. unfold target. destruct r.
    - destruct (match self with SInl _ => if optN_eqb ns tns then None else locate cont ns
                            | SUrl _ => None end); [split; auto|].
      destruct loc as [l0|]; [|split; auto].
      destruct (lookup (join base l0) (s_memo s)); [split; auto|]. apply download_rel; auto.
    - destruct (lookup (join base loc) (s_memo s)); [split; auto|]. apply download_rel; auto.
  Qed.

  Lemma open_refs_rel rec1 rec2 cont owner self tns base :
    (forall t s a b, R a b -> rel (rec1 t s a) (rec2 t s b)) ->
    forall refs i s a b, R a b ->
      rel (open_refs IO1 opn1 rec1 cont owner self tns base i refs s a)
          (open_refs IO2 opn2 rec2 cont owner self tns base i refs s b).
  Proof.
    intro Hrec. induction refs as [|r rest IH]; intros i s a b H; cbn; [split; auto|].
    destruct (negb (mem_slot (self, i) (s_rem s))); auto.
    destruct (target_rel cont owner self tns base r
                (set_rem s (remove_slot (self, i) (s_rem s))) a b H) as [E Hr].
    destruct (target IO1 opn1 cont owner self tns base r _ a) as [o1 a1],
             (target IO2 opn2 cont owner self tns base r _ b) as [o2 b1]; cbn in *. subst o2.
    destruct o1 as [[[t|] s2]|k|]; try (split; auto; fail); auto.
    destruct (Hrec t s2 a1 b1 Hr) as [E Hr2].
    destruct (rec1 t s2 a1) as [o1 a2], (rec2 t s2 b1) as [o2 b2]; cbn in *. subst o2.
    destruct o1 as [s3|k|]; try (split; auto; fail); auto.
  Qed.

  Lemma open_imports_rel cont owner fuel :
    forall t s a b, R a b ->
      rel (open_imports IO1 opn1 cont owner fuel t s a) (open_imports IO2 opn2 cont owner fuel t s b).
  Proof.
    induction fuel as [|f IH]; intros t s a b H; cbn; [split; auto|].
    destruct (sid_info cont owner t s) as [[[tns refs] base]|]; [|split; auto].
    apply open_refs_rel; auto.
  Qed.

  Lemma open_all_rel cont owner fuel :
    forall js s a b, R a b ->
      rel (open_all IO1 opn1 cont owner fuel js s a) (open_all IO2 opn2 cont owner fuel js s b).
  Proof.
    induction js as [|j rest IH]; intros s a b H; cbn; [split; auto|].
    destruct (open_imports_rel cont owner fuel (SInl j) s a b H) as [E Hr].
    destruct (open_imports IO1 opn1 cont owner fuel (SInl j) s a) as [o1 a1],
             (open_imports IO2 opn2 cont owner fuel (SInl j) s b) as [o2 b1]; cbn in *. subst o2.
    destruct o1 as [s1|k|]; try (split; auto; fail); auto.
  Qed.

  Lemma build_schema_rel owner roots a b :
    R a b -> rel (build_schema IO1 opn1 univ owner roots a) (build_schema IO2 opn2 univ owner roots b).
  Proof. intro H. unfold build_schema. apply open_all_rel; auto. Qed.

  Lemma loop_imports_rel rec1 rec2 self :
    (forall u s a b, R a b -> rel (rec1 u s a) (rec2 u s b)) ->
    forall imps s a b, R a b ->
      rel (loop_imports IO1 rec1 self imps s a) (loop_imports IO2 rec2 self imps s b).
  Proof.
    intro Hrec. induction imps as [|loc rest IH]; intros s a b H; cbn; [split; auto|].
    destruct (lookup (join self loc) (w_memo s)) eqn:El.
    - cbn. destruct (lookup (join self loc) (w_memo (if is_built (join self loc) s then s else set_cyc s)));
        [|split; auto]. auto.
    - destruct (Hrec (join self loc) s a b H) as [E Hr].
      destruct (rec1 (join self loc) s a) as [o1 a1], (rec2 (join self loc) s b) as [o2 b1]; cbn in *.
      subst o2. destruct o1 as [s1|k|]; try (split; auto; fail).
      destruct (lookup (join self loc) (w_memo s1)); [|split; auto]. auto.
  Qed.

  Lemma load_defs_rel fuel :
    forall u s a b, R a b ->
      rel (load_defs IO1 opn1 univ fuel u s a) (load_defs IO2 opn2 univ fuel u s b).
  Proof.
    induction fuel as [|f IH]; intros u s a b H; cbn; [split; auto|].
    destruct (Hrel DomW u a b H) as [E Hr].
    destruct (opn1 DomW u a) as [o1 a1], (opn2 DomW u b) as [o2 b1]; cbn in *. subst o2.
    destruct o1 as [d|]; [|split; auto].
    destruct d as [imps types names|x|]; try (split; auto; fail).
    destruct (alloc_types u types (w_heap s)) as [tids heap].
    destruct (loop_imports_rel (load_defs IO1 opn1 univ f) (load_defs IO2 opn2 univ f) u IH imps
                (reg_wsdl u tids names heap s) a1 b1 Hr) as [E Hr2].
    destruct (loop_imports IO1 (load_defs IO1 opn1 univ f) u imps _ a1) as [o1 a2],
             (loop_imports IO2 (load_defs IO2 opn2 univ f) u imps _ b1) as [o2 b2]; cbn in *. subst o2.
    destruct o1 as [s2|k|]; try (split; auto; fail).
    destruct (build_schema_rel u (local_roots u s2) a2 b2 Hr2) as [E Hr3].
    destruct (build_schema IO1 opn1 univ u (local_roots u s2) a2) as [o1 a3],
             (build_schema IO2 opn2 univ u (local_roots u s2) b2) as [o2 b3]; cbn in *. subst o2.
    destruct o1 as [s3|k|]; split; auto.
  Qed.

  Lemma load_root_rel root a b :
    R a b -> rel (load_root IO1 opn1 univ root a) (load_root IO2 opn2 univ root b).
  Proof. apply load_defs_rel. Qed.
End Rel.

(* ------------------------------------------------------------------ *)
(* cache transparency: with a healthy source, what is in a sound cache *)
(* does not change the result of a load                                *)
(* ------------------------------------------------------------------ *)

Definition both_sound (W : world) (a b : io) : Prop :=
  cache_sound W (i_dcache a) /\ cache_sound W (i_dcache b).

Lemma opn_c_answer W dm u i :
  w_fault W = None -> cache_sound W (i_dcache i) -> fst (opn_c W dm u i) = served W u.
Proof.
  intros Hf Hs. unfold opn_c.
  set (i0 := mkIO (i_log i) ((dm, u) :: i_reqs i) (i_dcache i) (i_n i) (i_fired i)).
  destruct (N.eqb (w_policy W) 0).
  - destruct (lookup u (i_dcache i0)) eqn:E; cbn.
    + symmetry. apply Hs. apply lookup_in. exact E.
    + pose proof (fetch_nofault W dm u i0 Hf) as Hn.
      destruct (fetch W dm u i0) as [[d|] i1]; cbn in *; auto.
  - apply fetch_nofault; auto.
Qed.

Lemma opn_c_rel W : w_fault W = None ->
  forall d u a b, both_sound W a b ->
    fst (opn_c W d u a) = fst (opn_c W d u b) /\ both_sound W (snd (opn_c W d u a)) (snd (opn_c W d u b)).
Proof.
  intros Hf d u a b [Ha Hb]. split.
  - rewrite !opn_c_answer; auto.
  - split; apply opn_c_sound; auto.
Qed.

Lemma load_transparent_l W root a b :
  w_fault W = None -> cache_sound W (i_dcache a) -> cache_sound W (i_dcache b) ->
  fst (load_root io (opn_c W) (docs_of W) root a) = fst (load_root io (opn_c W) (docs_of W) root b).
Proof.
  intros Hf Ha Hb.
  destruct (load_root_rel io io (opn_c W) (opn_c W) (docs_of W) (both_sound W) (opn_c_rel W Hf) root a b) as [E _].
  - split; auto.
  - exact E.
Qed.

(* ------------------------------------------------------------------ *)
(* termination of the concrete load                                    *)
(* ------------------------------------------------------------------ *)

Lemma good_some x d : good x = Some d -> x = Some d.
Proof. destruct x as [[]|]; cbn; congruence. Qed.

Lemma served_in_docs W u d : served W u = Some d -> In (u, d) (docs_of W).
Proof.
  unfold served. destruct (is_suds u && negb (held W u)); [discriminate|].
  intro H. apply good_some in H. unfold src in H.
  destruct (lookup u (w_docs W)) as [[b d']|] eqn:E; [|discriminate]. inversion H; subst.
  apply lookup_in in E. unfold docs_of. apply in_map_iff. exists (u, (b, d)). auto.
Qed.

Lemma opn_c_univ W dm u i x :
  cache_sound W (i_dcache i) -> fst (opn_c W dm u i) = Some x -> In (u, x) (docs_of W).
Proof.
  intros Hs. unfold opn_c.
  set (i0 := mkIO (i_log i) ((dm, u) :: i_reqs i) (i_dcache i) (i_n i) (i_fired i)).
  destruct (N.eqb (w_policy W) 0).
  - destruct (lookup u (i_dcache i0)) eqn:E; cbn.
    + intro H. inversion H; subst. apply served_in_docs. apply Hs. apply lookup_in. exact E.
    + pose proof (fetch_some W dm u i0) as Hf.
      destruct (fetch W dm u i0) as [[d|] i1]; cbn in *; try discriminate.
      intro H. inversion H; subst. destruct (Hf x eq_refl) as [Hv _]. apply served_in_docs; auto.
  - intro H. destruct (fetch_some W dm u i0 x H) as [Hv _]. apply served_in_docs; auto.
Qed.

Lemma load_terminates_l W root i :
  cache_sound W (i_dcache i) -> fst (load_root io (opn_c W) (docs_of W) root i) <> OutOfFuel.
Proof.
  apply (load_root_term io (opn_c W) (docs_of W) (fun x => cache_sound W (i_dcache x))).
  - intros d u x. apply opn_c_sound.
  - intros d u x y. apply opn_c_univ.
Qed.

(* ------------------------------------------------------------------ *)
(* the client constructor                                              *)
(* ------------------------------------------------------------------ *)
Opaque load_root.

Lemma client_terminates_l W root oc i :
  cache_sound W (i_dcache i) -> fst (fst (client_load W root oc i)) <> OutOfFuel.
Proof.
  intro H. unfold client_load. destruct (N.eqb (w_policy W) 1 && oc); cbn; [discriminate|].
  pose proof (load_terminates_l W root i H) as T.
  destruct (load_root io (opn_c W) (docs_of W) root i) as [[s|k|] i']; cbn in *; congruence.
Qed.

Lemma client_io W root oc i :
  snd (fst (client_load W root oc i)) = i \/
  snd (fst (client_load W root oc i)) = snd (load_root io (opn_c W) (docs_of W) root i).
Proof.
  unfold client_load. destruct (N.eqb (w_policy W) 1 && oc); cbn; auto.
  destruct (load_root io (opn_c W) (docs_of W) root i) as [[s|k|] i']; cbn; auto.
Qed.

Lemma client_sbt_l W root oc i :
  sbt W (i_log i) = true -> sbt W (i_log (snd (fst (client_load W root oc i)))) = true.
Proof.
  intro H. destruct (client_io W root oc i) as [E|E]; rewrite E; auto. apply load_sbt_l; auto.
Qed.

Lemma client_sound_l W root oc i :
  cache_sound W (i_dcache i) -> cache_sound W (i_dcache (snd (fst (client_load W root oc i)))).
Proof.
  intro H. destruct (client_io W root oc i) as [E|E]; rewrite E; auto. apply load_sound_l; auto.
Qed.

Lemma cache_sound_docs W W' c : w_docs W = w_docs W' -> cache_sound W c -> cache_sound W' c.
Proof.
  intros E H u d Hin. specialize (H u d Hin). unfold served, held, src in *. rewrite <- E. exact H.
Qed.

Lemma failure_atomic_l docs pol k fk root :
  let Wf := mkWorld docs pol (Some (k, fk)) in
  let Wh := mkWorld docs pol None in
  let r := client_load Wf root false io0 in
  i_fired (snd (fst r)) = true ->
  (forall x, fst (fst r) <> Ok x) /\ snd r = false /\
  cache_sound Wh (i_dcache (snd (fst r))) /\
  fst (load_root io (opn_c Wh) (docs_of Wh) root (mkIO [] [] (i_dcache (snd (fst r))) 0 false))
  = fst (load_root io (opn_c Wh) (docs_of Wh) root io0).
Proof.
  intros Wf Wh r Hf.
  assert (S0 : cache_sound Wf (i_dcache io0)) by (intros u d []).
  assert (Sr : cache_sound Wh (i_dcache (snd (fst r)))).
  { apply (cache_sound_docs Wf Wh); auto. apply client_sound_l; auto. }
  assert (K : match fst (fst r) with Ok _ => False | _ => snd r = false end).
  { unfold r, client_load in *. rewrite andb_false_r in *.
    pose proof (load_fired_l Wf root io0 eq_refl) as L.
    destruct (load_root io (opn_c Wf) (docs_of Wf) root io0) as [[s|j|] i']; cbn in *; auto.
    congruence. }
  split; [|split; [|split]]; auto.
  - intros x E. rewrite E in K. exact K.
  - destruct (fst (fst r)); tauto.
  - apply load_transparent_l; auto.
Qed.

(* ------------------------------------------------------------------ *)
(* fetch once: no (memo domain, URL) is requested twice                *)
(* ------------------------------------------------------------------ *)

Lemma has_cons_mono {A} v u (x : A) memo : has v memo = true -> has v ((u, x) :: memo) = true.
Proof. unfold has. cbn. destruct (str_eqb v u); auto. Qed.

Lemma has_cons_same {A} u (x : A) memo : has u ((u, x) :: memo) = true.
Proof. unfold has. cbn. rewrite str_eqb_refl. auto. Qed.

Lemma has_none {A} u (memo : list (str * A)) : lookup u memo = None -> has u memo = false.
Proof. unfold has. intros ->. auto. Qed.

Definition rkey (q : dom * str) : str := match q with (DomW, u) => u | (DomS o, _) => o end.

Section Once.
  Variable IO : Type.
  Variable opn : dom -> str -> IO -> option doc * IO.
  Variable univ : list (str * doc).
  Variable reqs : IO -> list (dom * str).
  Hypothesis Hreq : forall d u io, reqs (snd (opn d u io)) = (d, u) :: reqs io.

  Section Schema.
    Variable owner : str.

    Definition SI (s : sst) (io : IO) : Prop :=
      NoDup (reqs io) /\ forall u, In (DomS owner, u) (reqs io) -> has u (s_memo s) = true.
    Definition sframe (io io' : IO) : Prop :=
      forall q, In q (reqs io') -> In q (reqs io) \/ fst q = DomS owner.
    Definition sstep (s : sst) (io : IO) (s' : sst) (io' : IO) : Prop :=
      SI s' io' /\ sframe io io' /\ forall u, has u (s_memo s) = true -> has u (s_memo s') = true.
    Definition sfail (io io' : IO) : Prop := NoDup (reqs io') /\ sframe io io'.
    Definition spost (s : sst) (io : IO) (r : outcome sst * IO) : Prop :=
      match r with (Ok s', io') => sstep s io s' io' | (_, io') => sfail io io' end.

    Lemma sstep_refl s io : SI s io -> sstep s io s io.
    Proof. intro H. split; auto. split; [intros q; auto|auto]. Qed.

    Lemma sstep_fail s io s' io' : sstep s io s' io' -> sfail io io'.
    Proof. intros [[N _] [F _]]. split; auto. Qed.

    Lemma sstep_trans s io s2 io2 s3 io3 :
      sstep s io s2 io2 -> sstep s2 io2 s3 io3 -> sstep s io s3 io3.
    Proof.
      intros [I2 [F2 M2]] [I3 [F3 M3]]. split; auto. split.
      - intros q Hq. destruct (F3 q Hq) as [H|H]; auto.
      - intros u Hu. auto.
    Qed.

    Lemma sstep_fail_trans s io s2 io2 io3 : sstep s io s2 io2 -> sfail io2 io3 -> sfail io io3.
    Proof.
      intros [I2 [F2 M2]] [N3 F3]. split; auto.
      intros q Hq. destruct (F3 q Hq) as [H|H]; auto.
    Qed.

    Lemma spost_trans s io s2 io2 r : sstep s io s2 io2 -> spost s2 io2 r -> spost s io r.
    Proof.
      intros H1 H2. destruct r as [[s3|k|] io3]; cbn in *.
      - eapply sstep_trans; eauto.
      - eapply sstep_fail_trans; eauto.
      - eapply sstep_fail_trans; eauto.
    Qed.

    Lemma SI_rem s rem io : SI s io -> SI (set_rem s rem) io.
    Proof. intro H. exact H. Qed.

    Definition tpost (s : sst) (io : IO) (r : outcome (option sid * sst) * IO) : Prop :=
      match r with (Ok (_, s'), io') => sstep s io s' io' | (_, io') => sfail io io' end.

    Lemma download_once incl tns u s io :
      SI s io -> lookup u (s_memo s) = None -> tpost s io (download IO opn owner incl tns u s io).
    Proof.
      intros [N M] Hn. unfold download.
      pose proof (Hreq (DomS owner) u io) as Hq.
      destruct (opn (DomS owner) u io) as [o io1]; cbn in Hq.
      assert (N1 : NoDup (reqs io1)).
      { rewrite Hq. constructor; auto. intro Hin. apply M in Hin. rewrite (has_none _ _ Hn) in Hin. discriminate. }
      assert (F1 : sframe io io1).
      { intros q Hin. rewrite Hq in Hin. destruct Hin as [<-|Hin]; auto. }
      assert (Fail : sfail io io1) by (split; auto).
      assert (Good : forall x', sstep s io (add_inst u x' s) io1).
      { intro x'. split; [split; auto|split; auto].
        - intros v Hin. cbn. rewrite Hq in Hin. destruct Hin as [E|Hin].
          + inversion E; subst. apply has_cons_same.
          + apply has_cons_mono. auto.
        - intros v Hv. cbn. apply has_cons_mono. auto. }
      destruct o as [d|]; cbn; auto.
      destruct d; cbn; auto.
      destruct incl.
      - destruct (x_tns x).
        + destruct (optN_eqb tns (Some n)); [apply (Good x)|exact Fail].
        + apply (Good (mkX tns (x_refs x) (x_decls x))).
      - apply (Good x).
    Qed.

    Lemma target_once cont self tns base r s io :
      SI s io -> tpost s io (target IO opn cont owner self tns base r s io).
    Proof.
      intro H. unfold target. destruct r.
      - destruct (match self with SInl _ => if optN_eqb ns tns then None else locate cont ns
                              | SUrl _ => None end); cbn.
        { destruct loc; [|apply (sstep_refl _ io); exact H].
          split; [exact H|split; [intros q; auto|intros v; auto]]. }
        destruct loc as [l0|]; cbn; [|apply sstep_refl; auto].
        destruct (lookup (join base l0) (s_memo s)) eqn:E; cbn; [apply sstep_refl; auto|].
        apply download_once; auto.
      - destruct (lookup (join base loc) (s_memo s)) eqn:E; cbn; [apply sstep_refl; auto|].
        apply download_once; auto.
    Qed.

    Lemma open_refs_once rec cont self tns base :
      (forall t s io, SI s io -> spost s io (rec t s io)) ->
      forall refs i s io, SI s io ->
        spost s io (open_refs IO opn rec cont owner self tns base i refs s io).
    Proof.
      intro Hrec. induction refs as [|r rest IH]; intros i s io H; cbn.
      - apply sstep_refl; auto.
      - destruct (negb (mem_slot (self, i) (s_rem s))); auto.
        set (s1 := set_rem s (remove_slot (self, i) (s_rem s))).
        assert (H1 : sstep s io s1 io) by (apply (sstep_refl s1 io); exact H).
        pose proof (target_once cont self tns base r s1 io H) as Ht.
        destruct (target IO opn cont owner self tns base r s1 io) as [[[[t|] s2]|k|] io2];
          unfold tpost in Ht.
        + pose proof (sstep_trans _ _ _ _ _ _ H1 Ht) as H2.
          pose proof (Hrec t s2 io2 (proj1 Ht)) as Hr.
          destruct (rec t s2 io2) as [[s3|k|] io3]; unfold spost in Hr.
          * pose proof (sstep_trans _ _ _ _ _ _ H2 Hr) as H3.
            assert (H3' : sstep s io (merge_tab s3 self t) io3) by exact H3.
            apply (spost_trans _ _ _ _ _ H3'). apply IH. exact (proj1 H3').
          * exact (sstep_fail_trans _ _ _ _ _ H2 Hr).
          * exact (sstep_fail_trans _ _ _ _ _ H2 Hr).
        + pose proof (sstep_trans _ _ _ _ _ _ H1 Ht) as H2.
          apply (spost_trans _ _ _ _ _ H2). apply IH. exact (proj1 Ht).
        + exact Ht.
        + exact Ht.
    Qed.

    Lemma open_imports_once cont fuel :
      forall t s io, SI s io -> spost s io (open_imports IO opn cont owner fuel t s io).
    Proof.
      induction fuel as [|f IH]; intros t s io H; cbn.
      - split; [exact (proj1 H)|intros q; auto].
      - destruct (sid_info cont owner t s) as [[[tns refs] base]|].
        + apply open_refs_once; auto.
        + cbn. split; [exact (proj1 H)|intros q; auto].
    Qed.

    Lemma open_all_once cont fuel :
      forall js s io, SI s io -> spost s io (open_all IO opn cont owner fuel js s io).
    Proof.
      induction js as [|j rest IH]; intros s io H; cbn.
      - apply sstep_refl; auto.
      - pose proof (open_imports_once cont fuel (SInl j) s io H) as Ho.
        destruct (open_imports IO opn cont owner fuel (SInl j) s io) as [[s1|k|] io1]; cbn in Ho; auto.
        eapply spost_trans; eauto. apply IH. exact (proj1 Ho).
    Qed.

    Lemma build_schema_once roots io :
      NoDup (reqs io) -> (forall u, ~ In (DomS owner, u) (reqs io)) ->
      sfail io (snd (build_schema IO opn univ owner roots io)).
    Proof.
      intros N M. unfold build_schema.
      set (cont := consolidate roots).
      assert (H : SI (init_sst cont) io).
      { split; auto. intros u Hin. destruct (M u Hin). }
      pose proof (open_all_once cont (schema_fuel univ cont) (seq 0 (length cont)) _ io H) as Ho.
      destruct (open_all IO opn cont owner (schema_fuel univ cont) (seq 0 (length cont)) _ io)
        as [[s1|k|] io1]; cbn in *; auto.
      eapply sstep_fail; eauto.
    Qed.
  End Schema.

  (* WSDL level *)
  Definition WI (s : wst) (io : IO) : Prop :=
    NoDup (reqs io) /\ forall q, In q (reqs io) -> has (rkey q) (w_memo s) = true.
  Definition wframe (s : wst) (io io' : IO) : Prop :=
    forall q, In q (reqs io') -> In q (reqs io) \/ has (rkey q) (w_memo s) = false.
  Definition wmono (s s' : wst) : Prop := forall u, has u (w_memo s) = true -> has u (w_memo s') = true.
  Definition wstep (s : wst) (io : IO) (s' : wst) (io' : IO) : Prop :=
    WI s' io' /\ wframe s io io' /\ wmono s s'.
  Definition wfail (s : wst) (io io' : IO) : Prop := NoDup (reqs io') /\ wframe s io io'.
  Definition wpost (s : wst) (io : IO) (r : outcome wst * IO) : Prop :=
    match r with (Ok s', io') => wstep s io s' io' | (_, io') => wfail s io io' end.

  Lemma wstep_refl s io : WI s io -> wstep s io s io.
  Proof. intro H. split; auto. split; [intros q; auto|intros u; auto]. Qed.

  Lemma wframe_trans s io s2 io2 io3 :
    wframe s io io2 -> wmono s s2 -> wframe s2 io2 io3 -> wframe s io io3.
  Proof.
    intros F2 M2 F3 q Hq. destruct (F3 q Hq) as [H|H]; auto.
    right. destruct (has (rkey q) (w_memo s)) eqn:E; auto. apply M2 in E. congruence.
  Qed.

  Lemma wstep_trans s io s2 io2 s3 io3 :
    wstep s io s2 io2 -> wstep s2 io2 s3 io3 -> wstep s io s3 io3.
  Proof.
    intros [I2 [F2 M2]] [I3 [F3 M3]]. split; auto. split.
    - eapply wframe_trans; eauto.
    - intros u Hu. auto.
  Qed.

  Lemma wpost_trans s io s2 io2 r : wstep s io s2 io2 -> wpost s2 io2 r -> wpost s io r.
  Proof.
    intros H1 H2. destruct r as [[s3|k|] io3]; cbn in *.
    - eapply wstep_trans; eauto.
    - destruct H1 as [I2 [F2 M2]], H2 as [N3 F3]. split; auto. eapply wframe_trans; eauto.
    - destruct H1 as [I2 [F2 M2]], H2 as [N3 F3]. split; auto. eapply wframe_trans; eauto.
  Qed.

  Lemma has_set_types k u ts s : has k (w_memo (set_types u ts s)) = has k (w_memo s).
  Proof.
    unfold set_types. destruct (lookup u (w_memo s)) eqn:E; auto. cbn.
    apply has_set_memo. unfold has. rewrite E. auto.
  Qed.

  Lemma has_set_names k u ns s : has k (w_memo (set_names u ns s)) = has k (w_memo s).
  Proof.
    unfold set_names. destruct (lookup u (w_memo s)) eqn:E; auto. cbn.
    apply has_set_memo. unfold has. rewrite E. auto.
  Qed.

  Lemma has_import k self d s :
    has k (w_memo (if d_wsdl d then import_definitions self d s else import_schema self d s))
    = has k (w_memo s).
  Proof.
    destruct (d_wsdl d).
    - unfold import_definitions. rewrite has_set_names. apply has_set_types.
    - unfold import_schema. destruct (d_xroot d); auto.
      destruct (own_types self s); auto. rewrite has_set_types. reflexivity.
  Qed.

  Lemma wstep_import s io self d :
    WI s io -> wstep s io (if d_wsdl d then import_definitions self d s else import_schema self d s) io.
  Proof.
    intros [N M]. split; [split; auto|split].
    - intros q Hq. rewrite has_import. auto.
    - intros q; auto.
    - intros u Hu. rewrite has_import. auto.
  Qed.

  Lemma loop_imports_once rec self :
    (forall u s io, WI s io -> lookup u (w_memo s) = None -> wpost s io (rec u s io)) ->
    forall imps s io, WI s io -> wpost s io (loop_imports IO rec self imps s io).
  Proof.
    intro Hrec. induction imps as [|loc rest IH]; intros s io H; cbn.
    - apply wstep_refl; auto.
    - assert (K : forall s1 io1, wstep s io s1 io1 ->
                  wpost s io (match lookup (join self loc) (w_memo s1) with
                              | Some d => loop_imports IO rec self rest
                                            (if d_wsdl d then import_definitions self d s1
                                             else import_schema self d s1) io1
                              | None => (Raised 9, io1)
                              end)).
      { intros s1 io1 H1. destruct (lookup (join self loc) (w_memo s1)) as [d|].
        - pose proof (wstep_import s1 io1 self d (proj1 H1)) as H2.
          eapply wpost_trans; [eapply wstep_trans; eauto|]. apply IH. exact (proj1 H2).
        - cbn. destruct H1 as [[N1 _] [F1 _]]. split; auto. }
      destruct (lookup (join self loc) (w_memo s)) eqn:El.
      + apply K. destruct (is_built (join self loc) s); [apply wstep_refl; auto|].
        exact (wstep_refl s io H).
      + pose proof (Hrec (join self loc) s io H El) as Hr.
        destruct (rec (join self loc) s io) as [[s1|k|] io1]; cbn in Hr; auto.
  Qed.

  Lemma load_defs_once fuel :
    forall u s io, WI s io -> lookup u (w_memo s) = None ->
      wpost s io (load_defs IO opn univ fuel u s io).
  Proof.
    induction fuel as [|f IH]; intros u s io H Hn; cbn.
    - split; [exact (proj1 H)|intros q; auto].
    - destruct H as [N M].
      pose proof (Hreq DomW u io) as Hq.
      destruct (opn DomW u io) as [o io1]; cbn in Hq.
      assert (Hu : has u (w_memo s) = false) by (apply has_none; auto).
      assert (N1 : NoDup (reqs io1)).
      { rewrite Hq. constructor; auto. intro Hin. apply M in Hin. cbn in Hin. congruence. }
      assert (F1 : wframe s io io1).
      { intros q Hin. rewrite Hq in Hin. destruct Hin as [<-|Hin]; auto. }
      assert (Fail : wfail s io io1) by (split; auto).
      assert (Reg : forall di heap built cy sh, wstep s io (mkW ((u, di) :: w_memo s) heap built cy sh) io1).
      { intros di heap built cy sh. split; [split; auto|split; auto].
        - intros q Hin. cbn. rewrite Hq in Hin. destruct Hin as [<-|Hin].
          + cbn. apply has_cons_same.
          + apply has_cons_mono. auto.
        - intros v Hv. cbn. apply has_cons_mono. auto. }
      destruct o as [d|]; cbn; auto.
      destruct d as [imps types names|x|]; cbn; auto.
      + destruct (alloc_types u types (w_heap s)) as [tids heap].
        set (s1 := reg_wsdl u tids names heap s).
        pose proof (Reg (mkD true tids None names) heap (w_built s) (w_cyc s) (w_shadow s)) as H1. fold s1 in H1.
        pose proof (loop_imports_once (load_defs IO opn univ f) u IH imps s1 io1 (proj1 H1)) as Hl.
        destruct (loop_imports IO (load_defs IO opn univ f) u imps s1 io1) as [[s2|k|] io2]; cbn in Hl.
        * assert (H2 : wstep s io s2 io2) by (eapply wstep_trans; eauto).
          destruct Hl as [[N2 M2] [F2 Mo2]].
          assert (Hu2 : has u (w_memo s2) = true) by (apply Mo2; apply has_cons_same).
          assert (No : forall v, ~ In (DomS u, v) (reqs io2)).
          { intros v Hin. destruct (F2 _ Hin) as [Hin1|Hk].
            - rewrite Hq in Hin1. destruct Hin1 as [E|Hin0]; [discriminate|].
              apply M in Hin0. cbn in Hin0. congruence.
            - cbn in Hk. unfold s1 in Hk. cbn in Hk. rewrite has_cons_same in Hk. discriminate. }
          pose proof (build_schema_once u (local_roots u s2) io2 N2 No) as [N3 F3].
          assert (W3 : forall io3, NoDup (reqs io3) -> sframe u io2 io3 -> wfail s io io3).
          { intros io3 Nd Fr. split; auto. intros q Hin. destruct (Fr q Hin) as [Hin2|Hd].
            - destruct H2 as [_ [F _]]. auto.
            - right. destruct q as [[|o] v]; cbn in Hd; try discriminate.
              inversion Hd; subst. cbn. auto. }
          destruct (build_schema IO opn univ u (local_roots u s2) io2) as [[s3|k|] io3]; cbn in *.
          -- split; [split; auto|split].
             ++ intros q Hin. destruct (F3 q Hin) as [Hin2|Hd]; auto.
                destruct q as [[|o] v]; cbn in Hd; try discriminate. inversion Hd; subst. cbn. auto.
             ++ exact (proj2 (W3 io3 N3 F3)).
             ++ destruct H2 as [_ [_ Mo]]. exact Mo.
          -- apply W3; auto.
          -- apply W3; auto.
        * cbn. destruct Hl as [N2 F2]. split; auto.
          destruct H1 as [_ [F Mo]]. eapply wframe_trans; eauto.
        * cbn. destruct Hl as [N2 F2]. split; auto.
          destruct H1 as [_ [F Mo]]. eapply wframe_trans; eauto.
      + apply (Reg (mkD false [] (Some x) []) (w_heap s) ((u, []) :: w_built s) (w_cyc s) (w_shadow s || false)).
  Qed.

  Transparent load_root.
  Lemma load_root_once root io : reqs io = [] -> NoDup (reqs (snd (load_root IO opn univ root io))).
  Proof.
    intro E. unfold load_root.
    assert (H : WI wst0 io).
    { split; rewrite E; [constructor|intros q []]. }
    pose proof (load_defs_once (S (length univ)) root _ io H eq_refl) as L.
    destruct (load_defs IO opn univ (S (length univ)) root wst0 io) as [[s|k|] io']; cbn in *.
    - exact (proj1 (proj1 L)).
    - exact (proj1 L).
    - exact (proj1 L).
  Qed.
  Opaque load_root.
End Once.

(* concrete: every DocumentReader.open is logged in i_reqs, the store
   requests of the log are among them *)
Lemma fetch_reqs W dm u i : i_reqs (snd (fetch W dm u i)) = i_reqs i.
Proof. Transparent fetch. reflexivity. Opaque fetch. Qed.

Lemma opn_c_reqs W dm u i : i_reqs (snd (opn_c W dm u i)) = (dm, u) :: i_reqs i.
Proof.
  unfold opn_c.
  set (i0 := mkIO (i_log i) ((dm, u) :: i_reqs i) (i_dcache i) (i_n i) (i_fired i)).
  destruct (N.eqb (w_policy W) 0).
  - destruct (lookup u (i_dcache i0)); cbn; auto.
    pose proof (fetch_reqs W dm u i0) as Hf.
    destruct (fetch W dm u i0) as [[d|] i1]; cbn in *; auto.
  - apply fetch_reqs.
Qed.

Definition log_in_reqs (i : io) : Prop :=
  NoDup (i_reqs i) -> NoDup (fetches (i_log i)) /\ incl (fetches (i_log i)) (i_reqs i).

Lemma fetch_log W dm u i :
  fetches (i_log (snd (fetch W dm u i))) = (dm, u) :: fetches (i_log i).
Proof.
  Transparent fetch. unfold fetch. cbn.
  destruct (_ || _); cbn; auto. Opaque fetch.
Qed.

Lemma fetch_keeps W dm u i :
  i_reqs (snd (fetch W dm u i)) = i_reqs i.
Proof. apply fetch_reqs. Qed.

Lemma opn_c_log W dm u i : log_in_reqs i -> log_in_reqs (snd (opn_c W dm u i)).
Proof.
  intro J. unfold log_in_reqs. rewrite opn_c_reqs. intro Nd. inversion Nd as [|q l Hnin Nd']; subst.
  destruct (J Nd') as [Nf Inc].
  assert (Keep : NoDup (fetches (i_log i)) /\ incl (fetches (i_log i)) ((dm, u) :: i_reqs i)).
  { split; auto. intros q Hq. right. auto. }
  assert (Add : NoDup ((dm, u) :: fetches (i_log i)) /\ incl ((dm, u) :: fetches (i_log i)) ((dm, u) :: i_reqs i)).
  { split.
    - constructor; auto.
    - intros q [<-|Hq]; [left; auto|right; auto]. }
  clear Nd. unfold opn_c.
  set (i0 := mkIO (i_log i) ((dm, u) :: i_reqs i) (i_dcache i) (i_n i) (i_fired i)).
  assert (L0 : fetches (i_log (snd (fetch W dm u i0))) = (dm, u) :: fetches (i_log i))
    by (exact (fetch_log W dm u i0)).
  destruct (N.eqb (w_policy W) 0).
  - destruct (lookup u (i_dcache i0)); [exact Keep|].
    destruct (fetch W dm u i0) as [[d|] i1]; cbn [snd fst i_log] in *; rewrite L0; auto.
  - rewrite L0. auto.
Qed.

Transparent load_root.
Lemma load_once_l W root i :
  i_reqs i = [] -> i_log i = [] ->
  NoDup (fetches (i_log (snd (load_root io (opn_c W) (docs_of W) root i)))).
Proof.
  intros Er El.
  pose proof (load_root_once io (opn_c W) (docs_of W) i_reqs (opn_c_reqs W) root i Er) as Nd.
  pose proof (load_root_inv_all io (opn_c W) (docs_of W) log_in_reqs (opn_c_log W) root i) as J.
  apply J; auto.
  unfold log_in_reqs. rewrite Er, El. cbn. intros _. split; [constructor|intros q []].
Qed.
Opaque load_root.

Lemma client_once_l W root oc i :
  i_reqs i = [] -> i_log i = [] ->
  NoDup (fetches (i_log (snd (fst (client_load W root oc i))))).
Proof.
  intros Er El. destruct (client_io W root oc i) as [E|E]; rewrite E.
  - rewrite El. constructor.
  - apply load_once_l; auto.
Qed.


(* ------------------------------------------------------------------ *)
(* reachable only                                                      *)
(* ------------------------------------------------------------------ *)

(* WSDL level, unconditionally: a wsdl:import location is resolved against
   the URL of the document that contains it, so every document asked for on
   behalf of imported_definitions is reachable from the root *)
Section WReach.
  Variable IO : Type.
  Variable opn : dom -> str -> IO -> option doc * IO.
  Variable univ : list (str * doc).
  Variable reqs : IO -> list (dom * str).
  Variable W : world.
  Variable root : str.
  Variable Pio : IO -> Prop.
  Hypothesis Hreq : forall d u io, reqs (snd (opn d u io)) = (d, u) :: reqs io.
  Hypothesis Pio_opn : forall d u io, Pio io -> Pio (snd (opn d u io)).
  Hypothesis Hsrc : forall d u io x, Pio io -> fst (opn d u io) = Some x -> src W u = Some x.

  Definition WR (io : IO) : Prop := Pio io /\ forall v, In (DomW, v) (reqs io) -> reach W root v.

  Lemma build_schema_wr owner roots io : WR io -> WR (snd (build_schema IO opn univ owner roots io)).
  Proof.
    intro H.
    pose proof (build_schema_inv IO opn univ WR WR (fun _ h => h)) as L.
    assert (Hop : forall o u x, WR x ->
                  match opn (DomS o) u x with (Some _, io') => WR io' | (None, io') => WR io' end).
    { intros o u x [Px Hx].
      assert (K : WR (snd (opn (DomS o) u x))).
      { split; [apply Pio_opn; auto|]. intros v Hv. rewrite Hreq in Hv.
        destruct Hv as [E|Hv]; [discriminate|auto]. }
      destruct (opn (DomS o) u x) as [[?|] ?]; auto. }
    specialize (L Hop owner roots io H). unfold post in L.
    destruct (build_schema IO opn univ owner roots io) as [[?|?|] ?]; auto.
  Qed.

  Lemma loop_imports_wr rec self d :
    reach W root self -> src W self = Some d ->
    (forall u s io, reach W root u -> WR io -> WR (snd (rec u s io))) ->
    forall imps s io, (forall l, In l imps -> In l (doc_locs d)) -> WR io ->
      WR (snd (loop_imports IO rec self imps s io)).
  Proof.
    intros Rs Hd Hrec. induction imps as [|loc rest IH]; intros s io Hin H; cbn; auto.
    assert (Rl : reach W root (join self loc)).
    { eapply reach_step; eauto. apply Hin. left; auto. }
    assert (Hin' : forall l, In l rest -> In l (doc_locs d)) by (intros l Hl; apply Hin; right; auto).
    destruct (lookup (join self loc) (w_memo s)) eqn:El.
    - cbn. destruct (lookup (join self loc) (w_memo (if is_built (join self loc) s then s else set_cyc s)));
        cbn; auto.
    - pose proof (Hrec (join self loc) s io Rl H) as Hr.
      destruct (rec (join self loc) s io) as [[s1|k|] io1]; cbn in *; auto.
      destruct (lookup (join self loc) (w_memo s1)); cbn; auto.
  Qed.

  Lemma load_defs_wr fuel : forall u s io, reach W root u -> WR io -> WR (snd (load_defs IO opn univ fuel u s io)).
  Proof.
    induction fuel as [|f IH]; intros u s io Ru [P H]; cbn; [split; auto|].
    pose proof (Pio_opn DomW u io P) as P1.
    pose proof (Hreq DomW u io) as Hq.
    pose proof (Hsrc DomW u io) as Hs.
    destruct (opn DomW u io) as [o io1]; cbn in *.
    assert (H1 : WR io1).
    { split; auto. intros v Hv. rewrite Hq in Hv. destruct Hv as [E|Hv]; auto.
      inversion E; subst; auto. }
    destruct o as [d|]; cbn; auto.
    specialize (Hs d P eq_refl).
    destruct d as [imps types names|x|]; cbn; auto.
    destruct (alloc_types u types (w_heap s)) as [tids heap].
    pose proof (loop_imports_wr (load_defs IO opn univ f) u (DWsdl imps types names) Ru Hs IH imps
                  (reg_wsdl u tids names heap s) io1) as Hl.
    assert (Hin : forall l, In l imps -> In l (doc_locs (DWsdl imps types names))).
    { intros l Hl0. cbn. apply in_or_app. left; auto. }
    specialize (Hl Hin H1).
    destruct (loop_imports IO (load_defs IO opn univ f) u imps _ io1) as [[s2|k|] io2]; cbn in *; auto.
    pose proof (build_schema_wr u (local_roots u s2) io2 Hl) as Hb.
    destruct (build_schema IO opn univ u (local_roots u s2) io2) as [[s3|k|] io3]; cbn in *; auto.
  Qed.
End WReach.

Lemma opn_c_src W dm u i x :
  cache_sound W (i_dcache i) -> fst (opn_c W dm u i) = Some x -> src W u = Some x.
Proof.
  intros Hs H.
  assert (V : served W u = Some x).
  { revert H. unfold opn_c.
    set (i0 := mkIO (i_log i) ((dm, u) :: i_reqs i) (i_dcache i) (i_n i) (i_fired i)).
    destruct (N.eqb (w_policy W) 0).
    - destruct (lookup u (i_dcache i0)) eqn:E; cbn.
      + intro H. inversion H; subst. apply Hs. apply lookup_in. exact E.
      + pose proof (fetch_some W dm u i0) as Hf.
        destruct (fetch W dm u i0) as [[d|] i1]; cbn in *; try discriminate.
        intro H. inversion H; subst. apply (Hf x eq_refl).
    - intro H. apply (fetch_some W dm u i0 x H). }
  unfold served in V. destruct (is_suds u && negb (held W u)); [discriminate|].
  apply good_some in V. exact V.
Qed.

Transparent load_root.
Lemma wsdl_requests_reachable_l W root i :
  cache_sound W (i_dcache i) -> i_reqs i = [] ->
  forall v, In (DomW, v) (i_reqs (snd (load_root io (opn_c W) (docs_of W) root i))) -> reach W root v.
Proof.
  intros Hs Er.
  pose proof (load_defs_wr io (opn_c W) (docs_of W) i_reqs W root (fun x => cache_sound W (i_dcache x))
                (opn_c_reqs W) (fun d u x => opn_c_sound W d u x) (fun d u x y => opn_c_src W d u x y)
                (S (length (docs_of W))) root wst0 i (reach_root W root)) as L.
  apply L. split; auto. rewrite Er. intros v [].
Qed.
Opaque load_root.

(* the same for the store requests of the log *)
Lemma incl_fetches_reqs W root i :
  i_reqs i = [] -> i_log i = [] ->
  incl (fetches (i_log (snd (load_root io (opn_c W) (docs_of W) root i))))
       (i_reqs (snd (load_root io (opn_c W) (docs_of W) root i))).
Proof.
  intros Er El.
  pose proof (load_root_once io (opn_c W) (docs_of W) i_reqs (opn_c_reqs W) root i Er) as Nd.
  pose proof (load_root_inv_all io (opn_c W) (docs_of W) log_in_reqs (opn_c_log W) root i) as J.
  apply J; auto.
  unfold log_in_reqs. rewrite Er, El. cbn. intros _. split; [constructor|intros q []].
Qed.

Lemma wsdl_fetches_reachable_l W root oc i :
  cache_sound W (i_dcache i) -> i_reqs i = [] -> i_log i = [] ->
  forall v, In (DomW, v) (fetches (i_log (snd (fst (client_load W root oc i))))) -> reach W root v.
Proof.
  intros Hs Er El v Hv. destruct (client_io W root oc i) as [E|E]; rewrite E in Hv.
  - rewrite El in Hv. destruct Hv.
  - apply (wsdl_requests_reachable_l W root i Hs Er). apply (incl_fetches_reqs W root i Er El). exact Hv.
Qed.

(* schema level: refuted in general.  [mentioned_b] over-approximates reach. *)
Definition mentioned_b (W : world) (root v : str) : bool :=
  str_eqb v root ||
  existsb (fun e => existsb (fun l => str_eqb v (join (fst e) l)) (doc_locs (snd (snd e)))) (w_docs W).

Lemma reach_mentioned W root v : reach W root v -> mentioned_b W root v = true.
Proof.
  intro H. unfold mentioned_b. destruct H as [|u d l Hr Hs Hl].
  - rewrite str_eqb_refl. auto.
  - apply orb_true_iff. right. unfold src in Hs.
    destruct (lookup u (w_docs W)) as [[b d']|] eqn:E; [|discriminate]. inversion Hs; subst.
    apply lookup_in in E. apply existsb_exists. exists (u, (b, d)). split; auto. cbn.
    apply existsb_exists. exists l. split; auto. apply str_eqb_refl.
Qed.
