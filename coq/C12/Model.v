(* C12 -- Document graphs load completely, once, or not at all.

   MODEL of the loaders, following the Python statement by statement:

     suds/reader.py   DocumentReader.open / __fetch     -> [opn_c], [fetch]
                      DefinitionsReader.open            -> [client_load]
     suds/wsdl.py     Definitions.__init__              -> [load_defs]
                      Definitions.open_imports,
                      Import.load                       -> [loop_imports]
                      Import.import_definitions         -> [import_definitions]
                      Import.import_schema              -> [import_schema]
                      Definitions.build_schema          -> [local_roots], [build_schema]
     suds/xsd/schema.py  SchemaCollection.add           -> [add_schema], [consolidate]
                      SchemaCollection.load / Schema.open_imports -> [open_all], [open_imports], [open_refs]
     suds/xsd/sxbasic.py Import.open / __locate / __download,
                      Include.open / __download / __applytns -> [target], [download]

   What a document contributes to the control flow of loading is its kind,
   its ordered references and, for schemas, the target namespace:

     doc := DWsdl imports types | DXsd schema | DBad (not well-formed)

   The loaders are written over an ABSTRACT document opener
   [opn : dom -> url -> IO -> option doc * IO] (None = the open raised) so
   that properties of the concrete opener (document cache, store, transport,
   fault injection) lift to whole loads by one generic induction, and two
   openers can be related (cache transparency).  The memo tables are
   registered BEFORE recursing, exactly as the code does
   (imported_definitions[url] = self; loaded_schemata[baseurl] = self).

   Not modelled (covered by the executed correspondence only): the contents
   of declarations, Definitions.resolve / set_wrapped / add_methods (they
   fetch nothing; they can only abort a load), plugins, autoblend, doctor. *)
From SV Require Import Lib.Base C12.Url.

(* ------------------------------------------------------------------ *)
(* documents                                                           *)
(* ------------------------------------------------------------------ *)

Inductive xref :=
| XImp (ns : option N) (loc : option str)    (* <xsd:import namespace= schemaLocation=> *)
| XInc (loc : str).                           (* <xsd:include schemaLocation=> *)

Definition qn := (option N * N)%type.     (* (target namespace, name with its kind) *)

(* A declaration is named by its symbol space and local name together (the
   harness interns the pair ("e" | "t", name)): an element and a type of the
   same name are two different keys, as in Schema.elements / Schema.types. *)
Record xschema := mkX { x_tns : option N; x_refs : list xref;
                        x_decls : list N }.   (* top-level element / type declarations *)

Definition own_decls (x : xschema) : list qn := map (fun n => (x_tns x, n)) (x_decls x).

Inductive doc :=
| DWsdl (imps : list str) (types : list (list xschema)) (names : list N)
                                     (* wsdl:import locations in document order; one list of
                                        schema roots per <wsdl:types>; the qualified names of
                                        its messages, port types and bindings *)
| DXsd (x : xschema)
| DBad.                                                   (* bytes that are not well-formed XML *)

Inductive dom := DomW | DomS (owner : str).   (* memo domain of a request: imported_definitions,
                                                 or the loaded_schemata of one build_schema *)

Inductive outcome (A : Type) := Ok (a : A) | Raised (k : N) | OutOfFuel.
Arguments Ok {A} a.
Arguments Raised {A} k.
Arguments OutOfFuel {A}.
(* Raised 1: a fetch or parse failed; 2: include targetNamespace mismatch;
   3: document of an unexpected kind; 9: internal (never) *)

Fixpoint lookup {A} (k : str) (l : list (str * A)) : option A :=
  match l with
  | [] => None
  | (k', v) :: l' => if str_eqb k k' then Some v else lookup k l'
  end.

Definition optN_eqb (a b : option N) : bool := opt_eqb N.eqb a b.

Definition mem_str (u : str) (l : list str) : bool := existsb (str_eqb u) l.

(* schema instances of one build_schema: members of the container (the
   WSDL's inline schemas and wsdl:import-ed schema roots), or downloaded *)
Inductive sid := SInl (j : nat) | SUrl (u : str).

Definition sid_eqb (a b : sid) : bool :=
  match a, b with
  | SInl i, SInl j => Nat.eqb i j
  | SUrl u, SUrl v => str_eqb u v
  | _, _ => false
  end.

Definition slot := (sid * nat)%type.      (* the i-th import/include child of an instance *)
Definition slot_eqb (a b : slot) : bool := sid_eqb (fst a) (fst b) && Nat.eqb (snd a) (snd b).

Definition mem_slot (x : slot) (l : list slot) : bool := existsb (slot_eqb x) l.
Definition remove_slot (x : slot) (l : list slot) : list slot := filter (fun y => negb (slot_eqb x y)) l.
Definition slots_of (t : sid) (n : nat) : list slot := map (fun i => (t, i)) (seq 0 n).

(* loaded_schemata and the [opened] flags.  The flags are kept as the list
   of NOT yet opened import/include objects of the existing instances. *)
Record sst := mkS { s_memo : list (str * xschema); s_rem : list slot;
                    s_tab : sid -> list qn;    (* the element/type tables of each Schema object *)
                    s_shadow : bool }.         (* ghost: some located import was answered by the
                                                  collection itself, its location ignored *)

Definition upd (f : sid -> list qn) (t : sid) (v : list qn) : sid -> list qn :=
  fun t' => if sid_eqb t' t then v else f t'.

Definition set_rem (s : sst) (rem : list slot) : sst := mkS (s_memo s) rem (s_tab s) (s_shadow s).
(* Schema.merge(imported): what the other has and we lack *)
Definition merge_tab (s : sst) (self t : sid) : sst :=
  mkS (s_memo s) (s_rem s) (upd (s_tab s) self (s_tab s self ++ s_tab s t)) (s_shadow s).
Definition set_shadow (s : sst) : sst := mkS (s_memo s) (s_rem s) (s_tab s) true.
(* Schema.__init__ of a downloaded document *)
Definition add_inst (u : str) (x : xschema) (s : sst) : sst :=
  mkS ((u, x) :: s_memo s) (slots_of (SUrl u) (length (x_refs x)) ++ s_rem s)
      (upd (s_tab s) (SUrl u) (own_decls x)) (s_shadow s).

(* SchemaCollection.add: one entry per target namespace, later roots are
   poured into the first one of the same namespace *)
Fixpoint add_schema (x : xschema) (cont : list xschema) : list xschema :=
  match cont with
  | [] => [x]
  | y :: rest => if optN_eqb (x_tns y) (x_tns x)
                 then mkX (x_tns y) (x_refs y ++ x_refs x) (x_decls y ++ x_decls x) :: rest
                 else y :: add_schema x rest
  end.
Definition consolidate (roots : list xschema) : list xschema :=
  fold_left (fun c x => add_schema x c) roots [].

Fixpoint locate_from (j : nat) (cont : list xschema) (ns : option N) : option nat :=
  match cont with
  | [] => None
  | y :: rest => if optN_eqb (x_tns y) ns then Some j else locate_from (S j) rest ns
  end.
Definition locate := locate_from 0.

Fixpoint cont_slots (j : nat) (cont : list xschema) : list slot :=
  match cont with
  | [] => []
  | y :: rest => slots_of (SInl j) (length (x_refs y)) ++ cont_slots (S j) rest
  end.

Definition init_sst (cont : list xschema) : sst :=
  mkS [] (cont_slots 0 cont)
      (fun t => match t with SInl j => nth j (map own_decls cont) [] | SUrl _ => [] end) false.

(* SchemaCollection.merge: the tables of all members *)
Definition final_tab (roots : list xschema) (s : sst) : list qn :=
  flat_map (fun j => s_tab s (SInl j)) (seq 0 (length (consolidate roots))).

(* WSDL level *)
Record tyobj := mkT { t_owner : str; t_roots : list xschema }.     (* a wsdl.Types object *)
Record dinfo := mkD { d_wsdl : bool; d_types : list nat; d_xroot : option xschema;
                      d_names : list N }.            (* messages / port_types / bindings keys *)
Record wst := mkW { w_memo : list (str * dinfo);     (* imported_definitions *)
                    w_heap : list tyobj;             (* Types objects, shared by reference *)
                    w_built : list (str * list qn);  (* Definitions whose .schema is set, with
                                                        the tables of that schema *)
                    w_cyc : bool;                    (* ghost: a wsdl:import named a document
                                                        whose construction is in progress *)
                    w_shadow : bool }.               (* ghost: see s_shadow *)

Definition is_built (u : str) (s : wst) : bool :=
  match lookup u (w_built s) with Some _ => true | None => false end.
Definition schema_of (u : str) (s : wst) : list qn :=
  match lookup u (w_built s) with Some t => t | None => [] end.

Fixpoint set_memo (u : str) (d : dinfo) (l : list (str * dinfo)) : list (str * dinfo) :=
  match l with
  | [] => [(u, d)]
  | (k, v) :: l' => if str_eqb u k then (k, d) :: l' else (k, v) :: set_memo u d l'
  end.

Fixpoint set_nth {A} (n : nat) (f : A -> A) (l : list A) : list A :=
  match l, n with
  | [], _ => []
  | x :: l', O => f x :: l'
  | x :: l', S n' => x :: set_nth n' f l'
  end.

Definition self_types (u : str) (s : wst) : list nat :=
  match lookup u (w_memo s) with Some d => d_types d | None => [] end.
Definition set_types (u : str) (ts : list nat) (s : wst) : wst :=
  match lookup u (w_memo s) with
  | Some d => mkW (set_memo u (mkD (d_wsdl d) ts (d_xroot d) (d_names d)) (w_memo s)) (w_heap s)
                  (w_built s) (w_cyc s) (w_shadow s)
  | None => s
  end.
Definition self_names (u : str) (s : wst) : list N :=
  match lookup u (w_memo s) with Some d => d_names d | None => [] end.
Definition set_names (u : str) (ns : list N) (s : wst) : wst :=
  match lookup u (w_memo s) with
  | Some d => mkW (set_memo u (mkD (d_wsdl d) (d_types d) (d_xroot d) ns) (w_memo s)) (w_heap s)
                  (w_built s) (w_cyc s) (w_shadow s)
  | None => s
  end.
Definition set_heap (h : list tyobj) (s : wst) : wst :=
  mkW (w_memo s) h (w_built s) (w_cyc s) (w_shadow s).

(* Import.import_definitions: definitions.types += d.types;
   definitions.messages/port_types/bindings.update(d....) *)
Definition import_definitions (self : str) (d : dinfo) (s : wst) : wst :=
  set_names self (self_names self s ++ d_names d) (set_types self (self_types self s ++ d_types d) s).

(* Import.import_schema: the schema root goes into the LAST Types object of
   the importer's list that the importer itself owns
   (own = [t for t in definitions.types if t.definitions is definitions]);
   when it owns none, into a new Types object appended to its list *)
Definition own_types (self : str) (s : wst) : list nat :=
  filter (fun tid => match nth_error (w_heap s) tid with
                     | Some t => str_eqb (t_owner t) self
                     | None => false
                     end) (self_types self s).

Definition import_schema (self : str) (d : dinfo) (s : wst) : wst :=
  match d_xroot d with
  | None => s
  | Some x =>
    match own_types self s with
    | [] => let tid := length (w_heap s) in
            set_types self (self_types self s ++ [tid]) (set_heap (w_heap s ++ [mkT self [x]]) s)
    | ts => let tid := last ts O in
            set_heap (set_nth tid (fun t => mkT (t_owner t) (t_roots t ++ [x])) (w_heap s)) s
    end
  end.

(* the schema roots Definitions.build_schema builds itself: those of the
   Types objects t with t.local(), i.e. whose owner has no schema yet *)
Definition local_roots (u : str) (s : wst) : list xschema :=
  flat_map (fun tid => match nth_error (w_heap s) tid with
                       | Some t => if is_built (t_owner t) s then [] else t_roots t
                       | None => []
                       end) (self_types u s).

Fixpoint alloc_types (u : str) (types : list (list xschema)) (heap : list tyobj) : list nat * list tyobj :=
  match types with
  | [] => ([], heap)
  | roots :: rest => let tid := length heap in
                     let '(ts, h) := alloc_types u rest (heap ++ [mkT u roots]) in
                     (tid :: ts, h)
  end.

(* the tables of the schemas merged in at the end of build_schema:
   for s in (t.schema() for t in self.types if t.imported()): self.schema.merge(s) *)
Definition imported_tabs (u : str) (s : wst) : list qn :=
  flat_map (fun tid => match nth_error (w_heap s) tid with
                       | Some t => schema_of (t_owner t) s
                       | None => []
                       end) (self_types u s).

Definition mark_built (u : str) (tab : list qn) (sh : bool) (s : wst) : wst :=
  mkW (w_memo s) (w_heap s) ((u, tab) :: w_built s) (w_cyc s) (w_shadow s || sh).
Definition reg_wsdl (u : str) (tids : list nat) (names : list N) (heap : list tyobj) (s : wst) : wst :=
  mkW ((u, mkD true tids None names) :: w_memo s) heap (w_built s) (w_cyc s) (w_shadow s).
Definition reg_xsd (u : str) (x : xschema) (s : wst) : wst :=
  mkW ((u, mkD false [] (Some x) []) :: w_memo s) (w_heap s) (w_built s) (w_cyc s) (w_shadow s).
Definition set_cyc (s : wst) : wst := mkW (w_memo s) (w_heap s) (w_built s) true (w_shadow s).
Definition wst0 : wst := mkW [] [] [] false false.

Definition xsd_refs_of (d : doc) : nat := match d with DXsd x => length (x_refs x) | _ => 0 end.
Definition total_refs (univ : list (str * doc)) : nat :=
  fold_right (fun e n => xsd_refs_of (snd e) + n) 0 univ.

(* ------------------------------------------------------------------ *)
(* the loaders, over an abstract opener                                *)
(* ------------------------------------------------------------------ *)
Section Loader.
  Variable IO : Type.
  Variable opn : dom -> str -> IO -> option doc * IO.
  Variable univ : list (str * doc).      (* only used to compute the fuel *)

  (* sxbasic Import.__download / Include.__download *)
  Definition download (owner : str) (incl : bool) (tns : option N) (u : str) (s : sst) (io : IO)
    : outcome (option sid * sst) * IO :=
    match opn (DomS owner) u io with
    | (None, io1) => (Raised 1, io1)
    | (Some d, io1) =>
      match d with
      | DXsd x =>
          (* Include.__applytns *)
          let r := if incl then
                     match x_tns x with
                     | None => Some (mkX tns (x_refs x) (x_decls x))
                     | Some t => if optN_eqb tns (Some t) then Some x else None
                     end
                   else Some x in
          match r with
          | None => (Raised 2, io1)
          | Some x' =>
              (* Schema.__init__: loaded_schemata[baseurl] = self, then build *)
              (Ok (Some (SUrl u), add_inst u x' s), io1)
          end
      | DWsdl _ _ _ => (Raised 3, io1)
      | DBad => (Raised 1, io1)
      end
    end.

  (* Import.open / Include.open after the [opened] test: which schema does
     the reference denote *)
  Definition target (cont : list xschema) (owner : str) (self : sid) (tns : option N) (base : str)
             (r : xref) (s : sst) (io : IO) : outcome (option sid * sst) * IO :=
    match r with
    | XImp ns loc =>
        (* Import.__locate: a schema of the same collection wins over the location *)
        let loc_j := match self with
                     | SInl _ => if optN_eqb ns tns then None else locate cont ns
                     | SUrl _ => None
                     end in
        match loc_j with
        | Some j => (Ok (Some (SInl j), match loc with Some _ => set_shadow s | None => s end), io)
        | None =>
          match loc with
          | None => (Ok (None, s), io)
          | Some l =>
              let u := join base l in
              match lookup u (s_memo s) with
              | Some _ => (Ok (Some (SUrl u), s), io)
              | None => download owner false tns u s io
              end
          end
        end
    | XInc l =>
        let u := join base l in
        match lookup u (s_memo s) with
        | Some _ => (Ok (Some (SUrl u), s), io)
        | None => download owner true tns u s io
        end
    end.

  (* Schema.open_imports: for imp in self.imports: imported = imp.open(..);
     imported.open_imports(..); self.merge(imported) *)
  Fixpoint open_refs (rec : sid -> sst -> IO -> outcome sst * IO)
           (cont : list xschema) (owner : str) (self : sid) (tns : option N) (base : str)
           (i : nat) (refs : list xref) (s : sst) (io : IO) {struct refs} : outcome sst * IO :=
    match refs with
    | [] => (Ok s, io)
    | r :: rest =>
        if negb (mem_slot (self, i) (s_rem s))
        then open_refs rec cont owner self tns base (S i) rest s io      (* if self.opened: return *)
        else
          let s1 := set_rem s (remove_slot (self, i) (s_rem s)) in       (* self.opened = True *)
          match target cont owner self tns base r s1 io with
          | (Ok (None, s2), io2) => open_refs rec cont owner self tns base (S i) rest s2 io2
          | (Ok (Some t, s2), io2) =>
              match rec t s2 io2 with
              | (Ok s3, io3) =>                                          (* self.merge(imported) *)
                  open_refs rec cont owner self tns base (S i) rest (merge_tab s3 self t) io3
              | (e, io3) => (e, io3)
              end
          | (Raised k, io2) => (Raised k, io2)
          | (OutOfFuel, io2) => (OutOfFuel, io2)
          end
    end.

  Definition sid_info (cont : list xschema) (owner : str) (t : sid) (s : sst)
    : option (option N * list xref * str) :=
    match t with
    | SInl j => match nth_error cont j with
                | Some x => Some (x_tns x, x_refs x, owner)     (* Schema(root, self.url, ..) *)
                | None => None
                end
    | SUrl u => match lookup u (s_memo s) with
                | Some x => Some (x_tns x, x_refs x, u)         (* schema.instance(root, url, ..) *)
                | None => None
                end
    end.

  Fixpoint open_imports (cont : list xschema) (owner : str) (fuel : nat) (t : sid) (s : sst) (io : IO)
    : outcome sst * IO :=
    match fuel with
    | O => (OutOfFuel, io)
    | S f =>
        match sid_info cont owner t s with
        | None => (Raised 9, io)
        | Some (tns, refs, base) =>
            open_refs (open_imports cont owner f) cont owner t tns base 0 refs s io
        end
    end.

  (* SchemaCollection.load: for child in self.children: child.open_imports(..) *)
  Fixpoint open_all (cont : list xschema) (owner : str) (fuel : nat) (js : list nat) (s : sst) (io : IO)
    : outcome sst * IO :=
    match js with
    | [] => (Ok s, io)
    | j :: rest =>
        match open_imports cont owner fuel (SInl j) s io with
        | (Ok s1, io1) => open_all cont owner fuel rest s1 io1
        | (e, io1) => (e, io1)
        end
    end.

  Definition schema_fuel (cont : list xschema) : nat :=
    S (length (cont_slots 0 cont) + total_refs univ).

  (* Definitions.build_schema: loaded_schemata = {}; container of the local
     roots, each built with base self.url *)
  Definition build_schema (owner : str) (roots : list xschema) (io : IO) : outcome sst * IO :=
    let cont := consolidate roots in
    open_all cont owner (schema_fuel cont) (seq 0 (length cont)) (init_sst cont) io.

  (* Definitions.open_imports / wsdl Import.load *)
  Fixpoint loop_imports (rec : str -> wst -> IO -> outcome wst * IO) (self : str)
           (imps : list str) (s : wst) (io : IO) {struct imps} : outcome wst * IO :=
    match imps with
    | [] => (Ok s, io)
    | loc :: rest =>
        let u := join self loc in
        let r := match lookup u (w_memo s) with
                 | Some _ => (Ok (if is_built u s then s else set_cyc s), io)
                                                              (* d = imported_definitions.get(url) *)
                 | None => rec u s io                         (* d = Definitions(url, .., memo) *)
                 end in
        match r with
        | (Ok s1, io1) =>
            match lookup u (w_memo s1) with
            | None => (Raised 9, io1)
            | Some d =>
                let s2 := if d_wsdl d then import_definitions self d s1
                          else import_schema self d s1 in
                loop_imports rec self rest s2 io1
            end
        | (e, io1) => (e, io1)
        end
    end.

  (* Definitions.__init__ *)
  Fixpoint load_defs (fuel : nat) (u : str) (s : wst) (io : IO) : outcome wst * IO :=
    match fuel with
    | O => (OutOfFuel, io)
    | S f =>
        match opn DomW u io with                 (* reader.open(url) *)
        | (None, io1) => (Raised 1, io1)
        | (Some d, io1) =>
          match d with
          | DBad => (Raised 1, io1)
          | DXsd x =>
              (* a schema document under wsdl:import: a Definitions without
                 children whose build_schema builds an empty schema *)
              (Ok (mark_built u [] false (reg_xsd u x s)), io1)
          | DWsdl imps types names =>
              let '(tids, heap) := alloc_types u types (w_heap s) in
              (* imported_definitions[url] = self, BEFORE open_imports *)
              let s1 := reg_wsdl u tids names heap s in
              match loop_imports (load_defs f) u imps s1 io1 with
              | (Ok s2, io2) =>
                  match build_schema u (local_roots u s2) io2 with
                  | (Ok s3, io3) =>
                      (Ok (mark_built u (final_tab (local_roots u s2) s3 ++ imported_tabs u s2)
                                      (s_shadow s3) s2), io3)
                  | (Raised k, io3) => (Raised k, io3)
                  | (OutOfFuel, io3) => (OutOfFuel, io3)
                  end
              | (e, io2) => (e, io2)
              end
          end
        end
    end.

  Definition load_root (root : str) (io : IO) : outcome wst * IO :=
    load_defs (S (length univ)) root wst0 io.
End Loader.

(* ------------------------------------------------------------------ *)
(* the concrete opener: DocumentReader.open                            *)
(* ------------------------------------------------------------------ *)

Inductive event := EStore (d : dom) (u : str) | ENet (d : dom) (u : str).
Inductive fkind := FRaise | FGarbage.

Record world := mkWorld {
  w_docs : list (str * (bool * doc));     (* url -> (held by the document store?, content);
                                             the key is the whole URL, query string and
                                             fragment included, as DocumentStore keys on the
                                             whole location after "://" *)
  w_policy : N;                           (* options.cachingpolicy *)
  w_fault : option (nat * fkind) }.       (* the k-th fetch (0-based) fails *)

Record io := mkIO {
  i_log : list event;                     (* newest first *)
  i_reqs : list (dom * str);              (* every DocumentReader.open, newest first *)
  i_dcache : list (str * doc);            (* the document cache (policy 0) *)
  i_n : nat;                              (* fetches so far *)
  i_fired : bool }.                       (* the injected fault has happened *)

Definition src (W : world) (u : str) : option doc :=
  match lookup u (w_docs W) with Some (_, d) => Some d | None => None end.

Definition good (d : option doc) : option doc :=
  match d with Some DBad => None | x => x end.

(* DocumentReader.__fetch + the SAX parse *)
Definition fetch (W : world) (dm : dom) (u : str) (i : io) : option doc * io :=
  let ent := lookup u (w_docs W) in
  let in_store := match ent with Some (true, _) => true | _ => false end in
  let log1 := EStore dm u :: i_log i in                       (* store.open(url) *)
  let suds_missing := is_suds u && negb in_store in           (* store raises for suds:// *)
  let log2 := if in_store || suds_missing then log1 else ENet dm u :: log1 in   (* transport.open *)
  let content := if suds_missing then None
                 else match ent with Some (_, d) => Some d | None => None end in
  let fk := match w_fault W with
            | Some (k, fk) => if Nat.eqb k (i_n i) then Some fk else None
            | None => None
            end in
  let content' := match fk with
                  | Some FRaise => None
                  | Some FGarbage => Some DBad
                  | None => content
                  end in
  (good content',
   mkIO log2 (i_reqs i) (i_dcache i) (S (i_n i))
        (i_fired i || match fk with Some _ => true | None => false end)).

Definition opn_c (W : world) (dm : dom) (u : str) (i : io) : option doc * io :=
  let i0 := mkIO (i_log i) ((dm, u) :: i_reqs i) (i_dcache i) (i_n i) (i_fired i) in
  if N.eqb (w_policy W) 0 then
    match lookup u (i_dcache i0) with
    | Some d => (Some d, i0)                                    (* cache.get(id) *)
    | None =>
        match fetch W dm u i0 with
        | (Some d, i1) => (Some d, mkIO (i_log i1) (i_reqs i1) ((u, d) :: i_dcache i1) (i_n i1) (i_fired i1))
        | (None, i1) => (None, i1)                               (* raised before cache.put *)
        end
    end
  else fetch W dm u i0.

Definition docs_of (W : world) : list (str * doc) := map (fun e => (fst e, snd (snd e))) (w_docs W).


(* DefinitionsReader.open: the object cache (policy 1) holds the WSDL object
   only after Definitions(url, options) has returned *)
Definition client_load (W : world) (root : str) (ocache : bool) (i : io) : outcome unit * io * bool :=
  if N.eqb (w_policy W) 1 && ocache then (Ok tt, i, ocache)
  else match load_root io (opn_c W) (docs_of W) root i with
       | (Ok _, i') => (Ok tt, i', if N.eqb (w_policy W) 1 then true else ocache)
       | (Raised k, i') => (Raised k, i', ocache)
       | (OutOfFuel, i') => (OutOfFuel, i', ocache)
       end.

Definition io0 : io := mkIO [] [] [] 0 false.

(* what a constructed client knows: the keys of messages/port_types/bindings
   and of the schema's element/type tables of the root Definitions *)
Definition collected (root : str) (s : wst) : list N * list qn := (self_names root s, schema_of root s).

(* ------------------------------------------------------------------ *)
(* SPECIFICATION (from the property text)                              *)
(* ------------------------------------------------------------------ *)

(* "consults the document store before the transport": on the log, newest
   first: a transport request for u directly follows a store request for u,
   and only for a document the store does not hold *)
Definition dom_eqb (a b : dom) : bool :=
  match a, b with
  | DomW, DomW => true
  | DomS x, DomS y => str_eqb x y
  | _, _ => false
  end.

Definition held (W : world) (u : str) : bool :=
  match lookup u (w_docs W) with Some (true, _) => true | _ => false end.

Fixpoint sbt (W : world) (log : list event) : bool :=
  match log with
  | [] => true
  | ENet d u :: rest =>
      match rest with
      | EStore d' u' :: _ => dom_eqb d d' && str_eqb u u' && negb (held W u) && sbt W rest
      | _ => false
      end
  | EStore _ _ :: rest => sbt W rest
  end.

(* "fetches only documents reachable from the root": a reference is resolved
   against the URL of the document that contains it *)
Definition refs_of_x (x : xschema) : list str :=
  flat_map (fun r => match r with
                     | XImp _ (Some l) => [l]
                     | XImp _ None => []
                     | XInc l => [l]
                     end) (x_refs x).

Definition doc_locs (d : doc) : list str :=
  match d with
  | DWsdl imps types _ => imps ++ flat_map (flat_map refs_of_x) types
  | DXsd x => refs_of_x x
  | DBad => []
  end.

Inductive reach (W : world) (root : str) : str -> Prop :=
| reach_root : reach W root root
| reach_step : forall u d l, reach W root u -> src W u = Some d -> In l (doc_locs d) ->
                             reach W root (join u l).

(* the same as a computation (for the correspondence): n rounds of closure *)
Definition reach_step_b (W : world) (seen : list str) : list str :=
  fold_left (fun acc u =>
               match src W u with
               | Some d => fold_left (fun acc l => let v := join u l in
                                                   if mem_str v acc then acc else acc ++ [v])
                                     (doc_locs d) acc
               | None => acc
               end) seen seen.
Fixpoint reach_b (W : world) (n : nat) (seen : list str) : list str :=
  match n with O => seen | S n' => reach_b W n' (reach_step_b W seen) end.

Definition ev_url (e : event) : str := match e with EStore _ u => u | ENet _ u => u end.
Definition ev_dom (e : event) : dom := match e with EStore d _ => d | ENet d _ => d end.
Definition is_store (e : event) : bool := match e with EStore _ _ => true | _ => false end.

Definition fetches (log : list event) : list (dom * str) :=
  flat_map (fun e => match e with EStore d u => [(d, u)] | ENet _ _ => [] end) log.

Definition all_absolute (W : world) : bool :=
  forallb (fun e => match snd (snd e) with
                    | DWsdl _ types _ => forallb (forallb (fun x => forallb has_scheme (refs_of_x x))) types
                    | DXsd x => forallb has_scheme (refs_of_x x)
                    | DBad => true
                    end) (w_docs W).

(* "nothing incomplete is cached": every cache entry is a well-formed
   document equal to what the source serves under that URL *)
Definition served (W : world) (u : str) : option doc :=
  if is_suds u && negb (held W u) then None else good (src W u).

Definition cache_sound (W : world) (c : list (str * doc)) : Prop :=
  forall u d, In (u, d) c -> served W u = Some d.
