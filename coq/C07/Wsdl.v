(* C07 (6) -- suds/wsdl.py: how the top-level children of wsdl:definitions are
   linked.  Definitions only.

     Definitions.__init__:  add_children(root); children.sort(); open_imports;
                            resolve(); build_schema(); set_wrapped(); add_methods
     add_children           messages / port_types / bindings are dicts keyed by qname
                            (a later child with the same name replaces an earlier one),
                            services a list in document order
     children.sort()        by kind (Import < Types < Message < PortType < Binding <
                            Service, through the classes' __gt__); only decides the
                            order in which resolve() visits the children
     PortType.do_resolve    every operation's input/output message is looked up in
                            definitions.messages (missing -> Exception)
     Binding.do_resolve     the portType is looked up (missing -> Exception) and
                            resolved; every binding operation takes the parts of the
                            portType operation of the same name (missing -> MethodNotFound):
                            all of the input (output) message's parts, or, when the
                            input (output) soap:body has a parts= list, those of them
                            whose name is in the list
     Service.do_resolve     every port's binding is looked up (missing -> Exception);
                            ports of non-SOAP bindings are dropped
     set_wrapped            for every operation of every binding, input and output:
                            wrapped iff options.unwrap and exactly one part and that
                            part references an element whose type is not a builtin
                            (element missing -> TypeNotFound)

   All names live in the definitions' targetNamespace; references are already
   qualified (Qualify.v).  Every exception is one outcome, LError: which one is
   raised first depends on the visiting order, that one is raised does not. *)
From SV Require Import Lib.Base Fam.Schema.

Record wpart := mkPart { pt_name : N; pt_element : option qn; pt_type : option qn }.

Record ptop := mkPtOp { po_name : N; po_in : option qn; po_out : option qn }.

(* a binding operation: name and the parts= lists of its input / output soap:body
   (None: no parts attribute) *)
Record bop := mkBOp { bo_name : N; bo_in : option (list N); bo_out : option (list N) }.

Inductive wchild :=
| WImport
| WTypes
| WMessage (nm : N) (parts : list wpart)
| WPortType (nm : N) (ops : list ptop)
| WBinding (nm : N) (ty : qn) (soap : bool) (ops : list bop)
| WService (nm : N) (ports : list (N * qn)).

Inductive wkind := WKMessage | WKPortType | WKBinding | WKService | WKOther.

Definition wkind_eqb (a b : wkind) : bool :=
  match a, b with
  | WKMessage, WKMessage | WKPortType, WKPortType | WKBinding, WKBinding
  | WKService, WKService | WKOther, WKOther => true
  | _, _ => false
  end.

Definition wkind_of (c : wchild) : wkind :=
  match c with
  | WMessage _ _ => WKMessage | WPortType _ _ => WKPortType | WBinding _ _ _ _ => WKBinding
  | WService _ _ => WKService | _ => WKOther
  end.

Definition wname_of (c : wchild) : N :=
  match c with
  | WMessage n _ | WPortType n _ | WBinding n _ _ _ | WService n _ => n
  | _ => 0%N
  end.

(* children.sort(): rank by kind, stable (insertion sort) *)
Definition wrank (c : wchild) : nat :=
  match c with
  | WImport => 0 | WTypes => 1 | WMessage _ _ => 2 | WPortType _ _ => 3
  | WBinding _ _ _ _ => 4 | WService _ _ => 5
  end.

Fixpoint insert_by_rank (c : wchild) (l : list wchild) : list wchild :=
  match l with
  | [] => [c]
  | x :: l' => if Nat.ltb (wrank c) (wrank x) then c :: l else x :: insert_by_rank c l'
  end.

Fixpoint sort_children (l : list wchild) : list wchild :=
  match l with
  | [] => []
  | c :: l' => insert_by_rank c (sort_children l')
  end.

Definition is_some_b {A} (o : option A) : bool := match o with Some _ => true | None => false end.

Section Link.
Variable tns : nsid.
Variable unwrap : bool.
(* the schema side of set_wrapped: Some true = the element's type is a builtin,
   Some false = it is not, None = no such element (TypeNotFound) *)
Variable elem_builtin : qn -> option bool.
Variable ch : list wchild.            (* as written, document order *)

(* dict lookup: the LAST child of that kind and name *)
Fixpoint wlookup (k : wkind) (q : qn) (l : list wchild) : option wchild :=
  match l with
  | [] => None
  | c :: l' =>
      match wlookup k q l' with
      | Some r => Some r
      | None => if wkind_eqb (wkind_of c) k && qn_eqb (tns, wname_of c) q then Some c else None
      end
  end.

Definition message_parts (oq : option qn) : option (list wpart) :=
  match oq with
  | None => Some []                               (* Message(Element("no-input")) *)
  | Some q => match wlookup WKMessage q ch with
              | Some (WMessage _ parts) => Some parts
              | _ => None
              end
  end.

(* PortType.do_resolve *)
Definition porttype_ok (ops : list ptop) : bool :=
  forallb (fun o => match message_parts (po_in o), message_parts (po_out o) with
                    | Some _, Some _ => true
                    | _, _ => false
                    end) ops.

(* dict of a portType's operations: the last one of that name *)
Fixpoint find_ptop (n : N) (ops : list ptop) : option ptop :=
  match ops with
  | [] => None
  | o :: ops' => match find_ptop n ops' with
                 | Some r => Some r
                 | None => if N.eqb (po_name o) n then Some o else None
                 end
  end.

(* set_wrapped for one body *)
Definition wrapped_flag (parts : list wpart) : option bool :=
  if negb unwrap then Some false else
  match parts with
  | [p] => match pt_element p with
           | None => Some false
           | Some q => match elem_builtin q with
                       | None => None                       (* TypeNotFound *)
                       | Some b => Some (negb b)
                       end
           end
  | _ => Some false
  end.

(* one linked operation: name, input parts + wrapped, output parts + wrapped *)
Definition lop := (N * (list wpart * bool) * (list wpart * bool))%type.

(* __resolvesoapbody: `if parts: [p for p in message.parts if p.name in parts] else message.parts` *)
Definition select_parts (sel : option (list N)) (parts : list wpart) : list wpart :=
  match sel with
  | None | Some [] => parts
  | Some l => filter (fun p => existsb (N.eqb (pt_name p)) l) parts
  end.

Definition link_op (ptops : list ptop) (b : bop) : option lop :=
  match find_ptop (bo_name b) ptops with
  | None => None                                            (* MethodNotFound *)
  | Some o =>
      match message_parts (po_in o), message_parts (po_out o) with
      | Some mi, Some mo =>
          let pi := select_parts (bo_in b) mi in
          let po := select_parts (bo_out b) mo in
          match wrapped_flag pi, wrapped_flag po with
          | Some wi, Some wo => Some (bo_name b, (pi, wi), (po, wo))
          | _, _ => None
          end
      | _, _ => None
      end
  end.

Fixpoint all_some {A} (l : list (option A)) : option (list A) :=
  match l with
  | [] => Some []
  | Some x :: l' => match all_some l' with Some r => Some (x :: r) | None => None end
  | None :: _ => None
  end.

(* Binding.do_resolve + set_wrapped *)
Definition link_binding (ty : qn) (ops : list bop) : option (list lop) :=
  match wlookup WKPortType ty ch with
  | Some (WPortType _ ptops) =>
      if porttype_ok ptops then all_some (map (link_op ptops) ops) else None
  | _ => None
  end.

(* does this child resolve (and get its wrapped flags) without raising? *)
Definition child_ok (c : wchild) : bool :=
  match c with
  | WPortType _ ops => porttype_ok ops
  | WBinding _ ty soap ops => if soap then is_some_b (link_binding ty ops)
                              else match wlookup WKPortType ty ch with
                                   | Some (WPortType _ ptops) => porttype_ok ptops
                                   | _ => false
                                   end
  | WService _ ports =>
      forallb (fun p => match wlookup WKBinding (snd p) ch with
                        | Some (WBinding _ ty soap ops) => true
                        | _ => false
                        end) ports
  | _ => true
  end.

Definition lport := (N * list lop)%type.
Definition lsvc := (N * list lport)%type.

(* Service.do_resolve: ports of SOAP bindings, with their linked operations *)
Definition link_ports (ports : list (N * qn)) : list lport :=
  flat_map (fun p => match wlookup WKBinding (snd p) ch with
                     | Some (WBinding _ ty true ops) =>
                         match link_binding ty ops with
                         | Some l => [(fst p, l)]
                         | None => []
                         end
                     | _ => []
                     end) ports.

Definition services_of (l : list wchild) : list lsvc :=
  flat_map (fun c => match c with WService n ports => [(n, link_ports ports)] | _ => [] end) l.

Inductive lres := LOk (s : list lsvc) | LError.

(* resolve() visits the children in `order` (any order: the outcome only depends on
   whether EVERY child resolves); the services keep document order *)
Definition link_visiting (order : list wchild) : lres :=
  if forallb child_ok order then LOk (services_of ch) else LError.

End Link.

(* Definitions.__init__ *)
Definition link (tns : nsid) (unwrap : bool) (eb : qn -> option bool) (ch : list wchild) : lres :=
  link_visiting tns unwrap eb ch (sort_children ch).

(* ---------------- harness case ---------------- *)

Definition wpart_eqb (a b : wpart) : bool :=
  N.eqb (pt_name a) (pt_name b) && opt_eqb qn_eqb (pt_element a) (pt_element b) &&
  opt_eqb qn_eqb (pt_type a) (pt_type b).

Definition body_eqb (a b : list wpart * bool) : bool :=
  list_eqb wpart_eqb (fst a) (fst b) && Bool.eqb (snd a) (snd b).

Definition lop_eqb (a b : lop) : bool :=
  N.eqb (fst (fst a)) (fst (fst b)) && body_eqb (snd (fst a)) (snd (fst b)) && body_eqb (snd a) (snd b).

(* operation dicts have no meaningful order: compare as sets *)
Definition set_eqb {A} (eqb : A -> A -> bool) (a b : list A) : bool :=
  Nat.eqb (length a) (length b) && forallb (fun x => existsb (eqb x) b) a && forallb (fun x => existsb (eqb x) a) b.

Definition lport_eqb (a b : lport) : bool := N.eqb (fst a) (fst b) && set_eqb lop_eqb (snd a) (snd b).
Definition lsvc_eqb (a b : lsvc) : bool := N.eqb (fst a) (fst b) && list_eqb lport_eqb (snd a) (snd b).

Definition lres_eqb (a b : lres) : bool :=
  match a, b with
  | LOk x, LOk y => list_eqb lsvc_eqb x y
  | LError, LError => true
  | _, _ => false
  end.

Fixpoint assoc_qn {A} (q : qn) (l : list (qn * A)) : option A :=
  match l with
  | [] => None
  | (k, v) :: l' => if qn_eqb k q then Some v else assoc_qn q l'
  end.

Record wcase := mkWC {
  wc_tns : nsid;
  wc_children : list wchild;             (* the rendering's top-level children as written *)
  wc_elems : list (qn * bool);           (* global elements of the interface: is the type a builtin? *)
  wc_expected : list lsvc;               (* what WSDL 1.1 links for the ABSTRACT operations *)
  wc_impl : lres                         (* read back from client.wsdl *)
}.

Definition wsdl_link_agrees (c : wcase) : bool :=
  lres_eqb (link (wc_tns c) true (fun q => assoc_qn q (wc_elems c)) (wc_children c)) (wc_impl c).

(* spec: the linked services are exactly the abstract ones -- every port offers
   the operations of its binding with the parts of the messages its portType
   names, whatever the order of the children -- and a body is wrapped exactly when
   it has one part, that part references an element, and the element's type is not
   a builtin *)
Definition rule_wrapped (elems : list (qn * bool)) (parts : list wpart) : bool :=
  match parts with
  | [p] => match pt_element p with
           | Some q => match assoc_qn q elems with Some b => negb b | None => false end
           | None => false
           end
  | _ => false
  end.

Definition lop_by_rule (elems : list (qn * bool)) (o : lop) : bool :=
  Bool.eqb (snd (snd (fst o))) (rule_wrapped elems (fst (snd (fst o)))) &&
  Bool.eqb (snd (snd o)) (rule_wrapped elems (fst (snd o))).

Definition wsdl_link_spec_ok (c : wcase) : bool :=
  match wc_impl c with
  | LOk s => list_eqb lsvc_eqb s (wc_expected c) &&
             forallb (fun sv => forallb (fun p => forallb (lop_by_rule (wc_elems c)) (snd p)) (snd sv)) s
  | LError => false
  end.
